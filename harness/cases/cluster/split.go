package cluster

// cluster-split: multi-key commands (MGET, MSET, DEL, UNLINK, EXISTS, TOUCH) are their per-key commands combined
// in argument order (spec/redis/ClusterSplit.tla). The vectors (@@VEC: every argument list up to the bound, WITH
// repeated keys, over every set of existing keys) and the programs (@@BEH) come from TLC together with the reply of
// the definition; each is sent through a real Redis processor in front of a simulated cluster. Judged: the reply
// equals the reply of a single reference engine executing the same command AND the reply of the specification; the
// data afterwards is what the single server holds; no child is delivered to a node that does not own its key.

import (
	"bytes"
	"encoding/json"
	"flag"
	"fmt"
	"math/rand"
	"strings"
	"time"

	"verifharness/internal/cli"
	"verifharness/internal/resp"
	"verifharness/internal/simredis"
	"verifharness/internal/sut"
)

func init() { cli.Register("cluster-split", split) }

type splitStep struct {
	A       string         `json:"a"`
	Owner   map[string]int `json:"owner"`
	Present map[string]int `json:"present"`
	Op      string         `json:"op"`
	Ks      []string       `json:"ks"`
	Vals    []int          `json:"vals"`
	Exp     []int          `json:"exp"`
	After   map[string]int `json:"after"`
	Failing map[string]int `json:"failing"` // 1: the node answers an error to every per-key command of this key
}

type splitBad struct {
	Cmd   string `json:"cmd"`   // concrete command name
	Class string `json:"class"` // mcount | mdel | mread | mwrite | state
	Shape string `json:"shape"` // repeated-key | distinct-keys
	Args  string `json:"args"`  // model argument list
	Got   string `json:"got"`
	Want  string `json:"want"`
	Why   string `json:"why"`
}

type splitResult struct {
	Kind      string     `json:"kind"` // "vector" | "program"
	ID        int        `json:"id"`
	Cmds      int        `json:"cmds"`
	Strata    []string   `json:"strata"` // class/shape/concrete command of every command sent
	Bad       []splitBad `json:"bad"`
	Redirects int64      `json:"redirects"`
	Err       string     `json:"err,omitempty"`
}

var splitNames = map[string][]string{
	"mcount": {"EXISTS", "TOUCH", "exists", "Touch"},
	"mdel":   {"DEL", "UNLINK", "del", "UnLink"},
	"mread":  {"MGET", "mget"},
	"mwrite": {"MSET", "mset"},
}

// splitEnv is one proxy in front of one cluster, shared by all vectors of a run.
type splitEnv struct {
	cl  *simredis.Cluster
	px  *sut.Redis
	c   [2]*sut.Client
	ref *simredis.Store
	rnd *rand.Rand
	seq int
}

func newSplitEnv(rnd *rand.Rand) (*splitEnv, error) {
	cl, err := simredis.NewCluster(3, 0)
	if err != nil {
		return nil, err
	}
	px, err := sut.StartRedis(sut.RedisOpts{}, cl.Addrs())
	if err != nil {
		cl.Close()
		return nil, err
	}
	e := &splitEnv{cl: cl, px: px, ref: simredis.NewStore(), rnd: rnd}
	if !sut.WaitRefresh(px.Name, 3*time.Second) {
		e.close()
		return nil, fmt.Errorf("slot table not loaded")
	}
	for i := range e.c {
		if e.c[i], err = sut.Dial(px.Addr); err != nil {
			e.close()
			return nil, err
		}
	}
	return e, nil
}

func (e *splitEnv) close() {
	for _, c := range e.c {
		if c != nil {
			c.Close()
		}
	}
	sut.StopWithin(e.px.P, 5*time.Second)
	e.cl.Close()
}

// concreteKeys picks, for every model key, a fresh byte string whose slot is owned by the node the layout names.
func (e *splitEnv) concreteKeys(owner map[string]int) map[string]string {
	e.seq++
	out := map[string]string{}
	for mk, node := range owner {
		var prefix string
		switch e.rnd.Intn(5) {
		case 0:
			prefix = fmt.Sprintf("%s\r\n\x00:%d:", mk, e.seq)
		case 1:
			prefix = fmt.Sprintf("{%s:%d:", mk, e.seq) // the counter KeyFor appends ends inside an unclosed tag
		case 2:
			prefix = fmt.Sprintf("}%s{:%d:", mk, e.seq)
		default:
			prefix = fmt.Sprintf("%s:%d:", mk, e.seq)
		}
		out[mk] = e.cl.KeyFor(node-1, prefix)
	}
	return out
}

var childErrors = []string{
	"OOM command not allowed when used memory > 'maxmemory'.",
	"READONLY You can't write against a read only replica.",
	"MISCONF Redis is configured to save RDB snapshots, but it is currently not able to persist on disk.",
	"ERR value is not an integer or out of range",
}

// failKey makes the owner of key answer an error to every per-key command that names it.
func (e *splitEnv) failKey(key string, n int) {
	text := childErrors[n%len(childErrors)]
	e.cl.Nodes[e.cl.Owner(simredis.Slot([]byte(key)))].Script(&simredis.Scripted{
		Match: func(cmd string, args [][]byte) bool {
			switch cmd {
			case "set", "get", "del", "unlink", "exists", "touch":
				return len(args) > 1 && string(args[1]) == key
			}
			return false
		},
		Raw: resp.Bytes(resp.Err(text)),
	})
}

func splitShape(ks []string) string {
	seen := map[string]bool{}
	for _, k := range ks {
		if seen[k] {
			return "repeated-key"
		}
		seen[k] = true
	}
	return "distinct-keys"
}

// valueBytes maps the specification's value ids to byte strings (binary-unsafe).
func (e *splitEnv) valueBytes(vals map[int][]byte, id int) []byte {
	if b, ok := vals[id]; ok {
		return b
	}
	b := append([]byte(fmt.Sprintf("v%d", id)), junk(e.rnd, false)...)
	vals[id] = b
	return b
}

// one sends one multi-key command and judges it.
func (e *splitEnv) one(res *splitResult, st splitStep, name string, keys map[string]string, vals map[int][]byte, conn int) {
	args := [][]byte{[]byte(name)}
	for i, mk := range st.Ks {
		args = append(args, []byte(keys[mk]))
		if st.Op == "mwrite" {
			args = append(args, e.valueBytes(vals, st.Vals[i]))
		}
	}
	shape := splitShape(st.Ks)
	failing := false
	for _, mk := range st.Ks {
		if st.Failing[mk] == 1 {
			failing = true
		}
	}
	if failing {
		shape = "child-error"
	}
	res.Strata = append(res.Strata, st.Op+"/"+shape+"/"+strings.ToLower(name))
	note := func(got, want, why string) {
		if len(res.Bad) < 12 {
			res.Bad = append(res.Bad, splitBad{Cmd: strings.ToLower(name), Class: st.Op, Shape: shape, Args: strings.Join(st.Ks, " "), Got: got, Want: want, Why: why})
		}
	}
	for _, n := range e.cl.Nodes {
		n.ClearLog()
	}
	var want resp.Value
	if failing {
		// the single server on which the per-key commands of the failing keys fail: the others are executed
		for i, mk := range st.Ks {
			if st.Failing[mk] == 1 {
				continue
			}
			switch st.Op {
			case "mdel":
				e.ref.Exec([][]byte{[]byte("DEL"), []byte(keys[mk])})
			case "mwrite":
				e.ref.Exec([][]byte{[]byte("SET"), []byte(keys[mk]), e.valueBytes(vals, st.Vals[i])})
			}
		}
		want = resp.Err("<the error of the failing key>")
	} else {
		want = e.ref.Exec(args)
	}
	v, err := e.c[conn%2].DoB(20*time.Second, args...)
	res.Cmds++
	if err != nil {
		note(err.Error(), want.String(), "no reply")
		return
	}
	if failing {
		// the combination the specification allows (ClusterSplit.tla Allowed): an error reply whenever a per-key command
		// failed; MGET may carry the error in the element's position instead
		redir := v.IsErr() && (bytes.HasPrefix(bytes.ToUpper(v.Str), []byte("MOVED")) || bytes.HasPrefix(bytes.ToUpper(v.Str), []byte("ASK")))
		switch {
		case redir:
			note(v.String(), want.String(), "redirection error")
		case v.IsErr():
		case st.Op == "mwrite":
			note(v.String(), want.String(), "child error swallowed: a per-key SET was answered with an error, the key was not written, the client is told OK")
		case st.Op == "mread":
			ok := v.Kind == '*' && len(v.Arr) == len(st.Exp)
			for i := 0; ok && i < len(st.Exp); i++ {
				switch {
				case st.Exp[i] == 2000:
					ok = v.Arr[i].IsErr()
				case st.Exp[i] == 0:
					ok = v.Arr[i].Null
				default:
					ok = !v.Arr[i].Null && bytes.Equal(v.Arr[i].Str, vals[st.Exp[i]])
				}
			}
			if !ok {
				note(v.String(), fmt.Sprintf("%v (2000 = error)", st.Exp), "reply differs from the specification (error in the position of the failing key, or an error for the whole command)")
			}
		default:
			note(v.String(), want.String(), "a per-key command was answered with an error, the reply is not an error")
		}
		return
	}
	if !resp.Equal(v, want) {
		note(v.String(), want.String(), "reply differs from the single-server reference")
	}
	// the reply the specification gives (RefMulti)
	switch st.Op {
	case "mcount", "mdel":
		if v.Kind != ':' || int(v.Int) != st.Exp[0] {
			note(v.String(), fmt.Sprintf(":%d", st.Exp[0]), "reply differs from the specification (sum of the per-key counts in argument order)")
		}
	case "mwrite":
		if v.Kind != '+' || string(v.Str) != "OK" {
			note(v.String(), "+OK", "reply differs from the specification")
		}
	case "mread":
		ok := v.Kind == '*' && len(v.Arr) == len(st.Exp)
		for i := 0; ok && i < len(st.Exp); i++ {
			if st.Exp[i] == 0 {
				ok = v.Arr[i].Null
			} else {
				ok = !v.Arr[i].Null && bytes.Equal(v.Arr[i].Str, vals[st.Exp[i]])
			}
		}
		if !ok {
			note(v.String(), fmt.Sprintf("%v", st.Exp), "reply differs from the specification (GET replies in argument order)")
		}
	}
	// no child may be delivered to a node that does not own its key
	for _, n := range e.cl.Nodes {
		for _, rec := range simredis.DataCommands(n.Records()) {
			if len(rec.Args) > 1 && e.cl.Owner(simredis.Slot(rec.Args[1])) != n.Idx {
				note(fmt.Sprintf("node %d", n.Idx), fmt.Sprintf("node %d", e.cl.Owner(simredis.Slot(rec.Args[1]))), "child delivered to a node that does not own its key")
			}
		}
	}
}

// state compares what the cluster holds for the model keys with the single server and with the specification.
func (e *splitEnv) state(res *splitResult, st splitStep, keys map[string]string, vals map[int][]byte) {
	for mk, ck := range keys {
		args := [][]byte{[]byte("GET"), []byte(ck)}
		want := e.ref.Exec(args)
		v, err := e.c[0].DoB(20*time.Second, args...)
		res.Cmds++
		bad := ""
		switch {
		case err != nil:
			bad = "no reply: " + err.Error()
		case !resp.Equal(v, want):
			bad = "value differs from the single-server reference"
		case st.After != nil && st.After[mk] == 0 && !v.Null:
			bad = "key exists, the specification says it does not"
		case st.After != nil && st.After[mk] != 0 && (v.Null || !bytes.Equal(v.Str, vals[st.After[mk]])):
			bad = "value differs from the specification (the last occurrence in argument order wins)"
		}
		if bad != "" && len(res.Bad) < 12 {
			res.Bad = append(res.Bad, splitBad{Cmd: "get", Class: "state", Shape: splitShape(st.Ks), Args: st.Op + " " + strings.Join(st.Ks, " ") + " -> " + mk,
				Got: v.String(), Want: want.String(), Why: bad})
		}
	}
}

// wide sends EXISTS, TOUCH, MGET, DEL / UNLINK and MSET with `width` keys (every second one existing, some named twice)
// and compares each reply, and the data afterwards, with the single reference engine.
func (e *splitEnv) wide(round, width int) splitResult {
	res := splitResult{Kind: "wide", ID: round}
	keys := make([][]byte, 0, width+width/10)
	for i := 0; i < width; i++ {
		k := []byte(fmt.Sprintf("wide:%d:%d:%d", round, i, e.rnd.Intn(1000000)))
		keys = append(keys, k)
		if i%2 == 0 {
			v := []byte(fmt.Sprintf("w%d\r\n", i))
			e.cl.Preload(string(k), v)
			e.ref.Exec([][]byte{[]byte("SET"), k, v})
		}
		if i%10 == 0 {
			keys = append(keys, k) // named twice
		}
	}
	before := e.cl.Redirects
	send := func(class, name string, args [][]byte) {
		res.Strata = append(res.Strata, class+"/wide/"+strings.ToLower(name))
		want := e.ref.Exec(args)
		v, err := e.c[round%2].DoB(30*time.Second, args...)
		res.Cmds++
		switch {
		case err != nil:
			res.Bad = append(res.Bad, splitBad{Cmd: strings.ToLower(name), Class: class, Shape: "wide", Args: fmt.Sprintf("%d keys", len(args)-1), Got: err.Error(), Want: clip(want.String()), Why: "no reply"})
		case !resp.Equal(v, want):
			res.Bad = append(res.Bad, splitBad{Cmd: strings.ToLower(name), Class: class, Shape: "wide", Args: fmt.Sprintf("%d keys on %d nodes", len(args)-1, len(e.cl.Nodes)),
				Got: clip(v.String()), Want: clip(want.String()), Why: "reply differs from the single-server reference"})
		}
	}
	cmd := func(name string) [][]byte { return append([][]byte{[]byte(name)}, keys...) }
	send("mcount", "EXISTS", cmd("EXISTS"))
	send("mcount", "TOUCH", cmd("TOUCH"))
	send("mread", "MGET", cmd("MGET"))
	mset := [][]byte{[]byte("MSET")}
	for i, k := range keys {
		if i%3 == 0 {
			mset = append(mset, k, []byte(fmt.Sprintf("m%d-%d", round, i)))
		}
	}
	send("mwrite", "MSET", mset)
	send("mcount", "EXISTS", cmd("EXISTS"))
	send("mread", "MGET", cmd("MGET"))
	send("mdel", []string{"DEL", "UNLINK"}[round%2], cmd([]string{"DEL", "UNLINK"}[round%2]))
	send("mcount", "TOUCH", cmd("TOUCH"))
	res.Redirects = e.cl.Redirects - before
	return res
}

func split(args []string) error {
	fs := flag.NewFlagSet("cluster-split", flag.ContinueOnError)
	vec := fs.String("vec", "", "vectors (ndjson, @@VEC)")
	in := fs.String("in", "", "programs (ndjson, @@BEH)")
	out := fs.String("out", "", "results (ndjson)")
	wide := fs.Int("wide", 6, "rounds of wide commands")
	width := fs.Int("width", 1200, "keys per wide command")
	every := fs.Int("every", 1, "replay every n-th vector that has no repeated key (vectors with a repeated key are all replayed)")
	if err := fs.Parse(args); err != nil {
		return err
	}
	sut.FastRefresh()
	w, err := cli.NewNDJSONWriter(*out)
	if err != nil {
		return err
	}
	defer w.Close()
	rnd := rand.New(rand.NewSource(cli.Seed()))
	env, err := newSplitEnv(rnd)
	if err != nil {
		return err
	}
	defer env.close()
	// the specification's Preset value (900) stands for "the value the key had at start": one byte string per key
	type valmap = map[int][]byte
	run := func(kind string, id int, layout splitStep, cmds []splitStep) splitResult {
		res := splitResult{Kind: kind, ID: id}
		keys := env.concreteKeys(layout.Owner)
		vals := valmap{}
		preset := map[string][]byte{}
		for mk, idv := range layout.Present {
			if idv != 0 {
				b := append([]byte("preset-"+mk), junk(rnd, false)...)
				preset[mk] = b
				env.cl.Preload(keys[mk], b)
				env.ref.Exec([][]byte{[]byte("SET"), []byte(keys[mk]), b})
			}
		}
		before := env.cl.Redirects
		for ci, st := range cmds {
			names := splitNames[st.Op]
			// value id 900 in a reply / final state means the preset value of THAT key: resolve per position
			stc := st
			stc.Exp = append([]int{}, st.Exp...)
			if st.Op == "mread" {
				for i := range stc.Exp {
					if stc.Exp[i] == 900 {
						stc.Exp[i] = 900000 + i
						vals[900000+i] = preset[st.Ks[i]]
					}
				}
			}
			stc.After = map[string]int{}
			for mk, idv := range st.After {
				if idv == 900 {
					idv = 910000 + int(mk[0])*256 + int(mk[1])
					vals[idv] = preset[mk]
				}
				stc.After[mk] = idv
			}
			for mk, f := range st.Failing {
				if f == 1 {
					env.failKey(keys[mk], id+ci)
				}
			}
			switch st.Op {
			case "mcount": // does not change anything: every concrete command of the class on the same state
				for ni, name := range names {
					if kind == "vector" || ni == (id+ci)%len(names) {
						env.one(&res, stc, name, keys, vals, ci+ni)
					}
				}
			default:
				env.one(&res, stc, names[(id+ci)%len(names)], keys, vals, ci)
			}
			for _, n := range env.cl.Nodes {
				n.ClearScripts()
			}
			env.state(&res, stc, keys, vals)
		}
		res.Redirects = env.cl.Redirects - before
		return res
	}
	if *vec != "" {
		id := 0
		skipped := 0
		err := cli.ReadNDJSON(*vec, func(line []byte) error {
			var st splitStep
			if err := json.Unmarshal(line, &st); err != nil {
				return err
			}
			id++
			if splitShape(st.Ks) != "repeated-key" {
				skipped++
				if skipped%*every != 0 {
					return nil
				}
			}
			// every vector on its own layout: the owner of each key is drawn at random
			owner := map[string]int{}
			for mk := range st.Present {
				owner[mk] = 1 + rnd.Intn(3)
			}
			return w.Write(run("vector", id, splitStep{Owner: owner, Present: st.Present}, []splitStep{st}))
		})
		if err != nil {
			return err
		}
	}
	// wide commands: hundreds of keys spread over every node in ONE command, so that the children are answered - and the
	// parent is completed - by the readers of all backend connections at the same time (FoldUnsynchronised of the module)
	for round := 1; round <= *wide; round++ {
		if err := w.Write(env.wide(round, *width)); err != nil {
			return err
		}
	}
	if *in != "" {
		id := 0
		err := cli.ReadNDJSON(*in, func(line []byte) error {
			var steps []splitStep
			if err := json.Unmarshal(line, &steps); err != nil {
				return err
			}
			id++
			if len(steps) == 0 || steps[0].A != "layout" {
				return w.Write(splitResult{Kind: "program", ID: id, Err: "behaviour does not start with the layout"})
			}
			return w.Write(run("program", id, steps[0], steps[1:]))
		})
		if err != nil {
			return err
		}
	}
	return nil
}
