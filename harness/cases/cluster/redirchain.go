package cluster

// cluster-redirchain: the windows W_Chain2 / W_Chain3 of spec/redis/Cluster.tla (StaleTableAtStart, MaxMigs = 2) on the
// real code: ONE request needs two or three redirections before a node accepts it. The witnesses TLC gives for
// MC_Cluster_chain_window2/3.cfg and the counterexamples of MC_Cluster_chain_follow1/2.cfg (a proxy that follows only
// one / two redirections hands the MOVED / ASK error to the client) have these shapes, set up here every run:
//   moved-ask       - the table is stale for the slot (ownership went X -> S after the last refresh) AND the slot is
//                     half migrated S -> T with the key on T (or not existing yet): X says MOVED S, S says ASK T;
//   moved-moved     - two changes of ownership between refreshes: X says MOVED S while handing the slot to S, S says
//                     MOVED T while handing it on;
//   ask-moved       - S answers ASK T; before the resend reaches T the migration is finalised and the slot moves on
//                     to U: T says MOVED U;
//   moved-ask-moved - stale table on top of ask-moved: three redirections.
// The refresher is held back (one refresh at start) so that the table is as stale as the stratum says. Each stratum is
// run with a read of an existing key and with a write. Judged by the property's own predicate: the client never sees
// MOVED / ASK, the reply is the single server's, the write is executed exactly once and is what the cluster holds.

import (
	"bytes"
	"flag"
	"fmt"
	"sync/atomic"
	"time"

	predis "github.com/samaritan-proxy/samaritan/proc/redis"

	"verifharness/internal/cli"
	"verifharness/internal/resp"
	"verifharness/internal/simredis"
	"verifharness/internal/sut"
)

func init() { cli.Register("cluster-redirchain", redirChain) }

type redirChainResult struct {
	Run      int    `json:"run"`
	Kind     string `json:"kind"` // moved-ask | moved-moved | ask-moved | moved-ask-moved
	Op       string `json:"op"`   // read | write
	Want     int    `json:"wantChain"`
	Chain    int64  `json:"chain"`    // redirections the cluster answered for the one command
	Got      string `json:"got"`      // reply the client received
	Expected string `json:"expected"` // reply of the single server
	Leaked   bool   `json:"leaked"`   // the reply is a MOVED / ASK error
	Differs  bool   `json:"differs"`  // the reply differs from the single server's
	Executed int    `json:"executed"` // nodes' executions of the command
	Final    string `json:"final"`    // non-empty: the data afterwards differs from the single server's
	Err      string `json:"err,omitempty"`
}

const (
	rcX = 0
	rcS = 1
	rcT = 2
	rcU = 3
)

func redirChainOnce(run int, kind, op string) (res redirChainResult) {
	res = redirChainResult{Run: run, Kind: kind, Op: op}
	cl, err := simredis.NewCluster(4, 0)
	if err != nil {
		res.Err = err.Error()
		return
	}
	defer cl.Close()
	// the slot of the test key is owned by `first` when the proxy loads its table
	first := rcX
	if kind == "ask-moved" {
		first = rcS
	}
	tag := fmt.Sprintf("{rc%d}", run)
	slot := simredis.Slot([]byte(tag))
	cl.SetOwner(slot, first)
	key := tag + "k\r\n"
	other := cl.KeyFor(rcS, "warm") // a key of another slot of S
	for simredis.Slot([]byte(other)) == slot {
		other += "x"
	}
	px, err := sut.StartRedis(sut.RedisOpts{}, cl.Addrs())
	if err != nil {
		res.Err = "start: " + err.Error()
		return
	}
	defer sut.StopWithin(px.P, 5*time.Second)
	if !sut.WaitRefresh(px.Name, 3*time.Second) {
		res.Err = "slot table not loaded"
		return
	}
	c, err := sut.Dial(px.Addr)
	if err != nil {
		res.Err = err.Error()
		return
	}
	defer c.Close()
	ref := simredis.NewStore()
	if op == "read" {
		val := []byte("old\r\n$-1\r\n")
		cl.Preload(key, val)
		ref.Exec([][]byte{[]byte("SET"), []byte(key), val})
	}
	// the connection to S exists before its replies are held (READONLY has been answered)
	if v, err := c.Do(5*time.Second, "SET", other, "1"); err != nil || v.IsErr() {
		res.Err = fmt.Sprintf("warm-up: %v %v", v, err)
		return
	}
	args := [][]byte{[]byte("GET"), []byte(key)}
	if op == "write" {
		args = [][]byte{[]byte("SET"), []byte(key), []byte("new\r\n+OK\r\n")}
	}
	gated := false
	switch kind {
	case "moved-ask":
		res.Want = 2
		cl.MoveSlot(slot, rcS) // the table still says X
		cl.SetMigrating(slot, rcS, rcT)
		cl.MigrateKey(key) // read: the key is on T already; write: the key does not exist, S says ASK
	case "moved-moved":
		res.Want = 2
		cl.Bounce(key, []int{rcS, rcT})
	case "ask-moved", "moved-ask-moved":
		res.Want = 2
		if kind == "moved-ask-moved" {
			res.Want = 3
			cl.MoveSlot(slot, rcS)
		}
		cl.SetMigrating(slot, rcS, rcT)
		cl.MigrateKey(key)
		cl.Nodes[rcS].SetGate(true) // S's ASK is held until the slot has moved on
		gated = true
	}
	for _, n := range cl.Nodes {
		n.ClearLog()
	}
	before := atomic.LoadInt64(&cl.Redirects)
	want := ref.Exec(args)
	res.Expected = want.String()
	if err := c.Send(resp.Bytes(resp.CmdB(args...))); err != nil {
		res.Err = "send: " + err.Error()
		return
	}
	if gated {
		if !cl.Nodes[rcS].WaitPending(1, 5*time.Second) {
			res.Err = "the command never reached S"
			cl.Nodes[rcS].SetGate(false)
			return
		}
		cl.Finalise(slot)      // T owns the slot
		cl.MoveSlot(slot, rcU) // ... and hands it on to U before the resend arrives
		cl.Nodes[rcS].SetGate(false)
	}
	v, err := c.Recv(20 * time.Second)
	if err != nil {
		res.Err = "no reply: " + err.Error()
		return
	}
	res.Chain = atomic.LoadInt64(&cl.Redirects) - before
	res.Got = v.String()
	res.Leaked = v.IsErr() && (bytes.HasPrefix(bytes.ToUpper(v.Str), []byte("MOVED")) || bytes.HasPrefix(bytes.ToUpper(v.Str), []byte("ASK")))
	res.Differs = !resp.Equal(v, want)
	for _, n := range cl.Nodes {
		for _, rec := range simredis.DataCommands(n.Records()) {
			if rec.Served && len(rec.Args) > 1 && string(rec.Args[1]) == key {
				res.Executed++
			}
		}
	}
	// the data afterwards: one copy, the single server's value (read straight from the nodes)
	copies := 0
	var held []byte
	for _, n := range cl.Masters() {
		if e, ok := n.Get(key); ok {
			copies++
			held = e.Str
		}
	}
	wantEntry, inRef := ref.Data[key]
	switch {
	case inRef && copies != 1:
		res.Final = fmt.Sprintf("%d copies of the key", copies)
	case !inRef && copies != 0:
		res.Final = fmt.Sprintf("%d copies of a key the single server does not hold", copies)
	case inRef && !bytes.Equal(held, wantEntry.Str):
		res.Final = fmt.Sprintf("the cluster holds %q, the single server %q", held, wantEntry.Str)
	}
	return
}

func redirChain(args []string) error {
	fs := flag.NewFlagSet("cluster-redirchain", flag.ContinueOnError)
	out := fs.String("out", "", "results (ndjson)")
	runs := fs.Int("runs", 1, "runs per stratum")
	if err := fs.Parse(args); err != nil {
		return err
	}
	// one refresh at start, then none: loopRefreshSlots waits slotsRefMinRate after every refresh
	predis.VerifSetSlotsRefreshTimers(time.Hour, time.Hour)
	w, err := cli.NewNDJSONWriter(*out)
	if err != nil {
		return err
	}
	defer w.Close()
	n := 0
	for i := 0; i < *runs; i++ {
		for _, kind := range []string{"moved-ask", "moved-moved", "ask-moved", "moved-ask-moved"} {
			for _, op := range []string{"read", "write"} {
				n++
				if err := w.Write(redirChainOnce(n, kind, op)); err != nil {
					return err
				}
			}
		}
	}
	return nil
}
