// Package cluster replays Cluster behaviours (sequential client commands
// interleaved with slot migration steps) end-to-end on a real Redis processor
// against a simulated Redis Cluster, and compares every reply with a single
// reference server executing the same program (C03, C04, C07 convergence).
package cluster

import (
	"bytes"
	"encoding/json"
	"flag"
	"fmt"
	"math/rand"
	"strings"
	"sync/atomic"
	"time"

	predis "github.com/samaritan-proxy/samaritan/proc/redis"

	"verifharness/internal/cli"
	"verifharness/internal/resp"
	"verifharness/internal/simredis"
	"verifharness/internal/sut"
)

func init() { cli.Register("cluster-replay", replay) }

type step struct {
	A     string         `json:"a"`
	Owner map[string]int `json:"owner"`
	K     string         `json:"k"`
	Op    string         `json:"op"`
	Exp   int            `json:"exp"`
	P     int            `json:"p"`     // pipelined behaviours: 1 = issued while earlier commands are unanswered
	Conn  []bool         `json:"conn"`  // layout event: nodes the proxy has a backend connection to at start (LazyConnect)
	Table map[string]int `json:"table"` // layout event: the proxy's routing table at start (StaleTableAtStart: may differ from owner)
}

type bad struct {
	Step int    `json:"step"`
	Cmd  string `json:"cmd"`
	Got  string `json:"got"`
	Want string `json:"want"`
	Why  string `json:"why"`
}

type result struct {
	ID             int      `json:"id"`
	Cmds           int      `json:"cmds"`
	MigSteps       int      `json:"migSteps"`
	Bad            []bad    `json:"bad"`
	Redirects      int64    `json:"redirects"`
	RedirectsAfter int64    `json:"redirectsAfter"` // redirections during the last convergence round
	MigratingAtEnd bool     `json:"migratingAtEnd"` // a slot is still half-migrated: ASK redirections legitimately continue
	Copies         []string `json:"copies"`         // keys with != 1 copy or a wrong value at the end
	ExecCounts     []string `json:"execCounts"`     // writes not executed exactly once
	FirstHopWrong  []string `json:"firstHopWrong"`  // stable layout: command first delivered to a non-owner
	Bursts         int      `json:"bursts"`         // pipelined behaviours: bursts of more than one command written in one piece
	MaxChain       int64    `json:"maxChain"`       // most redirections the cluster answered for ONE single-key command
	FreshRedirects int      `json:"freshRedirects"` // pipelined behaviours: bursts redirected to a node the proxy had no connection to
	Err            string   `json:"err,omitempty"`
}

var slotTag = map[string]string{"A": "{tagA}", "B": "{tagB}"}

func concreteKey(k string) string {
	s := "A"
	if strings.HasPrefix(k, "b") {
		s = "B"
	}
	return slotTag[s] + k
}

func slotOfModel(s string) int { return simredis.Slot([]byte(slotTag[s] + "x")) }

// junk returns a binary-unsafe looking suffix (CR, LF, NUL, RESP markers).
func junk(rnd *rand.Rand, big bool) []byte {
	choices := [][]byte{nil, []byte("\r\n"), []byte("\x00"), []byte("\r\n+OK\r\n"), []byte("$-1\r\n"), []byte(" sp ace "), bytes.Repeat([]byte{0xff, 0x00, '\r', '\n'}, 70)}
	if big {
		choices = append(choices, bytes.Repeat([]byte("0123456789abcdef"), 70000)) // > 1 MiB
	}
	return choices[rnd.Intn(len(choices))]
}

func replayOne(id int, steps []step, rnd *rand.Rand, big bool, stable bool, pipelined bool, held bool) (res result) {
	res = result{ID: id}
	cl, err := simredis.NewCluster(3, 0)
	if err != nil {
		res.Err = err.Error()
		return
	}
	defer cl.Close()
	if len(steps) == 0 || steps[0].A != "layout" {
		res.Err = "behaviour does not start with the layout"
		return
	}
	for s, o := range steps[0].Owner {
		cl.SetOwner(slotOfModel(s), o-1)
	}
	stale := map[string]int{}
	if held {
		// the table the behaviour starts with is loaded from a layout that is changed afterwards (no data yet)
		for s, n := range steps[0].Table {
			if n != 0 && n != steps[0].Owner[s] {
				cl.SetOwner(slotOfModel(s), n-1)
				stale[s] = steps[0].Owner[s]
			}
		}
	}
	seeds := cl.Addrs()
	if pipelined && len(steps[0].Conn) == len(seeds) {
		// LazyConnect: the proxy knows (and is connected to) one seed node only; every other node is met through
		// the routing table or a redirection, its connection is made on first use
		seeds = nil
		for i, on := range steps[0].Conn {
			if on {
				seeds = append(seeds, cl.Addrs()[i])
			}
		}
	}
	px, err := sut.StartRedis(sut.RedisOpts{}, seeds)
	if err != nil {
		res.Err = "start: " + err.Error()
		return
	}
	defer sut.StopWithin(px.P, 5*time.Second)
	if !sut.WaitRefresh(px.Name, 3*time.Second) {
		res.Err = "slot table not loaded"
		return
	}
	for s, o := range stale {
		cl.MoveSlot(slotOfModel(s), o-1) // the refresher is held back: the table stays stale for this slot
	}
	c, err := sut.Dial(px.Addr)
	if err != nil {
		res.Err = err.Error()
		return
	}
	defer c.Close()
	c2, _ := sut.Dial(px.Addr) // commands alternate between two downstream connections
	defer c2.Close()
	ref := simredis.NewStore()
	modelKeys := []string{"a1", "a2", "b1"}
	kind := map[string]string{"a1": "string", "a2": "hash", "b1": "list"}
	// pipelined behaviours: the commands of a burst are written in one piece, the replies are read afterwards; the
	// single server executes a pipeline in the order it was written
	type pend struct {
		i    int
		args [][]byte
		want resp.Value
	}
	var pending []pend
	var burst []byte
	observing := false
	var judge func(i int, args [][]byte, want resp.Value, v resp.Value, err error)
	flush := func() {
		if len(pending) == 0 {
			return
		}
		if len(pending) > 1 {
			res.Bursts++
			accepted := make([]int, len(cl.Nodes))
			for ni, n := range cl.Nodes {
				accepted[ni] = n.AcceptCount()
			}
			redirBefore := atomic.LoadInt64(&cl.Redirects)
			defer func() {
				for ni, n := range cl.Nodes {
					if accepted[ni] == 0 && n.AcceptCount() > 0 && atomic.LoadInt64(&cl.Redirects) > redirBefore+1 && len(simredis.DataCommands(n.Records())) > 1 {
						res.FreshRedirects++
					}
				}
			}()
		}
		err := c.Send(burst)
		for _, p := range pending {
			var v resp.Value
			if err == nil {
				v, err = c.Recv(8 * time.Second)
			}
			judge(p.i, p.args, p.want, v, err)
		}
		pending, burst = nil, nil
	}
	do := func(i int, args ...[]byte) {
		if pipelined {
			pending = append(pending, pend{i: i, args: args, want: ref.Exec(args)})
			burst = append(burst, resp.Bytes(resp.CmdB(args...))...)
			return
		}
		cn := c
		if i%2 == 1 {
			cn = c2
		}
		before := atomic.LoadInt64(&cl.Redirects)
		v, err := cn.DoB(8*time.Second, args...)
		if d := atomic.LoadInt64(&cl.Redirects) - before; d > res.MaxChain && !observing {
			res.MaxChain = d
		}
		want := ref.Exec(args)
		judge(i, args, want, v, err)
	}
	judge = func(i int, args [][]byte, want resp.Value, v resp.Value, err error) {
		name := string(args[0])
		if err != nil {
			res.Bad = append(res.Bad, bad{Step: i, Cmd: name, Got: err.Error(), Want: want.String(), Why: "no reply"})
			return
		}
		res.Cmds++
		if v.IsErr() && (bytes.HasPrefix(bytes.ToUpper(v.Str), []byte("MOVED")) || bytes.HasPrefix(bytes.ToUpper(v.Str), []byte("ASK"))) {
			res.Bad = append(res.Bad, bad{Step: i, Cmd: name, Got: v.String(), Want: want.String(), Why: "redirection leaked to the client"})
			return
		}
		if !resp.Equal(v, want) {
			res.Bad = append(res.Bad, bad{Step: i, Cmd: name + " " + string(args[1]), Got: v.String(), Want: want.String(), Why: "reply differs from the single-server reference"})
		}
	}
	B := func(s string) []byte { return []byte(s) }
	observe := func(i int) {
		observing = true // split commands: the redirections of several children add up
		defer func() { observing = false }()
		do(i, B("MGET"), B(concreteKey("a1")), B(concreteKey("b1")+"none"), B(concreteKey("a1")))
		do(i, B("exists"), B(concreteKey("a1")), B(concreteKey("a2")), B(concreteKey("b1")))
	}
	migSlot := ""
	for i, st := range steps[1:] {
		if st.A != "cmd" || st.P == 0 {
			flush() // the model issued this step with every earlier command answered
		}
		switch st.A {
		case "cmd":
			k := concreteKey(st.K)
			finalVal := append([]byte(fmt.Sprintf("v%d", st.Exp)), junk(rnd, big)...)
			variety := rnd.Intn(3)
			// pipelined behaviours: a write of the model stands for a run of writes of the same command, the last one
			// carrying the model's value (stuttering: the abstract effect is the same, the pipeline on the wire is longer)
			reps := 1
			if pipelined && st.Op == "write" {
				reps = 1 + rnd.Intn(8)
			}
			for rep := 0; rep < reps; rep++ {
				val := finalVal
				if rep < reps-1 {
					val = append([]byte(fmt.Sprintf("s%d~", rep)), finalVal...)
				}
				switch kind[st.K] + "/" + st.Op {
				case "string/write":
					switch variety {
					case 0:
						do(i, B("SET"), B(k), val)
					case 1:
						do(i, B("getset"), B(k), val)
					default:
						do(i, B("SETEX"), B(k), B("100"), val)
					}
				case "string/read":
					switch variety {
					case 0:
						do(i, B("GET"), B(k))
					case 1:
						do(i, B("strlen"), B(k))
					default:
						do(i, B("Exists"), B(k))
					}
				case "hash/write":
					if variety == 0 {
						do(i, B("HSET"), B(k), B("f\r\n"), val)
					} else {
						do(i, B("hmset"), B(k), B("f\r\n"), val, B("g"), B(""))
					}
				case "hash/read":
					switch variety {
					case 0:
						do(i, B("HGET"), B(k), B("f\r\n"))
					case 1:
						do(i, B("hgetall"), B(k))
					default:
						do(i, B("HLEN"), B(k))
					}
				case "list/write":
					if variety == 0 {
						do(i, B("RPUSH"), B(k), val)
					} else {
						do(i, B("lpush"), B(k), val, B(""))
					}
				case "list/read":
					switch variety {
					case 0:
						do(i, B("LRANGE"), B(k), B("0"), B("-1"))
					case 1:
						do(i, B("llen"), B(k))
					default:
						do(i, B("zcount"), B(k+"z"), B("0"), B("9")) // echo engine command on a neighbour key
					}
				}
			}
			if rnd.Intn(2) == 0 {
				observe(i)
			}
		case "setmigrating":
			res.MigSteps++
			migSlot = st.Op
			src := cl.Owner(slotOfModel(st.Op))
			cl.SetMigrating(slotOfModel(st.Op), src, st.Exp-1)
		case "migratekey":
			res.MigSteps++
			// every concrete key of the model key's family that lives in the slot and matches moves
			cl.MigrateKey(concreteKey(st.K))
			cl.MigrateKey(concreteKey(st.K) + "z")
		case "finalise":
			res.MigSteps++
			cl.Finalise(slotOfModel(st.Op))
			migSlot = ""
		}
	}
	flush()
	res.MigratingAtEnd = migSlot != ""
	res.Redirects = cl.Redirects
	// convergence: a bounded number of refresh rounds after the first redirection
	// (bounded but patient: a round without any redirection ends the wait; the bound on refresh rounds itself is
	// checked by cluster-converge against Refresh.tla)
	var before int64
	for round := 0; round < 40; round++ {
		time.Sleep(15 * time.Millisecond) // > refresh min rate (5 ms)
		before = cl.Redirects
		for i, mk := range modelKeys {
			do(1000+round*10+i, B("exists"), B(concreteKey(mk)))
		}
		flush()
		if (round >= 3 && cl.Redirects == before) || held { // pipelined: the refresher is held back, nothing to wait for
			break
		}
	}
	res.RedirectsAfter = cl.Redirects - before
	// copies and execution counts
	for _, mk := range modelKeys {
		k := concreteKey(mk)
		n := 0
		for _, node := range cl.Masters() {
			if _, ok := node.Get(k); ok {
				n++
			}
		}
		_, inRef := ref.Data[k]
		if (inRef && n != 1) || (!inRef && n != 0) {
			res.Copies = append(res.Copies, fmt.Sprintf("%s: %d copies, reference present=%v", mk, n, inRef))
		}
	}
	served := map[string]int{}
	for _, node := range cl.Nodes {
		firstSeen := map[string]bool{}
		for _, r := range simredis.DataCommands(node.Records()) {
			cmd := r.Cmd()
			if cmd == "set" || cmd == "getset" || cmd == "setex" || cmd == "hset" || cmd == "hmset" || cmd == "rpush" || cmd == "lpush" {
				if r.Served {
					served[fmt.Sprintf("%s %q", cmd, r.Args[1:])]++
				}
			}
			_ = firstSeen
		}
	}
	for k, n := range served {
		if n != 1 {
			res.ExecCounts = append(res.ExecCounts, fmt.Sprintf("%s executed %d times", k, n))
		}
	}
	return
}

func replay(args []string) error {
	fs := flag.NewFlagSet("cluster-replay", flag.ContinueOnError)
	in := fs.String("in", "", "behaviours (ndjson)")
	out := fs.String("out", "", "results (ndjson)")
	stable := fs.Bool("stable", false, "the layout never changes: no redirection may happen at all")
	big := fs.Bool("big", false, "include multi-megabyte values")
	norefreshF := fs.Bool("norefresh", false, "the refresher is held back after the table has been loaded; the layout event may carry a stale table")
	pipelined := fs.Bool("pipeline", false, "behaviours of ONE pipelining client (p = 1 marks a command written together with its predecessor); the refresher is held back after the table has been loaded")
	if err := fs.Parse(args); err != nil {
		return err
	}
	sut.FastRefresh()
	norefresh := *norefreshF
	if *pipelined || norefresh {
		// one refresh at start, then none (loopRefreshSlots waits slotsRefMinRate after every refresh): the table
		// stays as loaded, as in the behaviours of ClusterGen with Pipelined = TRUE
		predis.VerifSetSlotsRefreshTimers(time.Hour, time.Hour)
	}
	w, err := cli.NewNDJSONWriter(*out)
	if err != nil {
		return err
	}
	defer w.Close()
	rnd := rand.New(rand.NewSource(cli.Seed()))
	id := 0
	return cli.ReadNDJSON(*in, func(line []byte) error {
		var steps []step
		if err := json.Unmarshal(line, &steps); err != nil {
			return err
		}
		id++
		return w.Write(replayOne(id, steps, rnd, *big, *stable, *pipelined, *pipelined || norefresh))
	})
}

// ---- forced schedule for the TLC counterexample of MC_Cluster_migration_emptytable.cfg:
// with an empty routing table a command sent to a random node lands between
// another request's ASKING and its resent command on the importing node.

type askRaceResult struct {
	Attempts int      `json:"attempts"`
	Stolen   bool     `json:"stolen"`   // a foreign command was executed on the importing node with the stolen ASKING flag
	CopiesA1 int      `json:"copiesA1"` // nodes holding key a1 afterwards
	Values   []string `json:"values"`   // value of a1 per node
	A2Reply  string   `json:"a2Reply"`  // reply of the redirected command itself
	Parked   bool     `json:"parked"`   // the redirect was caught between its two sends
	Err      string   `json:"err,omitempty"`
}

func init() { cli.Register("cluster-askrace", askRace) }

// ---- every supported keyed command is relayed byte-for-byte to the owner of its key

type cmdResult struct {
	Cmd       string `json:"cmd"`
	Key       string `json:"key"`
	OK        bool   `json:"ok"`
	Why       string `json:"why,omitempty"`
	Got       string `json:"got"`
	Want      string `json:"want"`
	Node      int    `json:"node"`
	OwnerNode int    `json:"ownerNode"`
}

func init() { cli.Register("cluster-cmds", cmds) }

func cmds(args []string) error {
	fs := flag.NewFlagSet("cluster-cmds", flag.ContinueOnError)
	out := fs.String("out", "", "results (ndjson)")
	per := fs.Int("per", 2, "instances per command")
	if err := fs.Parse(args); err != nil {
		return err
	}
	sut.FastRefresh()
	rnd := rand.New(rand.NewSource(cli.Seed()))
	cl, err := simredis.NewCluster(4, 0)
	if err != nil {
		return err
	}
	defer cl.Close()
	px, err := sut.StartRedis(sut.RedisOpts{}, cl.Addrs())
	if err != nil {
		return err
	}
	defer sut.StopWithin(px.P, 5*time.Second)
	sut.WaitRefresh(px.Name, 3*time.Second)
	w, err := cli.NewNDJSONWriter(*out)
	if err != nil {
		return err
	}
	defer w.Close()
	c, err := sut.Dial(px.Addr)
	if err != nil {
		return err
	}
	defer c.Close()
	ref := simredis.NewStore()
	skip := map[string]bool{"ping": true, "quit": true, "info": true, "time": true, "select": true, "hotkey": true, "scan": true, "eval": true}
	names := predis_supported()
	for _, name := range names {
		if skip[name] {
			continue
		}
		for i := 0; i < *per; i++ {
			key := fmt.Sprintf("%s:%d:%d", name, i, rnd.Intn(1000000))
			// key shapes: plain, hash tags in every position the Redis Cluster rule distinguishes, binary-unsafe bytes
			switch rnd.Intn(10) {
			case 0:
				key = "{" + key + "}tail"
			case 1:
				key = key + "\r\n\x00"
			case 2:
				key = "a}b{" + key + "}c" // a '}' before the first '{'
			case 3:
				key = "}{" + key + "}"
			case 4:
				key = "{}{" + key + "}" // empty first tag: the whole key is hashed
			case 5:
				key = "{{" + key + "}}"
			case 6:
				key = "{" + key + "}{other}"
			case 7:
				key = key + "{unclosed"
			}
			a := [][]byte{[]byte(strings.ToUpper(name)), []byte(key)}
			switch name {
			case "mset":
				a = append(a, []byte("v\r\n"+key))
			case "mget", "del", "exists", "touch", "unlink":
			default:
				for j := 0; j < rnd.Intn(3); j++ {
					a = append(a, append([]byte(fmt.Sprintf("arg%d", j)), junk(rnd, false)...))
				}
			}
			for _, n := range cl.Nodes {
				n.ClearLog()
			}
			v, err := c.DoB(5*time.Second, a...)
			r := cmdResult{Cmd: name, Key: key, OwnerNode: cl.Owner(simredis.Slot([]byte(key))), Node: -1}
			if err != nil {
				r.Why = "no reply: " + err.Error()
				w.Write(r)
				continue
			}
			want := ref.Exec(a)
			r.Got, r.Want = v.String(), want.String()
			r.OK = resp.Equal(v, want)
			if !r.OK {
				r.Why = "reply differs from the single-server reference"
			}
			// arrival: exactly at the owner, arguments byte-identical (split commands arrive as their per-key form)
			arrivals := 0
			for _, n := range cl.Nodes {
				for _, rec := range simredis.DataCommands(n.Records()) {
					arrivals++
					r.Node = n.Idx
					if n.Idx != r.OwnerNode {
						r.OK, r.Why = false, fmt.Sprintf("delivered to node %d, owner is %d", n.Idx, r.OwnerNode)
					}
					switch name {
					case "mset", "mget", "del", "exists", "touch", "unlink":
						if !bytes.Equal(rec.Args[1], []byte(key)) {
							r.OK, r.Why = false, "key altered in transit"
						}
					default:
						if !simredis.SameArgs(rec.Args, a) {
							r.OK, r.Why = false, "arguments altered in transit"
						}
					}
				}
			}
			if arrivals != 1 && r.OK {
				r.OK, r.Why = false, fmt.Sprintf("%d backend commands for one single-key request", arrivals)
			}
			w.Write(r)
		}
	}
	if cl.Redirects != 0 {
		w.Write(cmdResult{Cmd: "*", Why: fmt.Sprintf("%d redirections on a stable cluster", cl.Redirects)})
	}
	return nil
}
