package cluster

import (
	"flag"
	"fmt"
	"math/rand"
	"time"

	predis "github.com/samaritan-proxy/samaritan/proc/redis"

	"verifharness/internal/cli"
	"verifharness/internal/simredis"
	"verifharness/internal/sut"
)

func init() { cli.Register("cluster-converge", converge) }

type convergeResult struct {
	Change        int    `json:"change"`
	Redirects     int64  `json:"redirects"`     // redirections until the table had converged
	Rounds        int64  `json:"rounds"`        // successful refresh rounds it took (Refresh.tla: at most 2)
	Requests      int    `json:"requests"`      // client requests until no further redirection
	Converged     bool   `json:"converged"`
	Err           string `json:"err,omitempty"`
}

// converge: after a layout change the first redirection triggers a refresh; redirections must stop within the
// number of refresh rounds Refresh.tla allows (BoundedRounds: one possibly in flight with the old layout + one).
func converge(args []string) error {
	fs := flag.NewFlagSet("cluster-converge", flag.ContinueOnError)
	out := fs.String("out", "", "results (ndjson)")
	changes := fs.Int("changes", 10, "layout changes")
	if err := fs.Parse(args); err != nil {
		return err
	}
	// only redirections trigger refreshes (the periodic one is an hour away), rate limit 10 ms
	predis.VerifSetSlotsRefreshTimers(time.Hour, 10*time.Millisecond)
	w, err := cli.NewNDJSONWriter(*out)
	if err != nil {
		return err
	}
	defer w.Close()
	rnd := rand.New(rand.NewSource(cli.Seed()))
	cl, err := simredis.NewCluster(3, 0)
	if err != nil {
		return err
	}
	defer cl.Close()
	px, err := sut.StartRedis(sut.RedisOpts{}, cl.Addrs())
	if err != nil {
		return err
	}
	defer sut.StopWithin(px.P, 5*time.Second)
	if !sut.WaitRefresh(px.Name, 3*time.Second) {
		return fmt.Errorf("slot table not loaded")
	}
	c, err := sut.Dial(px.Addr)
	if err != nil {
		return err
	}
	defer c.Close()
	time.Sleep(30 * time.Millisecond)
	for ch := 1; ch <= *changes; ch++ {
		key := fmt.Sprintf("conv-%d-%d", ch, rnd.Intn(100000))
		slot := simredis.Slot([]byte(key))
		cl.Preload(key, []byte("v"))
		dst := (cl.Owner(slot) + 1 + rnd.Intn(2)) % 3
		base := sut.ServiceStats(px.Name)["upstream.slots_refresh.success_total"]
		red0 := cl.Redirects
		cl.MoveSlot(slot, dst)
		res := convergeResult{Change: ch}
		for i := 0; i < 200; i++ {
			before := cl.Redirects
			v, err := c.Do(3*time.Second, "GET", key)
			res.Requests++
			if err != nil || v.IsErr() || string(v.Str) != "v" {
				res.Err = fmt.Sprintf("GET after layout change: %v %v", v, err)
				break
			}
			if cl.Redirects == before {
				res.Converged = true
				break
			}
			time.Sleep(2 * time.Millisecond)
		}
		res.Redirects = cl.Redirects - red0
		res.Rounds = sut.ServiceStats(px.Name)["upstream.slots_refresh.success_total"] - base
		if err := w.Write(res); err != nil {
			return err
		}
		time.Sleep(25 * time.Millisecond)
	}
	return nil
}
