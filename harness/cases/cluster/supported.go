package cluster

import predis "github.com/samaritan-proxy/samaritan/proc/redis"

func predis_supported() []string { return predis.VerifSupportedCommands() }
