package cluster

// cluster-failflags: failover strata of spec/redis/Cluster.tla (DeathKinds x PromotedFlags) on the real code.
// A master is replaced by its replica and is really gone - in one of two ways:
//   refused    - its address refuses connections (the process died, the listener is closed);
//   blackholed - its machine vanished: SYNs are dropped, a connect ends in "i/o timeout" after ConnectTimeout (a
//                listening socket with an accept queue of one that is never accepted from, bound to the dead node's port).
// The flags column the nodes report in CLUSTER NODES for the promoted node and its neighbours:
//   master            - plain;
//   master,nofailover - the promoted replica runs with cluster-replica-no-failover (manual failover, DC switch-over),
//                       the other replicas are slave,nofailover;
//   myself,master     - the only node the proxy can ask is the promoted one itself;
//   master+pfail      - plain, but the answering nodes suspect healthy neighbours (master,fail? / slave,fail?) and the
//                       dead master is still only suspected (master,fail?) when it vanished.
// Nothing redirects the proxy (nobody answers at the old address): the failed connect itself has to make it ask for the
// table, and the table has to take the promoted node whatever its flags say. Judged by the property's own predicate:
// errors only while the owner is unreachable - the promoted node is reachable and named as owner by every node, so
// within a generous deadline the reads succeed with the right value, a write is served, and no error remains.

import (
	"bytes"
	"flag"
	"fmt"
	"net"
	"strconv"
	"strings"
	"syscall"
	"time"

	predis "github.com/samaritan-proxy/samaritan/proc/redis"

	"verifharness/internal/cli"
	"verifharness/internal/resp"
	"verifharness/internal/simredis"
	"verifharness/internal/sut"
)

func init() { cli.Register("cluster-failflags", failFlags) }

type failFlagsResult struct {
	Run         int      `json:"run"`
	Death       string   `json:"death"`       // refused | blackholed
	Flags       string   `json:"flags"`       // master | master,nofailover | myself,master | master+pfail
	DialErr     string   `json:"dialErr"`     // what a direct connect to the old address says (window evidence)
	NodesLine   string   `json:"nodesLine"`   // the promoted node's line as the proxy gets it
	Replies     []string `json:"replies"`     // first replies to the reads after the failover
	Attempts    int      `json:"attempts"`    // reads issued until the first correct reply
	HealedMs    int64    `json:"healedMs"`    // -1: never within the deadline
	WriteOK     bool     `json:"writeOK"`     // a write after healing was served and read back
	ErrorsAfter int      `json:"errorsAfter"` // error replies among 6 reads after healing
	Leaked      bool     `json:"leaked"`
	WrongValue  bool     `json:"wrongValue"`
	Confirmed   bool     `json:"confirmed"` // never healed, and never healed in a second, independent run either
	Err         string   `json:"err,omitempty"`
}

// blackhole binds addr with an accept queue of one and fills it: further SYNs are dropped.
func blackhole(addr string) (func(), error) {
	host, ps, err := net.SplitHostPort(addr)
	if err != nil {
		return nil, err
	}
	port, _ := strconv.Atoi(ps)
	ip := net.ParseIP(host).To4()
	var fd int
	for i := 0; ; i++ {
		fd, err = syscall.Socket(syscall.AF_INET, syscall.SOCK_STREAM, 0)
		if err != nil {
			return nil, err
		}
		syscall.SetsockoptInt(fd, syscall.SOL_SOCKET, syscall.SO_REUSEADDR, 1)
		sa := &syscall.SockaddrInet4{Port: port, Addr: [4]byte{ip[0], ip[1], ip[2], ip[3]}}
		if err = syscall.Bind(fd, sa); err == nil {
			err = syscall.Listen(fd, 0)
		}
		if err == nil {
			break
		}
		syscall.Close(fd)
		if i > 200 {
			return nil, fmt.Errorf("bind %s: %v", addr, err)
		}
		time.Sleep(5 * time.Millisecond)
	}
	var conns []net.Conn
	full := false
	for i := 0; i < 16; i++ {
		c, err := net.DialTimeout("tcp", addr, 300*time.Millisecond)
		if err != nil {
			if ne, ok := err.(net.Error); ok && ne.Timeout() {
				full = true
			}
			break
		}
		conns = append(conns, c)
	}
	closeAll := func() {
		for _, c := range conns {
			c.Close()
		}
		syscall.Close(fd)
	}
	if !full {
		closeAll()
		return nil, fmt.Errorf("the accept queue of %s never filled up", addr)
	}
	return closeAll, nil
}

// nodesTextOf asks node directly for CLUSTER NODES.
func nodesTextOf(addr string) (string, error) {
	c, err := sut.Dial(addr)
	if err != nil {
		return "", err
	}
	defer c.Close()
	v, err := c.Do(3*time.Second, "CLUSTER", "NODES")
	if err != nil {
		return "", err
	}
	return string(v.Str), nil
}

func failFlagsOnce(run int, death, flags string) (res failFlagsResult) {
	res = failFlagsResult{Run: run, Death: death, Flags: flags, HealedMs: -1}
	cl, err := simredis.NewCluster(3, 1) // masters 0..2, replicas 3..5 (3 replicates 0)
	if err != nil {
		res.Err = err.Error()
		return
	}
	defer cl.Close()
	const old, promoted = 0, 3
	seeds := cl.Addrs()[:3]
	if flags == "myself,master" {
		seeds = []string{cl.Nodes[old].Addr, cl.Nodes[promoted].Addr} // after the failover only the promoted node answers
	}
	px, err := sut.StartRedis(sut.RedisOpts{ConnectTO: 250 * time.Millisecond}, seeds)
	if err != nil {
		res.Err = "start: " + err.Error()
		return
	}
	defer sut.StopWithin(px.P, 5*time.Second)
	if !sut.WaitRefresh(px.Name, 3*time.Second) {
		res.Err = "slot table not loaded"
		return
	}
	c, err := sut.Dial(px.Addr)
	if err != nil {
		res.Err = err.Error()
		return
	}
	defer c.Close()
	key := cl.KeyFor(old, "ff-")
	if v, err := c.Do(3*time.Second, "set", key, "v1"); err != nil || v.IsErr() {
		res.Err = fmt.Sprintf("set: %v %v", v, err)
		return
	}
	// the failover: the replica takes over, the old master is gone
	cl.Failover(old, promoted, true)
	if death == "blackholed" {
		closeHole, err := blackhole(cl.Nodes[old].Addr)
		if err != nil {
			res.Err = "black hole: " + err.Error()
			return
		}
		defer closeHole()
	}
	if dc, err := net.DialTimeout("tcp", cl.Nodes[old].Addr, 250*time.Millisecond); err == nil {
		dc.Close()
		res.Err = "the old master's address still accepts connections"
		return
	} else {
		res.DialErr = err.Error()
	}
	// the flags column, as every live node reports it from now on
	for _, n := range cl.Nodes {
		if n.Idx == old {
			continue
		}
		text, err := nodesTextOf(n.Addr)
		if err != nil {
			res.Err = "cluster nodes: " + err.Error()
			return
		}
		var b strings.Builder
		for _, line := range strings.Split(text, "\n") {
			f := strings.Fields(line)
			if len(f) < 8 {
				continue
			}
			myself := strings.HasPrefix(f[2], "myself,")
			role := "master"
			if f[3] != "-" {
				role = "slave"
			}
			isPromoted := f[0] == cl.Nodes[promoted].ID
			isOld := f[0] == cl.Nodes[old].ID
			nf := role
			switch {
			case isOld:
				nf = role + ",fail"
				if death == "blackholed" && flags == "master+pfail" {
					nf = role + ",fail?" // vanished a moment ago: only suspected so far
				}
			case flags == "master,nofailover" && (isPromoted || role == "slave"):
				nf = role + ",nofailover"
			case flags == "master+pfail" && !isPromoted && !myself:
				nf = role + ",fail?" // a healthy neighbour the answering node merely suspects
			}
			if myself {
				nf = "myself," + nf
			}
			f[2] = nf
			if isPromoted && (res.NodesLine == "" || n.Idx == promoted && flags == "myself,master") {
				res.NodesLine = strings.Join(f[:4], " ") + " ..."
			}
			b.WriteString(strings.Join(f, " "))
			b.WriteString("\n")
		}
		n.Script(&simredis.Scripted{
			Match: func(cmd string, args [][]byte) bool { return cmd == "cluster" },
			Raw:   resp.Bytes(resp.BulkS(b.String())),
		})
	}
	// reads of a key of the moved slots: errors are legitimate only until the proxy could know
	start := time.Now()
	deadline := start.Add(6 * time.Second)
	for res.Attempts < 60 && time.Now().Before(deadline) {
		res.Attempts++
		v, err := c.Do(10*time.Second, "get", key)
		if err != nil {
			res.Err = "no reply: " + err.Error()
			return
		}
		if len(res.Replies) < 6 {
			res.Replies = append(res.Replies, clip(v.String()))
		}
		if v.IsErr() {
			if bytes.HasPrefix(bytes.ToUpper(v.Str), []byte("MOVED")) || bytes.HasPrefix(bytes.ToUpper(v.Str), []byte("ASK")) {
				res.Leaked = true
			}
			time.Sleep(25 * time.Millisecond)
			continue
		}
		if string(v.Str) != "v1" {
			res.WrongValue = true
		}
		res.HealedMs = time.Since(start).Milliseconds()
		break
	}
	if res.HealedMs < 0 {
		return
	}
	if v, err := c.Do(10*time.Second, "set", key, "v2"); err == nil && !v.IsErr() {
		if g, err := c.Do(10*time.Second, "get", key); err == nil && string(g.Str) == "v2" {
			res.WriteOK = true
		}
	}
	for i := 0; i < 6; i++ {
		if v, err := c.Do(10*time.Second, "get", key); err != nil || v.IsErr() {
			res.ErrorsAfter++
		}
	}
	return
}

func failFlags(args []string) error {
	fs := flag.NewFlagSet("cluster-failflags", flag.ContinueOnError)
	out := fs.String("out", "", "results (ndjson)")
	runs := fs.Int("runs", 1, "runs per stratum")
	if err := fs.Parse(args); err != nil {
		return err
	}
	// production ratio of the timers: the periodic refresh is far away (2 min in production), the rate limit is short
	predis.VerifSetSlotsRefreshTimers(time.Hour, 5*time.Millisecond)
	w, err := cli.NewNDJSONWriter(*out)
	if err != nil {
		return err
	}
	defer w.Close()
	n := 0
	for i := 0; i < *runs; i++ {
		for _, death := range []string{"refused", "blackholed"} {
			for _, flags := range []string{"master", "master,nofailover", "myself,master", "master+pfail"} {
				n++
				r := failFlagsOnce(n, death, flags)
				if r.Err == "" && r.HealedMs < 0 {
					// a verdict that rests on a deadline is confirmed by an independent second run
					if r2 := failFlagsOnce(n, death, flags); r2.Err == "" && r2.HealedMs < 0 {
						r.Confirmed = true
					} else {
						r.Err = fmt.Sprintf("did not heal within the deadline, but the re-run did (healed after %d ms, err %q): not confirmed", r2.HealedMs, r2.Err)
					}
				}
				if err := w.Write(r); err != nil {
					return err
				}
			}
		}
	}
	return nil
}
