// Package c11 feeds the vectors of Malformed.tla to a real Redis processor:
// client side frames over a downstream connection, backend side frames as the
// simulated node's answer to the request that makes the proxy parse them. The
// process hosting the proxy is this harness process itself: if it dies, the
// orchestrator sees which vector was in progress and restarts after it.
package c11

import (
	"bytes"
	"encoding/json"
	"flag"
	"fmt"
	"net"
	"regexp"
	"runtime"
	"strconv"
	"strings"
	"time"

	pbredis "github.com/samaritan-proxy/samaritan/pb/config/protocol/redis"

	"verifharness/internal/cli"
	"verifharness/internal/resp"
	"verifharness/internal/simredis"
	"verifharness/internal/sut"
)

func init() { cli.Register("c11-run", run) }

type vector struct {
	Side    string          `json:"side"`
	Ctx     string          `json:"ctx"`
	Form    string          `json:"form"`
	Payload json.RawMessage `json:"payload"`
}

type big struct {
	Kind string `json:"kind"`
	N    int    `json:"n"`
	// kind "repeat" (a run, DecodeStack.tla): the unit that is repeated n times, its class and its name
	Unit  string `json:"unit"`
	Class string `json:"class"`
	Name  string `json:"name"`
}

type record struct {
	Start     int    `json:"start,omitempty"` // marker written before a vector is executed
	ID        int    `json:"id,omitempty"`
	Vec       string `json:"vec,omitempty"`
	Outcome   string `json:"outcome,omitempty"` // what the offending / waiting client saw: reply | closed | timeout
	Reply     string `json:"reply,omitempty"`
	Witness   string `json:"witness,omitempty"` // "" ok, else what failed
	Recover   string `json:"recover,omitempty"` // "" ok: the affected backend is usable again
	Refresh   string `json:"refresh,omitempty"` // "" ok: the slot refresher of every processor went on asking (cluster-nodes)
	StackMB   int    `json:"stackMB"`
	HeapMB    int    `json:"heapMB"`    // peak of the heap in use; samples above heapConfirmMB are taken after a collection
	HeapRawMB int    `json:"heapRawMB"` // peak of the raw samples
	Err       string `json:"err,omitempty"`
	Ms        int64  `json:"ms"`

	fresh bool // start the next vector with a new proxy and new nodes
}

func bigBytes(b big) []byte {
	switch b.Kind {
	case "nest":
		return append(bytes.Repeat([]byte("*1\r\n"), b.N), []byte("$1\r\na\r\n")...)
	case "nestwide":
		return append(bytes.Repeat([]byte("*2\r\n$1\r\na\r\n"), b.N), []byte("$1\r\na\r\n")...)
	case "line":
		return append(append([]byte("+"), bytes.Repeat([]byte("x"), b.N)...), '\r', '\n')
	case "inline":
		return append(bytes.Repeat([]byte("ab "), b.N/3), '\r', '\n')
	case "bulk":
		return []byte(fmt.Sprintf("$%d\r\n%s\r\n", b.N, bytes.Repeat([]byte("y"), b.N)))
	case "arrayhdrs":
		return bytes.Repeat([]byte("*1048576\r\n"), b.N)
	case "repeat":
		return bytes.Repeat([]byte(b.Unit), b.N)
	}
	return nil
}

type cpsReply struct {
	Shape string `json:"shape"`
	Val   string `json:"val"`
}

func cpsBytes(c cpsReply) []byte {
	val := strings.NewReplacer("{00}", "\x00", "{01}", "\x01", "{ff}", "\xff").Replace(c.Val)
	switch c.Shape {
	case "bulk":
		return resp.Bytes(resp.BulkS(val))
	case "pair":
		return resp.Bytes(resp.Arr(resp.BulkS(val), resp.BulkS("plain")))
	case "nested":
		return resp.Bytes(resp.Arr(resp.Arr(resp.BulkS(val))))
	case "simple":
		return resp.Bytes(resp.Simple(val))
	default:
		return resp.Bytes(resp.Err(val))
	}
}

func payloadBytes(v vector, addr string) ([]byte, string) {
	if v.Form == "request" {
		var r reqVec
		json.Unmarshal(v.Payload, &r)
		return nil, fmt.Sprintf("%s %q", r.Class, r.Name)
	}
	if v.Form == "cps" {
		var c cpsReply
		json.Unmarshal(v.Payload, &c)
		return cpsBytes(c), fmt.Sprintf("%s(%s)", c.Shape, c.Val)
	}
	if v.Form == "big" {
		var b big
		json.Unmarshal(v.Payload, &b)
		if b.Kind == "repeat" {
			return bigBytes(b), fmt.Sprintf("%s x %d", b.Name, b.N)
		}
		return bigBytes(b), fmt.Sprintf("%s(%d)", b.Kind, b.N)
	}
	var s string
	json.Unmarshal(v.Payload, &s)
	s = strings.Replace(s, "{ADDR}", addr, -1)
	// runes that equal an ASCII letter only under Unicode case folding (long s, Kelvin sign)
	s = strings.NewReplacer("{017f}", "\u017f", "{212a}", "\u212a").Replace(s)
	switch v.Form {
	case "error":
		return []byte("-" + s + "\r\n"), s
	case "bulk":
		return resp.Bytes(resp.BulkS(s)), s
	}
	return []byte(s), s
}

type env struct {
	cl  *simredis.Cluster
	px  *sut.Redis
	pxc *sut.Redis // a second processor with a compression config (enabled)
	k   [2]string  // a key owned by each node
}

func newEnv() (*env, error) {
	cl, err := simredis.NewCluster(2, 0)
	if err != nil {
		return nil, err
	}
	px, err := sut.StartRedis(sut.RedisOpts{}, cl.Addrs())
	if err != nil {
		return nil, err
	}
	if !sut.WaitRefresh(px.Name, 3*time.Second) {
		return nil, fmt.Errorf("slot table not loaded")
	}
	pxc, err := sut.StartRedis(sut.RedisOpts{Compression: &pbredis.Compression{Enable: true, Threshold: 32, Algorithm: pbredis.Compression_SNAPPY}}, cl.Addrs())
	if err != nil {
		return nil, err
	}
	sut.WaitRefresh(pxc.Name, 3*time.Second)
	e := &env{cl: cl, px: px, pxc: pxc}
	e.k[0], e.k[1] = cl.KeyFor(0, "w0-"), cl.KeyFor(1, "w1-")
	return e, nil
}

func (e *env) close() {
	sut.StopWithin(e.px.P, 3*time.Second)
	sut.StopWithin(e.pxc.P, 3*time.Second)
	e.cl.Close()
}

// witness: another connection is still served (PING, and a keyed command on node idx within a few tries)
func (e *env) witness(idx int, tries int) string {
	c, err := sut.Dial(e.px.Addr)
	if err != nil {
		return "dial: " + err.Error()
	}
	defer c.Close()
	if v, err := c.Do(2*time.Second, "PING"); err != nil || string(v.Str) != "PONG" {
		return fmt.Sprintf("PING: %v %v", v, err)
	}
	var last string
	if tries == 0 {
		if _, err := c.Do(3*time.Second, "GET", e.k[idx]); err != nil {
			return "keyed command got no reply: " + err.Error()
		}
		return ""
	}
	for i := 0; i < tries; i++ {
		v, err := c.Do(3*time.Second, "GET", e.k[idx])
		if err != nil {
			return "keyed command got no reply: " + err.Error()
		}
		if !v.IsErr() {
			return ""
		}
		last = v.String()
		time.Sleep(30 * time.Millisecond)
	}
	return "keyed command keeps failing: " + last
}

// refreshersAlive: the slot refresher of both processors starts another round within d ("" ok)
func (e *env) refreshersAlive(d time.Duration) string {
	const ctr = "upstream.slots_refresh.total"
	ps := []*sut.Redis{e.px, e.pxc}
	base := make([]int64, len(ps))
	for i, p := range ps {
		base[i] = sut.ServiceStats(p.Name)[ctr]
	}
	dl := time.Now().Add(d)
	for {
		stuck := ""
		for i, p := range ps {
			if sut.ServiceStats(p.Name)[ctr] <= base[i] {
				stuck = fmt.Sprintf("the slot refresher of processor %d did not start another round within %v (rounds so far: %d)", i, d, base[i])
			}
		}
		if stuck == "" || time.Now().After(dl) {
			return stuck
		}
		time.Sleep(10 * time.Millisecond)
	}
}

// incomplete: a well-formed prefix of a frame that never completes; the simulated backend closes its side after it
func incomplete(v vector) bool {
	if v.Form == "truncated" {
		return true
	}
	if v.Form == "big" {
		var b big
		json.Unmarshal(v.Payload, &b)
		// a run sent by a backend: the node closes afterwards (what is left of a run of surplus frames would
		// otherwise answer the requests of the following vectors)
		return b.Kind == "arrayhdrs" || b.Kind == "repeat"
	}
	return false
}

// request vectors (form "request"): well-formed requests with adversarial argument bytes
type reqVec struct {
	Class string     `json:"class"`
	Name  string     `json:"name"`
	Reqs  [][]string `json:"reqs"`
}

var fillRe = regexp.MustCompile(`\{fill:(\d+)\}`)

// expandArg replaces the placeholders of Malformed.tla: {00} {ff} single bytes, {fill:n} n filler bytes
func expandArg(a string) []byte {
	a = fillRe.ReplaceAllStringFunc(a, func(m string) string {
		n, _ := strconv.Atoi(fillRe.FindStringSubmatch(m)[1])
		return strings.Repeat("k", n)
	})
	return []byte(strings.NewReplacer("{00}", "\x00", "{ff}", "\xff").Replace(a))
}

// clientRequests sends the requests of the vector back to back on one connection and reads one reply per request:
// "reply" (all of them), "closed", "timeout" (a request was left without a reply and the connection stayed open)
func clientRequests(c *sut.Client, rv reqVec, rec *record) {
	var raw []byte
	for _, r := range rv.Reqs {
		args := make([][]byte, len(r))
		for i, a := range r {
			args[i] = expandArg(a)
		}
		raw = resp.Append(raw, resp.CmdB(args...))
	}
	go c.Send(raw)
	dl := time.Now().Add(10 * time.Second)
	n := 0
	for n < len(rv.Reqs) {
		left := time.Until(dl)
		if left < 100*time.Millisecond {
			left = 100 * time.Millisecond
		}
		if _, err := c.Recv(left); err != nil {
			if strings.Contains(err.Error(), "timeout") {
				rec.Outcome = "timeout"
			} else {
				rec.Outcome = "closed"
			}
			rec.Reply = fmt.Sprintf("%d of %d replies", n, len(rv.Reqs))
			return
		}
		n++
	}
	rec.Outcome, rec.Reply = "reply", fmt.Sprintf("%d replies", n)
}

// isRun: the vector is a run of one unit (kind "repeat")
func isRun(v vector) bool {
	if v.Form != "big" {
		return false
	}
	var b big
	json.Unmarshal(v.Payload, &b)
	return b.Kind == "repeat"
}

// clientRun sends the whole run followed by a well-formed PING and drains the replies until +PONG, the close of the
// connection or the deadline: "reply" (k replies, then PONG), "closed", "timeout". The run is written by a second
// goroutine: a proxy that answers every unit must be read from while it is written to.
func clientRun(c *sut.Client, raw []byte, rec *record) {
	const deadline = 40 * time.Second
	t0 := time.Now()
	sent := make(chan error, 1)
	go func() {
		c.C.SetWriteDeadline(t0.Add(deadline))
		_, err := c.C.Write(raw)
		if err == nil {
			_, err = c.C.Write([]byte("PING\r\n"))
		}
		sent <- err
	}()
	n := 0
	for {
		left := time.Until(t0.Add(deadline))
		if left <= 0 {
			rec.Outcome = "timeout"
			break
		}
		v, err := c.Recv(left)
		if err != nil {
			if strings.Contains(err.Error(), "timeout") {
				rec.Outcome = "timeout"
			} else {
				rec.Outcome = "closed"
			}
			break
		}
		if v.Kind == '+' && string(v.Str) == "PONG" {
			rec.Outcome, rec.Reply = "reply", fmt.Sprintf("%d replies, then PONG", n)
			break
		}
		n++
	}
	if rec.Outcome != "reply" {
		rec.Reply = fmt.Sprintf("%d replies", n)
	}
	c.Close()
	select {
	case <-sent:
	case <-time.After(5 * time.Second):
	}
}

func mem() (int, int) {
	var m runtime.MemStats
	runtime.ReadMemStats(&m)
	return int(m.StackInuse >> 20), int(m.HeapInuse >> 20)
}

// heapConfirmMB: a heap sample above this is confirmed after a garbage collection, so that what is reported is memory
// the proxy holds, not buffers of closed connections the collector has not reclaimed yet (each connection may
// legitimately allocate a declared 512 MiB bulk up front; how many dead ones are around is a matter of GC timing)
const heapConfirmMB = 900

// sampler records the peaks of stack and heap in use (MiB above the level at its start) until stop() is called.
type sampler struct {
	baseS, baseH   int
	peakS, peakH   int
	rawH           int
	stopCh, doneCh chan struct{}
}

func startSampler() *sampler {
	runtime.GC()
	sm := &sampler{stopCh: make(chan struct{}), doneCh: make(chan struct{})}
	sm.baseS, sm.baseH = mem()
	go func() {
		defer close(sm.doneCh)
		for {
			s, h := mem()
			if s > sm.peakS {
				sm.peakS = s
			}
			if h > sm.rawH {
				sm.rawH = h
			}
			if h > sm.peakH {
				if h-sm.baseH > heapConfirmMB {
					runtime.GC()
					_, h = mem()
				}
				if h > sm.peakH {
					sm.peakH = h
				}
			}
			select {
			case <-sm.stopCh:
				return
			case <-time.After(2 * time.Millisecond):
			}
		}
	}()
	return sm
}

// stop returns the peaks: stack, heap (confirmed), heap (raw samples)
func (sm *sampler) stop() (int, int, int) {
	close(sm.stopCh)
	<-sm.doneCh
	return sm.peakS - sm.baseS, sm.peakH - sm.baseH, sm.rawH - sm.baseH
}

func (e *env) runVector(id int, v vector) (rec record) {
	rec = record{ID: id}
	t0 := time.Now()
	defer func() { rec.Ms = int64(time.Since(t0) / time.Millisecond) }()
	raw, label := payloadBytes(v, e.cl.Nodes[0].Addr)
	if len(label) > 60 {
		label = label[:60]
	}
	rec.Vec = fmt.Sprintf("%s/%s/%s %q", v.Side, v.Ctx, v.Form, label)
	sm := startSampler()
	defer func() {
		rec.StackMB, rec.HeapMB, rec.HeapRawMB = sm.stop()
		runtime.GC()
	}()
	node := e.cl.Nodes[0]
	other := 1
	read := func(c *sut.Client, d time.Duration) {
		v, err := c.Recv(d)
		switch {
		case err == nil:
			rec.Outcome, rec.Reply = "reply", v.String()
		case strings.Contains(err.Error(), "timeout"):
			rec.Outcome = "timeout"
		default:
			rec.Outcome = "closed"
		}
	}
	switch {
	case v.Side == "client":
		c, err := sut.Dial(e.px.Addr)
		if err != nil {
			rec.Err = err.Error()
			return
		}
		defer c.Close()
		if v.Form == "request" {
			var rv reqVec
			if err := json.Unmarshal(v.Payload, &rv); err != nil {
				rec.Err = err.Error()
				return
			}
			clientRequests(c, rv, &rec)
			rec.Witness = e.witness(other, 1)
			return
		}
		if isRun(v) {
			clientRun(c, raw, &rec)
			rec.Witness = e.witness(other, 1)
			return
		}
		go c.Send(raw)
		// a frame that is merely incomplete is not an error: the proxy may keep waiting; close our side after a while
		rv, err := c.Recv(400 * time.Millisecond)
		switch {
		case err == nil:
			rec.Outcome, rec.Reply = "reply", rv.String()
		case strings.Contains(err.Error(), "timeout"):
			if tc, ok := c.C.(*net.TCPConn); ok {
				tc.CloseWrite()
			}
			read(c, 3*time.Second)
			if rec.Outcome == "timeout" {
				rec.Outcome = "timeout-after-eof"
			}
		default:
			rec.Outcome = "closed"
		}
		rec.Witness = e.witness(other, 1)
		return
	case v.Ctx == "keyed-cps":
		node.Script(&simredis.Scripted{Match: func(c string, a [][]byte) bool { return c == "get" }, Raw: raw, Times: 1})
		c, err := sut.Dial(e.pxc.Addr)
		if err != nil {
			rec.Err = err.Error()
			return
		}
		defer c.Close()
		c.SendCmd("GET", e.k[0])
		read(c, 4*time.Second)
		// the compressing processor itself must still serve
		if p, err := c.Do(2*time.Second, "PING"); err != nil || string(p.Str) != "PONG" {
			rec.Witness = fmt.Sprintf("compressing processor not serving afterwards: %v %v", p, err)
		}
	case v.Ctx == "keyed-child":
		// the reply to one child of a request the proxy splits: MGET over a key of each node
		node.Script(&simredis.Scripted{Match: func(c string, a [][]byte) bool { return c == "get" && len(a) > 1 && string(a[1]) == e.k[0] },
			Raw: raw, Times: 1})
		c, err := sut.Dial(e.px.Addr)
		if err != nil {
			rec.Err = err.Error()
			return
		}
		defer c.Close()
		c.SendCmd("MGET", e.k[0], e.k[1])
		read(c, 4*time.Second)
	case v.Ctx == "keyed" || v.Ctx == "scan":
		cmd := "get"
		if v.Ctx == "scan" {
			cmd = "scan"
			// SCAN goes to the first host of the sorted list: script both nodes
		}
		sc := &simredis.Scripted{Match: func(c string, a [][]byte) bool { return c == cmd }, Raw: raw, Times: 1, Close: incomplete(v)}
		node.Script(sc)
		if v.Ctx == "scan" {
			e.cl.Nodes[1].Script(&simredis.Scripted{Match: sc.Match, Raw: raw, Times: 1, Close: incomplete(v)})
		}
		c, err := sut.Dial(e.px.Addr)
		if err != nil {
			rec.Err = err.Error()
			return
		}
		defer c.Close()
		if v.Ctx == "scan" {
			c.SendCmd("SCAN", "0")
		} else {
			c.SendCmd("GET", e.k[0])
		}
		read(c, 4*time.Second)
		rec.fresh = isRun(v)
	case v.Ctx == "cluster-nodes":
		for _, n := range e.cl.Nodes {
			n.ClearLog()
			n.Script(&simredis.Scripted{Match: func(c string, a [][]byte) bool { return c == "cluster" }, Raw: raw, Times: 2, Close: incomplete(v)})
		}
		// the refresher asks every 200 ms (fast timers); wait until a node has answered with the payload
		dl := time.Now().Add(1500 * time.Millisecond)
		seen := false
		for time.Now().Before(dl) && !seen {
			for _, n := range e.cl.Nodes {
				for _, r := range n.Records() {
					if r.Cmd() == "cluster" && r.RawRepl != nil {
						seen = true
					}
				}
			}
			time.Sleep(5 * time.Millisecond)
		}
		if !seen {
			rec.Err = "the refresher did not ask within 1.5 s"
		}
		time.Sleep(20 * time.Millisecond)
		rec.Outcome = "n/a"
	case v.Ctx == "readonly":
		node.Script(&simredis.Scripted{Match: func(c string, a [][]byte) bool { return c == "readonly" }, Raw: raw, Times: 1})
		node.ResetConns(true)
		time.Sleep(30 * time.Millisecond)
		c, err := sut.Dial(e.px.Addr)
		if err != nil {
			rec.Err = err.Error()
			return
		}
		defer c.Close()
		c.SendCmd("GET", e.k[0])
		read(c, 4*time.Second)
	case v.Ctx == "asking":
		key := e.k[0] + "-ask"
		slot := simredis.Slot([]byte(key))
		src := e.cl.Owner(slot)
		dst := 1 - src
		e.cl.SetMigrating(slot, src, dst)
		e.cl.Nodes[dst].Script(&simredis.Scripted{Match: func(c string, a [][]byte) bool { return c == "asking" }, Raw: raw, Times: 1})
		c, err := sut.Dial(e.px.Addr)
		if err != nil {
			rec.Err = err.Error()
			return
		}
		defer c.Close()
		c.SendCmd("GET", key)
		read(c, 4*time.Second)
		e.cl.Finalise(slot)
		e.cl.MoveSlot(slot, src)
	}
	for _, n := range e.cl.Nodes {
		n.ClearScripts()
	}
	if v.Ctx == "cluster-nodes" {
		// the refresher's own request got its answer: it goes on asking (a request that is never answered blocks it for ever)
		rec.Refresh = e.refreshersAlive(6 * time.Second)
		// a backend that lies about the topology may make keyed commands fail (error replies) until the
		// next refresh; the proxy must keep answering and must recover once the backend tells the truth again
		rec.Witness = e.witness(other, 0)
		rec.Recover = e.witness(0, 60)
		if rec.Recover == "" {
			rec.Recover = e.witness(other, 60)
		}
		return
	}
	if rec.Witness == "" {
		rec.Witness = e.witness(other, 3)
	}
	rec.Recover = e.witness(0, 8)
	return
}

func run(args []string) error {
	fs := flag.NewFlagSet("c11-run", flag.ContinueOnError)
	in := fs.String("in", "", "vectors (ndjson)")
	out := fs.String("out", "", "results (ndjson, appended)")
	skip := fs.Int("skip", 0, "vectors already processed")
	if err := fs.Parse(args); err != nil {
		return err
	}
	sut.FastRefresh()
	e, err := newEnv()
	if err != nil {
		return err
	}
	defer func() { e.close() }()
	f, err := openAppend(*out)
	if err != nil {
		return err
	}
	defer f.Close()
	write := func(r record) {
		b, _ := json.Marshal(r)
		f.Write(append(b, '\n'))
		f.Sync()
	}
	id := 0
	return cli.ReadNDJSON(*in, func(line []byte) error {
		id++
		if id <= *skip {
			return nil
		}
		var v vector
		if err := json.Unmarshal(line, &v); err != nil {
			return err
		}
		write(record{Start: id})
		rec := e.runVector(id, v)
		write(rec)
		if rec.Witness != "" || rec.Recover != "" || rec.Refresh != "" || rec.Err != "" || rec.fresh {
			// start from a clean proxy for the next vector
			e.close()
			if e, err = newEnv(); err != nil {
				return err
			}
		}
		return nil
	})
}
