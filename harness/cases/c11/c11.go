// Package c11 feeds the vectors of Malformed.tla to a real Redis processor:
// client side frames over a downstream connection, backend side frames as the
// simulated node's answer to the request that makes the proxy parse them. The
// process hosting the proxy is this harness process itself: if it dies, the
// orchestrator sees which vector was in progress and restarts after it.
package c11

import (
	"bytes"
	"encoding/json"
	"flag"
	"fmt"
	"net"
	"runtime"
	"strings"
	"time"

	pbredis "github.com/samaritan-proxy/samaritan/pb/config/protocol/redis"

	"verifharness/internal/cli"
	"verifharness/internal/resp"
	"verifharness/internal/simredis"
	"verifharness/internal/sut"
)

func init() { cli.Register("c11-run", run) }

type vector struct {
	Side    string          `json:"side"`
	Ctx     string          `json:"ctx"`
	Form    string          `json:"form"`
	Payload json.RawMessage `json:"payload"`
}

type big struct {
	Kind string `json:"kind"`
	N    int    `json:"n"`
}

type record struct {
	Start   int    `json:"start,omitempty"` // marker written before a vector is executed
	ID      int    `json:"id,omitempty"`
	Vec     string `json:"vec,omitempty"`
	Outcome string `json:"outcome,omitempty"` // what the offending / waiting client saw: reply | closed | timeout
	Reply   string `json:"reply,omitempty"`
	Witness string `json:"witness,omitempty"` // "" ok, else what failed
	Recover string `json:"recover,omitempty"` // "" ok: the affected backend is usable again
	StackMB int    `json:"stackMB"`
	HeapMB  int    `json:"heapMB"`
	Err     string `json:"err,omitempty"`
}

func bigBytes(b big) []byte {
	switch b.Kind {
	case "nest":
		return append(bytes.Repeat([]byte("*1\r\n"), b.N), []byte("$1\r\na\r\n")...)
	case "nestwide":
		return append(bytes.Repeat([]byte("*2\r\n$1\r\na\r\n"), b.N), []byte("$1\r\na\r\n")...)
	case "line":
		return append(append([]byte("+"), bytes.Repeat([]byte("x"), b.N)...), '\r', '\n')
	case "inline":
		return append(bytes.Repeat([]byte("ab "), b.N/3), '\r', '\n')
	case "bulk":
		return []byte(fmt.Sprintf("$%d\r\n%s\r\n", b.N, bytes.Repeat([]byte("y"), b.N)))
	case "arrayhdrs":
		return bytes.Repeat([]byte("*1048576\r\n"), b.N)
	}
	return nil
}

type cpsReply struct {
	Shape string `json:"shape"`
	Val   string `json:"val"`
}

func cpsBytes(c cpsReply) []byte {
	val := strings.NewReplacer("{00}", "\x00", "{01}", "\x01", "{ff}", "\xff").Replace(c.Val)
	switch c.Shape {
	case "bulk":
		return resp.Bytes(resp.BulkS(val))
	case "pair":
		return resp.Bytes(resp.Arr(resp.BulkS(val), resp.BulkS("plain")))
	case "nested":
		return resp.Bytes(resp.Arr(resp.Arr(resp.BulkS(val))))
	case "simple":
		return resp.Bytes(resp.Simple(val))
	default:
		return resp.Bytes(resp.Err(val))
	}
}

func payloadBytes(v vector, addr string) ([]byte, string) {
	if v.Form == "cps" {
		var c cpsReply
		json.Unmarshal(v.Payload, &c)
		return cpsBytes(c), fmt.Sprintf("%s(%s)", c.Shape, c.Val)
	}
	if v.Form == "big" {
		var b big
		json.Unmarshal(v.Payload, &b)
		return bigBytes(b), fmt.Sprintf("%s(%d)", b.Kind, b.N)
	}
	var s string
	json.Unmarshal(v.Payload, &s)
	s = strings.Replace(s, "{ADDR}", addr, -1)
	switch v.Form {
	case "error":
		return []byte("-" + s + "\r\n"), s
	case "bulk":
		return resp.Bytes(resp.BulkS(s)), s
	}
	return []byte(s), s
}

type env struct {
	cl  *simredis.Cluster
	px  *sut.Redis
	pxc *sut.Redis // a second processor with a compression config (enabled)
	k   [2]string  // a key owned by each node
}

func newEnv() (*env, error) {
	cl, err := simredis.NewCluster(2, 0)
	if err != nil {
		return nil, err
	}
	px, err := sut.StartRedis(sut.RedisOpts{}, cl.Addrs())
	if err != nil {
		return nil, err
	}
	if !sut.WaitRefresh(px.Name, 3*time.Second) {
		return nil, fmt.Errorf("slot table not loaded")
	}
	pxc, err := sut.StartRedis(sut.RedisOpts{Compression: &pbredis.Compression{Enable: true, Threshold: 32, Algorithm: pbredis.Compression_SNAPPY}}, cl.Addrs())
	if err != nil {
		return nil, err
	}
	sut.WaitRefresh(pxc.Name, 3*time.Second)
	e := &env{cl: cl, px: px, pxc: pxc}
	e.k[0], e.k[1] = cl.KeyFor(0, "w0-"), cl.KeyFor(1, "w1-")
	return e, nil
}

func (e *env) close() {
	sut.StopWithin(e.px.P, 3*time.Second)
	sut.StopWithin(e.pxc.P, 3*time.Second)
	e.cl.Close()
}

// witness: another connection is still served (PING, and a keyed command on node idx within a few tries)
func (e *env) witness(idx int, tries int) string {
	c, err := sut.Dial(e.px.Addr)
	if err != nil {
		return "dial: " + err.Error()
	}
	defer c.Close()
	if v, err := c.Do(2*time.Second, "PING"); err != nil || string(v.Str) != "PONG" {
		return fmt.Sprintf("PING: %v %v", v, err)
	}
	var last string
	if tries == 0 {
		if _, err := c.Do(3*time.Second, "GET", e.k[idx]); err != nil {
			return "keyed command got no reply: " + err.Error()
		}
		return ""
	}
	for i := 0; i < tries; i++ {
		v, err := c.Do(3*time.Second, "GET", e.k[idx])
		if err != nil {
			return "keyed command got no reply: " + err.Error()
		}
		if !v.IsErr() {
			return ""
		}
		last = v.String()
		time.Sleep(30 * time.Millisecond)
	}
	return "keyed command keeps failing: " + last
}

// incomplete: a well-formed prefix of a frame that never completes; the simulated backend closes its side after it
func incomplete(v vector) bool {
	if v.Form == "truncated" {
		return true
	}
	if v.Form == "big" {
		var b big
		json.Unmarshal(v.Payload, &b)
		return b.Kind == "arrayhdrs"
	}
	return false
}

func mem() (int, int) {
	var m runtime.MemStats
	runtime.ReadMemStats(&m)
	return int(m.StackInuse >> 20), int(m.HeapInuse >> 20)
}

func (e *env) runVector(id int, v vector) (rec record) {
	rec = record{ID: id}
	raw, label := payloadBytes(v, e.cl.Nodes[0].Addr)
	if len(label) > 60 {
		label = label[:60]
	}
	rec.Vec = fmt.Sprintf("%s/%s/%s %q", v.Side, v.Ctx, v.Form, label)
	runtime.GC()
	baseS, baseH := mem()
	peakS, peakH := 0, 0
	stop := make(chan struct{})
	sampled := make(chan struct{})
	go func() {
		defer close(sampled)
		for {
			s, h := mem()
			if s > peakS {
				peakS = s
			}
			if h > peakH {
				peakH = h
			}
			select {
			case <-stop:
				return
			case <-time.After(2 * time.Millisecond):
			}
		}
	}()
	defer func() {
		close(stop)
		<-sampled
		rec.StackMB, rec.HeapMB = peakS-baseS, peakH-baseH
		runtime.GC()
	}()
	node := e.cl.Nodes[0]
	other := 1
	read := func(c *sut.Client, d time.Duration) {
		v, err := c.Recv(d)
		switch {
		case err == nil:
			rec.Outcome, rec.Reply = "reply", v.String()
		case strings.Contains(err.Error(), "timeout"):
			rec.Outcome = "timeout"
		default:
			rec.Outcome = "closed"
		}
	}
	switch {
	case v.Side == "client":
		c, err := sut.Dial(e.px.Addr)
		if err != nil {
			rec.Err = err.Error()
			return
		}
		defer c.Close()
		go c.Send(raw)
		// a frame that is merely incomplete is not an error: the proxy may keep waiting; close our side after a while
		rv, err := c.Recv(400 * time.Millisecond)
		switch {
		case err == nil:
			rec.Outcome, rec.Reply = "reply", rv.String()
		case strings.Contains(err.Error(), "timeout"):
			if tc, ok := c.C.(*net.TCPConn); ok {
				tc.CloseWrite()
			}
			read(c, 3*time.Second)
			if rec.Outcome == "timeout" {
				rec.Outcome = "timeout-after-eof"
			}
		default:
			rec.Outcome = "closed"
		}
		rec.Witness = e.witness(other, 1)
		return
	case v.Ctx == "keyed-cps":
		node.Script(&simredis.Scripted{Match: func(c string, a [][]byte) bool { return c == "get" }, Raw: raw, Times: 1})
		c, err := sut.Dial(e.pxc.Addr)
		if err != nil {
			rec.Err = err.Error()
			return
		}
		defer c.Close()
		c.SendCmd("GET", e.k[0])
		read(c, 4*time.Second)
		// the compressing processor itself must still serve
		if p, err := c.Do(2*time.Second, "PING"); err != nil || string(p.Str) != "PONG" {
			rec.Witness = fmt.Sprintf("compressing processor not serving afterwards: %v %v", p, err)
		}
	case v.Ctx == "keyed" || v.Ctx == "scan":
		cmd := "get"
		if v.Ctx == "scan" {
			cmd = "scan"
			// SCAN goes to the first host of the sorted list: script both nodes
		}
		sc := &simredis.Scripted{Match: func(c string, a [][]byte) bool { return c == cmd }, Raw: raw, Times: 1, Close: incomplete(v)}
		node.Script(sc)
		if v.Ctx == "scan" {
			e.cl.Nodes[1].Script(&simredis.Scripted{Match: sc.Match, Raw: raw, Times: 1, Close: incomplete(v)})
		}
		c, err := sut.Dial(e.px.Addr)
		if err != nil {
			rec.Err = err.Error()
			return
		}
		defer c.Close()
		if v.Ctx == "scan" {
			c.SendCmd("SCAN", "0")
		} else {
			c.SendCmd("GET", e.k[0])
		}
		read(c, 4*time.Second)
	case v.Ctx == "cluster-nodes":
		for _, n := range e.cl.Nodes {
			n.ClearLog()
			n.Script(&simredis.Scripted{Match: func(c string, a [][]byte) bool { return c == "cluster" }, Raw: raw, Times: 2, Close: incomplete(v)})
		}
		// the refresher asks every 200 ms (fast timers); wait until a node has answered with the payload
		dl := time.Now().Add(1500 * time.Millisecond)
		seen := false
		for time.Now().Before(dl) && !seen {
			for _, n := range e.cl.Nodes {
				for _, r := range n.Records() {
					if r.Cmd() == "cluster" && r.RawRepl != nil {
						seen = true
					}
				}
			}
			time.Sleep(5 * time.Millisecond)
		}
		if !seen {
			rec.Err = "the refresher did not ask within 1.5 s"
		}
		time.Sleep(20 * time.Millisecond)
		rec.Outcome = "n/a"
	case v.Ctx == "readonly":
		node.Script(&simredis.Scripted{Match: func(c string, a [][]byte) bool { return c == "readonly" }, Raw: raw, Times: 1})
		node.ResetConns(true)
		time.Sleep(30 * time.Millisecond)
		c, err := sut.Dial(e.px.Addr)
		if err != nil {
			rec.Err = err.Error()
			return
		}
		defer c.Close()
		c.SendCmd("GET", e.k[0])
		read(c, 4*time.Second)
	case v.Ctx == "asking":
		key := e.k[0] + "-ask"
		slot := simredis.Slot([]byte(key))
		src := e.cl.Owner(slot)
		dst := 1 - src
		e.cl.SetMigrating(slot, src, dst)
		e.cl.Nodes[dst].Script(&simredis.Scripted{Match: func(c string, a [][]byte) bool { return c == "asking" }, Raw: raw, Times: 1})
		c, err := sut.Dial(e.px.Addr)
		if err != nil {
			rec.Err = err.Error()
			return
		}
		defer c.Close()
		c.SendCmd("GET", key)
		read(c, 4*time.Second)
		e.cl.Finalise(slot)
		e.cl.MoveSlot(slot, src)
	}
	for _, n := range e.cl.Nodes {
		n.ClearScripts()
	}
	if v.Ctx == "cluster-nodes" {
		// a backend that lies about the topology may make keyed commands fail (error replies) until the
		// next refresh; the proxy must keep answering and must recover once the backend tells the truth again
		rec.Witness = e.witness(other, 0)
		rec.Recover = e.witness(0, 60)
		if rec.Recover == "" {
			rec.Recover = e.witness(other, 60)
		}
		return
	}
	if rec.Witness == "" {
		rec.Witness = e.witness(other, 3)
	}
	rec.Recover = e.witness(0, 8)
	return
}

func run(args []string) error {
	fs := flag.NewFlagSet("c11-run", flag.ContinueOnError)
	in := fs.String("in", "", "vectors (ndjson)")
	out := fs.String("out", "", "results (ndjson, appended)")
	skip := fs.Int("skip", 0, "vectors already processed")
	if err := fs.Parse(args); err != nil {
		return err
	}
	sut.FastRefresh()
	e, err := newEnv()
	if err != nil {
		return err
	}
	defer func() { e.close() }()
	f, err := openAppend(*out)
	if err != nil {
		return err
	}
	defer f.Close()
	write := func(r record) {
		b, _ := json.Marshal(r)
		f.Write(append(b, '\n'))
		f.Sync()
	}
	id := 0
	return cli.ReadNDJSON(*in, func(line []byte) error {
		id++
		if id <= *skip {
			return nil
		}
		var v vector
		if err := json.Unmarshal(line, &v); err != nil {
			return err
		}
		write(record{Start: id})
		rec := e.runVector(id, v)
		write(rec)
		if rec.Witness != "" || rec.Recover != "" || rec.Err != "" {
			// start from a clean proxy for the next vector
			e.close()
			if e, err = newEnv(); err != nil {
				return err
			}
		}
		return nil
	})
}
