package c11

// c11-fault replays the strata of BackendFault.tla on a real Redis processor: a backend (node B) that owes the
// proxy `owed` replies (it holds them: a slow node), optionally a request that node A redirects to B with
// "-ASK <slot> <B>", and then the fault - B closes / resets the connection, B answers with bytes that are not
// RESP, the processor is stopped, B is removed from the host set - while the goroutines of the proxy's connection
// to B are where the stratum says (writer blocked in the ASKING hand-over, blocked in the hand-off of the
// redirected request, redirected request queued behind a blocked writer, both in flight, ...).
// The window is confirmed from the verifhook points of that connection and from what B has received; the
// property predicate is judged by checks/c11.py from what is reported here: the process lives (it is this
// process), every waiting client got a reply or was closed, another connection is served, B is usable again,
// stack and heap stay bounded.

import (
	"encoding/json"
	"flag"
	"fmt"
	"math/rand"
	"strings"
	"sync"
	"time"

	"github.com/samaritan-proxy/samaritan/host"
	predis "github.com/samaritan-proxy/samaritan/proc/redis"
	"github.com/samaritan-proxy/samaritan/utils/verifhook"

	"verifharness/internal/cli"
	"verifharness/internal/simredis"
	"verifharness/internal/sut"
)

func init() { cli.Register("c11-fault", runFault) }

type stratum struct {
	Win          string `json:"win"`
	Fault        string `json:"fault"`
	Owed         int    `json:"owed"`         // replies B owes when the redirected request arrives (real numbers)
	AskingOnWire bool   `json:"askingOnWire"` // B has received ASKING when the fault strikes
	AskOnWire    bool   `json:"askOnWire"`    // B has received the redirected request
	Rep          int    `json:"rep"`          // repetition (race strata)
}

type faultRecord struct {
	Start     int    `json:"start,omitempty"`
	ID        int    `json:"id,omitempty"`
	Name      string `json:"name,omitempty"`
	Window    bool   `json:"window"`              // the window was reached (hooks + what B received)
	WindowWhy string `json:"windowWhy,omitempty"` // why not
	Ask       string `json:"ask,omitempty"`       // what the client of the redirected request saw: reply | closed | timeout
	AskReply  string `json:"askReply,omitempty"`
	Fillers   string `json:"fillers,omitempty"` // "" ok, else which waiting clients got neither their replies nor a close
	Replies   int    `json:"replies"`           // replies received by the waiting clients
	Witness   string `json:"witness,omitempty"`
	Recover   string `json:"recover,omitempty"`
	Stop      string `json:"stop,omitempty"` // fault "stop": "" the processor stopped, else it did not within the deadline
	StackMB   int    `json:"stackMB"`
	HeapMB    int    `json:"heapMB"`
	Err       string `json:"err,omitempty"`
	Ms        int64  `json:"ms"`
}

// observer of the hook points of the connection(s) to node B
type faultObs struct {
	mu     sync.Mutex
	baddr  string
	askKey string
	isB    map[interface{}]bool
	cnt    map[string]int  // point -> calls on a connection to B
	ask    map[string]bool // point -> seen with the redirected request
}

func (o *faultObs) hook(point string, a, b interface{}) {
	if !strings.HasPrefix(point, "client.") || a == nil {
		return
	}
	o.mu.Lock()
	defer o.mu.Unlock()
	is, ok := o.isB[a]
	if !ok {
		d := predis.VerifDescribe(a)
		is = d.Kind == "client" && d.Addr == o.baddr
		o.isB[a] = is
	}
	if !is {
		return
	}
	o.cnt[point]++
	if b != nil {
		if d := predis.VerifDescribe(b); len(d.Args) >= 2 && d.Args[1] == o.askKey {
			o.ask[point] = true
		}
	}
}

func (o *faultObs) seen(point string) bool {
	o.mu.Lock()
	defer o.mu.Unlock()
	return o.ask[point]
}

func (o *faultObs) count(point string) int {
	o.mu.Lock()
	defer o.mu.Unlock()
	return o.cnt[point]
}

func waitFor(d time.Duration, f func() bool) bool {
	dl := time.Now().Add(d)
	for {
		if f() {
			return true
		}
		if time.Now().After(dl) {
			return false
		}
		time.Sleep(200 * time.Microsecond)
	}
}

const perConn = 16 // requests per waiting client (a session holds up to 32)

func received(n *simredis.Node, cmd, key string) bool {
	for _, r := range n.Records() {
		if r.Cmd() == cmd && (key == "" || (len(r.Args) > 1 && string(r.Args[1]) == key)) {
			return true
		}
	}
	return false
}

func runStratum(id int, s stratum, rnd *rand.Rand) (rec faultRecord) {
	t0 := time.Now()
	rec = faultRecord{ID: id, Name: fmt.Sprintf("%s/%s", s.Win, s.Fault)}
	defer func() { rec.Ms = int64(time.Since(t0) / time.Millisecond) }()
	cl, err := simredis.NewCluster(2, 0)
	if err != nil {
		rec.Err = err.Error()
		return
	}
	defer cl.Close()
	px, err := sut.StartRedis(sut.RedisOpts{}, cl.Addrs())
	if err != nil {
		rec.Err = err.Error()
		return
	}
	stopped := false
	defer func() {
		if !stopped {
			sut.StopWithin(px.P, 5*time.Second)
		}
	}()
	if !sut.WaitRefresh(px.Name, 5*time.Second) {
		rec.Err = "slot table not loaded"
		return
	}
	A, B := cl.Nodes[0], cl.Nodes[1]
	keyA, keyB, askKey := cl.KeyFor(0, "a-"), cl.KeyFor(1, "b-"), cl.KeyFor(0, "ask-")
	obs := &faultObs{baddr: B.Addr, askKey: askKey, isB: map[interface{}]bool{}, cnt: map[string]int{}, ask: map[string]bool{}}
	verifhook.Set(obs.hook)
	defer verifhook.Set(nil)

	// memory sampler (the whole stratum)
	sm := startSampler()
	defer func() { rec.StackMB, rec.HeapMB, _ = sm.stop() }()

	// warm up: both backend connections exist, READONLY has been answered
	wc, err := sut.Dial(px.Addr)
	if err != nil {
		rec.Err = err.Error()
		return
	}
	defer wc.Close()
	for _, k := range []string{keyA, keyB} {
		if v, err := wc.Do(3*time.Second, "GET", k); err != nil || v.IsErr() {
			rec.Err = fmt.Sprintf("warm up GET %s: %v %v", k, v, err)
			return
		}
	}

	// B becomes slow: it reads and holds its replies. With fault "garbage" the first reply it holds is not RESP.
	B.SetGate(true)
	if s.Fault == "garbage" {
		B.Script(&simredis.Scripted{Match: func(string, [][]byte) bool { return true }, Raw: []byte("$abc\r\n"), Times: 1})
	}
	type filler struct {
		c *sut.Client
		n int
	}
	var fillers []*filler
	defer func() {
		for _, f := range fillers {
			f.c.Close()
		}
	}()
	getB := []byte("*2\r\n$3\r\nGET\r\n$" + fmt.Sprint(len(keyB)) + "\r\n" + keyB + "\r\n")
	for left := s.Owed; left > 0; left -= perConn {
		n := perConn
		if left < n {
			n = left
		}
		c, err := sut.Dial(px.Addr)
		if err != nil {
			rec.Err = err.Error()
			return
		}
		fillers = append(fillers, &filler{c: c, n: n})
		if err := c.Send([]byte(strings.Repeat(string(getB), n))); err != nil {
			rec.Err = err.Error()
			return
		}
	}
	if !B.WaitPending(s.Owed, 10*time.Second) {
		rec.Err = fmt.Sprintf("node B received %d of %d requests", B.Pending(), s.Owed)
		return
	}

	// the redirected request: A answers it with -ASK <slot> <B>
	isAsk := strings.HasPrefix(s.Win, "ask-")
	var ac *sut.Client
	if isAsk {
		A.Script(&simredis.Scripted{
			Match: func(c string, a [][]byte) bool { return c == "get" && len(a) > 1 && string(a[1]) == askKey },
			Raw:   []byte(fmt.Sprintf("-ASK %d %s\r\n", simredis.Slot([]byte(askKey)), B.Addr)), Times: 1})
		if ac, err = sut.Dial(px.Addr); err != nil {
			rec.Err = err.Error()
			return
		}
		defer ac.Close()
		if err := ac.SendCmd("GET", askKey); err != nil {
			rec.Err = err.Error()
			return
		}
	}

	// the window
	const winTO = 5 * time.Second
	settle := func() { time.Sleep(3 * time.Millisecond) }
	switch s.Win {
	case "ask-handover-blocked":
		// the writer has taken the redirected request and has not passed the ASKING hand-over
		ok := waitFor(winTO, func() bool { return obs.seen("client.loopWrite.got") })
		settle()
		switch {
		case !ok:
			rec.WindowWhy = "the writer of B's connection never took the redirected request"
		case obs.seen("client.loopWrite.asked"):
			rec.WindowWhy = "the ASKING hand-over did not block"
		default:
			rec.Window = true
		}
	case "ask-handoff-blocked":
		ok := waitFor(winTO, func() bool { return obs.seen("client.loopWrite.handoff") })
		settle()
		switch {
		case !ok:
			rec.WindowWhy = "the writer never reached the hand-off of the redirected request"
		case obs.seen("client.loopWrite.handed"):
			rec.WindowWhy = "the hand-off did not block"
		default:
			rec.Window = true
		}
	case "ask-queued-blocked":
		ok := waitFor(winTO, func() bool { return obs.seen("client.Send.enqueued") })
		settle()
		switch {
		case !ok:
			rec.WindowWhy = "the redirected request was never queued on B's connection"
		case obs.seen("client.loopWrite.got"):
			rec.WindowWhy = "the writer was not blocked: it took the redirected request"
		default:
			rec.Window = true
		}
	case "ask-inflight":
		ok := waitFor(winTO, func() bool { return obs.seen("client.loopWrite.handed") && B.Pending() >= s.Owed+2 })
		if !ok {
			rec.WindowWhy = "ASKING and the redirected request did not both reach B"
		} else {
			rec.Window = true
		}
	case "plain-blocked":
		ok := waitFor(winTO, func() bool { return obs.count("client.loopWrite.handoff") >= s.Owed })
		settle()
		switch {
		case !ok:
			rec.WindowWhy = "the writer never reached the hand-off of the last request"
		case obs.count("client.loopWrite.handed") >= obs.count("client.loopWrite.handoff"):
			rec.WindowWhy = "the hand-off did not block"
		default:
			rec.Window = true
		}
	case "plain-inflight":
		ok := waitFor(winTO, func() bool { return obs.count("client.loopWrite.handed") >= s.Owed })
		if !ok {
			rec.WindowWhy = "not every request was handed to the reader"
		} else {
			rec.Window = true
		}
	case "ask-handover-race":
		// cannot be forced from outside: strike a random moment after the redirected request was sent
		time.Sleep(time.Duration(rnd.Intn(400)) * time.Microsecond)
		rec.Window = obs.seen("client.loopWrite.got") && !obs.seen("client.loopWrite.asked")
		rec.WindowWhy = "race stratum"
	default:
		rec.Err = "unknown window " + s.Win
		return
	}
	if rec.Window && isAsk && s.Win != "ask-handover-race" {
		// what B has received must be what the model says
		if got := received(B, "asking", ""); got != s.AskingOnWire {
			rec.Window, rec.WindowWhy = false, fmt.Sprintf("B received ASKING: %v, model: %v", got, s.AskingOnWire)
		} else if got := received(B, "get", askKey); got != s.AskOnWire {
			rec.Window, rec.WindowWhy = false, fmt.Sprintf("B received the redirected request: %v, model: %v", got, s.AskOnWire)
		}
	}

	// the fault
	switch s.Fault {
	case "eof":
		B.ResetConns(false)
	case "rst":
		B.ResetConns(true)
	case "garbage":
		if B.Release(1) != 1 {
			rec.Err = "node B holds no reply to spoil"
			return
		}
	case "stop":
		stopped = true
		if !sut.StopWithin(px.P, 10*time.Second) {
			rec.Stop = "Stop did not return within 10 s"
		}
	case "remove":
		done := make(chan struct{})
		go func() {
			px.P.OnSvcHostRemove([]*host.Host{host.New(B.Addr)})
			close(done)
		}()
		select {
		case <-done:
		case <-time.After(10 * time.Second):
			rec.Stop = "OnSvcHostRemove did not return within 10 s"
		}
	default:
		rec.Err = "unknown fault " + s.Fault
		return
	}

	// B is no longer slow and tells the truth again: a request that reaches it from now on (over a new connection, e.g.
	// the redirected request when the fault was quicker than the redirection) is answered
	B.ClearScripts()
	A.ClearScripts()
	B.SetGate(false)

	// every waiting client gets its replies or is closed
	const replyTO = 8 * time.Second
	dl := time.Now().Add(replyTO)
	if ac != nil {
		v, err := ac.Recv(time.Until(dl))
		switch {
		case err == nil:
			rec.Ask, rec.AskReply = "reply", v.String()
		case strings.Contains(err.Error(), "timeout"):
			rec.Ask = "timeout"
		default:
			rec.Ask = "closed"
		}
	}
	var bad []string
	for i, f := range fillers {
		for k := 0; k < f.n; k++ {
			left := time.Until(dl)
			if left < 50*time.Millisecond {
				left = 50 * time.Millisecond
			}
			_, err := f.c.Recv(left)
			if err == nil {
				rec.Replies++
				continue
			}
			if strings.Contains(err.Error(), "timeout") {
				bad = append(bad, fmt.Sprintf("client %d: %d of %d replies", i, k, f.n))
			}
			break
		}
		if len(bad) > 3 {
			break
		}
	}
	rec.Fillers = strings.Join(bad, "; ")

	if s.Fault == "stop" {
		return
	}
	if s.Fault == "remove" {
		px.P.OnSvcHostAdd([]*host.Host{host.New(B.Addr)})
	}
	rec.Witness = keyed(px.Addr, keyA, 1)
	rec.Recover = keyed(px.Addr, keyB, 40)
	return
}

// keyed: a new connection is served: PING, then GET key answered without an error within `tries` attempts
func keyed(addr, key string, tries int) string {
	c, err := sut.Dial(addr)
	if err != nil {
		return "dial: " + err.Error()
	}
	defer c.Close()
	if v, err := c.Do(3*time.Second, "PING"); err != nil || string(v.Str) != "PONG" {
		return fmt.Sprintf("PING: %v %v", v, err)
	}
	last := ""
	for i := 0; i < tries; i++ {
		v, err := c.Do(3*time.Second, "GET", key)
		if err != nil {
			return "keyed command got no reply: " + err.Error()
		}
		if !v.IsErr() {
			return ""
		}
		last = v.String()
		time.Sleep(25 * time.Millisecond)
	}
	return "keyed command keeps failing: " + last
}

func runFault(args []string) error {
	fs := flag.NewFlagSet("c11-fault", flag.ContinueOnError)
	in := fs.String("in", "", "strata (ndjson)")
	out := fs.String("out", "", "results (ndjson, appended)")
	skip := fs.Int("skip", 0, "strata already processed")
	if err := fs.Parse(args); err != nil {
		return err
	}
	f, err := openAppend(*out)
	if err != nil {
		return err
	}
	defer f.Close()
	write := func(r faultRecord) {
		b, _ := json.Marshal(r)
		f.Write(append(b, '\n'))
		f.Sync()
	}
	id := 0
	return cli.ReadNDJSON(*in, func(line []byte) error {
		id++
		if id <= *skip {
			return nil
		}
		var s stratum
		if err := json.Unmarshal(line, &s); err != nil {
			return err
		}
		write(faultRecord{Start: id})
		write(runStratum(id, s, rand.New(rand.NewSource(cli.Seed()*1000003+int64(id)))))
		return nil
	})
}
