package c11

import "os"

func openAppend(path string) (*os.File, error) {
	return os.OpenFile(path, os.O_CREATE|os.O_APPEND|os.O_WRONLY, 0644)
}
