package c08

import (
	"bufio"
	"bytes"
	"fmt"
	"io"
	"os"
	"os/exec"
	"strings"
	"sync"
	"time"
)

// The code under test runs in goroutines of its own (the controller's event loop, the store handler that may block
// on the full channel): a panic there kills the process and cannot be recovered by the caller.  Behaviours are
// therefore executed in a worker process (the same binary, flag -worker); the supervisor hands it one behaviour at
// a time and reads one result line back.  When the worker dies, the behaviour in flight is the culprit: the panic
// message and the panicking goroutine's stack are taken from the worker's stderr, the behaviour is re-run alone in
// a fresh worker to confirm, and the remaining behaviours continue in a fresh worker.

const repoPrefix = "github.com/samaritan-proxy/samaritan/"

type crashInfo struct {
	Exit      string   `json:"exit"`
	Panic     string   `json:"panic"`     // "panic: ..." / "fatal error: ..." line
	Frame     string   `json:"frame"`     // first frame of the panicking goroutine outside the Go runtime, e.g. controller.endpointsToHosts
	Origin    string   `json:"origin"`    // repo | harness | unknown
	Where     string   `json:"where"`     // controller-event-loop | store-handler | other
	Frames    []string `json:"frames"`    // the panicking goroutine's frames (function names)
	Hang      bool     `json:"hang"`      // no result within the time limit (worker killed)
	Confirmed bool     `json:"confirmed"` // crashed again, in the same frame, when re-run alone
	Assumed   bool     `json:"assumed"`   // not re-run: the same frame had already been confirmed twice
	Stderr    string   `json:"stderr"`
}

func parseCrash(stderr string, exit string) *crashInfo {
	c := &crashInfo{Exit: exit, Origin: "unknown", Where: "other"}
	if len(stderr) > 6000 {
		c.Stderr = stderr[:6000]
	} else {
		c.Stderr = stderr
	}
	lines := strings.Split(stderr, "\n")
	i := 0
	for ; i < len(lines); i++ {
		if strings.HasPrefix(lines[i], "panic: ") || strings.HasPrefix(lines[i], "fatal error: ") {
			c.Panic = lines[i]
			break
		}
	}
	if c.Panic == "" {
		return c
	}
	for ; i < len(lines) && !strings.HasPrefix(lines[i], "goroutine "); i++ {
	}
	for i++; i < len(lines) && lines[i] != ""; i++ { // the first goroutine block is the panicking goroutine
		l := lines[i]
		if strings.HasPrefix(l, "\t") || strings.HasPrefix(l, " ") {
			continue // file:line
		}
		if strings.HasPrefix(l, "created by ") {
			l = strings.TrimPrefix(l, "created by ")
			if k := strings.Index(l, " in goroutine"); k > 0 {
				l = l[:k]
			}
		} else if k := strings.LastIndex(l, "("); k > 0 {
			l = l[:k]
		}
		c.Frames = append(c.Frames, l)
	}
	for _, f := range c.Frames {
		if f == "panic" || strings.HasPrefix(f, "runtime.") || strings.HasPrefix(f, "runtime/") ||
			strings.HasPrefix(f, "sync.") || strings.HasPrefix(f, "sync/") {
			continue
		}
		switch {
		case strings.HasPrefix(f, repoPrefix):
			c.Origin, c.Frame = "repo", strings.TrimPrefix(f, repoPrefix)
		case strings.HasPrefix(f, "verifharness/"):
			c.Origin, c.Frame = "harness", f
		default:
			c.Frame = f
		}
		break
	}
	for _, f := range c.Frames {
		if strings.HasPrefix(f, repoPrefix+"controller.(*Controller).Start") {
			c.Where = "controller-event-loop"
			break
		}
		if strings.HasPrefix(f, repoPrefix+"config.(*Config).handle") || strings.HasPrefix(f, repoPrefix+"config.(*Config).Verif") {
			c.Where = "store-handler"
			break
		}
	}
	return c
}

type worker struct {
	cmd    *exec.Cmd
	in     io.WriteCloser
	lines  chan []byte
	stderr *bytes.Buffer
	mu     sync.Mutex
}

func startWorker(args ...string) (*worker, error) {
	w := &worker{cmd: exec.Command(os.Args[0], args...), lines: make(chan []byte, 4), stderr: &bytes.Buffer{}}
	var err error
	if w.in, err = w.cmd.StdinPipe(); err != nil {
		return nil, err
	}
	out, err := w.cmd.StdoutPipe()
	if err != nil {
		return nil, err
	}
	w.cmd.Stderr = w.stderr
	if err := w.cmd.Start(); err != nil {
		return nil, err
	}
	go func() {
		rd := bufio.NewReaderSize(out, 1<<20)
		for {
			l, err := rd.ReadBytes('\n')
			if err != nil {
				close(w.lines) // a partial line is dropped: the worker died while writing it
				return
			}
			w.lines <- l
		}
	}()
	return w, nil
}

// next waits for the next result line; crash != nil: the worker is gone (dead, or killed after the time limit)
func (w *worker) next(limit time.Duration) ([]byte, *crashInfo) {
	t := time.NewTimer(limit)
	defer t.Stop()
	select {
	case l, ok := <-w.lines:
		if ok {
			return l, nil
		}
		err := w.cmd.Wait()
		return nil, parseCrash(w.stderr.String(), fmt.Sprint(err))
	case <-t.C:
		w.cmd.Process.Kill()
		w.cmd.Wait()
		c := parseCrash(w.stderr.String(), "killed after "+limit.String())
		c.Hang = true
		return nil, c
	}
}

func (w *worker) send(line []byte) {
	w.in.Write(append(bytes.TrimRight(line, "\n"), '\n')) // an error shows as a dead worker in next()
}

// stop ends a healthy worker (stdin closed: it finishes and exits)
func (w *worker) stop() {
	w.in.Close()
	done := make(chan struct{})
	go func() { w.cmd.Wait(); close(done) }()
	select {
	case <-done:
	case <-time.After(10 * time.Second):
		w.cmd.Process.Kill()
	}
}

// confirmations already spent per frame (a defect that crashes hundreds of behaviours is re-run alone only twice)
type confirmBudget map[string]int

func (b confirmBudget) want(c *crashInfo) bool {
	if b[c.Frame] >= 2 {
		c.Assumed = true
		return false
	}
	b[c.Frame]++
	return true
}

// lineWriter writes one line per call straight to the file: nothing is lost when the process dies
type lineWriter struct{ f *os.File }

func (w lineWriter) write(b []byte) error {
	_, err := w.f.Write(append(bytes.TrimRight(b, "\n"), '\n'))
	return err
}
