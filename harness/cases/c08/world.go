// Package c08: the configuration store (config.Config) and the controller
// (controller.Controller) driven together, as spec/config/ConfigFlow.tla
// describes them.
//
// Updates are delivered by calling the store's three handlers through the
// verif wrappers of /repo/config/export_store_verif.go.  The controller reads
// from an unbuffered forwarding channel: one "Ctl" step takes one event out of
// the store's real event channel, hands it to the controller and then hands it
// a sentinel of an unknown type (logged and ignored, controller.go:84-85);
// when the controller has taken the sentinel the event before it has been
// handled completely.  Processors are built by a recording builder registered
// through proc.RegisterBuilder under protocol.MySQL (no other builder uses
// it); the recording processor applies host operations to a real host.Set.
package c08

import (
	"fmt"
	"os"
	"runtime"
	"sort"
	"strings"
	"sync"
	"time"

	"github.com/samaritan-proxy/samaritan/config"
	"github.com/samaritan-proxy/samaritan/controller"
	"github.com/samaritan-proxy/samaritan/host"
	"github.com/samaritan-proxy/samaritan/logger"
	"github.com/samaritan-proxy/samaritan/pb/common"
	"github.com/samaritan-proxy/samaritan/pb/config/bootstrap"
	"github.com/samaritan-proxy/samaritan/pb/config/protocol"
	"github.com/samaritan-proxy/samaritan/pb/config/service"
	"github.com/samaritan-proxy/samaritan/proc"
)

func init() {
	if os.Getenv("VERIF_SUT_LOG") == "" {
		logger.SetLevel("FATAL")
	}
	proc.RegisterBuilder(protocol.MySQL, recBuilder{})
}

// ---------------------------------------------------------------- model vocabulary

// addresses "a1".."a9" <-> 10.0.0.k:1000+k
func addrOf(a string) *common.Address {
	k := int(a[1] - '0')
	return &common.Address{Ip: fmt.Sprintf("10.0.0.%d", k), Port: uint32(1000 + k)}
}

func addrName(hostport string) string {
	var k, p int
	if _, err := fmt.Sscanf(hostport, "10.0.0.%d:%d", &k, &p); err != nil || p != 1000+k {
		return "?" + hostport
	}
	return fmt.Sprintf("a%d", k)
}

func endpointName(e *service.Endpoint) string {
	if e == nil || e.Address == nil {
		return "?nil"
	}
	return addrName(fmt.Sprintf("%s:%d", e.Address.Ip, e.Address.Port))
}

func endpointsOf(names []string) []*service.Endpoint {
	if len(names) == 0 {
		return nil // what an absent repeated field decodes to
	}
	res := make([]*service.Endpoint, 0, len(names))
	for _, a := range names {
		res = append(res, &service.Endpoint{Address: addrOf(a)})
	}
	return res
}

// configurations: v1 and v2 are valid and differ in the connect timeout, "invalid" has no listener
func configOf(v string) *service.Config {
	d := func(x time.Duration) *time.Duration { return &x }
	switch v {
	case "v1", "v2":
		to := time.Second
		if v == "v2" {
			to = 2 * time.Second
		}
		return &service.Config{
			Listener:       &service.Listener{Address: &common.Address{Ip: "127.0.0.1", Port: 1}},
			ConnectTimeout: d(to),
			Protocol:       protocol.MySQL,
		}
	case "invalid":
		return &service.Config{ConnectTimeout: d(3 * time.Second), Protocol: protocol.MySQL}
	}
	return nil
}

func configName(c *service.Config) string {
	if c == nil {
		return "none"
	}
	if c.Validate() != nil {
		return "invalid"
	}
	if c.ConnectTimeout != nil {
		switch *c.ConnectTimeout {
		case time.Second:
			return "v1"
		case 2 * time.Second:
			return "v2"
		}
	}
	return "?"
}

// ---------------------------------------------------------------- recording processors

type recProc struct {
	mu      sync.Mutex
	name    string
	cfg     *service.Config
	hosts   *host.Set
	started bool
	stopped bool
	log     []string
}

func (p *recProc) Name() string    { return p.name }
func (p *recProc) Address() string { return "" }
func (p *recProc) Config() *service.Config {
	p.mu.Lock()
	defer p.mu.Unlock()
	return p.cfg
}
func (p *recProc) note(s string) { p.mu.Lock(); p.log = append(p.log, s); p.mu.Unlock() }

func (p *recProc) OnSvcHostAdd(hs []*host.Host) error {
	p.hosts.Add(hs...)
	p.note("add" + fmt.Sprint(hostNames(hs)))
	return nil
}
func (p *recProc) OnSvcHostRemove(hs []*host.Host) error {
	p.hosts.Remove(hs...)
	p.note("remove" + fmt.Sprint(hostNames(hs)))
	return nil
}
func (p *recProc) OnSvcAllHostReplace(hs []*host.Host) error {
	p.hosts.ReplaceAll(hs)
	p.note("replace" + fmt.Sprint(hostNames(hs)))
	return nil
}

// like the Redis processor (redis.go:144-150) an invalid configuration is refused
func (p *recProc) OnSvcConfigUpdate(c *service.Config) error {
	if err := c.Validate(); err != nil {
		p.note("config-rejected")
		return err
	}
	p.mu.Lock()
	p.cfg = c
	p.log = append(p.log, "config:"+configName(c))
	p.mu.Unlock()
	return nil
}
func (p *recProc) Start() error {
	p.mu.Lock()
	p.started = true
	p.mu.Unlock()
	cur.started(p)
	return nil
}
func (p *recProc) StopListen() error { return nil }
func (p *recProc) Stop() error {
	p.mu.Lock()
	p.stopped = true
	p.mu.Unlock()
	cur.stoppedProc(p)
	return nil
}

func hostNames(hs []*host.Host) []string {
	res := make([]string, 0, len(hs))
	for _, h := range hs {
		res = append(res, addrName(h.Addr))
	}
	sort.Strings(res)
	return res
}

// registry of the processors of the current world (worlds run one at a time)
type registry struct {
	mu      sync.Mutex
	running map[string][]*recProc // started and not stopped, per name the processor reports
	built   int
	last    *recProc // the processor built last
}

var cur = &registry{running: map[string][]*recProc{}}

func (r *registry) reset() {
	r.mu.Lock()
	r.running = map[string][]*recProc{}
	r.built = 0
	r.last = nil
	r.mu.Unlock()
}
func (r *registry) started(p *recProc) {
	r.mu.Lock()
	r.running[p.name] = append(r.running[p.name], p)
	r.mu.Unlock()
}
func (r *registry) stoppedProc(p *recProc) {
	r.mu.Lock()
	l := r.running[p.name]
	for i := range l {
		if l[i] == p {
			l = append(l[:i:i], l[i+1:]...)
			break
		}
	}
	if len(l) == 0 {
		delete(r.running, p.name)
	} else {
		r.running[p.name] = l
	}
	r.mu.Unlock()
}
func (r *registry) snapshot() map[string][]*recProc {
	r.mu.Lock()
	defer r.mu.Unlock()
	res := map[string][]*recProc{}
	for k, v := range r.running {
		res[k] = append([]*recProc(nil), v...)
	}
	return res
}

type recBuilder struct{}

// the processor reports the name proc.New hands to the builder (BuildParams.Name), as proc/tcp and proc/redis do
func (recBuilder) Build(p proc.BuildParams) (proc.Proc, error) {
	rp := &recProc{name: p.Name, cfg: p.Cfg, hosts: host.NewSet(p.Hosts...)}
	cur.mu.Lock()
	cur.built++
	cur.last = rp
	cur.mu.Unlock()
	return rp, nil
}

func (r *registry) builtSoFar() (int, *recProc) {
	r.mu.Lock()
	defer r.mu.Unlock()
	return r.built, r.last
}

// ---------------------------------------------------------------- observations (the JSON vocabulary of ConfigFlowGen / ConfigFlowTrace)

type swObs struct {
	In  bool     `json:"in"`
	Cfg string   `json:"cfg"`
	Nil bool     `json:"nil"`
	Eps []string `json:"eps"`
}

type procObs struct {
	On    bool     `json:"on"`
	Cfg   string   `json:"cfg"`
	Hosts []string `json:"hosts"`
}

type evtObs struct {
	T   string   `json:"t"`
	S   string   `json:"s"`
	Cfg string   `json:"cfg"`
	Eps []string `json:"eps"`
	Add []string `json:"add"`
	Rem []string `json:"rem"`
}

func epNames(es []*service.Endpoint, sorted bool) []string {
	res := make([]string, 0, len(es))
	for _, e := range es {
		res = append(res, endpointName(e))
	}
	if sorted {
		sort.Strings(res)
	}
	return res
}

// describeEvent reads the event the way the controller is about to read it
func describeEvent(e config.Event) evtObs {
	o := evtObs{Cfg: "none", Eps: []string{}, Add: []string{}, Rem: []string{}}
	switch e := e.(type) {
	case *config.SvcAddEvent:
		o.T, o.S, o.Cfg, o.Eps = "add", e.Name, configName(e.Config), epNames(e.Endpoints, false)
	case *config.SvcRemoveEvent:
		o.T, o.S = "remove", e.Name
	case *config.SvcConfigEvent:
		o.T, o.S, o.Cfg = "config", e.Name, configName(e.Config)
	case *config.SvcEndpointEvent:
		o.T, o.S, o.Add, o.Rem = "endpoint", e.Name, epNames(e.Added, true), epNames(e.Removed, true)
	default:
		o.T = fmt.Sprintf("?%T", e)
	}
	return o
}

// ---------------------------------------------------------------- the world: real store + real controller

type sentinel struct{}

type world struct {
	svcs    []string
	store   *config.Config
	ctl     *controller.Controller
	evc     <-chan config.Event
	fwd     chan config.Event
	pending chan struct{} // closed when the handler call in flight has returned (nil: none)
	wins    map[string][]string
	renamed map[string]bool // names involved in a processor that reports another name than its service's
}

func newWorld(svcs []string, static []string, evtCap int) (*world, error) {
	cur.reset()
	b := &bootstrap.Bootstrap{
		Admin: &bootstrap.Admin{Bind: &common.Address{Ip: "127.0.0.1", Port: 1}},
	}
	for _, s := range static {
		b.StaticServices = append(b.StaticServices, &bootstrap.StaticService{
			Name: s, Config: configOf("v1"), Endpoints: endpointsOf([]string{"a1"}),
		})
	}
	st, err := config.VerifNewStore(b, evtCap)
	if err != nil {
		return nil, err
	}
	w := &world{svcs: svcs, store: st, evc: st.Subscribe(), fwd: make(chan config.Event), wins: map[string][]string{}, renamed: map[string]bool{}}
	w.ctl, err = controller.New(w.fwd)
	if err != nil {
		return nil, err
	}
	if err := w.ctl.Start(); err != nil {
		return nil, err
	}
	return w, nil
}

// close stops the controller; a handler still blocked on the full channel is released by draining
func (w *world) close() {
	for w.pending != nil {
		select {
		case <-w.pending:
			w.pending = nil
		case <-w.evc:
		}
	}
	w.ctl.Stop()
}

// a goroutine parked in `c.evtCh <- evt` of one of the store's emit functions
func handlerBlockedInSend() bool {
	buf := make([]byte, 1<<16)
	n := runtime.Stack(buf, true)
	for _, g := range strings.Split(string(buf[:n]), "\n\n") {
		nl := strings.IndexByte(g, '\n')
		if nl < 0 {
			continue
		}
		if strings.Contains(g[:nl], "[chan send") && strings.Contains(g, "config.(*Config).emitSvc") {
			return true
		}
	}
	return false
}

// waitPending waits until the handler in flight has returned (false) or is parked on the full channel (true)
func (w *world) waitPending() (blocked bool, err error) {
	if w.pending == nil {
		return false, nil
	}
	deadline := time.Now().Add(5 * time.Second)
	for i := 0; ; i++ {
		select {
		case <-w.pending:
			w.pending = nil
			return false, nil
		default:
		}
		// a handler that does not block returns within microseconds: look at the stacks (stop-the-world) only after a few yields
		if i >= 30 && i%10 == 0 {
			if n, c := w.store.VerifEventBacklog(); n == c && handlerBlockedInSend() {
				return true, nil
			}
		}
		if time.Now().After(deadline) {
			return false, fmt.Errorf("handler neither returned nor blocked on the channel")
		}
		if i < 2000 {
			runtime.Gosched()
		} else {
			time.Sleep(50 * time.Microsecond)
		}
	}
}

type update struct {
	A   string   `json:"a"` // DepAdd DepRemove Config Endpoint
	S   string   `json:"s"`
	Cfg string   `json:"cfg"`
	Add []string `json:"add"`
	Rem []string `json:"rem"`
}

// deliver calls the handler on its own goroutine (it may block on the full channel holding the store's lock)
func (w *world) deliver(u update) (blocked bool, err error) {
	if w.pending != nil {
		return false, fmt.Errorf("update while a handler is blocked")
	}
	done := make(chan struct{})
	w.pending = done
	go func() {
		defer close(done)
		switch u.A {
		case "DepAdd":
			w.store.VerifHandleDependencyUpdate([]*service.Service{{Name: u.S}}, nil)
		case "DepRemove":
			w.store.VerifHandleDependencyUpdate(nil, []*service.Service{{Name: u.S}})
		case "Config":
			w.store.VerifHandleSvcConfigUpdate(u.S, configOf(u.Cfg))
		case "Endpoint":
			w.store.VerifHandleSvcEndpointUpdate(u.S, endpointsOf(u.Add), endpointsOf(u.Rem))
		}
	}()
	return w.waitPending()
}

// ctlStep hands the next queued event to the controller and waits until it has been handled
func (w *world) ctlStep() (evtObs, bool, error) {
	var e config.Event
	select {
	case e = <-w.evc:
	default:
		return evtObs{}, false, fmt.Errorf("no event queued")
	}
	o := describeEvent(e)
	builtBefore, _ := cur.builtSoFar()
	defer func() {
		// input class "service-name-rewritten": the processor built for this add-event reports another name than the
		// service's, so the controller (table keyed by proc.Name(), looked up by the service name) loses track of it
		if n, last := cur.builtSoFar(); o.T == "add" && n > builtBefore && last != nil && last.name != o.S {
			for _, k := range []string{o.S, last.name} {
				w.renamed[k] = true // never healed: the controller cannot reach this processor by the service's name again
			}
		}
	}()
	t := time.NewTimer(5 * time.Second)
	defer t.Stop()
	for _, x := range []config.Event{e, sentinel{}} {
		select {
		case w.fwd <- x:
		case <-t.C:
			return o, false, fmt.Errorf("controller did not take the event (stuck handling the previous one)")
		}
	}
	blocked, err := w.waitPending()
	return o, blocked, err
}

func (w *world) backlog() int { n, _ := w.store.VerifEventBacklog(); return n }

func (w *world) quiescent() bool { return w.pending == nil && w.backlog() == 0 }

func (w *world) tab() (map[string]swObs, map[string]config.VerifSvc) {
	raw := map[string]config.VerifSvc{}
	for _, s := range w.store.VerifSnapshot(w.pending == nil) {
		raw[s.Name] = s
	}
	res := map[string]swObs{}
	for _, s := range w.svcs {
		res[s] = swObs{Cfg: "none", Nil: true, Eps: []string{}}
	}
	for name, s := range raw {
		res[name] = swObs{In: true, Cfg: configName(s.Config), Nil: !s.HasEndpoints, Eps: epNames(s.Endpoints, false)}
	}
	return res, raw
}

// procs reads the controller's real processor table
func (w *world) procs() map[string]procObs {
	res := map[string]procObs{}
	for _, s := range w.svcs {
		res[s] = procObs{Cfg: "none", Hosts: []string{}}
	}
	running := cur.snapshot()
	for _, p := range w.ctl.GetAllProcs() {
		o := procObs{On: true, Cfg: configName(p.Config()), Hosts: []string{}}
		if l := running[p.Name()]; len(l) > 0 {
			o.Hosts = hostNames(l[len(l)-1].hosts.All())
		} else {
			o.Cfg = "?not-running"
		}
		res[p.Name()] = o
	}
	return res
}

// ---------------------------------------------------------------- the property predicate, on the real objects

type svcVerdict struct {
	S      string   `json:"s"`
	Why    string   `json:"why"`
	Store  swObs    `json:"store"`
	Proc   procObs  `json:"proc"`
	First  string   `json:"first"` // first named window this service went through since it was last seen converged
	Wins   []string `json:"wins"`
	OpsLog []string `json:"ops,omitempty"`
}

// converged evaluates Converged (ConfigFlow.tla) for every service on the store's table, the controller's
// table and the processors' own state; call only when the channel is empty and no handler is in flight.
func (w *world) converged() []svcVerdict {
	var bad []svcVerdict
	_, raw := w.tab()
	table := map[string]proc.Proc{}
	for _, p := range w.ctl.GetAllProcs() {
		table[p.Name()] = p
	}
	running := cur.snapshot()
	names := map[string]bool{}
	for _, s := range w.svcs {
		names[s] = true
	}
	for s := range raw {
		names[s] = true
	}
	for s := range table {
		names[s] = true
	}
	for s := range running {
		names[s] = true
	}
	tabObs, _ := w.tab()
	procObsAll := w.procs()
	sorted := make([]string, 0, len(names))
	for s := range names {
		sorted = append(sorted, s)
	}
	sort.Strings(sorted)
	for _, s := range sorted {
		sw, in := raw[s]
		wanted := in && sw.Config != nil && sw.Config.Validate() == nil && sw.HasEndpoints
		p, on := table[s]
		why := ""
		switch {
		case len(running[s]) > 1:
			why = "more-than-one-running-processor"
		case on != (len(running[s]) == 1):
			why = "controller-table-and-running-processors-differ"
		case on && !wanted:
			why = "processor-for-service-without-valid-config-and-endpoint-list"
		case !on && wanted:
			why = "no-processor-for-configured-service"
		case on && wanted:
			rp := running[s][0]
			// equal content, not the same object: the same configuration may be delivered twice; the configurations
			// of this harness differ exactly in what configName reads (proc.New fills defaults into the object in place)
			if configName(p.Config()) != configName(sw.Config) {
				why = "processor-config-is-not-the-latest"
			} else if fmt.Sprint(hostNames(rp.hosts.All())) != fmt.Sprint(epNames(sw.Endpoints, true)) {
				why = "processor-hosts-differ-from-endpoints"
			}
		}
		if why == "" {
			delete(w.wins, s) // healed (or never hurt): later findings are attributed to later windows
			continue
		}
		v := svcVerdict{S: s, Why: why, Store: tabObs[s], Proc: procObsAll[s], Wins: append([]string{}, w.wins[s]...)}
		if w.renamed[s] {
			v.Wins = append([]string{"service-name-rewritten"}, v.Wins...)
		}
		if len(v.Wins) > 0 {
			v.First = v.Wins[0]
		}
		if l := running[s]; len(l) > 0 {
			l[0].mu.Lock()
			v.OpsLog = append([]string{}, l[0].log...)
			l[0].mu.Unlock()
		}
		bad = append(bad, v)
	}
	return bad
}

// window names the input class of an update (the W_* predicates of ConfigFlow.tla), judged on the real store
func (w *world) window(u update) string {
	_, raw := w.tab()
	sw, in := raw[u.S]
	if !in {
		return ""
	}
	switch u.A {
	case "Endpoint":
		if sw.Config == nil {
			return ""
		}
		if !sw.HasEndpoints {
			if len(u.Add) == 0 && len(u.Rem) > 0 {
				return "first-update-removals-only"
			}
			return ""
		}
		have := map[string]bool{}
		for _, a := range epNames(sw.Endpoints, false) {
			have[a] = true
		}
		for _, a := range u.Add {
			for _, r := range u.Rem {
				if a == r && have[a] {
					return "addr-in-removed-and-added"
				}
			}
		}
	case "Config":
		if !sw.HasEndpoints || sw.Config == nil {
			return ""
		}
		oldValid := sw.Config.Validate() == nil
		newValid := u.Cfg == "v1" || u.Cfg == "v2"
		if !oldValid && newValid {
			return "invalid-config-corrected"
		}
		if oldValid && !newValid {
			return "valid-to-invalid-config"
		}
	}
	return ""
}
