package c08

import (
	"bufio"
	"bytes"
	"encoding/json"
	"flag"
	"fmt"
	"io"
	"os"
	"reflect"
	"runtime/pprof"
	"sort"
	"time"

	"verifharness/internal/cli"
)

func init() {
	cli.Register("c08-replay", c08Replay)
	cli.Register("c08-random", c08Random)
}

// one step of a behaviour emitted by spec/config/ConfigFlowGen.tla (hist); tab == nil: no model expectation
type genStep struct {
	update
	Ev      *evtObs            `json:"ev"`
	Win     string             `json:"win"`
	Tab     map[string]swObs   `json:"tab"`
	Chanlen int                `json:"chanlen"`
	Blocked bool               `json:"blocked"`
	Procs   map[string]procObs `json:"procs"`
	Q       bool               `json:"q"`
}

type behaviour struct {
	ID     int       `json:"id"`
	Svcs   []string  `json:"svcs"`
	Static []string  `json:"static"`
	Cap    int       `json:"cap"`
	Steps  []genStep `json:"steps"`
}

type drift struct {
	I     int         `json:"i"`
	What  string      `json:"what"`
	Model interface{} `json:"model"`
	Real  interface{} `json:"real"`
}

type violation struct {
	I int `json:"i"`
	svcVerdict
}

type unknownBad struct {
	I    int    `json:"i"`
	A    string `json:"a"`
	S    string `json:"s"`
	What string `json:"what"`
}

type replayResult struct {
	ID       int          `json:"id"`
	N        int          `json:"n"`
	Err      string       `json:"err,omitempty"`
	Drift    []drift      `json:"drift,omitempty"`
	Viol     []violation  `json:"viol,omitempty"`
	Unknown  []unknownBad `json:"unknown,omitempty"`
	QChecks  int          `json:"qchecks"`  // quiescent points at which Converged was judged on the real objects
	UChecks  int          `json:"uchecks"`  // updates for services not in the table that were checked to be ignored
	Procs    int          `json:"procs"`    // processors built
	CtlSteps int          `json:"ctlsteps"` // events handled by the real controller
	Blocked  int          `json:"blocked"`  // steps after which a handler was parked on the full channel
	Final    interface{}  `json:"final,omitempty"`
}

func sortedCopy(l []string) []string {
	r := append([]string{}, l...)
	sort.Strings(r)
	return r
}

func normProcs(m map[string]procObs) map[string]procObs {
	r := map[string]procObs{}
	for k, v := range m {
		if !v.On { // absent and "off" are the same; the model lists every key the table could hold
			continue
		}
		v.Hosts = sortedCopy(v.Hosts)
		r[k] = v
	}
	return r
}

func normTab(m map[string]swObs) map[string]swObs {
	r := map[string]swObs{}
	for k, v := range m {
		if v.Eps == nil {
			v.Eps = []string{}
		}
		r[k] = v
	}
	return r
}

func normEvt(e evtObs) evtObs {
	e.Add, e.Rem = sortedCopy(e.Add), sortedCopy(e.Rem)
	if e.Eps == nil {
		e.Eps = []string{}
	}
	return e
}

// runBehaviour executes the steps on a fresh world; model expectations (if present) are compared after every step,
// Converged is judged on the real objects whenever the real system is quiescent.
func runBehaviour(b behaviour) (res replayResult) {
	res.ID = b.ID
	svcs := b.Svcs
	if len(svcs) == 0 {
		svcs = []string{"s1", "s2"}
	}
	w, err := newWorld(svcs, b.Static, b.Cap)
	if err != nil {
		res.Err = err.Error()
		return
	}
	defer w.close()
	for i, st := range b.Steps {
		res.N = i + 1
		var blocked bool
		var ev evtObs
		goWin := ""
		if st.A == "Ctl" {
			ev, blocked, err = w.ctlStep()
			res.CtlSteps++
		} else if st.A == "Drain" { // model-free histories: let the controller catch up
			for err == nil && (w.backlog() > 0 || w.pending != nil) {
				_, _, err = w.ctlStep()
				res.CtlSteps++
			}
		} else {
			tabBefore, _ := w.tab()
			backlogBefore := w.backlog()
			unknown := !tabBefore[st.S].In && st.A != "DepAdd"
			goWin = w.window(st.update)
			if st.A == "DepAdd" && !tabBefore[st.S].In {
				delete(w.wins, st.S)
			}
			if goWin != "" {
				w.wins[st.S] = append(w.wins[st.S], goWin)
			}
			blocked, err = w.deliver(st.update)
			if err == nil && unknown {
				res.UChecks++
				tabAfter, _ := w.tab()
				switch {
				case blocked || w.backlog() != backlogBefore:
					res.Unknown = append(res.Unknown, unknownBad{i, st.A, st.S, "an event was emitted"})
				case !reflect.DeepEqual(tabBefore, tabAfter):
					res.Unknown = append(res.Unknown, unknownBad{i, st.A, st.S, "the service table changed"})
				}
			}
		}
		if err != nil {
			res.Err = fmt.Sprintf("step %d (%s): %v", i, st.A, err)
			return
		}
		if blocked {
			res.Blocked++
		}
		tab, _ := w.tab()
		procs := w.procs()
		q := w.quiescent()
		if st.Tab != nil { // model expectations
			d := func(what string, m, r interface{}) {
				if !reflect.DeepEqual(m, r) {
					res.Drift = append(res.Drift, drift{i, what, m, r})
				}
			}
			d("tab", normTab(st.Tab), tab)
			d("chanlen", st.Chanlen, w.backlog())
			d("blocked", st.Blocked, blocked)
			d("procs", normProcs(st.Procs), normProcs(procs))
			d("quiescent", st.Q, q)
			if st.A == "Ctl" && st.Ev != nil {
				d("event", normEvt(*st.Ev), ev)
			} else {
				d("window", st.Win, goWin)
			}
			if len(res.Drift) > 0 {
				res.Procs = cur.built
				return // the rest of the behaviour is no longer a behaviour of the model
			}
		}
		if q {
			res.QChecks++
			for _, v := range w.converged() {
				res.Viol = append(res.Viol, violation{i, v})
			}
		}
	}
	res.Procs = cur.built
	tab, _ := w.tab()
	res.Final = map[string]interface{}{"tab": tab, "procs": w.procs(), "backlog": w.backlog()}
	return
}

// c08Replay: supervisor (default) or worker (-worker: behaviours on stdin, one result line each on stdout).
func c08Replay(args []string) error {
	fs := flag.NewFlagSet("c08-replay", flag.ContinueOnError)
	in := fs.String("in", "", "behaviours (ndjson)")
	out := fs.String("out", "", "results (ndjson)")
	final := fs.Bool("final", false, "include the final state in every result")
	isWorker := fs.Bool("worker", false, "worker process: behaviours on stdin, results on stdout")
	prof := fs.String("cpuprofile", "", "write a CPU profile (worker)")
	if err := fs.Parse(args); err != nil {
		return err
	}
	if *isWorker {
		if *prof != "" {
			f, err := os.Create(*prof)
			if err != nil {
				return err
			}
			pprof.StartCPUProfile(f)
			defer pprof.StopCPUProfile()
		}
		return replayWorker(*final)
	}
	wr, err := os.Create(*out)
	if err != nil {
		return err
	}
	defer wr.Close()
	lw := lineWriter{wr}
	wargs := []string{"c08-replay", "-worker"}
	if *final {
		wargs = append(wargs, "-final")
	}
	var wk *worker
	defer func() {
		if wk != nil {
			wk.stop()
		}
	}()
	budget := confirmBudget{}
	return cli.ReadNDJSON(*in, func(line []byte) error {
		if wk == nil {
			if wk, err = startWorker(wargs...); err != nil {
				return err
			}
		}
		wk.send(line)
		res, crash := wk.next(60 * time.Second)
		if crash == nil {
			return lw.write(res)
		}
		wk = nil // dead: the rest continues in a fresh worker
		if !crash.Hang && budget.want(crash) {
			w2, err := startWorker(wargs...)
			if err != nil {
				return err
			}
			w2.send(line)
			if _, c2 := w2.next(60 * time.Second); c2 != nil {
				crash.Confirmed = c2.Frame == crash.Frame && c2.Panic != ""
			} else {
				w2.stop()
			}
		}
		var b struct {
			ID int `json:"id"`
		}
		json.Unmarshal(line, &b)
		r, _ := json.Marshal(map[string]interface{}{"id": b.ID, "crash": crash})
		return lw.write(r)
	})
}

func replayWorker(final bool) error {
	rd := bufio.NewReaderSize(os.Stdin, 1<<20)
	out := lineWriter{os.Stdout}
	for {
		line, err := rd.ReadBytes('\n')
		if len(bytes.TrimSpace(line)) > 0 {
			var b behaviour
			if e := json.Unmarshal(line, &b); e != nil {
				return e
			}
			r := runBehaviour(b)
			if !final {
				r.Final = nil
			}
			j, e := json.Marshal(r)
			if e != nil {
				return e
			}
			if e := out.write(j); e != nil {
				return e
			}
		}
		if err == io.EOF {
			return nil
		}
		if err != nil {
			return err
		}
	}
}
