package c08

import (
	"encoding/json"
	"flag"
	"fmt"
	"math/rand"
	"os"
	"reflect"
	"time"

	"verifharness/internal/cli"
)

// Seeded random histories on the real store + controller, recorded as traces for spec/config/ConfigFlowTrace.tla.

type traceEvent struct {
	Ev      string             `json:"ev"` // reset upd ctl quiet
	Static  []string           `json:"static,omitempty"`
	A       string             `json:"a,omitempty"`
	S       string             `json:"s,omitempty"`
	Cfg     string             `json:"cfg,omitempty"`
	Add     []string           `json:"add,omitempty"`
	Rem     []string           `json:"rem,omitempty"`
	Tab     map[string]swObs   `json:"tab,omitempty"`
	Evt     *evtObs            `json:"evt,omitempty"`
	Procs   map[string]procObs `json:"procs,omitempty"`
	Chanlen int                `json:"chanlen"`
	Blocked bool               `json:"blocked"`
	Conv    bool               `json:"conv"`
}

type randomResult struct {
	ID       int           `json:"id"`
	Seed     int64         `json:"seed"`
	Static   []string      `json:"static"`
	Updates  []update      `json:"updates"`
	Events   []interface{} `json:"events"`
	Viol     []violation   `json:"viol,omitempty"`
	Unknown  []unknownBad  `json:"unknown,omitempty"`
	QChecks  int           `json:"qchecks"`
	UChecks  int           `json:"uchecks"`
	CtlSteps int           `json:"ctlsteps"`
	Blocked  int           `json:"blocked"`
	Procs    int           `json:"procs"`
	Err      string        `json:"err,omitempty"`
}

func randList(r *rand.Rand, addrs []string, p float64) []string {
	l := []string{}
	for _, a := range addrs {
		if r.Float64() < p {
			l = append(l, a)
		}
	}
	if len(l) > 0 && r.Float64() < 0.1 { // an address named twice in one list
		l = append(l, l[r.Intn(len(l))])
	}
	r.Shuffle(len(l), func(i, j int) { l[i], l[j] = l[j], l[i] })
	return l
}

func randUpdate(r *rand.Rand, svcs, addrs []string) update {
	u := update{S: svcs[r.Intn(len(svcs))], Add: []string{}, Rem: []string{}}
	switch x := r.Float64(); {
	case x < 0.15:
		u.A = "DepAdd"
	case x < 0.22:
		u.A = "DepRemove"
	case x < 0.50:
		u.A = "Config"
		u.Cfg = []string{"invalid", "v1", "v1", "v2", "v2"}[r.Intn(5)]
	default:
		u.A = "Endpoint"
		for len(u.Add) == 0 && len(u.Rem) == 0 {
			u.Add, u.Rem = randList(r, addrs, 0.4), randList(r, addrs, 0.3)
		}
	}
	return u
}

func runRandom(id int, seed int64, nUpd, evtCap int) (res randomResult) {
	r := rand.New(rand.NewSource(seed))
	res.ID, res.Seed = id, seed
	// service names: plain ones, or names with characters a lower layer treats specially; "a.b" and "a_b" together
	// must stay two services
	svcs := [][]string{{"s1", "s2"}, {"a.b", "a_b"}, {"A.b", "a-b"}, {"a/b", "a.b"}}[r.Intn(4)]
	addrs := []string{"a1", "a2", "a3"}
	res.Static = []string{}
	if r.Intn(4) == 0 {
		res.Static = []string{svcs[0]}
	}
	pCtl := []float64{0.15, 0.4, 0.7}[r.Intn(3)] // relative speed of the controller
	w, err := newWorld(svcs, res.Static, evtCap)
	if err != nil {
		res.Err = err.Error()
		return
	}
	defer w.close()
	res.Events = append(res.Events, map[string]interface{}{"ev": "reset", "static": res.Static})
	journalStart(id, seed, res.Static)
	i := 0
	quiet := func() {
		if !w.quiescent() {
			return
		}
		res.QChecks++
		bad := w.converged()
		for _, v := range bad {
			res.Viol = append(res.Viol, violation{i, v})
		}
		res.Events = append(res.Events, map[string]interface{}{"ev": "quiet", "conv": len(bad) == 0})
	}
	quiet()
	for delivered := 0; delivered < nUpd || w.backlog() > 0 || w.pending != nil; i++ {
		canUpd := delivered < nUpd && w.pending == nil
		canCtl := w.backlog() > 0
		if canCtl && (!canUpd || r.Float64() < pCtl) {
			journalStep(update{A: "Ctl", Add: []string{}, Rem: []string{}})
			ev, blocked, err := w.ctlStep()
			if err != nil {
				res.Err = fmt.Sprintf("step %d (Ctl): %v", i, err)
				return
			}
			res.CtlSteps++
			if blocked {
				res.Blocked++
			}
			res.Events = append(res.Events, map[string]interface{}{"ev": "ctl", "evt": ev, "procs": w.procs(),
				"chanlen": w.backlog(), "blocked": blocked})
		} else if canUpd {
			u := randUpdate(r, svcs, addrs)
			delivered++
			res.Updates = append(res.Updates, u)
			tabBefore, _ := w.tab()
			backlogBefore := w.backlog()
			unknown := !tabBefore[u.S].In && u.A != "DepAdd"
			win := w.window(u)
			if u.A == "DepAdd" && !tabBefore[u.S].In {
				delete(w.wins, u.S)
			}
			if win != "" {
				w.wins[u.S] = append(w.wins[u.S], win)
			}
			journalStep(u)
			blocked, err := w.deliver(u)
			if err != nil {
				res.Err = fmt.Sprintf("step %d (%s): %v", i, u.A, err)
				return
			}
			if blocked {
				res.Blocked++
			}
			tab, _ := w.tab()
			if unknown {
				res.UChecks++
				switch {
				case blocked || w.backlog() != backlogBefore:
					res.Unknown = append(res.Unknown, unknownBad{i, u.A, u.S, "an event was emitted"})
				case !reflect.DeepEqual(tabBefore, tab):
					res.Unknown = append(res.Unknown, unknownBad{i, u.A, u.S, "the service table changed"})
				}
			}
			res.Events = append(res.Events, map[string]interface{}{"ev": "upd", "a": u.A, "s": u.S, "cfg": u.Cfg,
				"add": u.Add, "rem": u.Rem, "tab": tab, "chanlen": w.backlog(), "blocked": blocked})
		} else {
			res.Err = "neither an update nor a controller step is possible"
			return
		}
		quiet()
	}
	res.Procs = cur.built
	return
}

// the journal holds the steps of the history in flight, written before each step is executed: when the process
// dies in the code under test the supervisor still knows the history that killed it
var journal *os.File

func journalStart(id int, seed int64, static []string) {
	if journal == nil {
		return
	}
	journal.Truncate(0)
	journal.Seek(0, 0)
	b, _ := json.Marshal(map[string]interface{}{"id": id, "seed": seed, "static": static})
	journal.Write(append(b, '\n'))
}

func journalStep(u update) {
	if journal == nil {
		return
	}
	b, _ := json.Marshal(u)
	journal.Write(append(b, '\n'))
}

func readJournal(path string) (static []string, steps []update) {
	static = []string{}
	first := true
	cli.ReadNDJSON(path, func(line []byte) error {
		if first {
			first = false
			var h struct {
				Static []string `json:"static"`
			}
			if json.Unmarshal(line, &h) == nil && h.Static != nil {
				static = h.Static
			}
			return nil
		}
		var u update
		if json.Unmarshal(line, &u) == nil {
			steps = append(steps, u)
		}
		return nil
	})
	return
}

// c08Random: supervisor (default) or worker (-worker: histories first..first+n-1, one result line each on stdout).
func c08Random(args []string) error {
	fs := flag.NewFlagSet("c08-random", flag.ContinueOnError)
	n := fs.Int("n", 100, "number of histories")
	l := fs.Int("len", 12, "updates per history")
	evtCap := fs.Int("cap", 2, "capacity of the event channel")
	out := fs.String("out", "", "results (ndjson)")
	isWorker := fs.Bool("worker", false, "worker process: results on stdout")
	first := fs.Int("first", 0, "index of the first history (worker)")
	jpath := fs.String("journal", "", "journal of the history in flight (worker)")
	if err := fs.Parse(args); err != nil {
		return err
	}
	if *isWorker {
		if *jpath != "" {
			f, err := os.Create(*jpath)
			if err != nil {
				return err
			}
			journal = f
		}
		o := lineWriter{os.Stdout}
		for i := *first; i < *first+*n; i++ {
			j, err := json.Marshal(runRandom(i, cli.Seed()*1000003+int64(i), *l, *evtCap))
			if err != nil {
				return err
			}
			if err := o.write(j); err != nil {
				return err
			}
		}
		return nil
	}
	wr, err := os.Create(*out)
	if err != nil {
		return err
	}
	defer wr.Close()
	lw := lineWriter{wr}
	jfile := *out + ".journal"
	defer os.Remove(jfile)
	spawn := func(first, n int) (*worker, error) {
		return startWorker("c08-random", "-worker", "-first", fmt.Sprint(first), "-n", fmt.Sprint(n),
			"-len", fmt.Sprint(*l), "-cap", fmt.Sprint(*evtCap), "-journal", jfile)
	}
	budget := confirmBudget{}
	for next := 0; next < *n; {
		wk, err := spawn(next, *n-next)
		if err != nil {
			return err
		}
		for next < *n {
			res, crash := wk.next(60 * time.Second)
			if crash == nil {
				if err := lw.write(res); err != nil {
					return err
				}
				next++
				continue
			}
			static, steps := readJournal(jfile) // history `next` was in flight
			if !crash.Hang && budget.want(crash) {
				w2, err := spawn(next, 1)
				if err != nil {
					return err
				}
				if _, c2 := w2.next(60 * time.Second); c2 != nil {
					crash.Confirmed = c2.Frame == crash.Frame && c2.Panic != ""
				} else {
					w2.stop()
				}
			}
			r, _ := json.Marshal(map[string]interface{}{"id": next, "seed": cli.Seed()*1000003 + int64(next),
				"static": static, "steps": steps, "crash": crash})
			if err := lw.write(r); err != nil {
				return err
			}
			next++
			wk = nil
			break
		}
		if wk != nil {
			wk.stop()
		}
	}
	return nil
}
