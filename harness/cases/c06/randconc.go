package c06

import (
	"bufio"
	"flag"
	"fmt"
	"net"
	"strings"
	"sync"
	"sync/atomic"
	"time"

	"github.com/samaritan-proxy/samaritan/host"
	"github.com/samaritan-proxy/samaritan/pb/config/service"
	"github.com/samaritan-proxy/samaritan/proc"
	"github.com/samaritan-proxy/samaritan/proc/verifexport"

	"verifharness/internal/cli"
	"verifharness/internal/sut"
)

// c06-randconc: the random and least-connection policies with their DEFAULT random source under
// real concurrency (every other driver scripts the source).  Run as its own process (a worker):
// a panic inside PickHost / HandleConn kills it, the check reads the stack from stderr.
//
//	phase 1  G goroutines pick through one real balancer per policy for a while; every pick
//	         must be an element of the list
//	phase 2  G clients connect concurrently through a real TCP processor (no health check, RANDOM
//	         then LEAST_CONNECTION) with two scripted backends; every connection must be relayed
//	         to one of them

func init() { cli.Register("c06-randconc", cmdRandConc) }

// RandConcResult is one phase.
type RandConcResult struct {
	Phase  string `json:"phase"`
	Policy string `json:"policy"`
	Gor    int    `json:"goroutines"`
	Picks  int64  `json:"picks"`
	Bad    int64  `json:"bad"` // picks outside the list / connections not relayed to a usable backend
	Detail string `json:"detail,omitempty"`
	Err    string `json:"err,omitempty"`
}

func cmdRandConc(args []string) error {
	fs := flag.NewFlagSet("c06-randconc", flag.ContinueOnError)
	out := fs.String("out", "", "results (ndjson)")
	g := fs.Int("g", 24, "goroutines")
	ms := fs.Int("ms", 700, "duration of each phase per policy (ms)")
	if err := fs.Parse(args); err != nil {
		return err
	}
	w, err := cli.NewNDJSONWriter(*out)
	if err != nil {
		return err
	}
	defer w.Close()
	d := time.Duration(*ms) * time.Millisecond
	for _, pol := range []string{"random", "lc"} {
		hs := mkHosts(5)
		in := map[*host.Host]bool{}
		for _, h := range hs {
			in[h] = true
		}
		bal := verifexport.NewBalancer(policyOf(pol))
		res := RandConcResult{Phase: "policy", Policy: pol, Gor: *g}
		var wg sync.WaitGroup
		stop := time.Now().Add(d)
		for i := 0; i < *g; i++ {
			wg.Add(1)
			go func() {
				defer wg.Done()
				n, bad := int64(0), int64(0)
				for time.Now().Before(stop) {
					for k := 0; k < 256; k++ {
						if !in[bal.PickHost(hs)] {
							bad++
						}
						n++
					}
				}
				atomic.AddInt64(&res.Picks, n)
				atomic.AddInt64(&res.Bad, bad)
			}()
		}
		wg.Wait()
		w.Write(res)
	}
	for _, pol := range []string{"random", "lc"} {
		w.Write(randConcE2E(pol, *g, d))
	}
	return nil
}

func randConcE2E(pol string, g int, d time.Duration) (res RandConcResult) {
	res = RandConcResult{Phase: "e2e", Policy: pol, Gor: g}
	fx, err := newFixture(2)
	if err != nil {
		res.Err = err.Error()
		return
	}
	defer fx.close()
	port := sut.FreePort()
	cfg := tcpConfig(port, pol, true)
	var lp service.LoadBalancePolicy = policyOf(pol)
	cfg.LbPolicy = lp
	p, err := proc.New(sut.UniqueName("c06rc"), cfg, nil)
	if err != nil {
		res.Err = "proc.New: " + err.Error()
		return
	}
	if err := p.Start(); err != nil {
		res.Err = "Start: " + err.Error()
		return
	}
	defer sut.StopWithin(p, 10*time.Second)
	addr := fmt.Sprintf("127.0.0.1:%d", port)
	if err := waitProxy(addr, 5*time.Second); err != nil {
		res.Err = err.Error()
		return
	}
	p.OnSvcHostAdd([]*host.Host{host.New(fx.bs[0].addr), host.New(fx.bs[1].addr)})
	var ids int64
	var wg sync.WaitGroup
	var mu sync.Mutex
	stop := time.Now().Add(d)
	for i := 0; i < g; i++ {
		wg.Add(1)
		go func() {
			defer wg.Done()
			for time.Now().Before(stop) {
				id := atomic.AddInt64(&ids, 1)
				c, err := net.DialTimeout("tcp", addr, 2*time.Second)
				if err != nil {
					mu.Lock()
					res.Detail = "dial proxy: " + err.Error()
					mu.Unlock()
					atomic.AddInt64(&res.Bad, 1)
					return
				}
				fmt.Fprint(c, fx.token(int(id)))
				c.SetReadDeadline(time.Now().Add(5 * time.Second))
				line, err := bufio.NewReader(c).ReadString('\n')
				c.Close()
				atomic.AddInt64(&res.Picks, 1)
				if err != nil || !(strings.HasPrefix(line, "B1") || strings.HasPrefix(line, "B2")) {
					atomic.AddInt64(&res.Bad, 1)
					mu.Lock()
					res.Detail = fmt.Sprintf("connection %d: reply %q err %v", id, line, err)
					mu.Unlock()
				}
			}
		}()
	}
	wg.Wait()
	return
}
