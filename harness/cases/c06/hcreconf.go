package c06

import (
	"bufio"
	"flag"
	"fmt"
	"net"
	"strings"
	"time"

	"github.com/samaritan-proxy/samaritan/host"
	"github.com/samaritan-proxy/samaritan/proc"

	"verifharness/internal/cli"
	"verifharness/internal/sut"
)

// c15-hc-e2e: run-time reconfiguration of the health check, end to end.
//
// A real TCP processor with one host whose scripted backend holds the monitor's probes (see
// e2e.go).  While a round is held the service config is updated through OnSvcConfigUpdate with
// other thresholds, keeping or changing the interval.  Then the backend fails its probes round
// by round; after every round one client connection tells whether the host is still usable
// (relayed) or not (closed).  Afterwards the backend answers again until the host is back.
// Reported: how many consecutive failed / successful rounds it took; the check judges them
// against the thresholds of the accepted update (the configuration in force).

func init() { cli.Register("c15-hc-e2e", cmdHCReconf) }

// HCReconfResult is one scenario.
type HCReconfResult struct {
	IntervalChanged  bool   `json:"intervalChanged"`
	From             [2]int `json:"from"`             // rise, fall before the update
	To               [2]int `json:"to"`               // rise, fall of the update
	FailsToUnhealthy int    `json:"failsToUnhealthy"` // consecutive failed rounds until connections were refused (0: never within the bound)
	OKsToHealthy     int    `json:"oksToHealthy"`     // consecutive successful rounds until connections were relayed again (0: never)
	Trace            string `json:"trace"`            // per round: F/S = result, then U/H = what the next connection saw
	History          string `json:"history"`          // "update" (health check from the start) | "enable-retune" | "enable-disable-enable"
	ProbesAfterStop  int    `json:"probesAfterStop"`  // probes that reached the backend after Stop had returned (+ 30 ms grace)
	Panic            string `json:"panic,omitempty"`  // a call into the processor panicked
	Err              string `json:"err,omitempty"`
}

func usableNow(addr string, token string) (bool, error) {
	c, err := net.DialTimeout("tcp", addr, 2*time.Second)
	if err != nil {
		return false, err
	}
	defer c.Close()
	fmt.Fprint(c, token)
	c.SetReadDeadline(time.Now().Add(5 * time.Second))
	line, err := bufio.NewReader(c).ReadString('\n')
	if err == nil && strings.HasPrefix(line, "B") {
		return true, nil
	}
	if ne, ok := err.(net.Error); ok && ne.Timeout() {
		return false, fmt.Errorf("connection neither relayed nor closed")
	}
	return false, nil
}

func runHCReconf(ic bool, from, to [2]int, history string) (res HCReconfResult) {
	res = HCReconfResult{IntervalChanged: ic, From: from, To: to, History: history}
	defer func() {
		if x := recover(); x != nil {
			res.Panic = fmt.Sprint(x)
		}
	}()
	fx, err := newFixture(1)
	if err != nil {
		res.Err = err.Error()
		return
	}
	defer fx.close()
	port := sut.FreePort()
	cfg := tcpConfig(port, "rr", history != "update") // the other histories start WITHOUT a health check
	if cfg.HealthCheck != nil {
		cfg.HealthCheck.RiseThreshold, cfg.HealthCheck.FallThreshold = uint32(from[0]), uint32(from[1])
	}
	p, err := proc.New(sut.UniqueName("c15hc"), cfg, nil)
	if err != nil {
		res.Err = "proc.New: " + err.Error()
		return
	}
	if err := p.Start(); err != nil {
		res.Err = "Start: " + err.Error()
		return
	}
	addr := fmt.Sprintf("127.0.0.1:%d", port)
	r := &e2eRun{fx: fx, p: p, addr: addr}
	defer func() {
		fx.bs[0].mu.Lock()
		fx.bs[0].up = true
		fx.bs[0].mu.Unlock()
		stop := make(chan struct{})
		go func() {
			for {
				select {
				case <-stop:
					return
				default:
					fx.releaseRound()
					time.Sleep(time.Millisecond)
				}
			}
		}()
		if !sut.StopWithin(p, 10*time.Second) && res.Err == "" {
			res.Err = "processor did not stop"
		}
		// after Stop no probe may reach the backend any more (the releaser keeps answering, so a
		// monitor that survived keeps probing)
		time.Sleep(30 * time.Millisecond)
		n0 := fx.bs[0].probeCount()
		time.Sleep(8 * hcInterval)
		res.ProbesAfterStop = fx.bs[0].probeCount() - n0
		close(stop)
	}()
	if err := waitProxy(addr, 5*time.Second); err != nil {
		res.Err = err.Error()
		return
	}
	p.OnSvcHostAdd([]*host.Host{host.New(fx.bs[0].addr)})
	withHC := func(th [2]int) error {
		c := tcpConfig(port, "rr", false)
		c.HealthCheck.RiseThreshold, c.HealthCheck.FallThreshold = uint32(th[0]), uint32(th[1])
		return p.OnSvcConfigUpdate(c)
	}
	switch history {
	case "enable-retune": // health checking is switched on at run time, with the `from` thresholds
		if err := withHC(from); err != nil {
			res.Err = "OnSvcConfigUpdate (enable): " + err.Error()
			return
		}
	case "enable-disable-enable":
		if err := withHC(from); err != nil {
			res.Err = "OnSvcConfigUpdate (enable): " + err.Error()
			return
		}
		if err := r.waitRound([]int{1}); err != nil {
			res.Err = err.Error()
			return
		}
		if err := p.OnSvcConfigUpdate(tcpConfig(port, "rr", true)); err != nil { // health check removed from the config
			res.Err = "OnSvcConfigUpdate (disable): " + err.Error()
			return
		}
		fx.releaseRound()
		if err := withHC(from); err != nil {
			res.Err = "OnSvcConfigUpdate (enable again): " + err.Error()
			return
		}
	}
	if err := r.waitRound([]int{1}); err != nil {
		res.Err = err.Error()
		return
	}
	// the update arrives while the monitor is in the middle of a round
	cfg2 := tcpConfig(port, "rr", false)
	cfg2.HealthCheck.RiseThreshold, cfg2.HealthCheck.FallThreshold = uint32(to[0]), uint32(to[1])
	if ic {
		cfg2.HealthCheck.Interval = hcInterval + 3*time.Millisecond
	}
	if err := p.OnSvcConfigUpdate(cfg2); err != nil {
		res.Err = "OnSvcConfigUpdate: " + err.Error()
		return
	}
	id := 0
	round := func(up bool) (bool, error) {
		fx.bs[0].mu.Lock()
		fx.bs[0].up = up
		fx.bs[0].mu.Unlock()
		fx.releaseRound()
		if err := r.waitRound([]int{1}); err != nil { // the next round is held: the released one is complete
			return false, err
		}
		id++
		return usableNow(addr, fx.token(id))
	}
	const bound = 8
	for k := 1; k <= bound; k++ {
		u, err := round(false)
		if err != nil {
			res.Err = err.Error()
			return
		}
		res.Trace += "F"
		if u {
			res.Trace += "H "
			continue
		}
		res.Trace += "U "
		res.FailsToUnhealthy = k
		break
	}
	if res.FailsToUnhealthy == 0 {
		return
	}
	for k := 1; k <= bound; k++ {
		u, err := round(true)
		if err != nil {
			res.Err = err.Error()
			return
		}
		res.Trace += "S"
		if !u {
			res.Trace += "U "
			continue
		}
		res.Trace += "H "
		res.OKsToHealthy = k
		break
	}
	return
}

// c15-hc-e2e -out results.ndjson
func cmdHCReconf(args []string) error {
	fs := flag.NewFlagSet("c15-hc-e2e", flag.ContinueOnError)
	out := fs.String("out", "", "results (ndjson)")
	disable := fs.Bool("disable", false, "also run the enable / disable / enable history")
	if err := fs.Parse(args); err != nil {
		return err
	}
	w, err := cli.NewNDJSONWriter(*out)
	if err != nil {
		return err
	}
	defer w.Close()
	for _, ic := range []bool{false, true} {
		for _, ft := range [][2][2]int{{{1, 1}, {3, 3}}, {{3, 3}, {1, 1}}, {{1, 2}, {2, 3}}} {
			w.Write(runHCReconf(ic, ft[0], ft[1], "update"))
		}
	}
	// the service is created WITHOUT a health check; it is enabled at run time and retuned later
	w.Write(runHCReconf(false, [2]int{1, 1}, [2]int{3, 3}, "enable-retune"))
	w.Write(runHCReconf(true, [2]int{2, 2}, [2]int{1, 3}, "enable-retune"))
	if *disable {
		w.Write(runHCReconf(false, [2]int{1, 1}, [2]int{2, 2}, "enable-disable-enable"))
	}
	return nil
}
