package c06

import (
	"bufio"
	"encoding/json"
	"flag"
	"fmt"
	"math/rand"
	"net"
	"os"
	"sort"
	"strings"
	"sync"
	"time"

	"github.com/samaritan-proxy/samaritan/host"
	"github.com/samaritan-proxy/samaritan/pb/common"
	pbhc "github.com/samaritan-proxy/samaritan/pb/config/hc"
	"github.com/samaritan-proxy/samaritan/pb/config/protocol"
	"github.com/samaritan-proxy/samaritan/pb/config/service"
	"github.com/samaritan-proxy/samaritan/proc"
	_ "github.com/samaritan-proxy/samaritan/proc/tcp"
	"github.com/samaritan-proxy/samaritan/proc/verifexport"

	"verifharness/internal/cli"
	"verifharness/internal/ports"
	"verifharness/internal/sut"
)

// End to end: a real TCP processor (proc.New, protocol TCP) in front of scripted backends.
//
// A scripted backend listens on a loopback port and tells probes from relays by the first line:
//   "HCPING"  a health probe of the processor's monitor (advanced TCP checker, send HCPING expect
//             HCPONG).  The probe is HELD until the behaviour says Round; then it is answered
//             (HCPONG) or dropped according to the backend's scripted state.  While a probe of a
//             round is held the monitor cannot start another round, so the harness decides when
//             each round completes and what it sees.
//   "C<id>"   a relayed client connection: the backend answers "B<index>" and keeps the
//             connection open.  When its read side sees EOF (the client half-closed, or the
//             processor closed the relay) it keeps "streaming the response": one byte every 2 ms;
//             the write fails as soon as the processor has closed the socket, which is how the
//             backend observes that its side of the relay is closed.  HalfClose(backend): the
//             backend shuts down its write side and keeps reading.
// Host operations are delivered the way the controller delivers them: fresh host.Host objects
// through p.OnSvcHostAdd / OnSvcHostRemove / OnSvcAllHostReplace.

const (
	hcInterval = 10 * time.Millisecond
	hcTimeout  = 30 * time.Second
)

type probe struct {
	c net.Conn
}

type relayEvent struct {
	seq     int
	backend int
	token   string // "C<id>" or "" if the connection carried no bytes
}

// relay is one relayed connection as the backend sees it.
type relay struct {
	id   int // client id from the token (0: none)
	back int // backend index
	c    net.Conn

	mu      sync.Mutex
	peerEOF bool // read side saw EOF / an error
	wrShut  bool // the backend shut down its write side (HalfClose backend)
	closed  bool // the processor closed its side completely
}

func (r *relay) get() (peerEOF, closed bool) {
	r.mu.Lock()
	defer r.mu.Unlock()
	return r.peerEOF, r.closed
}

type backend struct {
	idx  int
	addr string
	ln   net.Listener
	fx   *fixture

	mu      sync.Mutex
	up      bool
	held    []*probe
	accepts int      // connections accepted (diagnostics)
	probes  int      // health probes received
	lines   []string // first lines read (diagnostics)
}

type fixture struct {
	mu      sync.Mutex
	relays  []relayEvent
	seq     int
	nonce   string // tokens of this fixture's clients are "C<nonce>.<id>"; anything else is foreign
	foreign int    // connections that carried neither a probe nor a token of this fixture
	byID    map[int]*relay
	bs      []*backend
	wg      sync.WaitGroup
	closed  bool
}

func newFixture(n int) (*fixture, error) {
	fx := &fixture{byID: map[int]*relay{}, nonce: fmt.Sprintf("%08x%08x", rand.Uint32(), uint32(os.Getpid())^uint32(time.Now().UnixNano()))}
	var lns []net.Listener
	for i := 0; i < n; i++ {
		// a port of this process' private blocks (internal/ports): an ephemeral port that a refusing
		// backend gives up is re-issued by the kernel to anybody, e.g. to a backend of another harness
		// process running in parallel, whose connections would then arrive here
		ln, err := net.Listen("tcp", fmt.Sprintf("127.0.0.1:%d", ports.Free()))
		if err != nil {
			return nil, err
		}
		if ln.Addr().(*net.TCPAddr).Port < 10000 {
			return nil, fmt.Errorf("ephemeral port below 10000: string order of addresses would differ from numeric order")
		}
		lns = append(lns, ln)
	}
	// model address i  <->  i-th real address in string order (the set sorts by address string)
	sort.Slice(lns, func(i, j int) bool { return lns[i].Addr().String() < lns[j].Addr().String() })
	for i, ln := range lns {
		b := &backend{idx: i + 1, addr: ln.Addr().String(), ln: ln, fx: fx, up: true}
		fx.bs = append(fx.bs, b)
		fx.wg.Add(1)
		go b.serve()
	}
	return fx, nil
}

// setRefusing closes the listener (connections are refused, established relays stay) or
// listens again on the same address.
func (b *backend) setRefusing(refuse bool) error {
	b.mu.Lock()
	defer b.mu.Unlock()
	if refuse == (b.ln == nil) {
		return nil
	}
	if refuse {
		b.ln.Close()
		b.ln = nil
		return nil
	}
	// while the listener was closed the port may have been taken as the source port of some
	// short-lived outgoing connection of this machine: retry for a while
	var ln net.Listener
	var err error
	for try := 0; try < 100; try++ {
		if ln, err = net.Listen("tcp", b.addr); err == nil {
			break
		}
		time.Sleep(20 * time.Millisecond)
	}
	if err != nil {
		return err
	}
	b.ln = ln
	b.fx.wg.Add(1)
	go b.serveOn(ln)
	return nil
}

func (b *backend) serve() { b.serveOn(b.ln) }

func (b *backend) serveOn(ln net.Listener) {
	defer b.fx.wg.Done()
	for {
		c, err := ln.Accept()
		if err != nil {
			return
		}
		b.mu.Lock()
		b.accepts++
		b.mu.Unlock()
		go b.handle(c)
	}
}

func (b *backend) handle(c net.Conn) {
	rd := bufio.NewReader(c)
	c.SetReadDeadline(time.Now().Add(20 * time.Second))
	line, err := rd.ReadString('\n')
	c.SetReadDeadline(time.Time{})
	line = strings.TrimSpace(line)
	b.mu.Lock()
	if len(b.lines) < 64 {
		b.lines = append(b.lines, fmt.Sprintf("%q/%v", line, err))
	}
	b.mu.Unlock()
	if line == "HCPING" {
		b.mu.Lock()
		b.probes++
		b.held = append(b.held, &probe{c: c})
		b.mu.Unlock()
		return
	}
	// a relayed client connection is only ever attributed to this backend when it carries the
	// token of a client of THIS fixture; a connection without one (closed before any byte, or from
	// somebody else) is counted as foreign and dropped
	rl := &relay{c: c, back: b.idx}
	prefix := "C" + b.fx.nonce + "."
	if err == nil && strings.HasPrefix(line, prefix) {
		fmt.Sscanf(line[len(prefix):], "%d", &rl.id)
	}
	b.fx.mu.Lock()
	if rl.id == 0 {
		b.fx.foreign++
		b.fx.mu.Unlock()
		c.Close()
		return
	}
	b.fx.seq++
	b.fx.relays = append(b.fx.relays, relayEvent{seq: b.fx.seq, backend: b.idx, token: line})
	b.fx.byID[rl.id] = rl
	b.fx.mu.Unlock()
	fmt.Fprintf(c, "B%d\n", b.idx)
	buf := make([]byte, 256)
	for {
		if _, err := c.Read(buf); err != nil {
			break
		}
	}
	rl.mu.Lock()
	rl.peerEOF = true
	shut := rl.wrShut
	rl.mu.Unlock()
	if shut {
		// both directions have ended: the processor has closed the relay
		rl.mu.Lock()
		rl.closed = true
		rl.mu.Unlock()
		c.Close()
		return
	}
	// EOF from the processor: the client half-closed, or the relay was closed.  Keep streaming
	// the response; the write fails once the processor has closed the socket.
	for {
		if _, err := c.Write([]byte("s")); err != nil {
			rl.mu.Lock()
			rl.closed = true
			rl.mu.Unlock()
			c.Close()
			return
		}
		time.Sleep(2 * time.Millisecond)
		b.fx.mu.Lock()
		done := b.fx.closed
		b.fx.mu.Unlock()
		if done {
			c.Close()
			return
		}
	}
}

// halfClose shuts down the backend's write side of the relay of client id.
func (fx *fixture) halfClose(id int) error {
	fx.mu.Lock()
	rl := fx.byID[id]
	fx.mu.Unlock()
	if rl == nil {
		return fmt.Errorf("no relay of client %d at any backend", id)
	}
	rl.mu.Lock()
	rl.wrShut = true
	rl.mu.Unlock()
	return rl.c.(*net.TCPConn).CloseWrite()
}

// realCounts returns, per backend, the relays the backend currently holds (accepted with a
// client token and not yet seen closed by the processor).
func (fx *fixture) realCounts() []int {
	out := make([]int, len(fx.bs))
	fx.mu.Lock()
	rls := make([]*relay, 0, len(fx.byID))
	for _, r := range fx.byID {
		rls = append(rls, r)
	}
	fx.mu.Unlock()
	for _, r := range rls {
		if _, closed := r.get(); !closed {
			out[r.back-1]++
		}
	}
	return out
}

// token is the first line a client of this fixture sends.
func (fx *fixture) token(id int) string { return fmt.Sprintf("C%s.%d\n", fx.nonce, id) }

func (fx *fixture) relayOf(id int) *relay {
	fx.mu.Lock()
	defer fx.mu.Unlock()
	return fx.byID[id]
}

// probeCount returns the number of health probes (HCPING) that have reached the backend.
func (b *backend) probeCount() int {
	b.mu.Lock()
	defer b.mu.Unlock()
	return b.probes
}

func (b *backend) heldCount() int {
	b.mu.Lock()
	defer b.mu.Unlock()
	return len(b.held)
}

// take removes and returns the held probes (nothing is answered yet).
func (b *backend) take() ([]*probe, bool) {
	b.mu.Lock()
	defer b.mu.Unlock()
	held := b.held
	b.held = nil
	return held, b.up
}

func answer(held []*probe, up bool) {
	for _, p := range held {
		if up {
			p.c.Write([]byte("HCPONG\n"))
		}
		p.c.Close()
	}
}

// release answers (or drops) every held probe of this backend according to the scripted state.
func (b *backend) release() int {
	held, up := b.take()
	answer(held, up)
	return len(held)
}

// releaseRound lets the held round complete: the probes of ALL backends are taken first and
// answered afterwards.  The monitor starts its next round as soon as the last probe of the held
// round is answered (a tick is usually pending); taking everything before answering anything
// keeps the probes of that next round apart from the ones of the round being released.
func (fx *fixture) releaseRound() []int {
	type taken struct {
		held []*probe
		up   bool
	}
	all := make([]taken, len(fx.bs))
	for i, b := range fx.bs {
		all[i].held, all[i].up = b.take()
	}
	var idx []int
	for i, t := range all {
		if len(t.held) > 0 {
			idx = append(idx, fx.bs[i].idx)
		}
		answer(t.held, t.up)
	}
	return idx
}

func (fx *fixture) close() {
	fx.mu.Lock()
	fx.closed = true
	rls := []*relay{}
	for _, r := range fx.byID {
		rls = append(rls, r)
	}
	fx.mu.Unlock()
	for _, r := range rls {
		r.c.Close()
	}
	for _, b := range fx.bs {
		b.mu.Lock()
		if b.ln != nil {
			b.ln.Close()
		}
		for _, p := range b.held {
			p.c.Close()
		}
		b.held = nil
		b.mu.Unlock()
	}
}

func (fx *fixture) relaysSince(seq int) []relayEvent {
	fx.mu.Lock()
	defer fx.mu.Unlock()
	var out []relayEvent
	for _, r := range fx.relays {
		if r.seq > seq {
			out = append(out, r)
		}
	}
	return out
}

func (fx *fixture) relaySeq() int {
	fx.mu.Lock()
	defer fx.mu.Unlock()
	return fx.seq
}

// ---- behaviour format of spec/tcp/BalanceE2EGen.tla

type connInfo struct {
	ID  int    `json:"id"`
	A   int    `json:"a"`
	How string `json:"how"`
}

type EStep struct {
	Op        string     `json:"op"`
	A         int        `json:"a"`
	T         string     `json:"t"`
	F         []string   `json:"f"`
	Win       []string   `json:"win"`
	Must      []connInfo `json:"must"`
	Closed    []int      `json:"closed"`
	Stale     []int      `json:"stale"`
	Probed    []int      `json:"probed"`
	ID        int        `json:"id"`
	Side      string     `json:"side"` // HalfClose: "chc" (client) | "bhc" (backend)
	R1        int        `json:"r1"`   // Conn: values of the scripted random source
	R2        int        `json:"r2"`
	Refusing  bool       `json:"refusing"` // Refuse: the backend refuses after the step
	Chosen    int        `json:"chosen"`
	Est       bool       `json:"est"`
	Allowed   []int      `json:"allowed"`
	SnapAddrs []int      `json:"snapAddrs"`
	Members   []string   `json:"members"`
	Up        []bool     `json:"up"`
	Open      []connInfo `json:"open"`
}

// EObs is what the real system showed in a step.
type EObs struct {
	Op          string `json:"op"`
	Backend     int    `json:"backend"`                    // Conn: backend that received the connection (0: none)
	Established bool   `json:"established"`                // Conn: the client got the backend's answer
	ClientSaw   string `json:"clientSaw,omitempty"`        // Conn: "reply" | "closed" | "timeout"
	ClosedNow   []int  `json:"closedNow,omitempty"`        // client connections found closed after the step
	Must        []int  `json:"must,omitempty"`             // connections whose backend address left the set in this step
	MustOpen    []int  `json:"mustStillOpen,omitempty"`    // ... and that the client still saw open at the deadline
	BackendOpen []int  `json:"backendStillOpen,omitempty"` // ... and whose backend side was not closed at the deadline
	DeadlineMs  int    `json:"deadlineMs,omitempty"`
	Probes      []int  `json:"probes,omitempty"`    // Round: backends whose probe was released
	Skipped     bool   `json:"skipped,omitempty"`   // HalfClose / CloseConn of a connection that is not open in reality
	Counts      []int  `json:"counts"`              // per address: ConnCount() summed over the host objects the harness delivered for it
	Real        []int  `json:"real"`                // per address: relays its backend holds
	Held        []int  `json:"held"`                // per address: client connections the harness holds open
	CountsOff   bool   `json:"countsOff,omitempty"` // counts != real even after the settle time
	SettleMs    int    `json:"settleMs,omitempty"`
}

type EResult struct {
	ID      int    `json:"id"`
	Policy  string `json:"policy"`
	Obs     []EObs `json:"obs"`
	Err     string `json:"err,omitempty"`
	Steps   int    `json:"steps"`
	Foreign int    `json:"foreign,omitempty"` // connections at the backends that carried neither a probe nor a token of this run
}

type clientConn struct {
	id   int
	c    net.Conn
	rd   *bufio.Reader
	back int
	st   string // "open" | "chc" | "bhc"
}

// isClosed waits up to d for the connection to be closed by the processor.
//
//	open, chc: the client reads (and discards the backend's stream); EOF or an error means the
//	           processor closed the connection (the backend never shuts down its write side in
//	           these states).
//	bhc:       the client has already read the EOF of the backend's half-close and still owns its
//	           write side: it writes a byte every millisecond; once the processor has closed the
//	           socket the write is answered by a reset and the next write fails.
func (cc *clientConn) isClosed(d time.Duration) bool {
	dl := time.Now().Add(d)
	if cc.st == "bhc" {
		for {
			cc.c.SetWriteDeadline(time.Now().Add(time.Second))
			if _, err := cc.c.Write([]byte("p")); err != nil {
				return true
			}
			if time.Now().After(dl) {
				return false
			}
			time.Sleep(time.Millisecond)
		}
	}
	cc.c.SetReadDeadline(dl)
	buf := make([]byte, 64)
	for {
		_, err := cc.c.Read(buf)
		if err == nil {
			continue
		}
		if ne, ok := err.(net.Error); ok && ne.Timeout() {
			return false
		}
		return true
	}
}

type e2eRun struct {
	fx            *fixture
	p             proc.Proc
	addr          string
	clients       map[int]*clientConn
	objs          [][]*host.Host // per address: the host objects delivered to the processor
	settle        time.Duration
	countsBroken  bool
	longLeft      *int // remaining must-close checks with the generous deadline
	longD, shortD time.Duration
}

func tcpConfig(port int, policy string, nohc bool) *service.Config {
	ct := time.Second
	it := 10 * time.Minute
	cfg := &service.Config{
		Listener:       &service.Listener{Address: &common.Address{Ip: "127.0.0.1", Port: uint32(port)}},
		Protocol:       protocol.TCP,
		LbPolicy:       policyOf(policy),
		ConnectTimeout: &ct,
		IdleTimeout:    &it,
		HealthCheck: &pbhc.HealthCheck{
			Interval: hcInterval, Timeout: hcTimeout, FallThreshold: 1, RiseThreshold: 1,
			Checker: &pbhc.HealthCheck_AtcpChecker{AtcpChecker: &pbhc.ATCPChecker{
				Action: []*pbhc.ATCPChecker_Action{{Send: []byte(`"HCPING\n"`), Expect: []byte(`"HCPONG\n"`)}},
			}},
		},
	}
	if nohc {
		cfg.HealthCheck = nil // no monitor: a refusing backend stays in the usable list
	}
	return cfg
}

func (r *e2eRun) hosts(s *EStep) []*host.Host {
	mk := func(a int, t string) *host.Host {
		typ := host.TypeMain
		if t == "backup" {
			typ = host.TypeBackup
		}
		h := host.NewWithType(r.fx.bs[a-1].addr, typ) // fresh, as controller.endpointsToHosts
		if s.Op != "Remove" {
			r.objs[a-1] = append(r.objs[a-1], h) // the set stores the delivered object
		}
		return h
	}
	if s.Op == "ReplaceAll" {
		var hs []*host.Host
		for i, t := range s.F {
			if t != "none" {
				hs = append(hs, mk(i+1, t))
			}
		}
		return hs
	}
	return []*host.Host{mk(s.A, s.T)}
}

// waitRound waits until the probes of a new round are held at exactly the given backends.
func (r *e2eRun) waitRound(addrs []int) error {
	if len(addrs) == 0 {
		return nil
	}
	dl := time.Now().Add(10 * time.Second)
	for {
		ok := true
		for _, a := range addrs {
			if r.fx.bs[a-1].heldCount() == 0 {
				ok = false
			}
		}
		if ok {
			return nil
		}
		if time.Now().After(dl) {
			var got []int
			for _, b := range r.fx.bs {
				if b.heldCount() > 0 {
					got = append(got, b.idx)
				}
			}
			diag := ""
			for _, b := range r.fx.bs {
				b.mu.Lock()
				diag += fmt.Sprintf(" backend%d: accepts=%d lines=%v;", b.idx, b.accepts, b.lines)
				b.mu.Unlock()
			}
			return fmt.Errorf("monitor round did not probe backends %v (probes held at %v)%s", addrs, got, diag)
		}
		time.Sleep(200 * time.Microsecond)
	}
}

func (r *e2eRun) anyHeld() bool {
	for _, b := range r.fx.bs {
		if b.heldCount() > 0 {
			return true
		}
	}
	return false
}

// sweep records which client connections the processor has closed; leaving lists the backend
// addresses that stopped being members in this step: the connections established to them (by
// the harness' own bookkeeping of which backend answered which client) must be closed now.
func (r *e2eRun) sweep(leaving map[int]bool, o *EObs) {
	mustSet := map[int]bool{}
	for id, cc := range r.clients {
		if leaving[cc.back] {
			mustSet[id] = true
			o.Must = append(o.Must, id)
		}
	}
	sort.Ints(o.Must)
	ids := []int{}
	for id := range r.clients {
		ids = append(ids, id)
	}
	sort.Ints(ids)
	for _, id := range ids {
		cc := r.clients[id]
		d := 2 * time.Millisecond
		if mustSet[id] {
			d = r.shortD
			if *r.longLeft > 0 {
				d = r.longD
			} else if len(o.MustOpen) > 0 {
				d = r.shortD / 10 // the step has already waited a full deadline for another relay
			}
			if ms := int(d / time.Millisecond); ms > o.DeadlineMs {
				o.DeadlineMs = ms // the longest time a connection of this step was given to close
			}
		}
		if cc.isClosed(d) {
			o.ClosedNow = append(o.ClosedNow, id)
			cc.c.Close()
			delete(r.clients, id)
			if mustSet[id] {
				// the backend must see its side closed as well
				if rl := r.fx.relayOf(id); rl != nil {
					dl := time.Now().Add(d)
					for {
						if _, closed := rl.get(); closed {
							break
						}
						if time.Now().After(dl) {
							o.BackendOpen = append(o.BackendOpen, id)
							break
						}
						time.Sleep(time.Millisecond)
					}
				}
			}
		} else if mustSet[id] {
			o.MustOpen = append(o.MustOpen, id)
			if *r.longLeft > 0 {
				*r.longLeft--
			}
		}
	}
}

// readCounts compares, at a quiescent point, the connection counts of the delivered host
// objects with the relays the backends hold; both sides lag a little behind what the client
// sees (DecConnCount runs when HandleConn returns), so it polls up to the settle time.
func (r *e2eRun) readCounts(o *EObs) {
	dl := time.Now().Add(r.settle)
	if r.countsBroken {
		dl = time.Now() // the counts of this run are known to be off: do not wait for them again
	}
	for {
		counts := make([]int, len(r.objs))
		for a, hs := range r.objs {
			for _, h := range hs {
				counts[a] += int(h.ConnCount())
			}
		}
		real := r.fx.realCounts()
		held := make([]int, len(r.objs)) // relays the harness holds: client connections that are open
		for _, cc := range r.clients {
			held[cc.back-1]++
		}
		for a := range counts {
			if counts[a] < held[a] || real[a] < held[a] {
				// a relay has ended and the harness has not noticed yet: look at the clients again
				ids := []int{}
				for id := range r.clients {
					ids = append(ids, id)
				}
				sort.Ints(ids)
				for _, id := range ids {
					if cc := r.clients[id]; cc.isClosed(time.Millisecond) {
						o.ClosedNow = append(o.ClosedNow, id)
						cc.c.Close()
						delete(r.clients, id)
					}
				}
				break
			}
		}
		same := true
		for a := range counts {
			if counts[a] != real[a] || counts[a] != held[a] {
				same = false
			}
		}
		o.Counts, o.Real, o.Held = counts, real, held
		if same {
			o.CountsOff = false
			return
		}
		if time.Now().After(dl) {
			o.CountsOff = true
			if !r.countsBroken {
				o.SettleMs = int(r.settle / time.Millisecond)
			}
			r.countsBroken = true
			return
		}
		time.Sleep(500 * time.Microsecond)
	}
}

func runE2E(id int, policy string, nohc bool, steps []EStep, naddr int, settle time.Duration, longLeft *int, longD, shortD time.Duration) (res EResult) {
	res = EResult{ID: id, Policy: policy, Steps: len(steps)}
	fx, err := newFixture(naddr)
	if err != nil {
		res.Err = err.Error()
		return
	}
	defer fx.close()
	port := sut.FreePort()
	name := sut.UniqueName("c06")
	p, err := proc.New(name, tcpConfig(port, policy, nohc), nil)
	if err != nil {
		res.Err = "proc.New: " + err.Error()
		return
	}
	if err := p.Start(); err != nil {
		res.Err = "Start: " + err.Error()
		return
	}
	r := &e2eRun{fx: fx, p: p, addr: fmt.Sprintf("127.0.0.1:%d", port), clients: map[int]*clientConn{},
		objs: make([][]*host.Host, naddr), settle: settle,
		longLeft: longLeft, longD: longD, shortD: shortD}
	defer func() {
		for _, cc := range r.clients {
			cc.c.Close()
		}
		for _, b := range fx.bs { // let a held round finish so that the monitor can stop
			b.mu.Lock()
			b.up = true
			b.mu.Unlock()
		}
		stop := make(chan struct{})
		go func() {
			for {
				select {
				case <-stop:
					return
				default:
					for _, b := range fx.bs {
						b.release()
					}
					time.Sleep(time.Millisecond)
				}
			}
		}()
		if !sut.StopWithin(p, 10*time.Second) && res.Err == "" {
			res.Err = "processor did not stop"
		}
		close(stop)
		fx.mu.Lock()
		res.Foreign = fx.foreign
		fx.mu.Unlock()
	}()
	// Wait until the processor listens.  The host set is empty, so the first connection that gets
	// through is closed by the processor without touching the balancer; waiting for that close
	// makes sure its handler has run before the first host is added (a handler running later
	// would take a round-robin index and a backend connection of its own).
	if err := waitProxy(r.addr, 5*time.Second); err != nil {
		res.Err = err.Error()
		return
	}
	idle := true // no round is held
	for i := range steps {
		s := &steps[i]
		o := EObs{Op: s.Op}
		switch s.Op {
		case "Add":
			p.OnSvcHostAdd(r.hosts(s))
		case "Remove":
			p.OnSvcHostRemove(r.hosts(s))
		case "ReplaceAll":
			p.OnSvcAllHostReplace(r.hosts(s))
		case "Toggle":
			b := fx.bs[s.A-1]
			b.mu.Lock()
			b.up = !b.up
			b.mu.Unlock()
		case "Refuse":
			if err := fx.bs[s.A-1].setRefusing(s.Refusing); err != nil {
				res.Err = fmt.Sprintf("step %d: %v", i, err)
				return
			}
		case "CloseConn":
			cc := r.clients[s.ID]
			if cc == nil {
				o.Skipped = true
				break
			}
			cc.c.Close()
			delete(r.clients, s.ID)
			o.ClosedNow = append(o.ClosedNow, s.ID)
			if rl := fx.relayOf(s.ID); rl != nil { // the relay ends: wait until the backend has seen it
				dl := time.Now().Add(5 * time.Second)
				for {
					if _, closed := rl.get(); closed {
						break
					}
					if time.Now().After(dl) {
						res.Err = fmt.Sprintf("step %d: the backend did not see the end of the relay of connection %d", i, s.ID)
						return
					}
					time.Sleep(200 * time.Microsecond)
				}
			}
		case "HalfClose":
			cc := r.clients[s.ID]
			if cc == nil {
				// with a non-deterministic policy the real connection may have gone to another backend
				// than the model's and may have been closed with that backend's host: nothing to do
				o.Skipped = true
				break
			}
			if err := r.halfClose(cc, s.Side); err != nil {
				res.Err = fmt.Sprintf("step %d: %v", i, err)
				return
			}
		case "Round":
			o.Probes = fx.releaseRound()
			idle = true
		case "Conn":
			seq := fx.relaySeq()
			switch policy { // the processor's balancer draws from the scripted random source
			case "random":
				setScript(s.R1)
			case "lc":
				setScript(s.R1, s.R2)
			default:
				setScript()
			}
			c, err := net.DialTimeout("tcp", r.addr, 2*time.Second)
			if err != nil {
				res.Err = fmt.Sprintf("step %d: dial proxy: %v", i, err)
				return
			}
			fmt.Fprint(c, fx.token(s.ID))
			rd := bufio.NewReader(c)
			c.SetReadDeadline(time.Now().Add(5 * time.Second))
			line, err := rd.ReadString('\n')
			switch {
			case err == nil && strings.HasPrefix(line, "B"):
				o.ClientSaw = "reply"
				fmt.Sscanf(line, "B%d", &o.Backend)
				o.Established = true
				r.clients[s.ID] = &clientConn{id: s.ID, c: c, rd: rd, back: o.Backend, st: "open"}
			default:
				if ne, ok := err.(net.Error); ok && ne.Timeout() {
					o.ClientSaw = "timeout"
				} else {
					o.ClientSaw = "closed"
				}
				c.Close()
				// did a backend see THIS connection's token before it was closed?  (exact: by the
				// token; the wait only bounds how long a token that is already on its way may take)
				dl := time.Now().Add(60 * time.Millisecond)
				for time.Now().Before(dl) && fx.relayOf(s.ID) == nil {
					time.Sleep(time.Millisecond)
				}
			}
			_ = seq
			if rl := fx.relayOf(s.ID); rl != nil {
				if o.Backend == 0 {
					o.Backend = rl.back
				} else if rl.back != o.Backend {
					res.Err = fmt.Sprintf("step %d: client %d was answered by backend %d, its token arrived at backend %d", i, s.ID, o.Backend, rl.back)
					return
				}
			} else if o.Backend != 0 {
				res.Err = fmt.Sprintf("step %d: client %d was answered by backend %d which has not seen its token", i, s.ID, o.Backend)
				return
			}
		default:
			res.Err = "unknown op " + s.Op
			return
		}
		// a new round starts at the next tick with the members present then; wait until its
		// probes are held so that the monitor's snapshot is the one the model has
		if idle && len(s.SnapAddrs) > 0 && (s.Op == "Add" || s.Op == "Remove" || s.Op == "ReplaceAll" || s.Op == "Round") {
			if err := r.waitRound(s.SnapAddrs); err != nil {
				res.Err = fmt.Sprintf("step %d (%s): %v", i, s.Op, err)
				return
			}
			idle = false
		} else if s.Op == "Round" && len(s.SnapAddrs) == 0 {
			// nothing left to probe: let the marks of the released round finish (assumption: 30 ms)
			time.Sleep(30 * time.Millisecond)
		}
		if s.Op != "Toggle" && s.Op != "HalfClose" && s.Op != "Refuse" {
			// addresses that stop being members by the meaning of the operation (variant independent)
			leaving := map[int]bool{}
			if i > 0 {
				prev := steps[i-1].Members
				for a := 1; a <= len(prev); a++ {
					if prev[a-1] == "none" {
						continue
					}
					if (s.Op == "Remove" && s.A == a) || (s.Op == "ReplaceAll" && a <= len(s.F) && s.F[a-1] == "none") {
						leaving[a] = true
					}
				}
			}
			r.sweep(leaving, &o)
		}
		r.readCounts(&o)
		res.Obs = append(res.Obs, o)
	}
	return
}

// halfClose shuts down one side's write direction and waits until the processor has relayed it:
// the other side has seen the EOF, i.e. the corresponding copy loop of HandleConn has ended.
// A further 5 ms let the processor's goroutines that wait for that loop run (assumption).
func (r *e2eRun) halfClose(cc *clientConn, side string) error {
	dl := time.Now().Add(5 * time.Second)
	switch side {
	case "chc":
		if err := cc.c.(*net.TCPConn).CloseWrite(); err != nil {
			return err
		}
		rl := r.fx.relayOf(cc.id)
		if rl == nil {
			return fmt.Errorf("no relay of client %d at any backend", cc.id)
		}
		for {
			if eof, _ := rl.get(); eof {
				break
			}
			if time.Now().After(dl) {
				return fmt.Errorf("client half-close of connection %d did not reach the backend", cc.id)
			}
			time.Sleep(200 * time.Microsecond)
		}
	case "bhc":
		if err := r.fx.halfClose(cc.id); err != nil {
			return err
		}
		cc.c.SetReadDeadline(dl)
		buf := make([]byte, 64)
		for {
			_, err := cc.c.Read(buf)
			if err == nil {
				continue
			}
			if ne, ok := err.(net.Error); ok && ne.Timeout() {
				return fmt.Errorf("backend half-close of connection %d did not reach the client", cc.id)
			}
			break // EOF: the processor half-closed the client socket
		}
	default:
		return fmt.Errorf("unknown side %q", side)
	}
	cc.st = side
	time.Sleep(5 * time.Millisecond)
	return nil
}

func waitProxy(addr string, d time.Duration) error {
	dl := time.Now().Add(d)
	for time.Now().Before(dl) {
		c, err := net.DialTimeout("tcp", addr, 200*time.Millisecond)
		if err != nil {
			time.Sleep(time.Millisecond)
			continue
		}
		c.SetReadDeadline(time.Now().Add(d))
		buf := make([]byte, 16)
		_, err = c.Read(buf)
		c.Close()
		if ne, ok := err.(net.Error); ok && ne.Timeout() {
			return fmt.Errorf("processor accepted the first connection but did not close it (empty host set)")
		}
		return nil
	}
	return fmt.Errorf("processor did not start listening on %s", addr)
}

// c06-e2e -in behaviours.ndjson -out results.ndjson -naddr N
func cmdE2E(args []string) error {
	fs := flag.NewFlagSet("c06-e2e", flag.ContinueOnError)
	in := fs.String("in", "", "behaviours of BalanceE2EGen (ndjson: {policy, steps})")
	out := fs.String("out", "", "results (ndjson)")
	naddr := fs.Int("naddr", 2, "addresses of the model")
	long := fs.Int("long", 2, "must-close checks done with the generous deadline")
	longMs := fs.Int("longms", 5000, "generous deadline (ms)")
	shortMs := fs.Int("shortms", 300, "deadline once the generous one has been used up (ms)")
	settleMs := fs.Int("settlems", 300, "time the connection counts are given to agree with the backends' relays (ms)")
	if err := fs.Parse(args); err != nil {
		return err
	}
	w, err := cli.NewNDJSONWriter(*out)
	if err != nil {
		return err
	}
	defer w.Close()
	id := 0
	longLeft := *long
	restore := verifexport.SetRandInt(scriptedRand)
	defer restore()
	return cli.ReadNDJSON(*in, func(line []byte) error {
		var b struct {
			Policy string  `json:"policy"`
			NoHC   bool    `json:"nohc"`
			Steps  []EStep `json:"steps"`
		}
		if err := json.Unmarshal(line, &b); err != nil {
			return err
		}
		r := runE2E(id, b.Policy, b.NoHC, b.Steps, *naddr, time.Duration(*settleMs)*time.Millisecond, &longLeft, time.Duration(*longMs)*time.Millisecond, time.Duration(*shortMs)*time.Millisecond)
		id++
		return w.Write(r)
	})
}
