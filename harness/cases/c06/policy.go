// Package c06 binds spec/tcp/Balance.tla and spec/tcp/BalanceE2E.tla to the real balancers, the
// real host.Set and the real TCP processor of samaritan.
//
//	c06-policy  spec -> code, policy level: every TLC-emitted path of BalanceGen on a real host.Set
//	            (driver of cases/c15) and a real balancer (re-exported constructor, scripted random
//	            source); Load = Healthy(), Pick = PickHost on the loaded slice.
//	c06-rr      round-robin under real concurrency (16 goroutines x n*k picks: exact multiset),
//	            sliding windows of sequential picks, seeded scripted stress of random / least-conn.
//	c06-e2e     end to end: a real TCP processor with scripted backends (see e2e.go).
package c06

import (
	"encoding/json"
	"flag"
	"fmt"
	"math/rand"
	"sync"

	"github.com/samaritan-proxy/samaritan/host"
	"github.com/samaritan-proxy/samaritan/pb/config/service"
	"github.com/samaritan-proxy/samaritan/proc/verifexport"

	"verifharness/cases/c15"
	"verifharness/internal/cli"
)

func init() {
	cli.Register("c06-policy", cmdPolicy)
	cli.Register("c06-rr", cmdRR)
	cli.Register("c06-e2e", cmdE2E)
}

func policyOf(p string) service.LoadBalancePolicy {
	switch p {
	case "random":
		return service.LoadBalancePolicy_RANDOM
	case "lc":
		return service.LoadBalancePolicy_LEAST_CONNECTION
	}
	return service.LoadBalancePolicy_ROUND_ROBIN
}

// BStep is one step of a BalanceGen path: a host set step (embedded) or a selector step.
type BStep struct {
	c15.Step
	S       string `json:"s"`
	R1      int    `json:"r1"`
	R2      int    `json:"r2"`
	Snap    []int  `json:"snap"`
	Chosen  int    `json:"chosen"`
	Done    bool   `json:"done"`
	Allowed []int  `json:"allowed"`
	NoMain  bool   `json:"noMain"`
	EmptyOK bool   `json:"emptyOK"`
	Idx     int    `json:"idx"`
	CC      []int  `json:"cc"`
}

// SelViol is a failed predicate of C06 at the policy level, judged on the real objects.
type SelViol struct {
	Step    int      `json:"step"`
	Symptom string   `json:"symptom"`
	Detail  string   `json:"detail"`
	Cause   []string `json:"cause"` // windows the offending state of the usable view is attributed to
}

// PolicyResult is the outcome of one path.
type PolicyResult struct {
	ID        int       `json:"id"`
	Steps     int       `json:"steps"`
	Picks     int       `json:"picks"`
	Conform   bool      `json:"conform"`
	DivergeAt int       `json:"divergeAt"`
	Why       string    `json:"why,omitempty"`
	Viol      []SelViol `json:"viol,omitempty"`
	Err       string    `json:"err,omitempty"`
}

// scripted random source of lb (process wide: policy paths are replayed sequentially)
var (
	scriptMu       sync.Mutex
	script         []int
	scriptUnderrun bool
)

func scriptedRand() int {
	scriptMu.Lock()
	defer scriptMu.Unlock()
	if len(script) == 0 {
		scriptUnderrun = true
		return 0
	}
	v := script[0]
	script = script[1:]
	return v
}

func setScript(v ...int) {
	scriptMu.Lock()
	script = append([]int{}, v...)
	scriptUnderrun = false
	scriptMu.Unlock()
}

type loaded struct {
	snap    []*host.Host
	allowed map[*host.Host]bool
	noMain  bool
	emptyOK bool
	causes  []string
}

type pickRec struct {
	snap   []*host.Host
	chosen *host.Host
}

func sameList(a, b []*host.Host) bool {
	if len(a) != len(b) {
		return false
	}
	for i := range a {
		if a[i] != b[i] {
			return false
		}
	}
	return true
}

// rrWindows checks: any n*k consecutive picks over an unchanged list of n hosts hit each host k times.
func rrWindows(picks []pickRec) string {
	for i := range picks {
		n := len(picks[i].snap)
		for k := 1; i+n*k <= len(picks); k++ {
			same := true
			cnt := map[*host.Host]int{}
			for j := i; j < i+n*k; j++ {
				if !sameList(picks[j].snap, picks[i].snap) {
					same = false
					break
				}
				cnt[picks[j].chosen]++
			}
			if !same {
				break
			}
			for _, h := range picks[i].snap {
				if cnt[h] != k {
					return fmt.Sprintf("picks %d..%d over an unchanged list of %d hosts: %s chosen %d times, want %d", i, i+n*k-1, n, h, cnt[h], k)
				}
			}
		}
	}
	return ""
}

func runPolicyPath(id, naddr int, policy string, steps []BStep) PolicyResult {
	res := PolicyResult{ID: id, Steps: len(steps), Conform: true, DivergeAt: -1}
	d := c15.NewDriver(naddr)
	defer d.Close()
	bal := verifexport.NewBalancer(policyOf(policy))
	sel := map[string]*loaded{}
	conn := map[string]*host.Host{}
	var picks []pickRec
	diverge := func(i int, why string) {
		if res.Conform {
			res.Conform, res.DivergeAt, res.Why = false, i, why
		}
	}
	addViol := func(i int, sym, detail string, cause []string) {
		res.Viol = append(res.Viol, SelViol{Step: i, Symptom: sym, Detail: detail, Cause: cause})
	}
	ids := func(hs []*host.Host) []int {
		out := []int{}
		for _, h := range hs {
			out = append(out, d.IDOf(h))
		}
		return out
	}
	for i := range steps {
		s := &steps[i]
		switch s.Op {
		case "Load":
			snap := d.Set().Healthy()
			allowed, noMain, emptyOK := d.AllowedNow()
			_, causes := d.ViewCauses()
			if fmt.Sprint(ids(snap)) != fmt.Sprint(append([]int{}, s.Snap...)) {
				diverge(i, fmt.Sprintf("Load: Healthy() = %v, model %v", ids(snap), s.Snap))
			}
			if len(snap) == 0 {
				// "No available host": the connection is closed
				if !emptyOK {
					addViol(i, "closed-with-usable-host", "Healthy() is empty although the set has usable members", causes)
				}
				continue
			}
			sel[s.S] = &loaded{snap: snap, allowed: allowed, noMain: noMain, emptyOK: emptyOK, causes: causes}
		case "Pick":
			l := sel[s.S]
			if l == nil {
				if !res.Conform {
					// the real code left the model's path earlier (its usable list was empty where the
					// model's was not): the rest of this path cannot be followed
					return res
				}
				res.Err = fmt.Sprintf("step %d: selector %s has nothing loaded", i, s.S)
				return res
			}
			delete(sel, s.S)
			var c1, c2 uint64
			var h1, h2 *host.Host
			switch policy {
			case "random":
				setScript(s.R1)
			case "lc":
				setScript(s.R1, s.R2)
				h1, h2 = l.snap[s.R1%len(l.snap)], l.snap[s.R2%len(l.snap)]
				c1, c2 = h1.ConnCount(), h2.ConnCount()
			default:
				setScript()
			}
			chosen := bal.PickHost(l.snap)
			scriptMu.Lock()
			under, left := scriptUnderrun, len(script)
			scriptMu.Unlock()
			if under || left != 0 {
				diverge(i, fmt.Sprintf("PickHost used the random source differently from the model (underrun %v, unused %d)", under, left))
			}
			res.Picks++
			picks = append(picks, pickRec{l.snap, chosen})
			if d.IDOf(chosen) != s.Chosen {
				diverge(i, fmt.Sprintf("Pick: real %d, model %d", d.IDOf(chosen), s.Chosen))
			}
			in := false
			for _, h := range l.snap {
				if h == chosen {
					in = true
				}
			}
			switch {
			case chosen == nil || !in:
				addViol(i, "picked-outside-candidates", fmt.Sprintf("PickHost returned %v, not an element of the loaded list", chosen), nil)
			default:
				if !l.allowed[chosen] {
					addViol(i, "selected-not-usable", chosen.String()+" was selected; at the load it was not a member flagged healthy in the preferred tier", l.causes)
				} else if chosen.Type == host.TypeBackup && !l.noMain {
					addViol(i, "backup-with-healthy-main", chosen.String()+" selected while a main host was healthy", l.causes)
				}
				if policy == "lc" && h1 != h2 {
					if (chosen == h1 && c1 > c2) || (chosen == h2 && c2 > c1) {
						addViol(i, "lc-picked-busier", fmt.Sprintf("samples %s(%d) %s(%d), chose %s", h1, c1, h2, c2, chosen), nil)
					}
					if chosen != h1 && chosen != h2 {
						addViol(i, "lc-picked-unsampled", fmt.Sprintf("samples %s %s, chose %s", h1, h2, chosen), nil)
					}
				}
			}
			if chosen != nil {
				chosen.IncConnCount() // proc.go:116
				conn[s.S] = chosen
			}
		case "Finish":
			if h := conn[s.S]; h != nil {
				h.DecConnCount() // proc.go:120
				delete(conn, s.S)
			}
		default:
			ret, hasRet, err := d.Apply(&s.Step)
			if err != nil {
				res.Err = fmt.Sprintf("step %d (%s): %v", i, s.Op, err)
				return res
			}
			ro, _, _, _ := d.Observe()
			if why := c15.Conform(&ro, &s.Step, ret, hasRet); why != "" {
				diverge(i, why)
			}
			if s.Op == "MarkBegin" && hasRet == s.Ret {
				return res
			}
			continue
		}
		// connection counts follow the model
		if s.Op == "Pick" || s.Op == "Finish" {
			for o := 1; o <= d.NObj() && o <= len(s.CC); o++ {
				if int(d.Obj(o).ConnCount()) != s.CC[o-1] {
					diverge(i, fmt.Sprintf("ConnCount of object %d: real %d model %d", o, d.Obj(o).ConnCount(), s.CC[o-1]))
				}
			}
		}
	}
	if policy == "rr" {
		if why := rrWindows(picks); why != "" {
			addViol(len(steps)-1, "rr-unfair", why, nil)
		}
	}
	return res
}

// c06-policy -in paths.ndjson -out results.ndjson -policy rr|random|lc -naddr N
func cmdPolicy(args []string) error {
	fs := flag.NewFlagSet("c06-policy", flag.ContinueOnError)
	in := fs.String("in", "", "paths of BalanceGen (ndjson)")
	out := fs.String("out", "", "results (ndjson)")
	policy := fs.String("policy", "rr", "rr | random | lc")
	naddr := fs.Int("naddr", 2, "addresses of the model")
	if err := fs.Parse(args); err != nil {
		return err
	}
	restore := verifexport.SetRandInt(scriptedRand)
	defer restore()
	w, err := cli.NewNDJSONWriter(*out)
	if err != nil {
		return err
	}
	defer w.Close()
	id := 0
	return cli.ReadNDJSON(*in, func(line []byte) error {
		var st []BStep
		if err := json.Unmarshal(line, &st); err != nil {
			return err
		}
		r := runPolicyPath(id, *naddr, *policy, st)
		id++
		return w.Write(r)
	})
}

// ---- round-robin under real concurrency, scripted stress of random / least-connection

// RRResult is one concurrency case.
type RRResult struct {
	Kind   string `json:"kind"`
	N      int    `json:"n"`
	K      int    `json:"k"`
	Gor    int    `json:"goroutines"`
	Picks  int    `json:"picks"`
	OK     bool   `json:"ok"`
	Detail string `json:"detail,omitempty"`
}

func mkHosts(n int) []*host.Host {
	hs := make([]*host.Host, n)
	for i := range hs {
		hs[i] = host.New(fmt.Sprintf("10.1.0.%d:80", i+1))
	}
	return hs
}

// c06-rr -out results.ndjson
func cmdRR(args []string) error {
	fs := flag.NewFlagSet("c06-rr", flag.ContinueOnError)
	out := fs.String("out", "", "results (ndjson)")
	if err := fs.Parse(args); err != nil {
		return err
	}
	w, err := cli.NewNDJSONWriter(*out)
	if err != nil {
		return err
	}
	defer w.Close()
	ks := []int{1, 2, 7, 64}
	maxN := 7
	if cli.Thorough() {
		ks = []int{1, 2, 3, 7, 50, 400}
		maxN = 12
	}
	const G = 16
	for n := 1; n <= maxN; n++ {
		for _, k := range ks {
			// (a) 16 goroutines x n*k picks on one balancer over an unchanged list: exact multiset
			hs := mkHosts(n)
			bal := verifexport.NewBalancer(service.LoadBalancePolicy_ROUND_ROBIN)
			pre := int(cli.Seed()) % (n + 3) // start the index somewhere else than 0
			for i := 0; i < pre*n; i++ {
				bal.PickHost(hs)
			}
			counts := make([]map[*host.Host]int, G)
			var wg sync.WaitGroup
			start := make(chan struct{})
			for g := 0; g < G; g++ {
				counts[g] = map[*host.Host]int{}
				wg.Add(1)
				go func(g int) {
					defer wg.Done()
					<-start
					for i := 0; i < n*k; i++ {
						counts[g][bal.PickHost(hs)]++
					}
				}(g)
			}
			close(start)
			wg.Wait()
			total := map[*host.Host]int{}
			for g := range counts {
				for h, c := range counts[g] {
					total[h] += c
				}
			}
			r := RRResult{Kind: "rr-concurrent", N: n, K: k, Gor: G, Picks: G * n * k, OK: true}
			for _, h := range hs {
				if total[h] != G*k {
					r.OK = false
					r.Detail = fmt.Sprintf("%s chosen %d times, want %d", h, total[h], G*k)
				}
			}
			if len(total) != n {
				r.OK = false
				r.Detail = fmt.Sprintf("%d distinct results for %d hosts", len(total), n)
			}
			w.Write(r)
			// (b) sequential: every window of n*k consecutive picks hits each host exactly k times
			bal = verifexport.NewBalancer(service.LoadBalancePolicy_ROUND_ROBIN)
			var picks []pickRec
			kk := k
			if kk > 7 {
				kk = 7
			}
			for i := 0; i < 3*n*kk+n-1; i++ {
				picks = append(picks, pickRec{hs, bal.PickHost(hs)})
			}
			r = RRResult{Kind: "rr-windows", N: n, K: kk, Gor: 1, Picks: len(picks), OK: true}
			if why := rrWindows(picks); why != "" {
				r.OK, r.Detail = false, why
			}
			w.Write(r)
		}
	}
	// (c) random / least-connection with a seeded scripted source (values up to 2^62) and random
	// connection counts: result is a candidate; least-connection not the strictly busier sample
	restore := verifexport.SetRandInt(scriptedRand)
	defer restore()
	rnd := rand.New(rand.NewSource(cli.Seed()))
	rounds := 2000
	if cli.Thorough() {
		rounds = 40000
	}
	for _, pol := range []string{"random", "lc"} {
		bal := verifexport.NewBalancer(policyOf(pol))
		r := RRResult{Kind: pol + "-scripted", Picks: rounds, OK: true}
		for i := 0; i < rounds; i++ {
			n := 1 + rnd.Intn(maxN)
			hs := mkHosts(n)
			for _, h := range hs {
				for c := rnd.Intn(4); c > 0; c-- {
					h.IncConnCount()
				}
			}
			v1, v2 := int(rnd.Int63()>>uint(rnd.Intn(62))), int(rnd.Int63()>>uint(rnd.Intn(62)))
			if pol == "random" {
				setScript(v1)
			} else {
				setScript(v1, v2)
			}
			got := bal.PickHost(hs)
			in := false
			for _, h := range hs {
				if h == got {
					in = true
				}
			}
			if !in {
				r.OK, r.Detail = false, fmt.Sprintf("n=%d values %d %d: result %v is not a candidate", n, v1, v2, got)
				continue
			}
			if pol == "lc" {
				h1, h2 := hs[v1%n], hs[v2%n]
				if got != h1 && got != h2 {
					r.OK, r.Detail = false, fmt.Sprintf("n=%d: result %s is neither sample (%s, %s)", n, got, h1, h2)
				} else if other := map[bool]*host.Host{true: h2, false: h1}[got == h1]; got.ConnCount() > other.ConnCount() {
					r.OK, r.Detail = false, fmt.Sprintf("n=%d: chose %s(%d) over %s(%d)", n, got, got.ConnCount(), other, other.ConnCount())
				}
			}
		}
		w.Write(r)
	}
	// empty list: every policy returns nil
	for _, pol := range []string{"rr", "random", "lc"} {
		setScript(0, 0)
		got := verifexport.NewBalancer(policyOf(pol)).PickHost(nil)
		w.Write(RRResult{Kind: pol + "-empty", OK: got == nil})
	}
	return nil
}
