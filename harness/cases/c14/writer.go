package c14

import (
	"encoding/json"
	"os"
)

// lineWriter writes one JSON value per line straight to the file (no user
// space buffer): the supervisor (checks/c14.py) must find the record of the
// item in progress when the process hosting the processors dies.
type lineWriter struct {
	f *os.File
}

func newLineWriter(path string) (*lineWriter, error) {
	f, err := os.Create(path)
	if err != nil {
		return nil, err
	}
	return &lineWriter{f: f}, nil
}

func (w *lineWriter) Write(v interface{}) error {
	b, err := json.Marshal(v)
	if err != nil {
		return err
	}
	_, err = w.f.Write(append(b, '\n'))
	return err
}

func (w *lineWriter) Close() error { return w.f.Close() }
