// Package c14 replays the command classification vectors of Commands.tla
// through real Redis processors (one per read strategy) against a simulated
// cluster with replicas and reports, per case, the reply class and the roles
// of the nodes that received a command.
package c14

import (
	"encoding/json"
	"flag"
	"fmt"
	"strings"
	"time"

	pbredis "github.com/samaritan-proxy/samaritan/pb/config/protocol/redis"

	"verifharness/internal/cli"
	"verifharness/internal/simredis"
	"verifharness/internal/sut"
)

func init() {
	cli.Register("c14-run", run)
	cli.Register("c14-reassign", reassign)
}

type reassignResult struct {
	Strategy string   `json:"strategy"`
	Phase    string   `json:"phase"`
	Reads    int      `json:"reads"`
	Bad      []string `json:"bad"`
}

// reassign: the replica set of a master changes while it keeps its slots (a replica is re-pointed to another master);
// after the next refresh read-only commands for the first master's keys must no longer reach that replica.
func reassign(args []string) error {
	fs := flag.NewFlagSet("c14-reassign", flag.ContinueOnError)
	out := fs.String("out", "", "results (ndjson)")
	from := fs.Int("from", 1, "first item to run (1 = BOTH, 2 = REPLICA)")
	to := fs.Int("to", 1<<30, "last item to run")
	if err := fs.Parse(args); err != nil {
		return err
	}
	sut.FastRefresh() // periodic refresh every 200 ms
	w, err := newLineWriter(*out)
	if err != nil {
		return err
	}
	defer w.Close()
	for item, name := range []string{"BOTH", "REPLICA"} {
		if item+1 < *from || item+1 > *to {
			continue
		}
		st := strategyOf[name]
		// the process hosting the processor may die in this item: say which one is running
		if err := w.Write(map[string]interface{}{"begin": item + 1, "what": "replica re-pointed to another master, refresh, reads; strategy " + name}); err != nil {
			return err
		}
		cl, err := simredis.NewCluster(2, 1) // masters 0,1; replica 2 of master 0, replica 3 of master 1
		if err != nil {
			return err
		}
		px, err := sut.StartRedis(sut.RedisOpts{ReadStrategy: st}, []string{cl.Nodes[0].Addr, cl.Nodes[1].Addr})
		if err != nil {
			return err
		}
		sut.WaitRefresh(px.Name, 3*time.Second)
		c, err := sut.Dial(px.Addr)
		if err != nil {
			return err
		}
		key := cl.KeyFor(0, "ra-")
		phase := func(ph string, forbidden int) {
			res := reassignResult{Strategy: name, Phase: ph}
			for _, n := range cl.Nodes {
				n.ClearLog()
			}
			for i := 0; i < 60; i++ {
				c.Do(2*time.Second, "GET", key)
				res.Reads++
			}
			if forbidden >= 0 {
				for _, r := range simredis.DataCommands(cl.Nodes[forbidden].Records()) {
					res.Bad = append(res.Bad, fmt.Sprintf("%s delivered to node %d which is not (any more) a replica of the owning master", r.Cmd(), forbidden))
					break
				}
			}
			w.Write(res)
		}
		phase("initial", 3)
		cl.Reassign(2, 1) // replica 2 now follows master 1
		// wait for two complete periodic refreshes after the change
		base := sut.ServiceStats(px.Name)["upstream.slots_refresh.success_total"]
		for dl := time.Now().Add(6 * time.Second); time.Now().Before(dl) && sut.ServiceStats(px.Name)["upstream.slots_refresh.success_total"] < base+2; {
			time.Sleep(20 * time.Millisecond)
		}
		phase("after-reassign", 2)
		c.Close()
		sut.StopWithin(px.P, 5*time.Second)
		cl.Close()
	}
	return nil
}

type vector struct {
	Name     string              `json:"name"`
	Class    string              `json:"class"`
	MayWrite bool                `json:"mayWrite"`
	Roles    map[string][]string `json:"roles"`
}

type caseResult struct {
	Name     string   `json:"name"`
	Sent     string   `json:"sent"` // the name as sent (letter case variant)
	Arity    int      `json:"arity"`
	Strategy string   `json:"strategy"`
	Class    string   `json:"class"`
	Reply    string   `json:"reply"`
	IsErr    bool     `json:"isErr"`
	Arrivals []string `json:"arrivals"` // role of every node that received a data command
	Bad      string   `json:"bad,omitempty"`
	Trials   int      `json:"trials"`
}

func mixed(s string) string {
	b := []byte(s)
	for i := range b {
		if i%2 == 0 && b[i] >= 'a' && b[i] <= 'z' {
			b[i] -= 32
		}
	}
	return string(b)
}

func contains(xs []string, x string) bool {
	for _, y := range xs {
		if x == y {
			return true
		}
	}
	return false
}

func run(args []string) error {
	fs := flag.NewFlagSet("c14-run", flag.ContinueOnError)
	in := fs.String("in", "", "vectors (ndjson)")
	out := fs.String("out", "", "results (ndjson)")
	trials := fs.Int("trials", 6, "repetitions of forwarded read-only commands (replica choice is clock based)")
	allCases := fs.Bool("allcases", false, "send every name in lower, UPPER and MiXed case (default: rotate)")
	from := fs.Int("from", 1, "first vector to replay")
	to := fs.Int("to", 1<<30, "last vector to replay")
	if err := fs.Parse(args); err != nil {
		return err
	}
	sut.FastRefresh()
	cl, err := simredis.NewCluster(2, 2)
	if err != nil {
		return err
	}
	defer cl.Close()
	masters := []string{cl.Nodes[0].Addr, cl.Nodes[1].Addr}
	strategies := map[string]pbredis.ReadStrategy{"MASTER": pbredis.ReadStrategy_MASTER, "BOTH": pbredis.ReadStrategy_BOTH, "REPLICA": pbredis.ReadStrategy_REPLICA}
	proxies := map[string]*sut.Redis{}
	clients := map[string]*sut.Client{}
	for name, st := range strategies {
		px, err := sut.StartRedis(sut.RedisOpts{ReadStrategy: st}, masters)
		if err != nil {
			return err
		}
		defer sut.StopWithin(px.P, 5*time.Second)
		if !sut.WaitRefresh(px.Name, 3*time.Second) {
			return fmt.Errorf("slot table not loaded")
		}
		proxies[name] = px
		c, err := sut.Dial(px.Addr)
		if err != nil {
			return err
		}
		defer c.Close()
		clients[name] = c
	}
	w, err := newLineWriter(*out)
	if err != nil {
		return err
	}
	defer w.Close()
	roleOf := func(n *simredis.Node, key string) string {
		owner := cl.Owner(simredis.Slot([]byte(key)))
		switch {
		case n.Idx == owner:
			return "master"
		case n.MasterIdx() == owner:
			return "replica"
		case n.IsMaster():
			return "other-master"
		default:
			return "other-replica"
		}
	}
	vi := 0
	return cli.ReadNDJSON(*in, func(line []byte) error {
		var v vector
		if err := json.Unmarshal(line, &v); err != nil {
			return err
		}
		vi++
		if vi < *from || vi > *to {
			return nil
		}
		if err := w.Write(map[string]interface{}{"begin": vi, "what": fmt.Sprintf("vector %q (class %s)", v.Name, v.Class)}); err != nil {
			return err
		}
		variants := []string{v.Name, strings.ToUpper(v.Name), mixed(v.Name)}
		if !*allCases {
			variants = variants[vi%3 : vi%3+1]
		}
		for _, sent := range variants {
			for _, strat := range []string{"MASTER", "BOTH", "REPLICA"} {
				for _, arity := range []int{1, 2, 4} {
					key := fmt.Sprintf("k:%s:%d", v.Name, vi)
					var a []string
					switch {
					case arity == 1:
						a = []string{sent}
					case v.Name == "eval" || v.Name == "evalsha":
						a = []string{sent, "return 1", "1", key}
					case v.Name == "mset":
						a = []string{sent, key, "v"}
					case v.Name == "scan":
						a = []string{sent, "0"}
					case arity == 2:
						a = []string{sent, key}
					default:
						a = []string{sent, key, "1", "x"}
					}
					n := 1
					if v.Class == "forward" && !v.MayWrite && strat != "MASTER" && arity > 1 {
						n = *trials
					}
					res := caseResult{Name: v.Name, Sent: sent, Arity: len(a), Strategy: strat, Class: v.Class, Trials: n}
					for t := 0; t < n && res.Bad == ""; t++ {
						for _, nd := range cl.Nodes {
							nd.ClearLog()
						}
						c := clients[strat]
						rv, err := c.Do(3*time.Second, a...)
						if err != nil {
							res.Bad = "no reply: " + err.Error()
							// the connection is unusable now
							c.Close()
							nc, derr := sut.Dial(proxies[strat].Addr)
							if derr != nil {
								return derr
							}
							clients[strat] = nc
							break
						}
						res.Reply, res.IsErr = rv.String(), rv.IsErr()
						time.Sleep(200 * time.Microsecond)
						res.Arrivals = nil
						for _, nd := range cl.Nodes {
							for _, rec := range simredis.DataCommands(nd.Records()) {
								k := key
								if len(rec.Args) > 1 && v.Name != "eval" && v.Name != "evalsha" {
									k = string(rec.Args[1]) // split commands arrive per key
								}
								res.Arrivals = append(res.Arrivals, roleOf(nd, k))
							}
						}
						switch v.Class {
						case "unsupported":
							if !rv.IsErr() {
								res.Bad = "unsupported command was not answered with an error"
							}
							if len(res.Arrivals) > 0 {
								res.Bad = "unsupported command reached a backend"
							}
						case "local":
							if len(res.Arrivals) > 0 {
								res.Bad = "locally answered command reached a backend"
							}
							if rv.IsErr() && strings.Contains(strings.ToLower(string(rv.Str)), "unsupported") {
								res.Bad = "local command rejected as unsupported"
							}
						case "forward":
							if v.Name == "scan" {
								break
							}
							if rv.IsErr() && strings.Contains(strings.ToLower(string(rv.Str)), "unsupported") {
								res.Bad = "supported command rejected as unsupported"
							}
							for _, role := range res.Arrivals {
								if !contains(v.Roles[strat], role) && !(role == "master" && !v.MayWrite) {
									res.Bad = fmt.Sprintf("delivered to a %s (allowed: %v)", role, v.Roles[strat])
								}
							}
						}
					}
					if err := w.Write(res); err != nil {
						return err
					}
				}
			}
		}
		return nil
	})
}
