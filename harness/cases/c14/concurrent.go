package c14

// c14-concurrent: behaviours of spec/redis/Route.tla (routing decisions of
// concurrent downstream sessions) run on real Redis processors.
//
// A behaviour names, per model session, the requests it routes (shard of the
// key, read-only or not), the read strategy, the layout, the windows it went
// through and - per (shard, kind) - the nodes the property allows. Every
// model session becomes `fan` real downstream connections which pipeline the
// session's requests `burst` times; sessions whose decisions overlap in the
// behaviour are started together from a barrier (the goroutine interleaving
// inside chooseHost cannot be forced from outside, it is sampled by
// repetition), sessions that do not overlap run one after the other.
// Oracle: the per-node command logs of the simulated cluster. Every data
// command that ARRIVES at a node is judged by the behaviour's table:
// node in Allowed(strategy, shard of the key, kind of the command).

import (
	"encoding/json"
	"flag"
	"fmt"
	"sort"
	"strings"
	"sync"
	"time"

	pbredis "github.com/samaritan-proxy/samaritan/pb/config/protocol/redis"

	"verifharness/internal/cli"
	"verifharness/internal/resp"
	"verifharness/internal/simredis"
	"verifharness/internal/sut"
)

func init() {
	cli.Register("c14-concurrent", concurrent)
}

type modelNode struct {
	Sh  string `json:"sh"`
	Rep int    `json:"rep"`
}

func (n modelNode) String() string {
	if n.Rep == 0 {
		return n.Sh + "/master"
	}
	return fmt.Sprintf("%s/replica%d", n.Sh, n.Rep)
}

type histEvent struct {
	A    string `json:"a"`
	S    string `json:"s"`
	Sh   string `json:"sh"`
	Kind string `json:"kind"`
}

type allowedRow struct {
	Sh    string      `json:"sh"`
	Kind  string      `json:"kind"`
	Nodes []modelNode `json:"nodes"`
}

type behaviour struct {
	Strategy string       `json:"strategy"`
	NRep     int          `json:"nrep"`
	Shards   []string     `json:"shards"`
	Hist     []histEvent  `json:"hist"`
	Windows  []string     `json:"windows"`
	Allowed  []allowedRow `json:"allowed"`
}

type modelReq struct {
	Sh   string `json:"sh"`
	Kind string `json:"kind"`
}

type badArrival struct {
	Cmd    string `json:"cmd"`
	Key    string `json:"key"`
	KeySh  string `json:"keyShard"`
	Kind   string `json:"kind"`
	Node   string `json:"node"`
	Class  string `json:"class"`
	Detail string `json:"detail"`
}

type concResult struct {
	Layout     string                `json:"layout"`
	Strategy   string                `json:"strategy"`
	Sessions   map[string][]modelReq `json:"sessions"`
	Windows    []string              `json:"windows"`
	Concurrent bool                  `json:"concurrent"`
	Behaviours int                   `json:"behaviours"` // model behaviours that concretise to this run
	Conns      int                   `json:"conns"`
	Sent       int                   `json:"sent"`
	Replies    int                   `json:"replies"`
	Arrivals   int                   `json:"arrivals"`
	PerNode    map[string]int        `json:"perNode"`
	Moved      int64                 `json:"moved"`
	BadCount   int                   `json:"badCount"`
	Bad        []badArrival          `json:"bad,omitempty"`
	BadReplies []string              `json:"badReplies,omitempty"` // class: detail
	Err        string                `json:"err,omitempty"`
	WallMs     int64                 `json:"wallMs"`
}

type layoutEnv struct {
	cl      *simredis.Cluster
	proxies map[string]*sut.Redis
	nodeID  map[int]modelNode // node index -> model identity
	shardOf map[int]string    // master index -> shard name
	keys    map[string][]string
	names   map[string][]string // kind -> command names of Commands.tla
}

func (e *layoutEnv) close() {
	for _, p := range e.proxies {
		sut.StopWithin(p.P, 5*time.Second)
	}
	e.cl.Close()
}

func newLayout(shards []string, nrep int, names map[string][]string) (*layoutEnv, error) {
	cl, err := simredis.NewCluster(len(shards), nrep)
	if err != nil {
		return nil, err
	}
	e := &layoutEnv{cl: cl, proxies: map[string]*sut.Redis{}, nodeID: map[int]modelNode{}, shardOf: map[int]string{},
		keys: map[string][]string{}, names: names}
	var seeds []string
	for i, sh := range shards {
		e.shardOf[i] = sh
		e.nodeID[i] = modelNode{Sh: sh}
		seeds = append(seeds, cl.Nodes[i].Addr)
	}
	repNo := map[int]int{}
	for _, n := range cl.Nodes {
		if n.IsMaster() {
			continue
		}
		m := n.MasterIdx()
		repNo[m]++
		e.nodeID[n.Idx] = modelNode{Sh: e.shardOf[m], Rep: repNo[m]}
	}
	for i, sh := range shards {
		for k := 0; k < 4; k++ {
			key := cl.KeyFor(i, fmt.Sprintf("cs:%s%d:", sh, k))
			e.keys[sh] = append(e.keys[sh], key)
			cl.Preload(key, []byte("v-"+key))
		}
		// a key routed by its hash tag
		e.keys[sh] = append(e.keys[sh], tagKey(cl, i, sh))
	}
	strategies := map[string]pbredis.ReadStrategy{"MASTER": pbredis.ReadStrategy_MASTER, "BOTH": pbredis.ReadStrategy_BOTH, "REPLICA": pbredis.ReadStrategy_REPLICA}
	for name, st := range strategies {
		px, err := sut.StartRedis(sut.RedisOpts{ReadStrategy: st}, seeds)
		if err != nil {
			e.close()
			return nil, err
		}
		e.proxies[name] = px
		if !sut.WaitRefresh(px.Name, 5*time.Second) {
			e.close()
			return nil, fmt.Errorf("slot table not loaded (%s)", name)
		}
	}
	return e, nil
}

// tagKey returns a key "{tag}:suffix" whose tag hashes to a slot of master idx.
func tagKey(cl *simredis.Cluster, idx int, sh string) string {
	for i := 0; ; i++ {
		k := fmt.Sprintf("{cs%s%d}:tagged", sh, i)
		if cl.Owner(simredis.Slot([]byte(k))) == idx {
			cl.Preload(k, []byte("v-"+k))
			return k
		}
	}
}

func variant(name string, j int) string {
	switch j % 3 {
	case 0:
		return name
	case 1:
		return strings.ToUpper(name)
	}
	return mixed(name)
}

// concrete returns the command sent for one model request, rotated by j: every other command is a plain,
// well-formed GET / SET / PING, the rest walks through the names of the request's class in Commands.tla
// (lower / UPPER / MiXed case) with the generic argument shape of c14-run.
func (e *layoutEnv) concrete(r modelReq, j int) []string {
	ks := e.keys[r.Sh]
	k := ks[j%len(ks)]
	names := e.names[r.Kind]
	name := names[(j/2)%len(names)]
	switch r.Kind {
	case "read":
		switch {
		case j%2 == 0:
			return []string{variant("get", j/2), k}
		case name == "mget":
			return []string{variant(name, j), k, ks[(j+1)%len(ks)]}
		}
		return []string{variant(name, j), k, "1", "x"}
	case "write":
		switch {
		case j%2 == 0:
			return []string{variant("set", j/2), k, "v-" + k}
		case name == "mset":
			return []string{variant(name, j), k, "v-" + k, ks[(j+1)%len(ks)], "w"}
		}
		return []string{variant(name, j), k, "1", "x"}
	case "local":
		switch j % 3 {
		case 0:
			return []string{variant("ping", j/3)}
		case 1:
			return []string{variant("time", j/3)}
		}
		return []string{variant("select", j/3), "0"}
	}
	// unsupported
	if j%4 == 0 {
		return []string{variant(name, j)}
	}
	return []string{variant(name, j), k, "0"}
}

func scenarioKey(b *behaviour, progs map[string][]modelReq, conc bool) string {
	var parts []string
	for _, p := range progs {
		var s []string
		for _, r := range p {
			s = append(s, r.Sh+":"+r.Kind)
		}
		parts = append(parts, strings.Join(s, ","))
	}
	sort.Strings(parts) // sessions are interchangeable
	return fmt.Sprintf("%s|%v|%s", b.Strategy, conc, strings.Join(parts, " || "))
}

func concurrent(args []string) error {
	fs := flag.NewFlagSet("c14-concurrent", flag.ContinueOnError)
	in := fs.String("in", "", "behaviours of RouteGen (ndjson)")
	cmds := fs.String("cmds", "", "vectors of Commands.tla (ndjson): name -> mayWrite")
	out := fs.String("out", "", "results (ndjson)")
	burst := fs.Int("burst", 300, "repetitions of a session's requests per connection")
	fan := fs.Int("fan", 3, "real connections per model session")
	heavy := fs.Int("heavy", 6, "burst multiplier for behaviours through W_OverlapForeign (mandatory stratum)")
	if err := fs.Parse(args); err != nil {
		return err
	}
	sut.FastRefresh()
	kindOf := map[string]string{} // command name -> kind of Route.tla
	names := map[string][]string{}
	if err := cli.ReadNDJSON(*cmds, func(line []byte) error {
		var v vector
		if err := json.Unmarshal(line, &v); err != nil {
			return err
		}
		kind := v.Class // "unsupported" | "local"
		if v.Class == "forward" {
			kind = "write"
			if !v.MayWrite {
				kind = "read"
			}
		}
		kindOf[v.Name] = kind
		switch v.Name {
		case "eval", "scan": // key is not the first argument / no key: exercised by c14-run only
			return nil
		}
		names[kind] = append(names[kind], v.Name)
		return nil
	}); err != nil {
		return err
	}
	for _, k := range []string{"read", "write", "unsupported", "local"} {
		if len(names[k]) == 0 {
			return fmt.Errorf("no command names of kind %s in %s", k, *cmds)
		}
		sort.Strings(names[k])
	}
	type scenario struct {
		b     *behaviour
		progs map[string][]modelReq
		conc  bool
		count int
		wins  map[string]bool
	}
	layouts := map[string][]*scenario{}
	var layoutOrder []string
	index := map[string]*scenario{}
	if err := cli.ReadNDJSON(*in, func(line []byte) error {
		b := &behaviour{}
		if err := json.Unmarshal(line, b); err != nil {
			return err
		}
		sort.Strings(b.Shards)
		progs := map[string][]modelReq{}
		for _, ev := range b.Hist {
			if ev.A == "issue" {
				progs[ev.S] = append(progs[ev.S], modelReq{Sh: ev.Sh, Kind: ev.Kind})
			}
		}
		conc := len(b.Windows) > 0
		lk := fmt.Sprintf("%dx%d", len(b.Shards), b.NRep)
		sk := lk + "|" + scenarioKey(b, progs, conc)
		sc := index[sk]
		if sc == nil {
			sc = &scenario{b: b, progs: progs, conc: conc, wins: map[string]bool{}}
			index[sk] = sc
			if _, ok := layouts[lk]; !ok {
				layoutOrder = append(layoutOrder, lk)
			}
			layouts[lk] = append(layouts[lk], sc)
		}
		sc.count++
		for _, w := range b.Windows {
			sc.wins[w] = true
		}
		return nil
	}); err != nil {
		return err
	}
	w, err := cli.NewNDJSONWriter(*out)
	if err != nil {
		return err
	}
	defer w.Close()
	for _, lk := range layoutOrder {
		scs := layouts[lk]
		env, err := newLayout(scs[0].b.Shards, scs[0].b.NRep, names)
		if err != nil {
			return err
		}
		for si, sc := range scs {
			n := *burst
			if sc.wins["W_OverlapForeign"] {
				n *= *heavy
			}
			res := env.runScenario(lk, sc.b, sc.progs, sc.conc, n, *fan, kindOf, si*7)
			res.Behaviours = sc.count
			res.Windows = nil
			for wn := range sc.wins {
				res.Windows = append(res.Windows, wn)
			}
			sort.Strings(res.Windows)
			if err := w.Write(res); err != nil {
				env.close()
				return err
			}
		}
		env.close()
	}
	return nil
}

func (e *layoutEnv) runScenario(lk string, b *behaviour, progs map[string][]modelReq, conc bool, burst, fan int, kindOf map[string]string, rot int) concResult {
	t0 := time.Now()
	res := concResult{Layout: lk, Strategy: b.Strategy, Sessions: progs, Concurrent: conc, PerNode: map[string]int{}}
	px := e.proxies[b.Strategy]
	allowed := map[string]map[modelNode]bool{}
	for _, row := range b.Allowed {
		m := map[modelNode]bool{}
		for _, n := range row.Nodes {
			m[n] = true
		}
		allowed[row.Sh+"/"+row.Kind] = m
	}
	for _, n := range e.cl.Nodes {
		n.ClearLog()
	}
	moved0 := sut.ServiceStats(px.Name)["upstream.moved"]
	var names []string
	for s := range progs {
		names = append(names, s)
	}
	sort.Strings(names)
	type connJob struct {
		c     *sut.Client
		buf   []byte
		want  int
		kinds []string // kind of the i-th command sent
		sent  []string // its name as sent
	}
	var groups [][]*connJob // jobs that start together
	var all []*connJob
	for si, s := range names {
		var g []*connJob
		f := fan
		if !conc {
			f = 1
		}
		for k := 0; k < f; k++ {
			c, err := sut.Dial(px.Addr)
			if err != nil {
				res.Err = "dial: " + err.Error()
				return res
			}
			j := &connJob{c: c}
			for r := 0; r < burst; r++ {
				for qi, q := range progs[s] {
					a := e.concrete(q, rot+r+qi+k+si)
					j.buf = resp.Append(j.buf, resp.Cmd(a...))
					j.want++
					j.kinds = append(j.kinds, q.Kind)
					j.sent = append(j.sent, a[0])
				}
			}
			g = append(g, j)
			all = append(all, j)
		}
		if conc && len(groups) > 0 {
			groups[0] = append(groups[0], g...)
		} else {
			groups = append(groups, g)
		}
	}
	defer func() {
		for _, j := range all {
			j.c.Close()
		}
	}()
	res.Conns = len(all)
	var mu sync.Mutex
	for _, g := range groups {
		start := make(chan struct{})
		var wg sync.WaitGroup
		for _, j := range g {
			wg.Add(2)
			go func(j *connJob) { // writer
				defer wg.Done()
				<-start
				for off := 0; off < len(j.buf); {
					end := off + 32*1024
					if end > len(j.buf) {
						end = len(j.buf)
					}
					if err := j.c.Send(j.buf[off:end]); err != nil {
						return
					}
					off = end
				}
			}(j)
			go func(j *connJob) { // reader
				defer wg.Done()
				<-start
				got := 0
				for got < j.want {
					rv, err := j.c.Recv(15 * time.Second)
					if err != nil {
						mu.Lock()
						if res.Err == "" {
							res.Err = fmt.Sprintf("reply %d of %d: %v", got+1, j.want, err)
						}
						mu.Unlock()
						break
					}
					rejected := rv.IsErr() && strings.Contains(strings.ToLower(string(rv.Str)), "unsupported")
					bad := ""
					switch {
					case j.kinds[got] == "unsupported" && !rv.IsErr():
						bad = fmt.Sprintf("unsupported-not-rejected: %q was answered %s", j.sent[got], rv.String())
					case j.kinds[got] != "unsupported" && rejected:
						bad = fmt.Sprintf("supported-rejected: %q (%s) was answered %s", j.sent[got], j.kinds[got], rv.String())
					}
					if bad != "" {
						mu.Lock()
						if len(res.BadReplies) < 5 {
							res.BadReplies = append(res.BadReplies, bad)
						}
						mu.Unlock()
					}
					got++
				}
				mu.Lock()
				res.Replies += got
				mu.Unlock()
			}(j)
		}
		close(start)
		wg.Wait()
	}
	for _, j := range all {
		res.Sent += j.want
	}
	time.Sleep(2 * time.Millisecond)
	res.Moved = sut.ServiceStats(px.Name)["upstream.moved"] - moved0
	for _, n := range e.cl.Nodes {
		id := e.nodeID[n.Idx]
		for _, rec := range simredis.DataCommands(n.Records()) {
			res.Arrivals++
			res.PerNode[id.String()]++
			cmd := rec.Cmd()
			kind, ok := kindOf[cmd]
			if !ok {
				kind = "unsupported" // no Redis command and not in the supported set
			}
			key, keySh := "", "-"
			if len(rec.Args) > 1 {
				key = string(rec.Args[1])
				keySh = e.shardOf[e.cl.Owner(simredis.Slot([]byte(key)))]
			} else if kind == "read" || kind == "write" {
				continue // a forwarded command without a key has no owner (none is sent by this driver)
			}
			if allowed[keySh+"/"+kind][id] {
				continue
			}
			res.BadCount++
			if len(res.Bad) < 5 {
				class := "write-not-to-owning-master"
				switch kind {
				case "read":
					class = "read-outside-owner-family"
					if id.Sh == keySh {
						class = "read-to-replica-against-strategy"
					}
				case "unsupported", "local":
					class = kind + "-forwarded"
				}
				var al []string
				for n := range allowed[keySh+"/"+kind] {
					al = append(al, n.String())
				}
				sort.Strings(al)
				res.Bad = append(res.Bad, badArrival{Cmd: cmd, Key: key, KeySh: keySh, Kind: kind, Node: id.String(), Class: class,
					Detail: fmt.Sprintf("%s %s (key of shard %s, %s) arrived at %s; allowed under %s: %v", strings.ToUpper(cmd), key, keySh, kind, id, b.Strategy, al)})
			}
		}
	}
	res.WallMs = time.Since(t0).Milliseconds()
	return res
}
