package c14

// c14-concurrent: behaviours of spec/redis/Route.tla (routing decisions of
// concurrent downstream sessions) run on real Redis processors.
//
// A behaviour names, per model session, the requests it routes (shard of the
// key, read-only or not), the read strategy, the layout, the windows it went
// through and - per (shard, kind) - the nodes the property allows. Every
// model session becomes `fan` real downstream connections which pipeline the
// session's requests `burst` times; sessions whose decisions overlap in the
// behaviour are started together from a barrier (the goroutine interleaving
// inside chooseHost cannot be forced from outside, it is sampled by
// repetition), sessions that do not overlap run one after the other.
// Oracle: the per-node command logs of the simulated cluster. Every data
// command that ARRIVES at a node is judged by the behaviour's table:
// node in Allowed(strategy, shard of the key, kind of the command).

import (
	"encoding/json"
	"flag"
	"fmt"
	"sort"
	"strings"
	"sync"
	"time"

	pbredis "github.com/samaritan-proxy/samaritan/pb/config/protocol/redis"

	"verifharness/internal/cli"
	"verifharness/internal/resp"
	"verifharness/internal/simredis"
	"verifharness/internal/sut"
)

func init() {
	cli.Register("c14-concurrent", concurrent)
}

type modelNode struct {
	Sh  string `json:"sh"`
	Rep int    `json:"rep"`
}

func (n modelNode) String() string {
	if n.Rep == 0 {
		return n.Sh + "/master"
	}
	return fmt.Sprintf("%s/replica%d", n.Sh, n.Rep)
}

type histEvent struct {
	A    string `json:"a"`
	S    string `json:"s"`
	Sh   string `json:"sh"`
	Kind string `json:"kind"`
	// a == "config": run-time change of the read strategy
	To       string   `json:"to"`
	Inflight []string `json:"inflight"`
}

type allowedRow struct {
	St    string      `json:"st"`
	Sh    string      `json:"sh"`
	Kind  string      `json:"kind"`
	Nodes []modelNode `json:"nodes"`
}

type behaviour struct {
	Strategy string       `json:"strategy"`
	NRep     int          `json:"nrep"`
	Shards   []string     `json:"shards"`
	Hist     []histEvent  `json:"hist"`
	Windows  []string     `json:"windows"`
	Allowed  []allowedRow `json:"allowed"`
}

type modelReq struct {
	Sh   string `json:"sh"`
	Kind string `json:"kind"`
}

type badArrival struct {
	Cmd    string `json:"cmd"`
	Key    string `json:"key"`
	KeySh  string `json:"keyShard"`
	Kind   string `json:"kind"`
	Node   string `json:"node"`
	Class  string `json:"class"`
	Phase  string `json:"phase"` // "steady" | "after-config-update" | "during-config-update"
	Detail string `json:"detail"`
}

// segment: the requests of a behaviour issued under one configured read strategy
type segment struct {
	Strategy string                `json:"strategy"`
	Progs    map[string][]modelReq `json:"sessions"`
	// the ConfigUpdate that starts this segment happened while decisions of the previous one were in flight
	UpdateInFlight bool `json:"updateInFlight,omitempty"`
	Arrivals       int  `json:"arrivals"`
}

type concResult struct {
	ID         int                   `json:"id"`
	Beh        int                   `json:"beh"` // line (1-based) of the first behaviour of the input that concretises to this run
	Segments   []*segment            `json:"segments,omitempty"` // more than one: run-time strategy changes
	Layout     string                `json:"layout"`
	Strategy   string                `json:"strategy"`
	Sessions   map[string][]modelReq `json:"sessions"`
	Windows    []string              `json:"windows"`
	Concurrent bool                  `json:"concurrent"`
	Behaviours int                   `json:"behaviours"` // model behaviours that concretise to this run
	Conns      int                   `json:"conns"`
	Sent       int                   `json:"sent"`
	Replies    int                   `json:"replies"`
	Arrivals   int                   `json:"arrivals"`
	PerNode    map[string]int        `json:"perNode"`
	Moved      int64                 `json:"moved"`
	BadCount   int                   `json:"badCount"`
	Bad        []badArrival          `json:"bad,omitempty"`
	BadReplies []string              `json:"badReplies,omitempty"` // class: detail
	Err        string                `json:"err,omitempty"`
	WallMs     int64                 `json:"wallMs"`
}

type layoutEnv struct {
	cl      *simredis.Cluster
	proxies map[string]*sut.Redis
	// processors whose read strategy is changed at run time (OnSvcConfigUpdate), by the strategy they were STARTED with
	dyn     map[string]*sut.Redis
	dynOpts map[string]sut.RedisOpts
	nodeID  map[int]modelNode // node index -> model identity
	shardOf map[int]string    // master index -> shard name
	keys    map[string][]string
	names   map[string][]string // kind -> command names of Commands.tla
}

func (e *layoutEnv) close() {
	for _, p := range e.proxies {
		sut.StopWithin(p.P, 5*time.Second)
	}
	for _, p := range e.dyn {
		sut.StopWithin(p.P, 5*time.Second)
	}
	e.cl.Close()
}

var strategyOf = map[string]pbredis.ReadStrategy{"MASTER": pbredis.ReadStrategy_MASTER, "BOTH": pbredis.ReadStrategy_BOTH, "REPLICA": pbredis.ReadStrategy_REPLICA}

// setStrategy changes the read strategy of the running processor through the public OnSvcConfigUpdate.
func (e *layoutEnv) setStrategy(started, st string) error {
	o := e.dynOpts[started]
	o.ReadStrategy = strategyOf[st]
	return e.dyn[started].P.OnSvcConfigUpdate(sut.RedisConfig(o))
}

func newLayout(shards []string, nrep int, names map[string][]string, withDyn bool) (*layoutEnv, error) {
	cl, err := simredis.NewCluster(len(shards), nrep)
	if err != nil {
		return nil, err
	}
	e := &layoutEnv{cl: cl, proxies: map[string]*sut.Redis{}, nodeID: map[int]modelNode{}, shardOf: map[int]string{},
		keys: map[string][]string{}, names: names}
	var seeds []string
	for i, sh := range shards {
		e.shardOf[i] = sh
		e.nodeID[i] = modelNode{Sh: sh}
		seeds = append(seeds, cl.Nodes[i].Addr)
	}
	repNo := map[int]int{}
	for _, n := range cl.Nodes {
		if n.IsMaster() {
			continue
		}
		m := n.MasterIdx()
		repNo[m]++
		e.nodeID[n.Idx] = modelNode{Sh: e.shardOf[m], Rep: repNo[m]}
	}
	for i, sh := range shards {
		for k := 0; k < 4; k++ {
			key := cl.KeyFor(i, fmt.Sprintf("cs:%s%d:", sh, k))
			e.keys[sh] = append(e.keys[sh], key)
			cl.Preload(key, []byte("v-"+key))
		}
		// a key routed by its hash tag
		e.keys[sh] = append(e.keys[sh], tagKey(cl, i, sh))
	}
	e.dyn, e.dynOpts = map[string]*sut.Redis{}, map[string]sut.RedisOpts{}
	for name, st := range strategyOf {
		if !withDyn {
			break
		}
		o := sut.RedisOpts{Name: sut.UniqueName("redis"), Port: sut.FreePort(), ReadStrategy: st}
		px, err := sut.StartRedis(o, seeds)
		if err != nil {
			e.close()
			return nil, err
		}
		e.dyn[name], e.dynOpts[name] = px, o
		if !sut.WaitRefresh(px.Name, 5*time.Second) {
			e.close()
			return nil, fmt.Errorf("slot table not loaded (started with %s)", name)
		}
	}
	for name, st := range strategyOf {
		px, err := sut.StartRedis(sut.RedisOpts{ReadStrategy: st}, seeds)
		if err != nil {
			e.close()
			return nil, err
		}
		e.proxies[name] = px
		if !sut.WaitRefresh(px.Name, 5*time.Second) {
			e.close()
			return nil, fmt.Errorf("slot table not loaded (%s)", name)
		}
	}
	return e, nil
}

// tagKey returns a key "{tag}:suffix" whose tag hashes to a slot of master idx.
func tagKey(cl *simredis.Cluster, idx int, sh string) string {
	for i := 0; ; i++ {
		k := fmt.Sprintf("{cs%s%d}:tagged", sh, i)
		if cl.Owner(simredis.Slot([]byte(k))) == idx {
			cl.Preload(k, []byte("v-"+k))
			return k
		}
	}
}

func variant(name string, j int) string {
	switch j % 3 {
	case 0:
		return name
	case 1:
		return strings.ToUpper(name)
	}
	return mixed(name)
}

// concrete returns the command sent for one model request, rotated by j: every other command is a plain,
// well-formed GET / SET / PING, the rest walks through the names of the request's class in Commands.tla
// (lower / UPPER / MiXed case) with the generic argument shape of c14-run.
func (e *layoutEnv) concrete(r modelReq, j int) []string {
	ks := e.keys[r.Sh]
	k := ks[j%len(ks)]
	names := e.names[r.Kind]
	name := names[(j/2)%len(names)]
	switch r.Kind {
	case "read":
		switch {
		case j%2 == 0:
			return []string{variant("get", j/2), k}
		case name == "mget":
			return []string{variant(name, j), k, ks[(j+1)%len(ks)]}
		}
		return []string{variant(name, j), k, "1", "x"}
	case "write":
		switch {
		case j%2 == 0:
			return []string{variant("set", j/2), k, "v-" + k}
		case name == "mset":
			return []string{variant(name, j), k, "v-" + k, ks[(j+1)%len(ks)], "w"}
		}
		return []string{variant(name, j), k, "1", "x"}
	case "local":
		switch j % 3 {
		case 0:
			return []string{variant("ping", j/3)}
		case 1:
			return []string{variant("time", j/3)}
		}
		return []string{variant("select", j/3), "0"}
	}
	// unsupported
	if j%4 == 0 {
		return []string{variant(name, j)}
	}
	return []string{variant(name, j), k, "0"}
}

func progsKey(progs map[string][]modelReq) string {
	var parts []string
	for _, p := range progs {
		var s []string
		for _, r := range p {
			s = append(s, r.Sh+":"+r.Kind)
		}
		parts = append(parts, strings.Join(s, ","))
	}
	sort.Strings(parts) // sessions are interchangeable
	return strings.Join(parts, " || ")
}

type scenario struct {
	id    int
	beh   int
	b     *behaviour
	segs  []*segment
	conc  bool
	count int
	wins  map[string]bool
}

func concurrent(args []string) error {
	fs := flag.NewFlagSet("c14-concurrent", flag.ContinueOnError)
	in := fs.String("in", "", "behaviours of RouteGen (ndjson)")
	cmds := fs.String("cmds", "", "vectors of Commands.tla (ndjson): name -> mayWrite")
	out := fs.String("out", "", "results (ndjson)")
	burst := fs.Int("burst", 300, "repetitions of a session's requests per connection")
	fan := fs.Int("fan", 3, "real connections per model session")
	heavy := fs.Int("heavy", 6, "burst multiplier for behaviours through W_OverlapForeign (mandatory stratum)")
	from := fs.Int("from", 1, "first scenario to run (after a crash the driver is restarted behind the crashed one)")
	to := fs.Int("to", 1<<30, "last scenario to run")
	if err := fs.Parse(args); err != nil {
		return err
	}
	sut.FastRefresh()
	kindOf := map[string]string{} // command name -> kind of Route.tla
	names := map[string][]string{}
	if err := cli.ReadNDJSON(*cmds, func(line []byte) error {
		var v vector
		if err := json.Unmarshal(line, &v); err != nil {
			return err
		}
		kind := v.Class // "unsupported" | "local"
		if v.Class == "forward" {
			kind = "write"
			if !v.MayWrite {
				kind = "read"
			}
		}
		kindOf[v.Name] = kind
		switch v.Name {
		case "eval", "scan": // key is not the first argument / no key: exercised by c14-run only
			return nil
		}
		names[kind] = append(names[kind], v.Name)
		return nil
	}); err != nil {
		return err
	}
	for _, k := range []string{"read", "write", "unsupported", "local"} {
		if len(names[k]) == 0 {
			return fmt.Errorf("no command names of kind %s in %s", k, *cmds)
		}
		sort.Strings(names[k])
	}
	layouts := map[string][]*scenario{}
	var layoutOrder []string
	index := map[string]*scenario{}
	lineNo := 0
	if err := cli.ReadNDJSON(*in, func(line []byte) error {
		lineNo++
		b := &behaviour{}
		if err := json.Unmarshal(line, b); err != nil {
			return err
		}
		sort.Strings(b.Shards)
		segs := []*segment{{Strategy: b.Strategy, Progs: map[string][]modelReq{}}}
		for _, ev := range b.Hist {
			cur := segs[len(segs)-1]
			switch ev.A {
			case "issue":
				cur.Progs[ev.S] = append(cur.Progs[ev.S], modelReq{Sh: ev.Sh, Kind: ev.Kind})
			case "config":
				segs = append(segs, &segment{Strategy: ev.To, Progs: map[string][]modelReq{}, UpdateInFlight: len(ev.Inflight) > 0})
			}
		}
		conc := false
		for _, wn := range b.Windows {
			if wn != "W_RouteAfterUpdate" {
				conc = true
			}
		}
		lk := fmt.Sprintf("%dx%d", len(b.Shards), b.NRep)
		sk := fmt.Sprintf("%s|%v", lk, conc)
		for _, sg := range segs {
			sk += fmt.Sprintf("|%s/%v/%s", sg.Strategy, sg.UpdateInFlight, progsKey(sg.Progs))
		}
		sc := index[sk]
		if sc == nil {
			sc = &scenario{b: b, beh: lineNo, segs: segs, conc: conc, wins: map[string]bool{}}
			index[sk] = sc
			if _, ok := layouts[lk]; !ok {
				layoutOrder = append(layoutOrder, lk)
			}
			layouts[lk] = append(layouts[lk], sc)
		}
		sc.count++
		for _, w := range b.Windows {
			sc.wins[w] = true
		}
		return nil
	}); err != nil {
		return err
	}
	id := 0
	for _, lk := range layoutOrder {
		for _, sc := range layouts[lk] {
			id++
			sc.id = id
		}
	}
	w, err := newLineWriter(*out)
	if err != nil {
		return err
	}
	defer w.Close()
	if err := w.Write(map[string]int{"total": id}); err != nil {
		return err
	}
	for _, lk := range layoutOrder {
		scs := layouts[lk]
		if scs[len(scs)-1].id < *from || scs[0].id > *to {
			continue
		}
		withDyn := false
		for _, sc := range scs {
			if len(sc.segs) > 1 && sc.id >= *from && sc.id <= *to {
				withDyn = true
			}
		}
		env, err := newLayout(scs[0].b.Shards, scs[0].b.NRep, names, withDyn)
		if err != nil {
			return err
		}
		for _, sc := range scs {
			if sc.id < *from || sc.id > *to {
				continue
			}
			// the process hosting the processors may die in this scenario: say which one is running
			what := fmt.Sprintf("layout %s, concurrent %v", lk, sc.conc)
			for _, sg := range sc.segs {
				what += fmt.Sprintf("; strategy %s: sessions %s", sg.Strategy, progsKey(sg.Progs))
			}
			if err := w.Write(map[string]interface{}{"begin": sc.id, "what": what}); err != nil {
				env.close()
				return err
			}
			n := *burst
			if sc.wins["W_OverlapForeign"] && len(sc.segs) == 1 {
				n *= *heavy
			}
			res := env.runScenario(lk, sc, n, *fan, kindOf, sc.id*7)
			res.ID = sc.id
			res.Beh = sc.beh
			res.Behaviours = sc.count
			for wn := range sc.wins {
				res.Windows = append(res.Windows, wn)
			}
			sort.Strings(res.Windows)
			if err := w.Write(res); err != nil {
				env.close()
				return err
			}
		}
		env.close()
	}
	return nil
}

type allowedTable map[string]map[modelNode]bool // "shard/kind" -> nodes

func (b *behaviour) allowedUnder(st string) allowedTable {
	t := allowedTable{}
	for _, row := range b.Allowed {
		if row.St != st {
			continue
		}
		m := map[modelNode]bool{}
		for _, n := range row.Nodes {
			m[n] = true
		}
		t[row.Sh+"/"+row.Kind] = m
	}
	return t
}

func (e *layoutEnv) runScenario(lk string, sc *scenario, burst, fan int, kindOf map[string]string, rot int) concResult {
	t0 := time.Now()
	b := sc.b
	res := concResult{Layout: lk, Strategy: b.Strategy, Sessions: sc.segs[0].Progs, Concurrent: sc.conc, PerNode: map[string]int{}}
	for _, n := range e.cl.Nodes {
		n.ClearLog()
	}
	if len(sc.segs) == 1 {
		px := e.proxies[b.Strategy]
		moved0 := sut.ServiceStats(px.Name)["upstream.moved"]
		e.runBurst(&res, px, sc.segs[0].Progs, sc.conc, burst, fan, rot, nil)
		res.Moved = sut.ServiceStats(px.Name)["upstream.moved"] - moved0
		e.judge(&res, kindOf, "steady", b.Strategy, b.allowedUnder(b.Strategy))
		res.WallMs = time.Since(t0).Milliseconds()
		return res
	}
	// run-time strategy changes on ONE running processor
	res.Segments = sc.segs
	// (the processor that was started with the behaviour's initial strategy; it is put back to it first)
	started := sc.segs[0].Strategy
	px := e.dyn[started]
	moved0 := sut.ServiceStats(px.Name)["upstream.moved"]
	if err := e.setStrategy(started, sc.segs[0].Strategy); err != nil {
		res.Err = "OnSvcConfigUpdate: " + err.Error()
		return res
	}
	for k, sg := range sc.segs {
		phase := "steady"
		if k > 0 {
			phase = "after-config-update"
			prev := sc.segs[k-1]
			if sg.UpdateInFlight && len(prev.Progs) > 0 {
				// the update arrives while decisions are in flight: the previous segment's traffic runs once more and
				// the strategy changes in the middle of it; these arrivals may follow either strategy
				var uerr error
				e.runBurst(&res, px, prev.Progs, sc.conc, burst, fan, rot+k, func() { uerr = e.setStrategy(started, sg.Strategy) })
				if uerr != nil {
					res.Err = "OnSvcConfigUpdate: " + uerr.Error()
					return res
				}
				e.judge(&res, kindOf, "during-config-update", prev.Strategy+" -> "+sg.Strategy, b.allowedUnder(prev.Strategy), b.allowedUnder(sg.Strategy))
			} else if err := e.setStrategy(started, sg.Strategy); err != nil {
				res.Err = "OnSvcConfigUpdate: " + err.Error()
				return res
			}
		}
		if len(sg.Progs) == 0 {
			continue
		}
		e.runBurst(&res, px, sg.Progs, sc.conc, burst, fan, rot+k, nil)
		a0 := res.Arrivals
		e.judge(&res, kindOf, phase, sg.Strategy, b.allowedUnder(sg.Strategy))
		sg.Arrivals = res.Arrivals - a0
	}
	res.Moved = sut.ServiceStats(px.Name)["upstream.moved"] - moved0
	res.WallMs = time.Since(t0).Milliseconds()
	return res
}

// runBurst: every model session becomes fan connections that pipeline its requests burst times; mid (if any) is
// called once when about half of the replies have arrived.
func (e *layoutEnv) runBurst(res *concResult, px *sut.Redis, progs map[string][]modelReq, conc bool, burst, fan, rot int, mid func()) {
	var names []string
	for s := range progs {
		names = append(names, s)
	}
	sort.Strings(names)
	type connJob struct {
		c     *sut.Client
		buf   []byte
		want  int
		kinds []string // kind of the i-th command sent
		sent  []string // its name as sent
	}
	var groups [][]*connJob // jobs that start together
	var all []*connJob
	total := 0
	for si, s := range names {
		var g []*connJob
		f := fan
		if !conc {
			f = 1
		}
		for k := 0; k < f; k++ {
			c, err := sut.Dial(px.Addr)
			if err != nil {
				res.Err = "dial: " + err.Error()
				return
			}
			j := &connJob{c: c}
			for r := 0; r < burst; r++ {
				for qi, q := range progs[s] {
					a := e.concrete(q, rot+r+qi+k+si)
					j.buf = resp.Append(j.buf, resp.Cmd(a...))
					j.want++
					j.kinds = append(j.kinds, q.Kind)
					j.sent = append(j.sent, a[0])
				}
			}
			total += j.want
			g = append(g, j)
			all = append(all, j)
		}
		if conc && len(groups) > 0 {
			groups[0] = append(groups[0], g...)
		} else {
			groups = append(groups, g)
		}
	}
	defer func() {
		for _, j := range all {
			j.c.Close()
		}
	}()
	res.Conns += len(all)
	var mu sync.Mutex
	var midOnce sync.Once
	var midWG sync.WaitGroup
	received := 0
	for _, g := range groups {
		start := make(chan struct{})
		var wg sync.WaitGroup
		for _, j := range g {
			wg.Add(2)
			go func(j *connJob) { // writer
				defer wg.Done()
				<-start
				for off := 0; off < len(j.buf); {
					end := off + 32*1024
					if mid != nil {
						end = off + 2*1024 // keep commands arriving while the configuration changes
					}
					if end > len(j.buf) {
						end = len(j.buf)
					}
					if err := j.c.Send(j.buf[off:end]); err != nil {
						return
					}
					off = end
				}
			}(j)
			go func(j *connJob) { // reader
				defer wg.Done()
				<-start
				got := 0
				for got < j.want {
					rv, err := j.c.Recv(15 * time.Second)
					if err != nil {
						mu.Lock()
						if res.Err == "" {
							res.Err = fmt.Sprintf("reply %d of %d: %v", got+1, j.want, err)
						}
						mu.Unlock()
						break
					}
					rejected := rv.IsErr() && strings.Contains(strings.ToLower(string(rv.Str)), "unsupported")
					bad := ""
					switch {
					case j.kinds[got] == "unsupported" && !rv.IsErr():
						bad = fmt.Sprintf("unsupported-not-rejected: %q was answered %s", j.sent[got], rv.String())
					case j.kinds[got] != "unsupported" && rejected:
						bad = fmt.Sprintf("supported-rejected: %q (%s) was answered %s", j.sent[got], j.kinds[got], rv.String())
					}
					mu.Lock()
					if bad != "" && len(res.BadReplies) < 5 {
						res.BadReplies = append(res.BadReplies, bad)
					}
					received++
					fire := mid != nil && received >= total/2
					mu.Unlock()
					if fire {
						midOnce.Do(func() {
							midWG.Add(1)
							go func() { defer midWG.Done(); mid() }()
						})
					}
					got++
				}
				mu.Lock()
				res.Replies += got
				mu.Unlock()
			}(j)
		}
		close(start)
		wg.Wait()
	}
	if mid != nil {
		midOnce.Do(mid) // (no reply at all: still change the configuration)
		midWG.Wait()
	}
	for _, j := range all {
		res.Sent += j.want
	}
	time.Sleep(2 * time.Millisecond)
}

// judge: every data command that arrived at a node since the logs were cleared must be allowed by one of the
// tables; the logs are cleared afterwards.
func (e *layoutEnv) judge(res *concResult, kindOf map[string]string, phase, label string, tables ...allowedTable) {
	for _, n := range e.cl.Nodes {
		id := e.nodeID[n.Idx]
		for _, rec := range simredis.DataCommands(n.Records()) {
			res.Arrivals++
			res.PerNode[id.String()]++
			cmd := rec.Cmd()
			kind, ok := kindOf[cmd]
			if !ok {
				kind = "unsupported" // no Redis command and not in the supported set
			}
			key, keySh := "", "-"
			if len(rec.Args) > 1 {
				key = string(rec.Args[1])
				keySh = e.shardOf[e.cl.Owner(simredis.Slot([]byte(key)))]
			} else if kind == "read" || kind == "write" {
				continue // a forwarded command without a key has no owner (none is sent by this driver)
			}
			okAny := false
			for _, t := range tables {
				if t[keySh+"/"+kind][id] {
					okAny = true
				}
			}
			if okAny {
				continue
			}
			res.BadCount++
			if len(res.Bad) < 5 {
				class := "write-not-to-owning-master"
				switch kind {
				case "read":
					class = "read-outside-owner-family"
					if id.Sh == keySh {
						class = "read-to-replica-against-strategy"
					}
				case "unsupported", "local":
					class = kind + "-forwarded"
				}
				al := map[string]bool{}
				for _, t := range tables {
					for n := range t[keySh+"/"+kind] {
						al[n.String()] = true
					}
				}
				var als []string
				for a := range al {
					als = append(als, a)
				}
				sort.Strings(als)
				res.Bad = append(res.Bad, badArrival{Cmd: cmd, Key: key, KeySh: keySh, Kind: kind, Node: id.String(), Class: class, Phase: phase,
					Detail: fmt.Sprintf("%s %s (key of shard %s, %s) arrived at %s; allowed under %s: %v", strings.ToUpper(cmd), key, keySh, kind, id, label, als)})
			}
		}
		n.ClearLog()
	}
}
