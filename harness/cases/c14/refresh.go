package c14

// c14-refresh: behaviours of spec/redis/RouteRefresh.tla replayed on a real
// Redis processor: read-only commands routed before, DURING and after a slot
// refresh that brings another replica set for a master whose address does
// not change.
//
// Layout: masters A (node 0), B (node 1); model replica 1 = node 2, model
// replica 2 = node 3; initially node 2 follows A and node 3 follows B.
//   reassign  the two replicas swap their masters
//   begin     a refresh is triggered through the public API (OnSvcHostAdd of
//             a seed that is already known) while the replies of both seeds
//             are held: CLUSTER NODES is received (the answer is the
//             topology of that moment) and stays outstanding
//   route     K read-only commands for a key of A are sent on a fresh
//             connection; their ARRIVAL at a node is judged by the step's
//             allowed set (table in force in the model)
//   end       the held replies of the seeds are released, the refresh
//             completes (success counter)
// The periodic refresh is switched off (timers), so refreshes happen exactly
// where the behaviour says. The replies of node 2 are held during the whole
// behaviour: once it follows B it would answer MOVED, and a redirection
// triggers a refresh of its own (a healing step that is not part of the
// behaviour). Everything is released at the end and all replies are read.

import (
	"encoding/json"
	"flag"
	"fmt"
	"time"

	"github.com/samaritan-proxy/samaritan/host"
	predis "github.com/samaritan-proxy/samaritan/proc/redis"

	"verifharness/internal/cli"
	"verifharness/internal/simredis"
	"verifharness/internal/sut"
)

func init() {
	cli.Register("c14-refresh", refresh)
}

type refreshEvent struct {
	A       string `json:"a"`
	Topo    []int  `json:"topo"`
	Answer  []int  `json:"answer"`
	Table   []int  `json:"table"`
	Allowed []int  `json:"allowed"`
	During  bool   `json:"during"`
}

type refreshBehaviour struct {
	Strategy string         `json:"strategy"`
	Hist     []refreshEvent `json:"hist"`
	Windows  []string       `json:"windows"`
}

type refreshStep struct {
	Step     int      `json:"step"`
	A        string   `json:"a"`
	During   bool     `json:"during,omitempty"`
	AfterEnd bool     `json:"afterRefresh,omitempty"` // routed after a refresh of this behaviour has completed
	Allowed  []string `json:"allowed,omitempty"`
	Arrived  []string `json:"arrived,omitempty"`
	Bad      []string `json:"bad,omitempty"`
}

type refreshResult struct {
	ID       int           `json:"id"`
	Strategy string        `json:"strategy"`
	Windows  []string      `json:"windows"`
	Actions  []string      `json:"actions"`
	Steps    []refreshStep `json:"steps"`
	Reads    int           `json:"reads"`
	Replies  int           `json:"replies"`
	Err      string        `json:"err,omitempty"`
	WallMs   int64         `json:"wallMs"`
}

const readsPerRoute = 6

func refresh(args []string) error {
	fs := flag.NewFlagSet("c14-refresh", flag.ContinueOnError)
	in := fs.String("in", "", "behaviours of RouteRefreshGen (ndjson)")
	out := fs.String("out", "", "results (ndjson)")
	from := fs.Int("from", 1, "first behaviour to replay")
	to := fs.Int("to", 1<<30, "last behaviour to replay")
	if err := fs.Parse(args); err != nil {
		return err
	}
	// no periodic refresh: the behaviour decides when the table is refreshed
	predis.VerifSetSlotsRefreshTimers(time.Hour, 5*time.Millisecond)
	w, err := newLineWriter(*out)
	if err != nil {
		return err
	}
	defer w.Close()
	id := 0
	return cli.ReadNDJSON(*in, func(line []byte) error {
		id++
		if id < *from || id > *to {
			return nil
		}
		var b refreshBehaviour
		if err := json.Unmarshal(line, &b); err != nil {
			return err
		}
		if err := w.Write(map[string]interface{}{"begin": id, "what": fmt.Sprintf("strategy %s, steps %v", b.Strategy, actionsOf(&b))}); err != nil {
			return err
		}
		res := replayRefresh(&b)
		res.ID = id
		return w.Write(res)
	})
}

func actionsOf(b *refreshBehaviour) []string {
	var out []string
	for _, ev := range b.Hist {
		out = append(out, ev.A)
	}
	return out
}

func nodeName(idx int) string {
	return [...]string{"A/master", "B/master", "replica1", "replica2"}[idx]
}

func replayRefresh(b *refreshBehaviour) (res refreshResult) {
	t0 := time.Now()
	res = refreshResult{Strategy: b.Strategy, Windows: b.Windows}
	defer func() { res.WallMs = time.Since(t0).Milliseconds() }()
	for _, ev := range b.Hist {
		res.Actions = append(res.Actions, ev.A)
	}
	cl, err := simredis.NewCluster(2, 1)
	if err != nil {
		res.Err = err.Error()
		return
	}
	defer cl.Close()
	a, bm, r1 := cl.Nodes[0], cl.Nodes[1], cl.Nodes[2]
	px, err := sut.StartRedis(sut.RedisOpts{ReadStrategy: strategyOf[b.Strategy]}, []string{a.Addr, bm.Addr})
	if err != nil {
		res.Err = err.Error()
		return
	}
	defer sut.StopWithin(px.P, 5*time.Second)
	if !sut.WaitRefresh(px.Name, 5*time.Second) {
		res.Err = "slot table not loaded"
		return
	}
	key := cl.KeyFor(0, "rf-")
	cl.Preload(key, []byte("v"))
	success := func() int64 { return sut.ServiceStats(px.Name)["upstream.slots_refresh.success_total"] }
	// arrivals of the key's reads per node
	arrivals := func() (int, []int) {
		total, per := 0, make([]int, len(cl.Nodes))
		for _, n := range cl.Nodes {
			for _, rec := range simredis.DataCommands(n.Records()) {
				if len(rec.Args) > 1 && string(rec.Args[1]) == key {
					per[n.Idx]++
					total++
				}
			}
		}
		return total, per
	}
	var clients []*sut.Client
	defer func() {
		for _, c := range clients {
			c.Close()
		}
	}()
	route := func(step int, ev refreshEvent, afterEnd bool) bool {
		st := refreshStep{Step: step, A: "route", During: ev.During, AfterEnd: afterEnd}
		allowed := map[int]bool{}
		for _, m := range ev.Allowed {
			idx := 0 // model node 0 = master A, k = replica k = node k+1
			if m > 0 {
				idx = m + 1
			}
			allowed[idx] = true
			st.Allowed = append(st.Allowed, nodeName(idx))
		}
		before, perBefore := arrivals()
		c, err := sut.Dial(px.Addr)
		if err != nil {
			res.Err = "dial: " + err.Error()
			return false
		}
		clients = append(clients, c)
		for i := 0; i < readsPerRoute; i++ {
			if err := c.SendCmd("GET", key); err != nil {
				res.Err = "send: " + err.Error()
				return false
			}
		}
		res.Reads += readsPerRoute
		dl := time.Now().Add(20 * time.Second)
		for {
			n, _ := arrivals()
			if n >= before+readsPerRoute {
				break
			}
			if time.Now().After(dl) {
				res.Err = fmt.Sprintf("step %d: only %d of %d reads arrived at a node within 20 s", step, n-before, readsPerRoute)
				return false
			}
			time.Sleep(200 * time.Microsecond)
		}
		_, per := arrivals()
		for idx := range per {
			d := per[idx] - perBefore[idx]
			if d == 0 {
				continue
			}
			st.Arrived = append(st.Arrived, fmt.Sprintf("%s x%d", nodeName(idx), d))
			if !allowed[idx] {
				st.Bad = append(st.Bad, fmt.Sprintf("GET %s (key of A) arrived %d times at %s; the table in force has replicas %v of A, allowed: %v",
					key, d, nodeName(idx), ev.Table, st.Allowed))
			}
		}
		res.Steps = append(res.Steps, st)
		return true
	}
	// warm-up, not held: the connections to A and to its replica exist afterwards (READONLY handshake done)
	for i := 0; i < 8; i++ {
		c, err := sut.Dial(px.Addr)
		if err != nil {
			res.Err = "dial: " + err.Error()
			return
		}
		_, err = c.Do(3*time.Second, "GET", key)
		c.Close()
		if err != nil {
			res.Err = "warm-up read: " + err.Error()
			return
		}
	}
	a.SetGate(true)
	bm.SetGate(true)
	r1.SetGate(true)
	defer func() {
		a.SetGate(false)
		bm.SetGate(false)
		r1.SetGate(false)
	}()
	topo := 1
	ended := false
	var base int64
	for i, ev := range b.Hist {
		switch ev.A {
		case "reassign":
			if topo == 1 {
				cl.Reassign(2, 1)
				cl.Reassign(3, 0)
				topo = 2
			} else {
				cl.Reassign(3, 1)
				cl.Reassign(2, 0)
				topo = 1
			}
			res.Steps = append(res.Steps, refreshStep{Step: i, A: "reassign"})
		case "begin":
			base = success()
			seen := 0
			for _, n := range []*simredis.Node{a, bm} {
				for _, rec := range n.Records() {
					if rec.Cmd() == "cluster" {
						seen++
					}
				}
			}
			// a seed that is already known is announced again: the host set does not change, a refresh is triggered
			if err := px.P.OnSvcHostAdd([]*host.Host{host.New(bm.Addr)}); err != nil {
				res.Err = "OnSvcHostAdd: " + err.Error()
				return
			}
			dl := time.Now().Add(20 * time.Second)
			for {
				now := 0
				for _, n := range []*simredis.Node{a, bm} {
					for _, rec := range n.Records() {
						if rec.Cmd() == "cluster" {
							now++
						}
					}
				}
				if now > seen {
					break
				}
				if time.Now().After(dl) {
					res.Err = fmt.Sprintf("step %d: no CLUSTER NODES arrived at a seed within 20 s after the trigger", i)
					return
				}
				time.Sleep(200 * time.Microsecond)
			}
			res.Steps = append(res.Steps, refreshStep{Step: i, A: "begin"})
		case "end":
			a.Release(a.Pending())
			bm.Release(bm.Pending())
			dl := time.Now().Add(20 * time.Second)
			for success() <= base {
				if time.Now().After(dl) {
					res.Err = fmt.Sprintf("step %d: the refresh did not complete within 20 s after its answer was released", i)
					return
				}
				time.Sleep(200 * time.Microsecond)
			}
			ended = true
			res.Steps = append(res.Steps, refreshStep{Step: i, A: "end"})
		case "route":
			if !route(i, ev, ended) {
				return
			}
		}
	}
	// release everything and read every reply (not judged: replies are C01 / C03)
	a.SetGate(false)
	bm.SetGate(false)
	r1.SetGate(false)
	for _, c := range clients {
		for i := 0; i < readsPerRoute; i++ {
			if _, err := c.Recv(20 * time.Second); err != nil {
				if res.Err == "" {
					res.Err = "reply missing after everything was released: " + err.Error()
				}
				return
			}
			res.Replies++
		}
	}
	return
}
