package c15

import (
	"encoding/json"
	"errors"
	"flag"
	"fmt"
	"time"

	"github.com/samaritan-proxy/samaritan/host"
	pbhc "github.com/samaritan-proxy/samaritan/pb/config/hc"
	"github.com/samaritan-proxy/samaritan/proc/verifexport"

	"verifharness/internal/cli"
)

// HealthStep is one step emitted by spec/host/HealthGen.tla.
type HealthStep struct {
	OK   bool `json:"ok"`
	Rise int  `json:"rise"`
	Fall int  `json:"fall"`
	Flag bool `json:"flag"`
}

// HealthResult is the outcome of one outcome sequence driven through the real monitor.
type HealthResult struct {
	ID      int    `json:"id"`
	Rise    int    `json:"rise"`
	Fall    int    `json:"fall"`
	Seq     string `json:"seq"`   // outcomes: 's' success, 'f' failure
	Flags   string `json:"flags"` // real flag after each result: 'H' / 'U'
	Conform bool   `json:"conform"`
	Why     string `json:"why,omitempty"`
	// property predicate on the real flags
	EarlyFlip    string `json:"earlyFlip,omitempty"`    // a flip after fewer consecutive contrary results than the threshold
	ViewMismatch string `json:"viewMismatch,omitempty"` // Healthy() disagrees with the flag of the only member
	Flips        int    `json:"flips"`
	MaxLate      int    `json:"maxLate"` // largest (run length at flip - threshold)
}

var errScripted = errors.New("scripted failure")

// runHealth drives one outcome sequence through a real monitor over a real set with one host.
// model (optional) is the expected flag after each result.
func runHealth(id, rise, fall int, seq []bool, model []bool) (HealthResult, error) {
	res := HealthResult{ID: id, Rise: rise, Fall: fall, Conform: true}
	h := host.New("10.0.0.1:80")
	set := host.NewSet(h)
	outcome := true
	calls := 0
	cfg := &pbhc.HealthCheck{Interval: time.Hour, Timeout: time.Second, FallThreshold: uint32(fall), RiseThreshold: uint32(rise),
		Checker: &pbhc.HealthCheck_TcpChecker{TcpChecker: &pbhc.TCPChecker{}}}
	m, err := verifexport.NewMonitor(cfg, set, func(addr string, timeout time.Duration) error {
		calls++
		if outcome {
			return nil
		}
		return errScripted
	})
	if err != nil {
		return res, err
	}
	prev := h.IsHealthy()
	runKind, runLen := byte(0), 0
	for i, ok := range seq {
		outcome = ok
		before := calls
		verifexport.CheckOnce(m) // one synchronous round over set.All()
		if calls != before+1 {
			return res, fmt.Errorf("check round called the checker %d times for one host", calls-before)
		}
		kind := byte('f')
		if ok {
			kind = 's'
		}
		if kind == runKind {
			runLen++
		} else {
			runKind, runLen = kind, 1
		}
		res.Seq += string(kind)
		cur := h.IsHealthy()
		if cur {
			res.Flags += "H"
		} else {
			res.Flags += "U"
		}
		if cur != prev {
			res.Flips++
			thr := fall
			want := byte('f')
			if cur {
				thr, want = rise, 's'
			}
			if runKind != want || runLen < thr {
				if res.EarlyFlip == "" {
					res.EarlyFlip = fmt.Sprintf("result %d: flag became %v after %d consecutive '%c' (threshold %d)", i, cur, runLen, runKind, thr)
				}
			} else if runLen-thr > res.MaxLate {
				res.MaxLate = runLen - thr
			}
		}
		prev = cur
		// the usable view follows the flag (the host is the only member)
		hl := set.Healthy()
		if cur != (len(hl) == 1 && hl[0] == h) && res.ViewMismatch == "" {
			res.ViewMismatch = fmt.Sprintf("result %d: flag %v, Healthy() has %d hosts", i, cur, len(hl))
		}
		if model != nil && res.Conform && model[i] != cur {
			res.Conform = false
			res.Why = fmt.Sprintf("result %d: real flag %v, model %v", i, cur, model[i])
		}
	}
	return res, nil
}

// c15-health -in edges.ndjson -out results.ndjson [-all N]
// -in: paths of HealthGen (replayed and compared with the model);
// -all N: additionally every outcome sequence of length N for thresholds {1,2,3}^2, judged by the
// property predicate only.
func cmdHealth(args []string) error {
	fs := flag.NewFlagSet("c15-health", flag.ContinueOnError)
	in := fs.String("in", "", "paths of HealthGen (ndjson)")
	out := fs.String("out", "", "results (ndjson)")
	all := fs.Int("all", 0, "enumerate every outcome sequence of this length")
	if err := fs.Parse(args); err != nil {
		return err
	}
	w, err := cli.NewNDJSONWriter(*out)
	if err != nil {
		return err
	}
	defer w.Close()
	id := 0
	if *in != "" {
		err = cli.ReadNDJSON(*in, func(line []byte) error {
			var st []HealthStep
			if err := json.Unmarshal(line, &st); err != nil {
				return err
			}
			if len(st) == 0 {
				return nil
			}
			seq := make([]bool, len(st))
			model := make([]bool, len(st))
			for i, s := range st {
				seq[i], model[i] = s.OK, s.Flag
			}
			r, err := runHealth(id, st[0].Rise, st[0].Fall, seq, model)
			if err != nil {
				return err
			}
			id++
			return w.Write(r)
		})
		if err != nil {
			return err
		}
	}
	if *all > 0 {
		for rise := 1; rise <= 3; rise++ {
			for fall := 1; fall <= 3; fall++ {
				for bits := 0; bits < 1<<uint(*all); bits++ {
					seq := make([]bool, *all)
					for i := range seq {
						seq[i] = bits&(1<<uint(i)) != 0
					}
					r, err := runHealth(id, rise, fall, seq, nil)
					if err != nil {
						return err
					}
					id++
					if err := w.Write(r); err != nil {
						return err
					}
				}
			}
		}
	}
	return nil
}
