package c15

import (
	"encoding/json"
	"errors"
	"flag"
	"fmt"
	"os"
	"time"

	"github.com/samaritan-proxy/samaritan/host"
	"github.com/samaritan-proxy/samaritan/logger"
	pbhc "github.com/samaritan-proxy/samaritan/pb/config/hc"
	"github.com/samaritan-proxy/samaritan/proc/verifexport"

	"verifharness/internal/cli"
)

// HealthStep is one step emitted by spec/host/HealthGen.tla.
type HealthStep struct {
	Op    string `json:"op"` // "result" (default) | "reconf": ResetHealthCheck with the new thresholds
	IC    bool   `json:"ic"` // reconf: the new config also changes the interval
	OK    bool   `json:"ok"`
	Rise  int    `json:"rise"`
	Fall  int    `json:"fall"`
	Flag  bool   `json:"flag"`
	Rise0 int    `json:"rise0"` // thresholds before this step (reconf)
	Fall0 int    `json:"fall0"`
}

// HealthResult is the outcome of one outcome sequence driven through the real monitor.
type HealthResult struct {
	ID               int    `json:"id"`
	Rise             int    `json:"rise"`
	Fall             int    `json:"fall"`
	Seq              string `json:"seq"` // outcomes: 's' success, 'f' failure; "[r,f]" / "[r,f,i]" a reconfiguration (i: interval changed)
	Reconfs          int    `json:"reconfs"`
	EarlyAfterReconf bool   `json:"earlyAfterReconf,omitempty"` // the early flip happened after a reconfiguration
	Flags            string `json:"flags"`                      // real flag after each result: 'H' / 'U'
	Conform          bool   `json:"conform"`
	Why              string `json:"why,omitempty"`
	// property predicate on the real flags
	EarlyFlip    string `json:"earlyFlip,omitempty"`    // a flip after fewer consecutive contrary results than the threshold
	ViewMismatch string `json:"viewMismatch,omitempty"` // Healthy() disagrees with the flag of the only member
	Flips        int    `json:"flips"`
	MaxLate      int    `json:"maxLate"` // largest (run length at flip - threshold)
}

var errScripted = errors.New("scripted failure")

func init() {
	// keep the monitor's per-check log lines out of the harness output
	if os.Getenv("VERIF_SUT_LOG") == "" {
		logger.SetLevel("FATAL")
	}
}

// runHealth drives one sequence of check results and run-time reconfigurations through a real
// monitor over a real set with one host.  steps[i].Flag (if withModel) is the expected flag
// after step i.  The predicate is judged against the thresholds of the last config that
// ResetHealthCheck accepted (the configuration in force).
func runHealth(id, rise, fall int, steps []HealthStep, withModel bool) (HealthResult, error) {
	res := HealthResult{ID: id, Rise: rise, Fall: fall, Conform: true}
	h := host.New("10.0.0.1:80")
	set := host.NewSet(h)
	outcome := true
	calls := 0
	interval := time.Hour
	mkcfg := func(r, f int) *pbhc.HealthCheck {
		return &pbhc.HealthCheck{Interval: interval, Timeout: time.Second, FallThreshold: uint32(f), RiseThreshold: uint32(r),
			Checker: &pbhc.HealthCheck_TcpChecker{TcpChecker: &pbhc.TCPChecker{}}}
	}
	m, err := verifexport.NewMonitor(mkcfg(rise, fall), set, func(addr string, timeout time.Duration) error {
		calls++
		if outcome {
			return nil
		}
		return errScripted
	})
	if err != nil {
		return res, err
	}
	// the loop consumes the "strategy updated" signal of ResetHealthCheck; with an interval of
	// hours it never ticks, the rounds are run synchronously below
	m.Start()
	defer m.Stop()
	prev := h.IsHealthy()
	runKind, runLen := byte(0), 0
	for i, st := range steps {
		if st.Op == "reconf" {
			if st.IC {
				interval += time.Hour
			}
			if err := m.ResetHealthCheck(mkcfg(st.Rise, st.Fall)); err != nil {
				return res, err
			}
			rise, fall = st.Rise, st.Fall // accepted: in force from now on
			res.Reconfs++
			if st.IC {
				res.Seq += fmt.Sprintf("[%d,%d,i]", rise, fall)
			} else {
				res.Seq += fmt.Sprintf("[%d,%d]", rise, fall)
			}
			if withModel && res.Conform && st.Flag != h.IsHealthy() {
				res.Conform = false
				res.Why = fmt.Sprintf("step %d (reconfiguration): real flag %v, model %v", i, h.IsHealthy(), st.Flag)
			}
			continue
		}
		ok := st.OK
		outcome = ok
		before := calls
		verifexport.CheckOnce(m) // one synchronous round over set.All()
		if calls != before+1 {
			return res, fmt.Errorf("check round called the checker %d times for one host", calls-before)
		}
		kind := byte('f')
		if ok {
			kind = 's'
		}
		if kind == runKind {
			runLen++
		} else {
			runKind, runLen = kind, 1
		}
		res.Seq += string(kind)
		cur := h.IsHealthy()
		if cur {
			res.Flags += "H"
		} else {
			res.Flags += "U"
		}
		if cur != prev {
			res.Flips++
			thr := fall
			want := byte('f')
			if cur {
				thr, want = rise, 's'
			}
			if runKind != want || runLen < thr {
				if res.EarlyFlip == "" {
					res.EarlyFlip = fmt.Sprintf("step %d: flag became %v after %d consecutive '%c' (threshold in force %d)", i, cur, runLen, runKind, thr)
					res.EarlyAfterReconf = res.Reconfs > 0
				}
			} else if runLen-thr > res.MaxLate {
				res.MaxLate = runLen - thr
			}
		}
		prev = cur
		// the usable view follows the flag (the host is the only member)
		hl := set.Healthy()
		if cur != (len(hl) == 1 && hl[0] == h) && res.ViewMismatch == "" {
			res.ViewMismatch = fmt.Sprintf("step %d: flag %v, Healthy() has %d hosts", i, cur, len(hl))
		}
		if withModel && res.Conform && st.Flag != cur {
			res.Conform = false
			res.Why = fmt.Sprintf("step %d: real flag %v, model %v", i, cur, st.Flag)
		}
	}
	return res, nil
}

// c15-health -in edges.ndjson -out results.ndjson [-all N]
// -in: paths of HealthGen (replayed and compared with the model);
// -all N: additionally every outcome sequence of length N for thresholds {1,2,3}^2, judged by the
// property predicate only.
func cmdHealth(args []string) error {
	fs := flag.NewFlagSet("c15-health", flag.ContinueOnError)
	in := fs.String("in", "", "paths of HealthGen (ndjson)")
	out := fs.String("out", "", "results (ndjson)")
	all := fs.Int("all", 0, "enumerate every outcome sequence of this length")
	if err := fs.Parse(args); err != nil {
		return err
	}
	w, err := cli.NewNDJSONWriter(*out)
	if err != nil {
		return err
	}
	defer w.Close()
	id := 0
	if *in != "" {
		err = cli.ReadNDJSON(*in, func(line []byte) error {
			var st []HealthStep
			if err := json.Unmarshal(line, &st); err != nil {
				return err
			}
			if len(st) == 0 {
				return nil
			}
			// the initial thresholds: those of the first result step before any reconfiguration,
			// or - if the path starts with a reconfiguration - any pair different from its target
			rise, fall := st[0].Rise, st[0].Fall
			if st[0].Op == "reconf" {
				rise, fall = st[0].Rise0, st[0].Fall0
			}
			r, err := runHealth(id, rise, fall, st, true)
			if err != nil {
				return err
			}
			id++
			return w.Write(r)
		})
		if err != nil {
			return err
		}
	}
	if *all > 0 {
		for rise := 1; rise <= 3; rise++ {
			for fall := 1; fall <= 3; fall++ {
				for bits := 0; bits < 1<<uint(*all); bits++ {
					seq := make([]HealthStep, *all)
					for i := range seq {
						seq[i] = HealthStep{Op: "result", OK: bits&(1<<uint(i)) != 0}
					}
					r, err := runHealth(id, rise, fall, seq, false)
					if err != nil {
						return err
					}
					id++
					if err := w.Write(r); err != nil {
						return err
					}
				}
			}
		}
	}
	return nil
}
