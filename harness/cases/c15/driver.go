// Package c15 binds spec/host/HostSet.tla and spec/host/Health.tla to the real
// host.Set / health monitor of samaritan.
//
// Sub-commands (see checks/c15.py):
//
//	c15-replay  spec -> code: every TLC-emitted path is applied to a real host.Set through its
//	            public API (the two halves of MarkHost* separated by the pause point between the
//	            flag CAS and the lock); after every step Healthy()/All()/Random(), the flags and
//	            the removal latches are (a) compared with the model state and (b) judged by the
//	            property predicate evaluated on the real observations only.
//	c15-trace   code -> spec: the same driver records (operation, observation) events for TLC.
//	c15-health  hysteresis of the real monitor with a scripted checker.
package c15

import (
	"fmt"
	"sort"
	"sync"
	"time"

	"github.com/samaritan-proxy/samaritan/host"

	"verifharness/internal/sched"
)

// ---- behaviour format emitted by spec/host/HostSetGen.tla

// Obs is the model state after a step.
type Obs struct {
	All      []int  `json:"all"`      // per address 1..NAddr: stored object id or 0
	Cache    []int  `json:"cache"`    // object ids in the published slice
	Flag     []bool `json:"flag"`     // per object id
	Removed  []bool `json:"removed"`  // per object id
	Inflight []int  `json:"inflight"` // objects with a mark between CAS and lock
	Nobj     int    `json:"nobj"`
	Owed     []int  `json:"owed"`
}

// Step is one step of a behaviour.
type Step struct {
	Op    string   `json:"op"` // Add | Remove | ReplaceAll | MarkBegin | MarkEnd
	A     int      `json:"a"`
	T     string   `json:"t"`
	O     int      `json:"o"`     // object id (0: a fresh object nobody else holds)
	K     string   `json:"k"`     // healthy | unhealthy
	F     []string `json:"f"`     // ReplaceAll: per address "none" | "main" | "backup"
	Order []int    `json:"order"` // ReplaceAll: the addresses in the order the hosts are passed (empty: ascending)
	Win   []string `json:"win"`
	Ret   bool     `json:"ret"`
	Obs   Obs      `json:"obs"`
}

// Viol is one failed property predicate, evaluated on the real observations.
type Viol struct {
	Step    int      `json:"step"`
	Group   string   `json:"group"` // view | latch
	Symptom string   `json:"symptom"`
	Detail  string   `json:"detail,omitempty"`
	Win     []string `json:"win"`   // windows of the step at which the predicate first failed
	Cause   []string `json:"cause"` // windows of the step that left the offending entry behind
	Op      string   `json:"op"`
}

// RealObs is what the real code shows after a step, in model identities.
type RealObs struct {
	Healthy []int  `json:"healthy"` // object ids (99: an object the driver does not know)
	All     []int  `json:"all"`     // per address: object id or 0
	Random  []int  `json:"random"`  // distinct results of Random() (0: nil)
	Flag    []bool `json:"flag"`    // per object
	Removed []bool `json:"removed"` // per object
}

// AddrOf maps a model address to a real address whose string order is the model order.
func AddrOf(a int) string { return fmt.Sprintf("10.0.0.%d:80", a) }

func typeOf(t string) host.Type {
	if t == "backup" {
		return host.TypeBackup
	}
	return host.TypeMain
}

const unknownObj = 99

// hook scheduler shared by all drivers of the process (keys are object pointers)
var (
	schOnce sync.Once
	sch     *sched.Sched
)

func scheduler() *sched.Sched {
	schOnce.Do(func() {
		sch = sched.New(func(point string, a, b interface{}) string {
			if point != "host.Set.mark.afterCAS" {
				return ""
			}
			h, ok := a.(*host.Host)
			if !ok {
				return ""
			}
			return markKey(h)
		})
		sch.Install()
	})
	return sch
}

func markKey(h *host.Host) string { return fmt.Sprintf("mark:%p", h) }

type markCall struct {
	done chan bool
	key  string
}

// Driver applies model steps to a real host.Set.
type Driver struct {
	naddr int
	set   *host.Set
	objs  []*host.Host       // id-1 -> object
	ids   map[*host.Host]int // object -> id
	marks map[int]*markCall  // object id -> call parked after its CAS

	// ground truth for the latch predicate, built from the operations and All()
	carried map[string]map[*host.Host]bool
	owed    map[*host.Host]string // object -> "stored" | "displaced" at the time its address left
	prevAll map[string]*host.Host

	// attribution of a failed predicate to the step that caused it (windows of that step)
	staleWhy  map[*host.Host][]string // object -> windows of the step at which it stopped being the stored member / was inserted by a stale mark
	entryWhy  map[*host.Host][]string // object -> windows of the step that made it the stored member
	unmarkWhy map[string][]string     // address -> windows of the last MarkEnd(unhealthy) of an object that was not the stored member
	cur       *Step
}

// NewDriver creates a driver over an empty set.
func NewDriver(naddr int) *Driver {
	scheduler()
	return &Driver{naddr: naddr, set: host.NewSet(), ids: map[*host.Host]int{}, marks: map[int]*markCall{},
		carried: map[string]map[*host.Host]bool{}, owed: map[*host.Host]string{}, prevAll: map[string]*host.Host{},
		staleWhy: map[*host.Host][]string{}, entryWhy: map[*host.Host][]string{}, unmarkWhy: map[string][]string{}}
}

func (d *Driver) newObj(a int, t string) *host.Host {
	h := host.NewWithType(AddrOf(a), typeOf(t))
	d.objs = append(d.objs, h)
	d.ids[h] = len(d.objs)
	return h
}

func (d *Driver) obj(id int) (*host.Host, error) {
	if id < 1 || id > len(d.objs) {
		return nil, fmt.Errorf("step refers to object %d, only %d exist", id, len(d.objs))
	}
	return d.objs[id-1], nil
}

// Close releases whatever is still parked.
func (d *Driver) Close() {
	for id, mc := range d.marks {
		sch.Ungate(mc.key)
		select {
		case <-mc.done:
		case <-time.After(5 * time.Second):
		}
		delete(d.marks, id)
	}
}

// Apply performs one step on the real set; ret is the value returned by a MarkHost* call that
// finished in this step (MarkBegin whose CAS failed, MarkEnd), hasRet says whether there is one.
// leaving lists the addresses that stop being members by the meaning of the operation.
func (d *Driver) Apply(s *Step) (ret, hasRet bool, err error) {
	leaving := []string{}
	switch s.Op {
	case "Add":
		var h *host.Host
		if s.O == len(d.objs)+1 {
			h = d.newObj(s.A, s.T)
		} else if h, err = d.obj(s.O); err != nil {
			return
		}
		d.set.Add(h)
	case "Remove":
		var h *host.Host
		if s.O == 0 {
			h = host.NewWithType(AddrOf(s.A), typeOf(s.T)) // fresh, as the controller builds it
		} else if h, err = d.obj(s.O); err != nil {
			return
		}
		if _, ok := d.prevAll[h.Addr]; ok {
			leaving = append(leaving, h.Addr)
		}
		d.set.Remove(h)
	case "ReplaceAll":
		var hs []*host.Host
		keep := map[string]bool{}
		for i, t := range s.F {
			if t == "none" {
				continue
			}
			hs = append(hs, d.newObj(i+1, t))
			keep[AddrOf(i+1)] = true
		}
		for a := range d.prevAll {
			if !keep[a] {
				leaving = append(leaving, a)
			}
		}
		d.set.ReplaceAll(InOrder(hs, s.Order))
	case "MarkBegin":
		var h *host.Host
		if h, err = d.obj(s.O); err != nil {
			return
		}
		if _, busy := d.marks[s.O]; busy {
			err = fmt.Errorf("object %d already has a mark in flight", s.O)
			return
		}
		mc := &markCall{done: make(chan bool, 1), key: markKey(h)}
		sch.Gate(mc.key)
		go func() {
			if s.K == "healthy" {
				mc.done <- d.set.MarkHostHealthy(h)
			} else {
				mc.done <- d.set.MarkHostUnhealthy(h)
			}
		}()
		dl := time.Now().Add(10 * time.Second)
		for {
			select {
			case r := <-mc.done: // CAS failed: the call returned without reaching the pause point
				sch.Ungate(mc.key)
				ret, hasRet = r, true
			default:
				if sch.WaitParked(mc.key, 200*time.Microsecond) {
					d.marks[s.O] = mc
					hasRet = false
				} else if time.Now().After(dl) {
					sch.Ungate(mc.key)
					err = fmt.Errorf("MarkHost* neither returned nor reached the pause point")
					return
				} else {
					continue
				}
			}
			break
		}
	case "MarkEnd":
		mc, ok := d.marks[s.O]
		if !ok {
			err = fmt.Errorf("no mark parked for object %d", s.O)
			return
		}
		delete(d.marks, s.O)
		sch.Ungate(mc.key)
		select {
		case r := <-mc.done:
			ret, hasRet = r, true
		case <-time.After(10 * time.Second):
			err = fmt.Errorf("released MarkHost* did not return")
			return
		}
	default:
		err = fmt.Errorf("unknown op %q", s.Op)
		return
	}
	d.afterStep(s, leaving)
	return
}

// afterStep updates the ground truth of the latch predicate and the attribution tables.
func (d *Driver) afterStep(s *Step, leaving []string) {
	d.cur = s
	for _, a := range leaving {
		stored := d.prevAll[a]
		for o := range d.carried[a] {
			if o == stored {
				d.owed[o] = "stored"
			} else {
				d.owed[o] = "displaced"
			}
		}
		delete(d.carried, a)
	}
	cur := map[string]*host.Host{}
	for _, h := range d.set.All() {
		cur[h.Addr] = h
		if d.carried[h.Addr] == nil {
			d.carried[h.Addr] = map[*host.Host]bool{}
		}
		d.carried[h.Addr][h] = true
	}
	for a, x := range d.prevAll {
		if cur[a] != x {
			d.staleWhy[x] = s.Win
		}
	}
	for a, x := range cur {
		if d.prevAll[a] != x || s.Op == "Add" {
			d.entryWhy[x] = s.Win
			delete(d.staleWhy, x)
		}
	}
	if s.Op == "MarkEnd" && s.O >= 1 && s.O <= len(d.objs) {
		x := d.objs[s.O-1]
		if m, ok := cur[x.Addr]; ok && m != x {
			if s.K == "healthy" {
				d.staleWhy[x] = s.Win
			} else {
				d.unmarkWhy[x.Addr] = s.Win
			}
		}
	}
	d.prevAll = cur
}

func (d *Driver) idOf(h *host.Host) int {
	if h == nil {
		return 0
	}
	if id, ok := d.ids[h]; ok {
		return id
	}
	return unknownObj
}

func isRemoved(h *host.Host) bool {
	select {
	case <-h.WaitRemoved():
		return true
	default:
		return false
	}
}

// Observe reads the real set.
func (d *Driver) Observe() (RealObs, []*host.Host, map[string]*host.Host, []*host.Host) {
	H := d.set.Healthy()
	A := d.set.All()
	ro := RealObs{All: make([]int, d.naddr)}
	for _, h := range H {
		ro.Healthy = append(ro.Healthy, d.idOf(h))
	}
	members := map[string]*host.Host{}
	for _, h := range A {
		members[h.Addr] = h
		for a := 1; a <= d.naddr; a++ {
			if AddrOf(a) == h.Addr {
				ro.All[a-1] = d.idOf(h)
			}
		}
	}
	seen := map[*host.Host]bool{}
	var R []*host.Host
	n := 2*len(H) + 3
	for i := 0; i < n; i++ {
		r := d.set.Random()
		if !seen[r] {
			seen[r] = true
			R = append(R, r)
			ro.Random = append(ro.Random, d.idOf(r))
		}
	}
	sort.Ints(ro.Random)
	for _, h := range d.objs {
		ro.Flag = append(ro.Flag, h.IsHealthy())
		ro.Removed = append(ro.Removed, isRemoved(h))
	}
	return ro, H, members, R
}

// Judge evaluates the property predicate of C15 on the real observations only.
//
//	view group:  sorted, no duplicates; every reported / selectable host is the stored member of
//	             its address; the reported hosts are exactly the members flagged healthy in the
//	             preferred tier (for objects with a mark between CAS and lock either flag value).
//	latch group: the removal latch of every object stored under an address during the membership
//	             period that just ended is closed.
func (d *Driver) Judge(H []*host.Host, members map[string]*host.Host, R []*host.Host) (view []Viol, latch []Viol) {
	add := func(sym, detail string, cause []string) {
		view = append(view, Viol{Group: "view", Symptom: sym, Detail: detail, Cause: cause})
	}
	var curWin []string
	if d.cur != nil {
		curWin = d.cur.Win
	}
	for i := 1; i < len(H); i++ {
		if !(H[i-1].Addr < H[i].Addr) {
			add("unsorted-or-duplicate", fmt.Sprintf("%s before %s", H[i-1].Addr, H[i].Addr), curWin)
		}
	}
	inH := map[*host.Host]bool{}
	identOK := true
	for _, h := range H {
		inH[h] = true
		m, ok := members[h.Addr]
		switch {
		case !ok:
			add("stale-tier-entry", "Healthy() reports "+h.String()+" whose address is not a member of the set", d.staleWhy[h])
			identOK = false
		case m != h:
			add("stale-tier-entry", "Healthy() reports "+h.String()+" but the stored member of that address is "+m.String(), d.staleWhy[h])
			identOK = false
		}
	}
	for _, r := range R {
		if r == nil {
			if len(H) > 0 {
				add("random-nil-with-usable-hosts", "", curWin)
			}
			continue
		}
		if !inH[r] {
			add("random-not-in-usable", "Random() returned "+r.String()+" which Healthy() does not report", curWin)
		}
	}
	if identOK {
		// usable sets under every flag choice of the in-flight objects
		var infl []*host.Host
		for id := range d.marks {
			h := d.objs[id-1]
			if members[h.Addr] == h {
				infl = append(infl, h)
			}
		}
		best := -1
		var bestExtra, bestMissing []*host.Host
		var bestEff map[*host.Host]bool
		for mask := 0; mask < 1<<uint(len(infl)); mask++ {
			eff := map[*host.Host]bool{}
			for _, m := range members {
				eff[m] = m.IsHealthy()
			}
			for i, h := range infl {
				if mask&(1<<uint(i)) != 0 {
					eff[h] = !eff[h]
				}
			}
			usable := usableSet(members, eff)
			var extra, missing []*host.Host
			for _, h := range H {
				if !usable[h] {
					extra = append(extra, h)
				}
			}
			for u := range usable {
				if !inH[u] {
					missing = append(missing, u)
				}
			}
			if n := len(extra) + len(missing); best < 0 || n < best {
				best, bestExtra, bestMissing, bestEff = n, extra, missing, eff
			}
		}
		// one cause usually shows as several differences (an unhealthy main host that is reported
		// also hides the backup tier): report the most specific class only
		var unhealthy, wrongTier []*host.Host
		for _, h := range bestExtra {
			if !bestEff[h] {
				unhealthy = append(unhealthy, h)
			} else {
				wrongTier = append(wrongTier, h)
			}
		}
		has := func(tags []string, t string) bool {
			for _, x := range tags {
				if x == t {
					return true
				}
			}
			return false
		}
		var droppedByStaleMark []*host.Host
		for _, u := range bestMissing {
			if d.unmarkWhy[u.Addr] != nil {
				droppedByStaleMark = append(droppedByStaleMark, u)
			}
		}
		var readded []*host.Host
		for _, h := range unhealthy {
			if has(d.entryWhy[h], "add-unhealthy-object") {
				readded = append(readded, h)
			}
		}
		const droppedMsg = " is a member flagged healthy in the preferred tier and not reported"
		switch {
		case len(droppedByStaleMark) > 0:
			for _, u := range droppedByStaleMark {
				add("healthy-member-dropped", u.String()+droppedMsg, d.unmarkWhy[u.Addr])
			}
		case len(readded) > 0:
			for _, h := range readded {
				add("unhealthy-reported", h.String()+" is flagged unhealthy and reported as usable", d.entryWhy[h])
			}
		case len(bestMissing) > 0:
			for _, u := range bestMissing {
				add("healthy-member-dropped", u.String()+droppedMsg, curWin)
			}
		case len(unhealthy) > 0:
			for _, h := range unhealthy {
				add("unhealthy-reported", h.String()+" is flagged unhealthy and reported as usable", d.entryWhy[h])
			}
		default:
			for _, h := range wrongTier {
				add("wrong-tier-reported", h.String()+" is reported although a main host is healthy", curWin)
			}
		}
	}
	for o, how := range d.owed {
		if !isRemoved(o) {
			latch = append(latch, Viol{Group: "latch", Symptom: "removed-latch-not-closed", Detail: how + ":" + o.String()})
		}
	}
	sort.Slice(latch, func(i, j int) bool { return latch[i].Detail < latch[j].Detail })
	return
}

func usableSet(members map[string]*host.Host, eff map[*host.Host]bool) map[*host.Host]bool {
	main, backup := map[*host.Host]bool{}, map[*host.Host]bool{}
	for _, m := range members {
		if !eff[m] {
			continue
		}
		if m.Type == host.TypeMain {
			main[m] = true
		} else {
			backup[m] = true
		}
	}
	if len(main) > 0 {
		return main
	}
	return backup
}

// Conform compares the real observation with the model state; "" if equal.
func Conform(ro *RealObs, s *Step, ret, hasRet bool) string {
	eqI := func(a, b []int) bool {
		if len(a) != len(b) {
			return false
		}
		for i := range a {
			if a[i] != b[i] {
				return false
			}
		}
		return true
	}
	if !eqI(ro.All, s.Obs.All) {
		return fmt.Sprintf("All(): real %v model %v", ro.All, s.Obs.All)
	}
	if !eqI(ro.Healthy, s.Obs.Cache) {
		return fmt.Sprintf("Healthy(): real %v model %v", ro.Healthy, s.Obs.Cache)
	}
	for i := range ro.Flag {
		if i < len(s.Obs.Flag) && ro.Flag[i] != s.Obs.Flag[i] {
			return fmt.Sprintf("flag of object %d: real %v model %v", i+1, ro.Flag[i], s.Obs.Flag[i])
		}
		if i < len(s.Obs.Removed) && ro.Removed[i] != s.Obs.Removed[i] {
			return fmt.Sprintf("removal latch of object %d: real %v model %v", i+1, ro.Removed[i], s.Obs.Removed[i])
		}
	}
	switch s.Op {
	case "MarkBegin":
		if hasRet == s.Ret { // model: ret = CAS succeeded = the call parks and returns nothing yet
			return fmt.Sprintf("MarkBegin: CAS success real %v model %v", !hasRet, s.Ret)
		}
	case "MarkEnd":
		if !hasRet || ret != s.Ret {
			return fmt.Sprintf("MarkHost* returned %v, model %v", ret, s.Ret)
		}
	}
	return ""
}

// ---- accessors used by the C06 cases (selection over the same driver)

// Set returns the real host set.
func (d *Driver) Set() *host.Set { return d.set }

// Obj returns the real object of a model identity (nil if unknown).
func (d *Driver) Obj(id int) *host.Host {
	if id < 1 || id > len(d.objs) {
		return nil
	}
	return d.objs[id-1]
}

// IDOf returns the model identity of a real object (0: nil, 99: unknown).
func (d *Driver) IDOf(h *host.Host) int { return d.idOf(h) }

// NObj returns the number of objects created so far.
func (d *Driver) NObj() int { return len(d.objs) }

// AllowedNow evaluates, on the real set, what the property allows a selection that loads the
// usable list now to pick: the members flagged healthy in the preferred tier, for objects with
// a mark between CAS and lock under either flag value.  noMain: some flag choice leaves no
// healthy main member; emptyOK: some flag choice leaves no usable host.
func (d *Driver) AllowedNow() (allowed map[*host.Host]bool, noMain, emptyOK bool) {
	members := map[string]*host.Host{}
	for _, h := range d.set.All() {
		members[h.Addr] = h
	}
	var infl []*host.Host
	for id := range d.marks {
		h := d.objs[id-1]
		if members[h.Addr] == h {
			infl = append(infl, h)
		}
	}
	allowed = map[*host.Host]bool{}
	for mask := 0; mask < 1<<uint(len(infl)); mask++ {
		eff := map[*host.Host]bool{}
		for _, m := range members {
			eff[m] = m.IsHealthy()
		}
		for i, h := range infl {
			if mask&(1<<uint(i)) != 0 {
				eff[h] = !eff[h]
			}
		}
		u := usableSet(members, eff)
		if len(u) == 0 {
			emptyOK = true
		}
		hasMain := false
		for _, m := range members {
			if m.Type == host.TypeMain && eff[m] {
				hasMain = true
			}
		}
		if !hasMain {
			noMain = true
		}
		for h := range u {
			allowed[h] = true
		}
	}
	return
}

// ViewCauses judges the usable view now and returns the symptoms and the windows they are
// attributed to (empty if the view satisfies the property).
func (d *Driver) ViewCauses() (symptoms, causes []string) {
	_, H, members, R := d.Observe()
	view, _ := d.Judge(H, members, R)
	seen := map[string]bool{}
	for _, v := range view {
		if !seen["s:"+v.Symptom] {
			seen["s:"+v.Symptom] = true
			symptoms = append(symptoms, v.Symptom)
		}
		for _, c := range v.Cause {
			if !seen[c] {
				seen[c] = true
				causes = append(causes, c)
			}
		}
	}
	return
}

// InOrder returns hs (one host per address, created in ascending address order) in the order of
// the model addresses in order; hs itself if order does not name exactly these hosts.
func InOrder(hs []*host.Host, order []int) []*host.Host {
	if len(order) != len(hs) {
		return hs
	}
	out := make([]*host.Host, 0, len(hs))
	for _, a := range order {
		for _, h := range hs {
			if h.Addr == AddrOf(a) {
				out = append(out, h)
			}
		}
	}
	if len(out) != len(hs) {
		return hs
	}
	return out
}
