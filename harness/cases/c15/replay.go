package c15

import (
	"encoding/json"
	"flag"
	"fmt"
	"sync"

	"verifharness/internal/cli"
)

func init() {
	cli.Register("c15-replay", cmdReplay)
	cli.Register("c15-trace", cmdTrace)
	cli.Register("c15-health", cmdHealth)
}

// PathResult is the outcome of one replayed path.
type PathResult struct {
	ID        int      `json:"id"`
	Steps     int      `json:"steps"`
	Conform   bool     `json:"conform"` // the real code followed the model state after every step
	DivergeAt int      `json:"divergeAt"`
	Why       string   `json:"why,omitempty"`
	Viol      []Viol   `json:"viol,omitempty"` // first failing step of the view group and of the latch group
	Real      *RealObs `json:"real,omitempty"` // observation at the first failing step
	Err       string   `json:"err,omitempty"`
}

// RunPath replays one behaviour; events (if not nil) receives one trace event per step.
func RunPath(id, naddr int, steps []Step, events *[]map[string]interface{}) PathResult {
	res := PathResult{ID: id, Steps: len(steps), Conform: true, DivergeAt: -1}
	d := NewDriver(naddr)
	defer d.Close()
	viewDone, latchDone := false, false
	for i := range steps {
		s := &steps[i]
		ret, hasRet, err := d.Apply(s)
		if err != nil {
			res.Err = fmt.Sprintf("step %d (%s): %v", i, s.Op, err)
			return res
		}
		ro, H, members, R := d.Observe()
		if res.Conform {
			if why := Conform(&ro, s, ret, hasRet); why != "" {
				res.Conform, res.DivergeAt, res.Why = false, i, why
			}
		}
		view, latch := d.Judge(H, members, R)
		if events != nil {
			*events = append(*events, traceEvent(s, &ro, ret, hasRet, view, latch))
		}
		if len(view) > 0 && !viewDone {
			viewDone = true
			for _, v := range view {
				v.Step, v.Win, v.Op = i, s.Win, s.Op
				res.Viol = append(res.Viol, v)
			}
			if res.Real == nil {
				r := ro
				res.Real = &r
			}
		}
		if len(latch) > 0 && !latchDone {
			latchDone = true
			for _, v := range latch {
				v.Step, v.Win, v.Op = i, s.Win, s.Op
				res.Viol = append(res.Viol, v)
			}
			if res.Real == nil {
				r := ro
				res.Real = &r
			}
		}
		// a mark that the model lets park but that returned at once (or the reverse) cannot be
		// followed any further
		if s.Op == "MarkBegin" && hasRet == s.Ret {
			break
		}
	}
	return res
}

const traceObjs = 16

func pad(b []bool, def bool) []bool {
	out := make([]bool, traceObjs)
	for i := range out {
		if i < len(b) {
			out[i] = b[i]
		} else {
			out[i] = def
		}
	}
	return out
}

func traceEvent(s *Step, ro *RealObs, ret, hasRet bool, view, latch []Viol) map[string]interface{} {
	syms := []string{}
	for _, v := range view {
		syms = append(syms, v.Symptom)
	}
	for _, v := range latch {
		syms = append(syms, v.Symptom)
	}
	f := s.F
	if f == nil {
		f = []string{}
	}
	h := ro.Healthy
	if h == nil {
		h = []int{}
	}
	return map[string]interface{}{
		"op": s.Op, "a": s.A, "t": s.T, "o": s.O, "k": s.K, "f": f, "win": s.Win,
		"ret": ret, "hasret": hasRet,
		"healthy": h, "all": ro.All, "flag": pad(ro.Flag, true), "removed": pad(ro.Removed, false),
		"goviol": syms,
	}
}

func readPaths(path string) ([][]Step, error) {
	var out [][]Step
	err := cli.ReadNDJSON(path, func(line []byte) error {
		var st []Step
		if err := json.Unmarshal(line, &st); err != nil {
			return err
		}
		out = append(out, st)
		return nil
	})
	return out, err
}

// c15-replay -in paths.ndjson -out results.ndjson -naddr N
func cmdReplay(args []string) error {
	fs := flag.NewFlagSet("c15-replay", flag.ContinueOnError)
	in := fs.String("in", "", "paths (ndjson, one JSON array of steps per line)")
	out := fs.String("out", "", "results (ndjson)")
	naddr := fs.Int("naddr", 3, "number of addresses of the model")
	workers := fs.Int("workers", 8, "parallel replays")
	if err := fs.Parse(args); err != nil {
		return err
	}
	paths, err := readPaths(*in)
	if err != nil {
		return err
	}
	w, err := cli.NewNDJSONWriter(*out)
	if err != nil {
		return err
	}
	defer w.Close()
	var mu sync.Mutex
	var wg sync.WaitGroup
	next := 0
	for k := 0; k < *workers; k++ {
		wg.Add(1)
		go func() {
			defer wg.Done()
			for {
				mu.Lock()
				i := next
				next++
				mu.Unlock()
				if i >= len(paths) {
					return
				}
				r := RunPath(i, *naddr, paths[i], nil)
				mu.Lock()
				w.Write(r)
				mu.Unlock()
			}
		}()
	}
	wg.Wait()
	return nil
}

// c15-trace -in behaviours.ndjson -out results.ndjson -trace events.ndjson -naddr N
// Replays (longer, simulated) behaviours and records the real observations as trace events for
// spec/host/HostSetTrace.tla; a {"op":"Reset"} event separates behaviours.
func cmdTrace(args []string) error {
	fs := flag.NewFlagSet("c15-trace", flag.ContinueOnError)
	in := fs.String("in", "", "behaviours (ndjson)")
	out := fs.String("out", "", "results (ndjson)")
	tr := fs.String("trace", "", "trace events (ndjson)")
	naddr := fs.Int("naddr", 3, "number of addresses of the model")
	if err := fs.Parse(args); err != nil {
		return err
	}
	paths, err := readPaths(*in)
	if err != nil {
		return err
	}
	w, err := cli.NewNDJSONWriter(*out)
	if err != nil {
		return err
	}
	defer w.Close()
	tw, err := cli.NewNDJSONWriter(*tr)
	if err != nil {
		return err
	}
	defer tw.Close()
	for i, p := range paths {
		var events []map[string]interface{}
		r := RunPath(i, *naddr, p, &events)
		w.Write(r)
		if r.Err != "" {
			continue
		}
		tw.Write(map[string]interface{}{"op": "Reset", "beh": i})
		for j, e := range events {
			e["beh"] = i
			e["step"] = j
			tw.Write(e)
		}
	}
	return nil
}
