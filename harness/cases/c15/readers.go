package c15

import (
	"encoding/json"
	"flag"
	"fmt"
	"runtime"
	"sync"
	"sync/atomic"
	"time"

	"github.com/samaritan-proxy/samaritan/host"

	"verifharness/internal/cli"
)

// c15-readers: what a reader of the usable list observes WHILE the set is being changed.
//
// Free-running reader goroutines call Healthy() (and Random()) on the real host.Set while one
// driver goroutine applies a scripted sequence of mutations (spec/host/HostSetPubGen.tla: the
// operations and the usable list S1..Sn after each of them; S0 is the empty list) back to back.
// A reader reads the number of mutations that have RETURNED before its call (b) and the number
// of mutations that have BEGUN after its call returned (a): the set went through the states
// S_b .. S_a while the call was running, so the value must be one of them (linearizability of
// Healthy() against the mutations, each mutation being one linearization point).  After the last
// mutation nothing changes any more: every further observation must be S_n (no staleness).
//
// The same script is raced `reps` times on fresh sets; the readers are persistent.

func init() { cli.Register("c15-readers", cmdReaders) }

type rround struct {
	sid   int
	set   *host.Set
	exp   [][]*host.Host // exp[i]: usable list after i mutations
	kinds []string       // kinds[i]: kind of mutation i+1 ("readd", "replace-all", "remove", "mark-unhealthy", ...)
	addrs []string       // addrs[i]: address mutation i+1 is about ("" for ReplaceAll)
	ids   map[*host.Host]int
	begun int64
	done  int64
}

// RViol is one observation outside its window.
type RViol struct {
	Script   int      `json:"script"`
	Class    string   `json:"class"` // intermediate | stale | other | stale-after-quiescence | random-outside-window
	Observed []int    `json:"observed"`
	B        int      `json:"b"`
	A        int      `json:"a"`
	Window   [][]int  `json:"window"`  // the lists S_b..S_a (object ids)
	Ops      []string `json:"ops"`     // kinds of the mutations b+1..a
	EqualsS  int      `json:"equalsS"` // index of an earlier state whose list the observation equals (-1: none)
	Missing  []int    `json:"missing"` // objects that are in every list of the window and not in the observation
	Final    bool     `json:"final"`   // observed after the last mutation had returned
	Reader   string   `json:"reader"`  // healthy | random
}

// RResult is the outcome of one script.
type RResult struct {
	Script int            `json:"script"`
	Reps   int            `json:"reps"`
	Races  int64          `json:"races"`  // mutations raced (reps * mutations)
	Reads  int64          `json:"reads"`  // observations judged
	Counts map[string]int `json:"counts"` // violations per class/kind
	Viol   []RViol        `json:"viol,omitempty"`
	Err    string         `json:"err,omitempty"`
}

func sameHosts(a, b []*host.Host) bool {
	if len(a) != len(b) {
		return false
	}
	for i := range a {
		if a[i] != b[i] {
			return false
		}
	}
	return true
}

type readerPool struct {
	cur    atomic.Value // *rround
	stop   int32
	reads  int64
	wg     sync.WaitGroup
	mu     sync.Mutex
	viol   []RViol
	counts map[string]int
}

func (p *readerPool) report(r *rround, v []*host.Host, b, a int64, reader string) {
	rv := RViol{Script: r.sid, B: int(b), A: int(a), EqualsS: -1, Reader: reader, Final: int(b) == len(r.exp)-1}
	for _, h := range v {
		rv.Observed = append(rv.Observed, r.ids[h])
	}
	inAll := map[*host.Host]int{}
	for i := b; i <= a; i++ {
		ids := []int{}
		for _, h := range r.exp[i] {
			ids = append(ids, r.ids[h])
			inAll[h]++
		}
		rv.Window = append(rv.Window, ids)
		if i > b {
			rv.Ops = append(rv.Ops, r.kinds[i-1])
		}
	}
	obs := map[*host.Host]bool{}
	for _, h := range v {
		obs[h] = true
	}
	for h, n := range inAll {
		if n == int(a-b)+1 && !obs[h] {
			rv.Missing = append(rv.Missing, r.ids[h])
		}
	}
	for j := int(b) - 1; j >= 0; j-- {
		if sameHosts(v, r.exp[j]) {
			rv.EqualsS = j
			break
		}
	}
	hasKind := func(k string) bool {
		for _, o := range rv.Ops {
			if o == k {
				return true
			}
		}
		return false
	}
	// a re-add in the window whose address is missing from the observation altogether
	readdGap := false
	for i := b + 1; i <= a; i++ {
		if r.kinds[i-1] != "readd" {
			continue
		}
		has := false
		for _, h := range v {
			if h.Addr == r.addrs[i-1] {
				has = true
			}
		}
		if !has {
			readdGap = true
		}
	}
	switch {
	case reader == "random":
		rv.Class = "random-outside-window"
	case rv.Final && rv.B == rv.A:
		rv.Class = "stale-after-quiescence"
	case readdGap:
		rv.Class = "intermediate/readd"
	case hasKind("replace-all"):
		rv.Class = "intermediate/replace-all"
	case rv.EqualsS >= 0:
		rv.Class = "stale"
	default:
		rv.Class = "other"
	}
	key := rv.Class
	if rv.EqualsS >= 0 && (rv.Class == "intermediate/readd" || rv.Class == "intermediate/replace-all") {
		key += "|equals-earlier-state" // also explainable as a stale list (see checks/c15.py)
	}
	p.mu.Lock()
	p.counts[key]++
	if len(p.viol) < 400 {
		p.viol = append(p.viol, rv)
	}
	p.mu.Unlock()
}

func (p *readerPool) run(useRandom bool) {
	defer p.wg.Done()
	n := 0
	for atomic.LoadInt32(&p.stop) == 0 {
		r, _ := p.cur.Load().(*rround)
		if r == nil {
			runtime.Gosched()
			continue
		}
		b := atomic.LoadInt64(&r.done)
		n++
		if useRandom && n%4 == 0 {
			h := r.set.Random()
			a := atomic.LoadInt64(&r.begun)
			ok := false
			empty := false
			for i := b; i <= a && !ok; i++ {
				if len(r.exp[i]) == 0 {
					empty = true
				}
				for _, x := range r.exp[i] {
					if x == h {
						ok = true
					}
				}
			}
			if h == nil {
				ok = empty
			}
			if !ok {
				var v []*host.Host
				if h != nil {
					v = []*host.Host{h}
				}
				p.report(r, v, b, a, "random")
			}
			atomic.AddInt64(&p.reads, 1)
			continue
		}
		v := r.set.Healthy()
		a := atomic.LoadInt64(&r.begun)
		ok := false
		for i := b; i <= a; i++ {
			if sameHosts(v, r.exp[i]) {
				ok = true
				break
			}
		}
		if !ok {
			p.report(r, v, b, a, "healthy")
		}
		atomic.AddInt64(&p.reads, 1)
	}
}

// one prepared mutation
type rmut struct {
	op   string
	hs   []*host.Host
	h    *host.Host
	kind string
}

func prepare(sid int, steps []Step) (*rround, []rmut, error) {
	r := &rround{sid: sid, set: host.NewSet(), ids: map[*host.Host]int{}}
	var objs []*host.Host
	newObj := func(a int, t string) *host.Host {
		h := host.NewWithType(AddrOf(a), typeOf(t))
		objs = append(objs, h)
		r.ids[h] = len(objs)
		return h
	}
	get := func(id int) (*host.Host, error) {
		if id < 1 || id > len(objs) {
			return nil, fmt.Errorf("script %d refers to object %d of %d", sid, id, len(objs))
		}
		return objs[id-1], nil
	}
	r.exp = append(r.exp, nil) // S0: nothing usable
	var muts []rmut
	for i := range steps {
		s := &steps[i]
		m := rmut{op: s.Op, kind: s.Op}
		var err error
		switch s.Op {
		case "Add":
			if s.O == len(objs)+1 {
				m.h = newObj(s.A, s.T)
			} else if m.h, err = get(s.O); err != nil {
				return nil, nil, err
			}
			m.kind = "add"
		case "Remove":
			if s.O == 0 {
				m.h = host.NewWithType(AddrOf(s.A), typeOf(s.T))
			} else if m.h, err = get(s.O); err != nil {
				return nil, nil, err
			}
			m.kind = "remove"
		case "ReplaceAll":
			for a, t := range s.F {
				if t != "none" {
					m.hs = append(m.hs, newObj(a+1, t))
				}
			}
			m.hs = InOrder(m.hs, s.Order)
			m.kind = "replace-all"
		case "Mark":
			if m.h, err = get(s.O); err != nil {
				return nil, nil, err
			}
			m.op = "Mark" + s.K
			m.kind = "mark-" + s.K
		default:
			return nil, nil, fmt.Errorf("unknown op %q", s.Op)
		}
		muts = append(muts, m)
		var lst []*host.Host
		for _, id := range s.Obs.Cache {
			h, err := get(id)
			if err != nil {
				return nil, nil, err
			}
			lst = append(lst, h)
		}
		r.exp = append(r.exp, lst)
		r.kinds = append(r.kinds, m.kind)
		if m.h != nil {
			r.addrs = append(r.addrs, m.h.Addr)
		} else {
			r.addrs = append(r.addrs, "")
		}
	}
	return r, muts, nil
}

// RStep extends Step with the re-add marker of HostSetPubGen.
type rstep struct {
	Step
	Readd bool `json:"readd"`
}

// c15-readers -in scripts.ndjson -out results.ndjson -reps N -readers R
func cmdReaders(args []string) error {
	fs := flag.NewFlagSet("c15-readers", flag.ContinueOnError)
	in := fs.String("in", "", "scripts of HostSetPubGen (ndjson)")
	out := fs.String("out", "", "results (ndjson)")
	reps := fs.Int("reps", 300, "races per script")
	readers := fs.Int("readers", 6, "reader goroutines")
	if err := fs.Parse(args); err != nil {
		return err
	}
	var scripts [][]rstep
	if err := cli.ReadNDJSON(*in, func(line []byte) error {
		var st []rstep
		if err := json.Unmarshal(line, &st); err != nil {
			return err
		}
		scripts = append(scripts, st)
		return nil
	}); err != nil {
		return err
	}
	w, err := cli.NewNDJSONWriter(*out)
	if err != nil {
		return err
	}
	defer w.Close()
	pool := &readerPool{counts: map[string]int{}}
	for i := 0; i < *readers; i++ {
		pool.wg.Add(1)
		go pool.run(i%2 == 1)
	}
	defer func() {
		atomic.StoreInt32(&pool.stop, 1)
		pool.wg.Wait()
	}()
	for sid, st := range scripts {
		res := RResult{Script: sid, Reps: *reps}
		steps := make([]Step, len(st))
		for i := range st {
			steps[i] = st[i].Step
		}
		pool.mu.Lock()
		pool.viol, pool.counts = nil, map[string]int{}
		pool.mu.Unlock()
		reads0 := atomic.LoadInt64(&pool.reads)
		for rep := 0; rep < *reps; rep++ {
			r, muts, err := prepare(sid, steps)
			if err != nil {
				res.Err = err.Error()
				break
			}
			for i := range st {
				if st[i].Readd {
					r.kinds[i] = "readd"
				}
			}
			pool.cur.Store(r)
			for i := range muts {
				m := &muts[i]
				atomic.AddInt64(&r.begun, 1)
				switch m.op {
				case "Add":
					r.set.Add(m.h)
				case "Remove":
					r.set.Remove(m.h)
				case "ReplaceAll":
					r.set.ReplaceAll(m.hs)
				case "Markhealthy":
					r.set.MarkHostHealthy(m.h)
				case "Markunhealthy":
					r.set.MarkHostUnhealthy(m.h)
				}
				atomic.AddInt64(&r.done, 1)
			}
			res.Races += int64(len(muts))
			// quiescent: the readers keep reading; every observation from now on must be S_n
			target := atomic.LoadInt64(&pool.reads) + int64(2**readers)
			dl := time.Now().Add(2 * time.Second)
			for atomic.LoadInt64(&pool.reads) < target && time.Now().Before(dl) {
				runtime.Gosched()
			}
			n := int64(len(muts))
			for k := 0; k < 2; k++ {
				if v := r.set.Healthy(); !sameHosts(v, r.exp[n]) {
					pool.report(r, v, n, n, "healthy")
				}
			}
		}
		pool.cur.Store((*rround)(nil))
		res.Reads = atomic.LoadInt64(&pool.reads) - reads0
		pool.mu.Lock()
		res.Counts = pool.counts
		if len(pool.viol) > 6 {
			res.Viol = pool.viol[:6]
		} else {
			res.Viol = pool.viol
		}
		pool.mu.Unlock()
		w.Write(res)
	}
	return nil
}
