package c10

import (
	"bytes"
	"flag"
	"fmt"
	"io"

	"github.com/samaritan-proxy/samaritan/proc/redis"

	"verifharness/internal/cli"
	"verifharness/internal/resp"
)

func init() { cli.Register("c10-longlived", longLived) }

type longResult struct {
	Case string `json:"case"`
	N    int    `json:"n"`
	OK   bool   `json:"ok"`
	Why  string `json:"why,omitempty"`
}

func toVerif(v resp.Value) redis.VerifValue {
	out := redis.VerifValue{Type: v.Kind, Int: v.Int, Null: v.Null}
	switch v.Kind {
	case '*':
		for _, e := range v.Arr {
			out.Array = append(out.Array, toVerif(e))
		}
	default:
		out.Text = append([]byte{}, v.Str...)
	}
	return out
}

func sameVerif(a, b redis.VerifValue) bool {
	if a.Type != b.Type || a.Null != b.Null {
		return false
	}
	switch a.Type {
	case ':':
		return a.Int == b.Int
	case '*':
		if len(a.Array) != len(b.Array) {
			return false
		}
		for i := range a.Array {
			if !sameVerif(a.Array[i], b.Array[i]) {
				return false
			}
		}
		return true
	default:
		return bytes.Equal(a.Text, b.Text)
	}
}

// longLived: decoding a concatenation of messages yields exactly those messages - also when the concatenation is
// long: one decoder (one connection) sees hundreds of messages of every shape, arrays larger than any internal
// pre-allocation, and nesting up to the documented depth limit. State carried from message to message inside the
// decoder must not matter.
func longLived(args []string) error {
	fs := flag.NewFlagSet("c10-longlived", flag.ContinueOnError)
	out := fs.String("out", "", "results (ndjson)")
	if err := fs.Parse(args); err != nil {
		return err
	}
	w, err := cli.NewNDJSONWriter(*out)
	if err != nil {
		return err
	}
	defer w.Close()
	nest := func(d int, leaf resp.Value) resp.Value {
		v := leaf
		for i := 0; i < d; i++ {
			v = resp.Arr(v)
		}
		return v
	}
	big := func(n int) resp.Value {
		vs := make([]resp.Value, n)
		for i := range vs {
			vs[i] = resp.Int(int64(i))
		}
		return resp.Arr(vs...)
	}
	shapes := map[string]resp.Value{
		"empty-array":        resp.Arr(),
		"null-array":         resp.NullArr(),
		"null-bulk":          resp.NullBulk(),
		"empty-bulk":         resp.BulkS(""),
		"scan-page-empty":    resp.Arr(resp.BulkS("0"), resp.Arr()),
		"nested-empty":       resp.Arr(resp.Arr(), resp.Arr(resp.Arr())),
		"command":            resp.Cmd("GET", "key"),
		"integer":            resp.Int(-7),
		"error":              resp.Err("ERR x"),
		"nested-depth-8":     nest(8, resp.BulkS("x")),
		"nested-depth-127":   nest(127, resp.BulkS("x")),
		"nested-depth-128":   nest(128, resp.BulkS("x")),
		"array-1024":         big(1024),
		"array-1025":         big(1025),
		"array-5000":         big(5000),
		"array-of-empties":   resp.Arr(resp.Arr(), resp.Arr(), resp.Arr(), resp.NullArr(), resp.NullBulk()),
	}
	tail := resp.Cmd("MGET", "a", "b")
	for name, v := range shapes {
		for _, n := range []int{1, 127, 128, 129, 300, 1100} {
			if len(resp.Bytes(v))*n > 8<<20 {
				continue
			}
			var stream []byte
			var want []redis.VerifValue
			for i := 0; i < n; i++ {
				stream = resp.Append(stream, v)
				want = append(want, toVerif(v))
			}
			stream = resp.Append(stream, tail)
			want = append(want, toVerif(tail))
			for _, bufSize := range []int{64, 4096} {
				got, derr := redis.VerifDecodeAll(bytes.NewReader(stream), bufSize)
				r := longResult{Case: fmt.Sprintf("%s x%d buf=%d", name, n, bufSize), N: n, OK: true}
				switch {
				case derr != io.EOF:
					r.OK, r.Why = false, fmt.Sprintf("decoder stopped after %d of %d messages: %v", len(got), len(want), derr)
				case len(got) != len(want):
					r.OK, r.Why = false, fmt.Sprintf("%d messages decoded, %d sent", len(got), len(want))
				default:
					for i := range want {
						if !sameVerif(got[i], want[i]) {
							r.OK, r.Why = false, fmt.Sprintf("message %d differs", i+1)
							break
						}
					}
				}
				w.Write(r)
			}
		}
	}
	return nil
}
