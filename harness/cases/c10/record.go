package c10

import (
	"encoding/json"
	"flag"
	"fmt"
	"math/rand"
	"os"

	redis "github.com/samaritan-proxy/samaritan/proc/redis"

	"verifharness/internal/cli"
)

// c10-record -n N -out trace.json
//
// Code -> spec: seeded random values, inline commands, chunkings and buffer sizes are run through
// the REAL encoder and decoder; what they did is written as a JSON array of records for TLC
// (RespTrace.tla), which judges every record with the operators of Resp.tla / RespReader.tla:
//
//	buf     reader buffer size
//	chunks  chunk lengths the connection delivered
//	stream  the bytes on the wire (rope): real encoder output of each value, inline lines verbatim
//	lens    length of each message on the wire
//	inline  per message: was it sent as an inline command
//	sent    per message: the value that was given to the real encoder (null array for inline commands)
//	dec     what the real decoder returned (model values, payloads run-length coded)
//	err     how decoding ended ("EOF", ...)
//	reads   (requested, returned) of every Read the real Reader issued (-1 = EOF)
//	trunc   [{at, n}]: the real decoder got n messages out of the first "at" bytes
type traceRec struct {
	Buf    int        `json:"buf"`
	Chunks []int      `json:"chunks"`
	Stream []int      `json:"stream"`
	Lens   []int      `json:"lens"`
	Inline []bool     `json:"inline"`
	Sent   []MV       `json:"sent"`
	Dec    []MV       `json:"dec"`
	Err    string     `json:"err"`
	Reads  [][2]int   `json:"reads"`
	Trunc  []truncRec `json:"trunc"`
}

type truncRec struct {
	At int `json:"at"`
	N  int `json:"n"`
}

var structural = []byte{'+', '-', ':', '$', '*', '\r', '\n', ' ', '0', '1', 'a'}
var lineBytes = []byte{'+', '-', ':', '$', '*', ' ', '0', '1', 'a', 'Z', 0, 255, '\t', '"'}

type gen struct {
	rng  *rand.Rand
	long bool // allow payloads around 512 / 8192
	big  bool // mostly integers outside the itoa table (-128..32768), payloads longer than 32768 now and then
}

func (g *gen) payloadLen() int {
	r := g.rng.Intn(100)
	if g.big && r < 4 {
		return 32769 + g.rng.Intn(9000)
	}
	if g.long {
		switch {
		case r < 45:
			return g.rng.Intn(9)
		case r < 55:
			return 28 + g.rng.Intn(9)
		case r < 65:
			return 60 + g.rng.Intn(10)
		case r < 88:
			return 507 + g.rng.Intn(8)
		default:
			return 8186 + g.rng.Intn(10)
		}
	}
	switch {
	case r < 70:
		return g.rng.Intn(9)
	case r < 88:
		return 28 + g.rng.Intn(9)
	default:
		return 60 + g.rng.Intn(10)
	}
}

func (g *gen) payload(alpha []byte) []byte {
	n := g.payloadLen()
	b := make([]byte, n)
	if n > 100 {
		// long payloads: a few long runs of different bytes so that the record stays small
		cut1, cut2 := g.rng.Intn(n), g.rng.Intn(n)
		if cut1 > cut2 {
			cut1, cut2 = cut2, cut1
		}
		c := [3]byte{alpha[g.rng.Intn(len(alpha))], alpha[g.rng.Intn(len(alpha))], alpha[g.rng.Intn(len(alpha))]}
		for i := range b {
			switch {
			case i < cut1:
				b[i] = c[0]
			case i < cut2:
				b[i] = c[1]
			default:
				b[i] = c[2]
			}
		}
		b[g.rng.Intn(n)] = alpha[g.rng.Intn(len(alpha))]
		return b
	}
	for i := range b {
		b[i] = alpha[g.rng.Intn(len(alpha))]
	}
	return b
}

var interestingInts = []int64{0, 1, -1, 9, 10, -128, -129, 127, 32767, 32768, 32769, 999999999, 1000000000, -99999999, -999999999,
	1<<31 - 1, 1 << 31, -(1 << 31), 1<<63 - 1, -1 << 63, -(1<<63 - 1)}

func (g *gen) value(depth int) redis.VerifValue {
	k := g.rng.Intn(10)
	if depth >= 3 && k >= 7 {
		k = g.rng.Intn(7)
	}
	switch k {
	case 0:
		return redis.VerifValue{Type: '+', Text: g.payload(lineBytes)}
	case 1:
		return redis.VerifValue{Type: '-', Text: g.payload(lineBytes)}
	case 2:
		if g.big {
			// 6 to 19 digits, either sign: never in the table
			i := 40000 + g.rng.Int63n(1<<uint(17+g.rng.Intn(46)))
			if g.rng.Intn(2) == 0 {
				i = -i
			}
			return redis.VerifValue{Type: ':', Int: i}
		}
		if g.rng.Intn(2) == 0 {
			return redis.VerifValue{Type: ':', Int: interestingInts[g.rng.Intn(len(interestingInts))]}
		}
		return redis.VerifValue{Type: ':', Int: int64(g.rng.Uint64()) >> uint(g.rng.Intn(64))}
	case 3, 4:
		if g.rng.Intn(2) == 0 {
			return redis.VerifValue{Type: '$', Text: g.payload(structural)}
		}
		b := g.payload(structural)
		for i := range b {
			if g.rng.Intn(4) == 0 {
				b[i] = byte(g.rng.Intn(256))
			}
		}
		return redis.VerifValue{Type: '$', Text: b}
	case 5:
		return redis.VerifValue{Type: '$', Null: true}
	case 6:
		return redis.VerifValue{Type: '*', Null: true}
	default:
		n := g.rng.Intn(4)
		out := redis.VerifValue{Type: '*', Array: []redis.VerifValue{}}
		for i := 0; i < n; i++ {
			out.Array = append(out.Array, g.value(depth+1))
		}
		return out
	}
}

// inline builds an inline command line: words without space/CR/LF, first byte not a type byte.
func (g *gen) inline() []byte {
	var b []byte
	n := 1 + g.rng.Intn(4)
	for i := 0; i < g.rng.Intn(3); i++ {
		b = append(b, ' ')
	}
	wordBytes := []byte{'+', '-', ':', '$', '*', '0', '1', 'a', 'G', 'E', 'T', '"', '\t', 0, 255}
	for w := 0; w < n; w++ {
		l := 1 + g.rng.Intn(6)
		if g.rng.Intn(20) == 0 {
			l = 30 + g.rng.Intn(8)
		}
		for i := 0; i < l; i++ {
			c := wordBytes[g.rng.Intn(len(wordBytes))]
			if len(b) == 0 {
				c = wordBytes[5+g.rng.Intn(len(wordBytes)-5)]
			}
			b = append(b, c)
		}
		for i := 0; i < 1+g.rng.Intn(2); i++ {
			b = append(b, ' ')
		}
	}
	if g.rng.Intn(2) == 0 {
		for len(b) > 0 && b[len(b)-1] == ' ' {
			b = b[:len(b)-1]
		}
	}
	return append(b, '\r', '\n')
}

func (g *gen) chunks(total int) []int {
	switch g.rng.Intn(6) {
	case 0:
		return []int{total}
	case 1:
		if total <= 600 {
			return ones(total)
		}
	}
	k := 1 + g.rng.Intn(4)
	if k > total-1 {
		k = total - 1
	}
	set := map[int]bool{}
	for len(set) < k {
		set[1+g.rng.Intn(total-1)] = true
	}
	cuts := make([]int, 0, k)
	for c := 1; c < total; c++ {
		if set[c] {
			cuts = append(cuts, c)
		}
	}
	return cutsToChunks(cuts, total)
}

// recordOne runs one seeded random exchange through the real encoder and decoder and describes it.
func recordOne(g *gen) (traceRec, error) {
	rng := g.rng
	for {
		rec := traceRec{Buf: allBufs[rng.Intn(len(allBufs))], Lens: []int{}, Inline: []bool{}, Sent: []MV{}, Dec: []MV{}, Trunc: []truncRec{}, Reads: [][2]int{}}
		var stream []byte
		nm := 1 + rng.Intn(4)
		for m := 0; m < nm; m++ {
			if rng.Intn(5) == 0 {
				line := g.inline()
				stream = append(stream, line...)
				rec.Lens = append(rec.Lens, len(line))
				rec.Inline = append(rec.Inline, true)
				rec.Sent = append(rec.Sent, MV{T: "array", Null: true})
				continue
			}
			v := g.value(0)
			b, err := redis.VerifEncode(v, encBufs[rng.Intn(len(encBufs))])
			if err != nil {
				return rec, fmt.Errorf("encode: %v", err)
			}
			stream = append(stream, b...)
			rec.Lens = append(rec.Lens, len(b))
			rec.Inline = append(rec.Inline, false)
			rec.Sent = append(rec.Sent, fromReal(v))
		}
		if len(stream) < 2 {
			continue
		}
		rec.Chunks = g.chunks(len(stream))
		rec.Stream = rope(stream)
		vals, errText, log := decode(stream, rec.Chunks, rec.Buf, true)
		for _, v := range vals {
			rec.Dec = append(rec.Dec, fromReal(v))
		}
		rec.Err = errText
		if len(log) <= 700 {
			rec.Reads = log
		} else {
			rec.Reads = [][2]int{{-7, -7}} // too long to ship: TLC skips the comparison
		}
		// truncations: around every message end and at random places
		ats := map[int]bool{}
		end := 0
		for _, l := range rec.Lens {
			end += l
			for _, a := range []int{end - 1, end, end + 1} {
				if a >= 1 && a < len(stream) {
					ats[a] = true
				}
			}
		}
		for k := 0; k < 3; k++ {
			ats[1+rng.Intn(len(stream)-1)] = true
		}
		for a := 1; a < len(stream); a++ {
			if !ats[a] {
				continue
			}
			tv, _, _ := decode(stream[:a], []int{a}, rec.Buf, false)
			rec.Trunc = append(rec.Trunc, truncRec{At: a, N: len(tv)})
		}
		return rec, nil
	}
}

func record(args []string) error {
	fs := flag.NewFlagSet("c10-record", flag.ContinueOnError)
	n := fs.Int("n", 300, "number of recorded runs")
	nLong := fs.Int("long", 20, "how many of them may contain payloads around 512 / 8192 bytes")
	out := fs.String("out", "", "trace.json")
	if err := fs.Parse(args); err != nil {
		return err
	}
	rng := rand.New(rand.NewSource(cli.Seed()))
	recs := make([]traceRec, 0, *n)
	for i := 0; i < *n; i++ {
		rec, err := recordOne(&gen{rng: rng, long: i < *nLong})
		if err != nil {
			return fmt.Errorf("run %d: %v", i, err)
		}
		recs = append(recs, rec)
	}
	b, err := json.Marshal(recs)
	if err != nil {
		return err
	}
	return os.WriteFile(*out, b, 0o644)
}
