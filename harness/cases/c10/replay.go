package c10

import (
	"bytes"
	"encoding/json"
	"flag"
	"fmt"
	"runtime"
	"runtime/debug"
	"sync"
	"sync/atomic"

	redis "github.com/samaritan-proxy/samaritan/proc/redis"

	"verifharness/internal/cli"
)

// c10-replay -in vectors.ndjson -out res.ndjson
//
// vectors.ndjson: {"tag":"VAL"|"CAT"|"RD"|"INT"|"ITOA","id":n,"o":<what TLC printed>} per line.
// Output: {"kind":"mismatch",...} per disagreement between the real codec and the vector,
// {"kind":"summary","tag":...,"vectors":n,"runs":m,"mismatches":k} per tag.
// The harness reports; checks/c10.py decides.

func init() {
	cli.Register("c10-replay", replay)
	cli.Register("c10-record", record)
}

var allBufs = []int{32, 33, 64, 4096, 8192}
var encBufs = []int{16, 4096, 8192}

type vector struct {
	Tag string          `json:"tag"`
	ID  int             `json:"id"`
	O   json.RawMessage `json:"o"`
}

type valVec struct {
	V MV    `json:"v"`
	E []int `json:"e"`
	P []int `json:"p"`
}

type catVec struct {
	I []int `json:"i"`
	S []int `json:"s"`
	M []MV  `json:"m"`
	E []int `json:"e"`
	P []int `json:"p"`
}

type rdVec struct {
	Cap int      `json:"cap"`
	S   []int    `json:"s"`
	C   []int    `json:"c"`
	M   []MV     `json:"m"`
	E   []int    `json:"e"`
	R   [][2]int `json:"r"`
	Br  []string `json:"br"`
}

type intVec struct {
	X    []int `json:"x"`
	OK   bool  `json:"ok"`
	Neg  bool  `json:"neg"`
	D    []int `json:"d"`
	Fast bool  `json:"fast"`
}

type itoaVec struct {
	Lo int     `json:"lo"`
	T  [][]int `json:"t"`
}

type mismatchRec struct {
	Kind   string      `json:"kind"`
	Tag    string      `json:"tag"`
	ID     int         `json:"id"`
	What   string      `json:"what"`
	Input  []int       `json:"input,omitempty"` // rope, clipped to 200 entries
	Chunks []int       `json:"chunks,omitempty"`
	Buf    int         `json:"buf,omitempty"`
	Got    interface{} `json:"got,omitempty"`
	Want   interface{} `json:"want,omitempty"`
}

type summaryRec struct {
	Kind       string `json:"kind"`
	Tag        string `json:"tag"`
	Vectors    int64  `json:"vectors"`
	Runs       int64  `json:"runs"`
	Mismatches int64  `json:"mismatches"`
}

type tally struct {
	vectors, runs, mismatches int64
}

type replayer struct {
	mu     sync.Mutex
	w      *cli.NDJSONWriter
	tl     map[string]*tally
	max23  int
	bufs23 []int
}

func (rp *replayer) tally(tag string) *tally { return rp.tl[tag] }

func (rp *replayer) report(m mismatchRec) {
	t := rp.tally(m.Tag)
	n := atomic.AddInt64(&t.mismatches, 1)
	if n > 200 {
		return
	}
	m.Kind = "mismatch"
	if len(m.Chunks) > 64 {
		m.Chunks = append(append([]int{}, m.Chunks[:64]...), -1)
	}
	rp.mu.Lock()
	rp.w.Write(m)
	rp.mu.Unlock()
}

func clipVals(vs []redis.VerifValue) []MV {
	out := []MV{}
	for i, v := range vs {
		if i >= 8 {
			break
		}
		out = append(out, fromReal(v))
	}
	return out
}

// expectDecode runs the real decoder over data delivered in chunks with the buffer size and
// reports a mismatch unless it yields exactly want followed by io.EOF.
func (rp *replayer) expectDecode(tag string, id int, data []byte, chunks []int, buf int, want []redis.VerifValue, wantModel []MV) bool {
	atomic.AddInt64(&rp.tally(tag).runs, 1)
	got, errText, _ := decode(data, chunks, buf, false)
	if errText != "EOF" || !sameValues(got, want) {
		what := "decode/value"
		if len(got) != len(want) {
			what = "decode/count"
		}
		if errText != "EOF" {
			what = "decode/error"
		}
		rp.report(mismatchRec{Tag: tag, ID: id, What: what, Input: clipInts(data), Chunks: chunks, Buf: buf,
			Got:  map[string]interface{}{"values": clipVals(got), "n": len(got), "err": errText},
			Want: map[string]interface{}{"values": wantModel, "n": len(want), "err": "EOF"}})
		return false
	}
	return true
}

// expectCount: a truncated stream must yield exactly n messages and then a read error
// (io.EOF or io.ErrUnexpectedEOF), never a protocol error, a panic or another count.
func (rp *replayer) expectCount(tag string, id int, data []byte, chunks []int, buf int, n int, want []redis.VerifValue) bool {
	atomic.AddInt64(&rp.tally(tag).runs, 1)
	got, errText, _ := decode(data, chunks, buf, false)
	if len(got) != n || (errText != "EOF" && errText != "unexpected EOF") || !sameValues(got, want[:n]) {
		rp.report(mismatchRec{Tag: tag, ID: id, What: "trunc/count", Input: clipInts(data), Chunks: chunks, Buf: buf,
			Got:  map[string]interface{}{"n": len(got), "err": errText, "values": clipVals(got)},
			Want: map[string]interface{}{"n": n, "err": "EOF or unexpected EOF"}})
		return false
	}
	return true
}

// forCuts calls f for every subset of cands with at most k elements (in increasing order).
func forCuts(cands []int, k int, f func(cuts []int)) {
	cur := make([]int, 0, k)
	var rec func(start int)
	rec = func(start int) {
		f(cur)
		if len(cur) == k {
			return
		}
		for i := start; i < len(cands); i++ {
			cur = append(cur, cands[i])
			rec(i + 1)
			cur = cur[:len(cur)-1]
		}
	}
	rec(0)
}

// chunkings runs the decoder over every chunking the vector asks for: one read, byte by byte,
// every set of at most 3 cuts out of the candidates; all buffer sizes for at most one cut, the
// configured subset for 2 cuts, one of the subset (rotating) for 3 cuts.
func (rp *replayer) chunkings(tag string, id int, data []byte, cands []int, want []redis.VerifValue, wantModel []MV) {
	L := len(data)
	for _, b := range allBufs {
		if !rp.expectDecode(tag, id, data, ones(L), b, want, wantModel) {
			return
		}
	}
	ok := true
	forCuts(cands, rp.max23, func(cuts []int) {
		if !ok {
			return
		}
		bufs := allBufs
		if len(cuts) == 2 {
			bufs = rp.bufs23
		} else if len(cuts) >= 3 {
			// one of the sizes, rotating with the vector and the first cut
			k := (id + cuts[0]) % len(rp.bufs23)
			bufs = rp.bufs23[k : k+1]
		}
		ch := cutsToChunks(cuts, L)
		for _, b := range bufs {
			if !rp.expectDecode(tag, id, data, ch, b, want, wantModel) {
				ok = false
				return
			}
		}
	})
}

func (rp *replayer) doVal(id int, raw json.RawMessage) error {
	var v valVec
	if err := json.Unmarshal(raw, &v); err != nil {
		return err
	}
	real, err := toReal(v.V)
	if err != nil {
		return err
	}
	want := expand(v.E)
	// encode
	for _, b := range encBufs {
		atomic.AddInt64(&rp.tally("VAL").runs, 1)
		got, err := redis.VerifEncode(real, b)
		if err != nil || !bytes.Equal(got, want) {
			rp.report(mismatchRec{Tag: "VAL", ID: id, What: "encode/bytes", Buf: b, Got: map[string]interface{}{"bytes": clipInts(got), "err": fmt.Sprint(err)},
				Want: map[string]interface{}{"bytes": clipInts(want), "value": v.V}})
			break
		}
	}
	// decode under all chunkings
	rp.chunkings("VAL", id, want, v.P, []redis.VerifValue{real}, []MV{v.V})
	// no proper prefix is a message
	for n := 1; n < len(want); n++ {
		for _, b := range []int{32, 4096} {
			if !rp.expectCount("VAL", id, want[:n], []int{n}, b, 0, nil) {
				return nil
			}
		}
	}
	return nil
}

func (rp *replayer) doCat(id int, raw json.RawMessage) error {
	var v catVec
	if err := json.Unmarshal(raw, &v); err != nil {
		return err
	}
	data := expand(v.S)
	want := make([]redis.VerifValue, len(v.M))
	for i, m := range v.M {
		r, err := toReal(m)
		if err != nil {
			return err
		}
		want[i] = r
	}
	rp.chunkings("CAT", id, data, v.P, want, v.M)
	// consumption: the stream cut after n bytes yields exactly the messages that end at or before n
	for n := 1; n < len(data); n++ {
		k := 0
		for k < len(v.E) && v.E[k] <= n {
			k++
		}
		atEnd := k > 0 && v.E[k-1] == n
		for _, b := range []int{32, 4096} {
			if atEnd {
				if !rp.expectDecode("CAT", id, data[:n], []int{n}, b, want[:k], v.M[:k]) {
					return nil
				}
			} else if !rp.expectCount("CAT", id, data[:n], []int{n}, b, k, want) {
				return nil
			}
		}
	}
	return nil
}

func (rp *replayer) doRd(id int, raw json.RawMessage) error {
	var v rdVec
	if err := json.Unmarshal(raw, &v); err != nil {
		return err
	}
	data := expand(v.S)
	chunks := v.C
	if len(chunks) == 1 && chunks[0] == 0 {
		chunks = ones(len(data))
	}
	want := make([]redis.VerifValue, len(v.M))
	for i, m := range v.M {
		r, err := toReal(m)
		if err != nil {
			return err
		}
		want[i] = r
	}
	t := rp.tally("RD")
	atomic.AddInt64(&t.runs, 1)
	got, errText, log := decode(data, chunks, v.Cap, true)
	if errText != "EOF" || !sameValues(got, want) {
		what := "decode/value"
		if errText != "EOF" {
			what = "decode/error"
		}
		rp.report(mismatchRec{Tag: "RD", ID: id, What: what, Input: clipInts(data), Chunks: chunks, Buf: v.Cap,
			Got:  map[string]interface{}{"values": clipVals(got), "n": len(got), "err": errText},
			Want: map[string]interface{}{"values": v.M, "n": len(want), "err": "EOF"}})
	} else if !sameLog(log, v.R) {
		// the values are right but the Reader issued other reads than RespReader.tla predicts:
		// the model of the mechanism is not the mechanism (not a violation of the property)
		rp.report(mismatchRec{Tag: "RD", ID: id, What: "model/reads", Input: clipInts(data), Chunks: chunks, Buf: v.Cap,
			Got: clipLog(log), Want: clipLog(v.R)})
	}
	// the same stream under the two extreme chunkings and every buffer size
	for _, b := range allBufs {
		rp.expectDecode("RD", id, data, []int{len(data)}, b, want, v.M)
	}
	if len(data) <= 2048 {
		rp.expectDecode("RD", id, data, ones(len(data)), v.Cap, want, v.M)
	}
	// encoding of the (long) values
	var enc []byte
	for _, r := range want {
		atomic.AddInt64(&t.runs, 1)
		b, err := redis.VerifEncode(r, encBufs[id%len(encBufs)])
		if err != nil {
			rp.report(mismatchRec{Tag: "RD", ID: id, What: "encode/error", Got: fmt.Sprint(err)})
			return nil
		}
		enc = append(enc, b...)
	}
	// inline messages are not canonical encodings: compare only when the lengths agree
	if len(enc) == len(data) && !bytes.Equal(enc, data) {
		rp.report(mismatchRec{Tag: "RD", ID: id, What: "encode/bytes", Got: clipInts(enc), Want: clipInts(data)})
	}
	return nil
}

func sameLog(a, b [][2]int) bool {
	if len(a) != len(b) {
		return false
	}
	for i := range a {
		if a[i] != b[i] {
			return false
		}
	}
	return true
}

func clipLog(a [][2]int) [][2]int {
	if len(a) > 40 {
		return a[:40]
	}
	return a
}

func (rp *replayer) doInt(id int, raw json.RawMessage) error {
	var v intVec
	if err := json.Unmarshal(raw, &v); err != nil {
		return err
	}
	text := make([]byte, len(v.X))
	for i, c := range v.X {
		text[i] = byte(c)
	}
	t := rp.tally("INT")
	atomic.AddInt64(&t.runs, 1)
	got, err := redis.VerifBtoi64(append([]byte{}, text...))
	var want int64
	if v.OK {
		w, cerr := digitsToInt64(v.Neg, v.D)
		if cerr != nil {
			return cerr
		}
		want = w
	}
	switch {
	case v.OK && err != nil:
		rp.report(mismatchRec{Tag: "INT", ID: id, What: "btoi64/rejects", Input: v.X, Got: err.Error(), Want: digitText(v.Neg, v.D)})
	case !v.OK && err == nil:
		rp.report(mismatchRec{Tag: "INT", ID: id, What: "btoi64/accepts", Input: v.X, Got: got, Want: "error"})
	case v.OK && got != want:
		rp.report(mismatchRec{Tag: "INT", ID: id, What: "btoi64/value", Input: v.X, Got: got, Want: digitText(v.Neg, v.D)})
	}
	if v.OK {
		// itoa of the value is the canonical text
		atomic.AddInt64(&t.runs, 1)
		if s := redis.VerifItoa(want); s != digitText(v.Neg, v.D) {
			rp.report(mismatchRec{Tag: "INT", ID: id, What: "itoa/text", Input: v.X, Got: s, Want: digitText(v.Neg, v.D)})
		}
	}
	// through the decoder: ":" text CR LF (only texts that are one line and fit the smallest buffer)
	if len(text) <= 28 && bytes.IndexAny(text, "\r\n") < 0 {
		data := append(append([]byte{':'}, text...), '\r', '\n')
		for _, b := range []int{32, 4096} {
			atomic.AddInt64(&t.runs, 1)
			vals, errText, _ := decode(data, []int{len(data)}, b, false)
			if v.OK {
				if errText != "EOF" || len(vals) != 1 || vals[0].Type != ':' || vals[0].Int != want {
					rp.report(mismatchRec{Tag: "INT", ID: id, What: "decode/int", Input: clipInts(data), Buf: b,
						Got: map[string]interface{}{"values": clipVals(vals), "err": errText}, Want: digitText(v.Neg, v.D)})
				}
			} else if len(vals) != 0 || errText == "EOF" || errText == "" {
				rp.report(mismatchRec{Tag: "INT", ID: id, What: "decode/int-accepts", Input: clipInts(data), Buf: b,
					Got: map[string]interface{}{"values": clipVals(vals), "err": errText}, Want: "protocol error"})
			}
		}
	}
	return nil
}

func (rp *replayer) doItoa(id int, raw json.RawMessage) error {
	var v itoaVec
	if err := json.Unmarshal(raw, &v); err != nil {
		return err
	}
	t := rp.tally("ITOA")
	for j, txt := range v.T {
		i := int64(v.Lo + j)
		atomic.AddInt64(&t.runs, 1)
		want := string(expand(txt))
		if got := redis.VerifItoa(i); got != want {
			rp.report(mismatchRec{Tag: "ITOA", ID: id, What: "itoa/text", Got: got, Want: want})
		}
		// and back
		if got, err := redis.VerifBtoi64([]byte(want)); err != nil || got != i {
			rp.report(mismatchRec{Tag: "ITOA", ID: id, What: "btoi64/value", Input: txt, Got: fmt.Sprint(got, err), Want: i})
		}
	}
	return nil
}

func parseBufs(s string) ([]int, error) {
	var out []int
	for _, f := range bytes.Split([]byte(s), []byte(",")) {
		var n int
		if _, err := fmt.Sscanf(string(f), "%d", &n); err != nil {
			return nil, err
		}
		out = append(out, n)
	}
	return out, nil
}

func replay(args []string) error {
	fs := flag.NewFlagSet("c10-replay", flag.ContinueOnError)
	in := fs.String("in", "", "vectors ndjson")
	out := fs.String("out", "", "result ndjson")
	maxCuts := fs.Int("maxcuts", 3, "maximal number of cut points per chunking")
	bufs23 := fs.String("bufs23", "32,33,4096", "buffer sizes for chunkings with 2 or 3 cuts")
	if err := fs.Parse(args); err != nil {
		return err
	}
	// every run of the real decoder allocates its buffer and an 8 KiB slab: collect less often
	debug.SetGCPercent(800)
	b23, err := parseBufs(*bufs23)
	if err != nil {
		return err
	}
	w, err := cli.NewNDJSONWriter(*out)
	if err != nil {
		return err
	}
	defer w.Close()
	rp := &replayer{w: w, tl: map[string]*tally{}, max23: *maxCuts, bufs23: b23}
	tags := []string{"VAL", "CAT", "RD", "INT", "ITOA"}
	for _, t := range tags {
		rp.tl[t] = &tally{}
	}
	work := make(chan vector, 1024)
	var wg sync.WaitGroup
	var firstErr atomic.Value
	for i := 0; i < runtime.GOMAXPROCS(0); i++ {
		wg.Add(1)
		go func() {
			defer wg.Done()
			for v := range work {
				t := rp.tl[v.Tag]
				if t == nil {
					firstErr.Store(fmt.Errorf("vector %d: unknown tag %q", v.ID, v.Tag))
					continue
				}
				atomic.AddInt64(&t.vectors, 1)
				var err error
				switch v.Tag {
				case "VAL":
					err = rp.doVal(v.ID, v.O)
				case "CAT":
					err = rp.doCat(v.ID, v.O)
				case "RD":
					err = rp.doRd(v.ID, v.O)
				case "INT":
					err = rp.doInt(v.ID, v.O)
				case "ITOA":
					err = rp.doItoa(v.ID, v.O)
				}
				if err != nil {
					firstErr.Store(fmt.Errorf("vector %s %d: %v", v.Tag, v.ID, err))
				}
			}
		}()
	}
	err = cli.ReadNDJSON(*in, func(line []byte) error {
		var v vector
		if err := json.Unmarshal(line, &v); err != nil {
			return err
		}
		work <- v
		return nil
	})
	close(work)
	wg.Wait()
	if err != nil {
		return err
	}
	if e := firstErr.Load(); e != nil {
		return e.(error)
	}
	for _, t := range tags {
		tl := rp.tl[t]
		w.Write(summaryRec{Kind: "summary", Tag: t, Vectors: tl.vectors, Runs: tl.runs, Mismatches: tl.mismatches})
	}
	return nil
}
