package c10

import (
	"flag"
	"fmt"
	"math/rand"
	"net"
	"runtime"
	"sync"
	"time"

	"verifharness/internal/cli"
	"verifharness/internal/resp"
	"verifharness/internal/simredis"
	"verifharness/internal/sut"
)

// c10-residue -out res.ndjson [-rounds N]
//
// The decoder's life cycle (spec/redis/RespLife.tla): a decoder serves ONE connection; a new connection starts with
// a decoder in its initial state, whatever the previous connections left behind.  Only a real processor creates
// and retires session decoders, so this goes through one (real listener, real sessions, simulated cluster):
//
// round = connection A sends k complete requests (and reads their replies), then a PREFIX of another message cut
// at a position of every class (inside the array length line, between the lines, inside a bulk length line,
// inside a bulk payload, inside its CR LF, inside an inline line, or a burst of complete pipelined requests that
// is never answered because A is gone) and closes (FIN or RST); then 1..8 fresh connections, some at the same
// time, each send PING or a GET of their own key - in array or inline form, in one or two writes - and must read
// exactly their own reply, and again for a second request.  Bytes of another connection decoded in front of
// (or instead of) a connection's own stream show as a foreign reply.
//
// Output: {"kind":"mismatch","part":"residue","what":"foreign-bytes-decoded",...}, {"kind":"infra",...},
// {"kind":"summary","part":"residue",...}.

func init() { cli.Register("c10-residue", residue) }

type residueCut struct {
	Class  string
	Prefix string
}

// the cut classes: every kind of position at which connection A may end
var residueCuts = []residueCut{
	{"type-byte-only", "*"},
	{"inside-array-length", "*1"},
	{"inside-array-length-cr", "*2\r"},
	{"after-array-length", "*1\r\n"},
	{"bulk-type-byte", "*1\r\n$"},
	{"inside-bulk-length", "*1\r\n$4"},
	{"inside-bulk-length-2", "*2\r\n$3\r\nGET\r\n$1"},
	{"inside-bulk-length-cr", "*1\r\n$4\r"},
	{"inside-bulk-payload", "*1\r\n$4\r\nPI"},
	{"inside-bulk-crlf", "*1\r\n$4\r\nPING\r"},
	{"between-elements", "*2\r\n$3\r\nGET\r\n"},
	{"inside-inline", "PIN"},
	{"inside-inline-2", "GET somekey"},
	{"inside-inline-cr", "PING\r"},
	{"pipelined-unanswered", ""}, // filled in: a burst of complete requests
}

type residueMismatch struct {
	Kind   string `json:"kind"`
	Part   string `json:"part"`
	What   string `json:"what"`
	Round  int    `json:"round"`
	Cut    string `json:"cut"`
	Prefix string `json:"prefix_left_by_previous_connection"`
	K      int    `json:"complete_requests_before"`
	Conn   int    `json:"fresh_connection"`
	Sent   string `json:"sent"`
	Want   string `json:"want"`
	Got    string `json:"got"`
}

func clipS(s string) string {
	if len(s) > 120 {
		return s[:120] + "..."
	}
	return s
}

func residue(args []string) error {
	fs := flag.NewFlagSet("c10-residue", flag.ContinueOnError)
	outPath := fs.String("out", "", "result ndjson")
	rounds := fs.Int("rounds", 150, "rounds")
	procs := fs.Int("procs", 2, "GOMAXPROCS (a retired decoder is handed out again more often when few Ps share the pool)")
	if err := fs.Parse(args); err != nil {
		return err
	}
	if *procs > 0 {
		runtime.GOMAXPROCS(*procs)
	}
	w, err := cli.NewNDJSONWriter(*outPath)
	if err != nil {
		return err
	}
	defer w.Close()
	var mu sync.Mutex
	infra := func(why string) {
		mu.Lock()
		defer mu.Unlock()
		w.Write(map[string]string{"kind": "infra", "part": "residue", "why": why})
	}
	mismatches := 0
	report := func(m residueMismatch) {
		mu.Lock()
		defer mu.Unlock()
		mismatches++
		if mismatches <= 30 {
			m.Kind, m.Part = "mismatch", "residue"
			w.Write(m)
		}
	}

	sut.FastRefresh()
	cl, err := simredis.NewCluster(2, 0)
	if err != nil {
		return err
	}
	defer cl.Close()
	const nKeys = 64
	for i := 0; i < nKeys; i++ {
		cl.Preload(fmt.Sprintf("c10res%d", i), []byte(fmt.Sprintf("value-of-%d", i)))
	}
	r, err := sut.StartRedis(sut.RedisOpts{}, cl.Addrs())
	if err != nil {
		return err
	}
	defer sut.StopWithin(r.P, 3*time.Second)
	if !sut.WaitRefresh(r.Name, 5*time.Second) {
		infra("the processor did not load the slot table")
		return nil
	}
	rng := rand.New(rand.NewSource(cli.Seed()))
	fresh, checked := 0, 0
	classes := map[string]int{}

	// one request of a fresh connection: what to send (possibly in two writes) and the reply it must get
	type ask struct {
		wire []byte
		want resp.Value
		desc string
	}
	mkAsk := func(key int, form int) ask {
		switch form {
		case 0:
			return ask{resp.Bytes(resp.Cmd("PING")), resp.Simple("PONG"), "PING (array form)"}
		case 1:
			return ask{[]byte("PING\r\n"), resp.Simple("PONG"), "PING (inline)"}
		case 2:
			k := fmt.Sprintf("c10res%d", key)
			return ask{resp.Bytes(resp.Cmd("GET", k)), resp.BulkS(fmt.Sprintf("value-of-%d", key)), "GET " + k + " (array form)"}
		default:
			k := fmt.Sprintf("c10res%d", key)
			return ask{[]byte("GET " + k + "\r\n"), resp.BulkS(fmt.Sprintf("value-of-%d", key)), "GET " + k + " (inline)"}
		}
	}

	for round := 0; round < *rounds; round++ {
		cut := residueCuts[round%len(residueCuts)]
		if cut.Class == "pipelined-unanswered" {
			var b []byte
			for i := 0; i < 300; i++ {
				b = resp.Append(b, resp.Cmd("GET", fmt.Sprintf("c10res%d", i%nKeys)))
			}
			cut.Prefix = string(b)
		}
		classes[cut.Class]++
		k := rng.Intn(4)
		// connection A
		a, err := sut.Dial(r.Addr)
		if err != nil {
			infra(fmt.Sprintf("round %d: dial A: %v", round, err))
			return nil
		}
		okA := true
		for i := 0; i < k && okA; i++ {
			q := mkAsk(rng.Intn(nKeys), rng.Intn(4))
			v, err := func() (resp.Value, error) {
				if err := a.Send(q.wire); err != nil {
					return resp.Value{}, err
				}
				return a.Recv(10 * time.Second)
			}()
			checked++
			if err != nil || !resp.Equal(v, q.want) {
				// A itself may have drawn a decoder with a residue (it is a fresh connection too)
				report(residueMismatch{What: "foreign-bytes-decoded", Round: round, Cut: "(connection A of the round)", K: i, Conn: -1,
					Sent: q.desc, Want: q.want.String(), Got: fmt.Sprintf("%s %v", clipS(v.String()), err)})
				okA = false
			}
		}
		a.Send([]byte(cut.Prefix))
		if cut.Class != "pipelined-unanswered" {
			time.Sleep(time.Duration(rng.Intn(3)) * time.Millisecond) // let the session read the prefix
		}
		if tc, ok := a.C.(*net.TCPConn); ok && round%3 == 2 {
			tc.SetLinger(0) // RST instead of FIN
		}
		a.Close()
		time.Sleep(time.Duration(rng.Intn(4)) * time.Millisecond) // the session ends, its decoder is retired

		// fresh connections
		m := 1 + rng.Intn(8)
		var wg sync.WaitGroup
		for c := 0; c < m; c++ {
			q1 := mkAsk(rng.Intn(nKeys), rng.Intn(4))
			q2 := mkAsk(rng.Intn(nKeys), rng.Intn(4))
			split := rng.Intn(3) == 0
			fresh++
			run := func(c int) {
				f, err := sut.Dial(r.Addr)
				if err != nil {
					infra(fmt.Sprintf("round %d: dial fresh %d: %v", round, c, err))
					return
				}
				defer f.Close()
				for qi, q := range []ask{q1, q2} {
					var err error
					if split && len(q.wire) > 3 {
						err = f.Send(q.wire[:3])
						time.Sleep(time.Millisecond)
						if err == nil {
							err = f.Send(q.wire[3:])
						}
					} else {
						err = f.Send(q.wire)
					}
					var v resp.Value
					if err == nil {
						v, err = f.Recv(10 * time.Second)
					}
					mu.Lock()
					checked++
					mu.Unlock()
					if err != nil || !resp.Equal(v, q.want) {
						got := clipS(v.String())
						if err != nil {
							got = fmt.Sprintf("%s (%v)", got, err)
						}
						report(residueMismatch{What: "foreign-bytes-decoded", Round: round, Cut: cut.Class, Prefix: clipS(cut.Prefix), K: k, Conn: c,
							Sent: fmt.Sprintf("request %d: %s = %q", qi+1, q.desc, clipS(string(q.wire))), Want: q.want.String(), Got: got})
						return
					}
				}
			}
			if c%2 == 0 {
				run(c) // one after the other ...
			} else {
				wg.Add(1) // ... and some at the same time
				go func(c int) {
					defer wg.Done()
					run(c)
				}(c)
			}
		}
		wg.Wait()
	}
	w.Write(map[string]interface{}{"kind": "summary", "part": "residue", "rounds": *rounds, "fresh_connections": fresh,
		"replies_checked": checked, "mismatches": mismatches, "cut_classes": classes, "gomaxprocs": runtime.GOMAXPROCS(0)})
	return nil
}
