// Package c10 binds spec/redis/Resp.tla, RespReader.tla to the RESP codec of proc/redis
// (codec.go, bufio.go, resp.go) through the verif exports VerifDecodeAll, VerifEncode,
// VerifBtoi64 and VerifItoa.
package c10

import (
	"bytes"
	"encoding/json"
	"fmt"
	"io"

	redis "github.com/samaritan-proxy/samaritan/proc/redis"
)

// MV is a value of Resp.tla as TLC prints it with ToJson:
//
//	{"t":"simple"|"error","s":rope}  {"t":"int","neg":b,"d":[digits]}
//	{"t":"bulk","null":b,"s":rope}   {"t":"array","null":b,"a":[values]}
//
// A rope is a list of integers: x >= 0 is the byte x, x < 0 is the byte (-x)%256 repeated (-x)/256 times.
type MV struct {
	T    string `json:"t"`
	Neg  bool   `json:"neg"`
	D    []int  `json:"d"`
	Null bool   `json:"null"`
	S    []int  `json:"s"`
	A    []MV   `json:"a"`
}

// MarshalJSON writes exactly the fields the TLA+ constructors have.
func (v MV) MarshalJSON() ([]byte, error) {
	switch v.T {
	case "simple", "error":
		return json.Marshal(struct {
			T string `json:"t"`
			S []int  `json:"s"`
		}{v.T, nonNil(v.S)})
	case "int":
		return json.Marshal(struct {
			T   string `json:"t"`
			Neg bool   `json:"neg"`
			D   []int  `json:"d"`
		}{v.T, v.Neg, nonNil(v.D)})
	case "bulk":
		return json.Marshal(struct {
			T    string `json:"t"`
			Null bool   `json:"null"`
			S    []int  `json:"s"`
		}{v.T, v.Null, nonNil(v.S)})
	case "array":
		a := v.A
		if a == nil {
			a = []MV{}
		}
		return json.Marshal(struct {
			T    string `json:"t"`
			Null bool   `json:"null"`
			A    []MV   `json:"a"`
		}{v.T, v.Null, a})
	}
	return nil, fmt.Errorf("bad model value type %q", v.T)
}

func nonNil(a []int) []int {
	if a == nil {
		return []int{}
	}
	return a
}

// expand turns a rope into bytes.
func expand(r []int) []byte {
	n := 0
	for _, x := range r {
		if x < 0 {
			n += (-x) / 256
		} else {
			n++
		}
	}
	out := make([]byte, 0, n)
	for _, x := range r {
		if x < 0 {
			b, c := byte((-x)%256), (-x)/256
			for i := 0; i < c; i++ {
				out = append(out, b)
			}
		} else {
			out = append(out, byte(x))
		}
	}
	return out
}

// rope run-length codes bytes (runs of 4 or more equal bytes).
func rope(b []byte) []int {
	out := make([]int, 0, len(b))
	for i := 0; i < len(b); {
		j := i
		for j < len(b) && b[j] == b[i] {
			j++
		}
		if j-i >= 4 {
			out = append(out, -((j-i)*256 + int(b[i])))
		} else {
			for k := i; k < j; k++ {
				out = append(out, int(b[k]))
			}
		}
		i = j
	}
	return out
}

// digitsToInt64 converts sign and decimal digits (at most 19, within int64) to int64.
func digitsToInt64(neg bool, d []int) (int64, error) {
	if len(d) == 0 || len(d) > 19 {
		return 0, fmt.Errorf("digit sequence of length %d", len(d))
	}
	var mag uint64
	for _, x := range d {
		if x < 0 || x > 9 {
			return 0, fmt.Errorf("bad digit %d", x)
		}
		mag = mag*10 + uint64(x)
	}
	if neg {
		if mag > 1<<63 {
			return 0, fmt.Errorf("below int64")
		}
		return int64(^mag + 1), nil
	}
	if mag > 1<<63-1 {
		return 0, fmt.Errorf("above int64")
	}
	return int64(mag), nil
}

func int64ToDigits(i int64) (bool, []int) {
	neg := i < 0
	var mag uint64
	if neg {
		mag = uint64(-(i + 1)) + 1
	} else {
		mag = uint64(i)
	}
	if mag == 0 {
		return false, []int{0}
	}
	var rev []int
	for mag > 0 {
		rev = append(rev, int(mag%10))
		mag /= 10
	}
	d := make([]int, len(rev))
	for k := range rev {
		d[k] = rev[len(rev)-1-k]
	}
	return neg, d
}

func digitText(neg bool, d []int) string {
	var b bytes.Buffer
	if neg {
		b.WriteByte('-')
	}
	for _, x := range d {
		b.WriteByte(byte('0' + x))
	}
	return b.String()
}

// toReal converts a model value to the value type of the real codec.
func toReal(v MV) (redis.VerifValue, error) {
	switch v.T {
	case "simple":
		return redis.VerifValue{Type: '+', Text: expand(v.S)}, nil
	case "error":
		return redis.VerifValue{Type: '-', Text: expand(v.S)}, nil
	case "int":
		i, err := digitsToInt64(v.Neg, v.D)
		if err != nil {
			return redis.VerifValue{}, err
		}
		return redis.VerifValue{Type: ':', Int: i}, nil
	case "bulk":
		if v.Null {
			return redis.VerifValue{Type: '$', Null: true}, nil
		}
		return redis.VerifValue{Type: '$', Text: expand(v.S)}, nil
	case "array":
		if v.Null {
			return redis.VerifValue{Type: '*', Null: true}, nil
		}
		out := redis.VerifValue{Type: '*', Array: []redis.VerifValue{}}
		for _, e := range v.A {
			r, err := toReal(e)
			if err != nil {
				return out, err
			}
			out.Array = append(out.Array, r)
		}
		return out, nil
	}
	return redis.VerifValue{}, fmt.Errorf("bad model value type %q", v.T)
}

// fromReal converts what the real decoder returned to a model value (payloads run-length coded).
func fromReal(v redis.VerifValue) MV {
	switch v.Type {
	case '+':
		return MV{T: "simple", S: rope(v.Text)}
	case '-':
		return MV{T: "error", S: rope(v.Text)}
	case ':':
		neg, d := int64ToDigits(v.Int)
		return MV{T: "int", Neg: neg, D: d}
	case '$':
		if v.Null {
			return MV{T: "bulk", Null: true}
		}
		return MV{T: "bulk", S: rope(v.Text)}
	case '*':
		if v.Null {
			return MV{T: "array", Null: true}
		}
		out := MV{T: "array", A: []MV{}}
		for _, e := range v.Array {
			out.A = append(out.A, fromReal(e))
		}
		return out
	}
	return MV{T: fmt.Sprintf("type-%d", v.Type)}
}

// sameValue compares what the real decoder produced with the expected real value, strictly
// (type, null-ness, integer, text, elements; unused fields must be zero).
func sameValue(got, want redis.VerifValue) bool {
	if got.Type != want.Type || got.Null != want.Null {
		return false
	}
	switch got.Type {
	case ':':
		return got.Int == want.Int && len(got.Text) == 0 && len(got.Array) == 0
	case '+', '-', '$':
		return bytes.Equal(got.Text, want.Text) && got.Int == 0 && len(got.Array) == 0
	case '*':
		if len(got.Array) != len(want.Array) || got.Int != 0 || len(got.Text) != 0 {
			return false
		}
		for i := range got.Array {
			if !sameValue(got.Array[i], want.Array[i]) {
				return false
			}
		}
		return true
	}
	return false
}

func sameValues(got, want []redis.VerifValue) bool {
	if len(got) != len(want) {
		return false
	}
	for i := range got {
		if !sameValue(got[i], want[i]) {
			return false
		}
	}
	return true
}

// chunkReader delivers data in exactly the given chunk sizes (a Read never crosses a chunk
// boundary, a chunk larger than the caller's slice is continued by the next Read) and logs
// every Read as (requested, returned); returned -1 is io.EOF.
type chunkReader struct {
	data   []byte
	chunks []int
	ci     int
	left   int // bytes left in the current chunk
	pos    int
	log    [][2]int
	keep   bool
}

func newChunkReader(data []byte, chunks []int, keepLog bool) *chunkReader {
	r := &chunkReader{data: data, chunks: chunks, keep: keepLog}
	if len(chunks) > 0 {
		r.left = chunks[0]
	}
	return r
}

func (r *chunkReader) Read(p []byte) (int, error) {
	for r.left == 0 && r.ci < len(r.chunks) {
		r.ci++
		if r.ci < len(r.chunks) {
			r.left = r.chunks[r.ci]
		}
	}
	if r.ci >= len(r.chunks) || r.pos >= len(r.data) {
		if r.keep {
			r.log = append(r.log, [2]int{len(p), -1})
		}
		return 0, io.EOF
	}
	n := len(p)
	if n > r.left {
		n = r.left
	}
	if n > len(r.data)-r.pos {
		n = len(r.data) - r.pos
	}
	copy(p, r.data[r.pos:r.pos+n])
	r.pos += n
	r.left -= n
	if r.keep {
		r.log = append(r.log, [2]int{len(p), n})
	}
	return n, nil
}

// cutsToChunks turns increasing cut positions within (0, total) into chunk lengths.
func cutsToChunks(cuts []int, total int) []int {
	out := make([]int, 0, len(cuts)+1)
	prev := 0
	for _, c := range cuts {
		out = append(out, c-prev)
		prev = c
	}
	return append(out, total-prev)
}

func ones(n int) []int {
	out := make([]int, n)
	for i := range out {
		out[i] = 1
	}
	return out
}

func errName(err error) string {
	switch err {
	case nil:
		return ""
	case io.EOF:
		return "EOF"
	case io.ErrUnexpectedEOF:
		return "unexpected EOF"
	}
	return err.Error()
}

// decode runs the real decoder; a panic is reported as an error text.
func decode(data []byte, chunks []int, bufSize int, keepLog bool) (vals []redis.VerifValue, errText string, log [][2]int) {
	r := newChunkReader(data, chunks, keepLog)
	defer func() {
		if p := recover(); p != nil {
			errText = fmt.Sprintf("panic: %v", p)
			log = r.log
		}
	}()
	vals, err := redis.VerifDecodeAll(r, bufSize)
	return vals, errName(err), r.log
}

func clipInts(b []byte) []int {
	r := rope(b)
	if len(r) > 200 {
		r = r[:200]
	}
	return r
}
