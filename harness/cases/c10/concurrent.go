package c10

import (
	"bytes"
	"encoding/json"
	"flag"
	"fmt"
	"math/rand"
	"net"
	"os"
	"runtime"
	"sync"
	"sync/atomic"
	"time"

	redis "github.com/samaritan-proxy/samaritan/proc/redis"

	"verifharness/internal/cli"
	"verifharness/internal/resp"
	"verifharness/internal/simredis"
	"verifharness/internal/sut"
)

// c10-concurrent -out res.ndjson -trace trace.json [-vectors vectors.ndjson] [-workers N] [-rounds R] [-e2e=true]
//
// The concurrent stratum of C10 (spec/redis/RespEnc.tla): every session and every backend client of the proxy has
// its own encoder and decoder and they run at the same time, so "encode then decode is the identity" must hold for
// each encoder whatever the others do.  Everything here runs many REAL encoders / decoders at once:
//
//	inproc  N >= 8 goroutines (more than there are Ps), each round with its own encoder and decoder
//	        (VerifEncode / VerifDecodeAll): streams of values dense in integers outside the itoa table
//	        (-128..32768), bulk strings longer than 32768 bytes, arrays with more than 32768 elements, random
//	        writer / reader buffer sizes and chunkings; what was decoded is compared with what was sent.
//	        A part of the rounds is recorded (with the values given to the encoder) for TLC (RespTrace).
//	vectors every fourth goroutine replays the TLC vectors of all C10 classes (VAL, CAT, RD, INT, ITOA) meanwhile.
//	e2e     M clients pipeline GET of a > 32768 byte value, thousands of INCRBY with 16 digit results and LRANGE
//	        of a > 32768 element list through a real Redis processor (one session encoder per client over TCP,
//	        8 KiB bufio.Writer; SET / RPUSH requests with $len / *len > 32768 through the backend clients'
//	        encoders) against a simulated cluster; every fourth client reads slowly.  Every reply is compared
//	        with what the simulated backend must have answered.
//
// Output: {"kind":"mismatch","part":...,"what":"value-differs"|"misframed"|...}, {"kind":"infra",...},
// {"kind":"summary","part":...}.  The harness reports; checks/c10.py decides.

func init() { cli.Register("c10-concurrent", concurrent) }

type concMismatch struct {
	Kind   string      `json:"kind"`
	Part   string      `json:"part"`
	What   string      `json:"what"`
	Worker int         `json:"worker"`
	Round  int         `json:"round"`
	Sent   interface{} `json:"sent,omitempty"`
	Wire   []int       `json:"wire,omitempty"`
	Got    interface{} `json:"got,omitempty"`
	Err    string      `json:"err,omitempty"`
}

type concSummary struct {
	Kind       string `json:"kind"`
	Part       string `json:"part"`
	Workers    int    `json:"workers"`
	RoundTrips int64  `json:"round_trips"`
	BigNumbers int64  `json:"big_numbers"` // integers / lengths outside the itoa table that were encoded
	Mismatches int64  `json:"mismatches"`
	Procs      int    `json:"gomaxprocs"`
}

type concOut struct {
	mu *sync.Mutex // shared with the replayer that writes to the same file
	w  *cli.NDJSONWriter
	n  map[string]int64
}

func (o *concOut) mismatch(m concMismatch) {
	o.mu.Lock()
	defer o.mu.Unlock()
	o.n[m.Part]++
	if o.n[m.Part] <= 40 {
		m.Kind = "mismatch"
		o.w.Write(m)
	}
}

func (o *concOut) infra(part, why string) {
	o.mu.Lock()
	defer o.mu.Unlock()
	o.w.Write(map[string]string{"kind": "infra", "part": part, "why": why})
}

func clipMVs(vs []redis.VerifValue) []MV {
	out := []MV{}
	for i, v := range vs {
		if i >= 4 {
			break
		}
		m := fromReal(v)
		if m.T == "array" && len(m.A) > 12 {
			m.A = m.A[:12]
		}
		out = append(out, m)
	}
	return out
}

// countBig counts the numbers of the encoding of v that are outside the itoa table.
func countBig(v redis.VerifValue) int64 {
	out := func(i int64) int64 {
		if i < -128 || i > 32768 {
			return 1
		}
		return 0
	}
	switch v.Type {
	case ':':
		return out(v.Int)
	case '$':
		return out(int64(len(v.Text)))
	case '*':
		n := out(int64(len(v.Array)))
		for _, e := range v.Array {
			n += countBig(e)
		}
		return n
	}
	return 0
}

// roundValues picks what one round encodes.
func roundValues(g *gen, hugeLeft *int) []redis.VerifValue {
	rng := g.rng
	switch r := rng.Intn(100); {
	case r < 35:
		// a reply full of large integers
		n := 8 + rng.Intn(48)
		a := redis.VerifValue{Type: '*', Array: make([]redis.VerifValue, 0, n)}
		for i := 0; i < n; i++ {
			x := 40000 + rng.Int63n(1<<uint(17+rng.Intn(46)))
			if rng.Intn(2) == 0 {
				x = -x
			}
			a.Array = append(a.Array, redis.VerifValue{Type: ':', Int: x})
		}
		return []redis.VerifValue{a}
	case r < 45:
		// bulk strings longer than 32768 bytes, pipelined
		n := 1 + rng.Intn(3)
		out := make([]redis.VerifValue, 0, n)
		for i := 0; i < n; i++ {
			b := make([]byte, 32769+rng.Intn(9000))
			c := structural[rng.Intn(len(structural))]
			for j := range b {
				b[j] = c
			}
			b[rng.Intn(len(b))] = byte(rng.Intn(256))
			out = append(out, redis.VerifValue{Type: '$', Text: b})
		}
		return out
	case r < 47 && *hugeLeft > 0:
		// an array with more than 32768 elements
		*hugeLeft--
		n := 32769 + rng.Intn(300)
		a := redis.VerifValue{Type: '*', Array: make([]redis.VerifValue, n)}
		for i := range a.Array {
			switch i % 3 {
			case 0:
				a.Array[i] = redis.VerifValue{Type: ':', Int: int64(i)}
			case 1:
				a.Array[i] = redis.VerifValue{Type: '$', Text: []byte{'x'}}
			default:
				a.Array[i] = redis.VerifValue{Type: '$', Null: true}
			}
		}
		return []redis.VerifValue{a}
	default:
		// 1 to 4 values of every shape, integers mostly outside the table
		n := 1 + rng.Intn(4)
		out := make([]redis.VerifValue, 0, n)
		for i := 0; i < n; i++ {
			out = append(out, g.value(0))
		}
		return out
	}
}

func inprocWorker(id int, seed int64, rounds, traceEvery int, out *concOut, trips, bigs *int64, trace *[]traceRec, tmu *sync.Mutex) {
	rng := rand.New(rand.NewSource(seed))
	g := &gen{rng: rng, big: true}
	huge := 2
	wbufs := []int{16, 16, 64, 4096, 8192}
	for r := 0; r < rounds; r++ {
		if traceEvery > 0 && r%traceEvery == 0 {
			// a recorded round: judged by TLC (wire = Encode(sent), decoded = DecodeAll(wire), ...)
			rec, err := recordOne(&gen{rng: rng, big: true, long: r%(4*traceEvery) == 0})
			if err != nil {
				out.infra("inproc", fmt.Sprintf("worker %d round %d: %v", id, r, err))
				return
			}
			if len(rec.Stream) < 1500 {
				tmu.Lock()
				*trace = append(*trace, rec)
				tmu.Unlock()
			}
			atomic.AddInt64(trips, 1)
			continue
		}
		vals := roundValues(g, &huge)
		var wire []byte
		for _, v := range vals {
			b, err := redis.VerifEncode(v, wbufs[rng.Intn(len(wbufs))])
			if err != nil {
				out.infra("inproc", fmt.Sprintf("worker %d round %d: encode: %v", id, r, err))
				return
			}
			wire = append(wire, b...)
			atomic.AddInt64(bigs, countBig(v))
		}
		var chunks []int
		if len(wire) > 4096 {
			chunks = []int{len(wire) / 3, len(wire) - len(wire)/3}
		} else {
			chunks = g.chunks(len(wire))
		}
		got, errText, _ := decode(wire, chunks, allBufs[rng.Intn(len(allBufs))], false)
		atomic.AddInt64(trips, 1)
		if errText != "EOF" || len(got) != len(vals) {
			out.mismatch(concMismatch{Part: "inproc", What: "misframed", Worker: id, Round: r, Sent: clipMVs(vals), Wire: clipInts(wire),
				Got: map[string]interface{}{"n": len(got), "values": clipMVs(got)}, Err: errText})
			continue
		}
		if !sameValues(got, vals) {
			out.mismatch(concMismatch{Part: "inproc", What: "value-differs", Worker: id, Round: r, Sent: clipMVs(vals), Wire: clipInts(wire),
				Got: clipMVs(got)})
		}
	}
}

// vectorWorker replays TLC vectors (all classes) while the other goroutines encode.
func vectorWorker(vecs []vector, rp *replayer) {
	for _, v := range vecs {
		t := rp.tl[v.Tag]
		if t == nil {
			continue
		}
		atomic.AddInt64(&t.vectors, 1)
		switch v.Tag {
		case "VAL":
			rp.doVal(v.ID, v.O)
		case "CAT":
			rp.doCat(v.ID, v.O)
		case "RD":
			rp.doRd(v.ID, v.O)
		case "INT":
			rp.doInt(v.ID, v.O)
		case "ITOA":
			rp.doItoa(v.ID, v.O)
		}
	}
}

// ---------------------------------------------------------------------------- end to end

func e2eValue(g int) []byte {
	n := 33000 + 37*g
	b := make([]byte, n)
	for i := range b {
		b[i] = byte('a' + (g+i/997)%26)
	}
	return b
}

// slowConn reads at most 16 KiB per call and pauses after each: a client that is slower than the proxy.
// (On loopback the kernel gives the proxy's side a send buffer of up to 4 MiB, so the session's flushes only
// block after megabytes of backlog; measured: with this traffic they practically never block in the middle of
// an integer.  The window "flush blocked mid-integer" is in the model (RespEnc: WriteHead / WriteTail); on the
// code it would need an export that encodes to a caller supplied io.Writer.)
type slowConn struct {
	c     net.Conn
	pause time.Duration
}

func (s *slowConn) Read(p []byte) (int, error) {
	if len(p) > 16384 {
		p = p[:16384]
	}
	n, err := s.c.Read(p)
	time.Sleep(s.pause)
	return n, err
}

type e2eExpect struct {
	kind string // "bulk", "int", "list"
	i    int64
}

type e2eCfg struct {
	clients, iters, incrs, slowIncrs, rcvbuf, fastMult, fill int
	pause                                    time.Duration
}

func e2eClient(g int, addr string, cfg e2eCfg, out *concOut, replies *int64) {
	iters, incrs, rcvbuf, pause := cfg.iters, cfg.incrs, cfg.rcvbuf, cfg.pause
	slow := g%4 == 0
	if !slow {
		iters *= cfg.fastMult // the fast clients keep their sessions encoding while the slow ones are blocked
	}
	fail := func(what string, round int, sent, got interface{}, err error) {
		e := ""
		if err != nil {
			e = err.Error()
		}
		out.mismatch(concMismatch{Part: "e2e", What: what, Worker: g, Round: round, Sent: sent, Got: got, Err: e})
	}
	c, err := sut.Dial(addr)
	if err != nil {
		out.infra("e2e", fmt.Sprintf("client %d: dial: %v", g, err))
		return
	}
	defer c.Close()
	if tc, ok := c.C.(*net.TCPConn); ok && rcvbuf > 0 && slow {
		tc.SetReadBuffer(rcvbuf)
	}
	val := e2eValue(g)
	key, ctr, list := fmt.Sprintf("c10{%d}v", g), fmt.Sprintf("c10{%d}n", g), fmt.Sprintf("c10{%d}l", g)
	base := int64(1000000000000000) + int64(g)*1111111111111
	delta := int64(7777777) + int64(g)
	listLen := 32769 + g
	// set up through the proxy as well: SET / RPUSH requests carry $len / *len outside the table
	// (backend client encoders), all clients at the same time
	to := 20 * time.Second
	if v, err := c.DoB(to, []byte("set"), []byte(key), val); err != nil || v.Kind != '+' {
		out.infra("e2e", fmt.Sprintf("client %d: SET: %v %v", g, v, err))
		return
	}
	if v, err := c.Do(to, "set", ctr, fmt.Sprint(base)); err != nil || v.Kind != '+' {
		out.infra("e2e", fmt.Sprintf("client %d: SET counter: %v %v", g, v, err))
		return
	}
	args := make([][]byte, 0, listLen+2)
	args = append(args, []byte("rpush"), []byte(list))
	for i := 0; i < listLen; i++ {
		args = append(args, []byte{'x'})
	}
	v, err := c.DoB(to, args...)
	atomic.AddInt64(replies, 3)
	if err != nil {
		out.infra("e2e", fmt.Sprintf("client %d: RPUSH: %v", g, err))
		return
	}
	if v.Kind != ':' || v.Int != int64(listLen) {
		fail("value-differs", -1, fmt.Sprintf("RPUSH of %d elements", listLen), v.String(), nil)
		return
	}
	// the pipeline
	var expect []e2eExpect
	var req []byte
	k := int64(0)
	get := func() {
		req = resp.Append(req, resp.Cmd("get", key))
		expect = append(expect, e2eExpect{kind: "bulk"})
	}
	incr := func(n int) {
		for j := 0; j < n; j++ {
			req = resp.Append(req, resp.Cmd("incrby", ctr, fmt.Sprint(delta)))
			k++
			expect = append(expect, e2eExpect{kind: "int", i: base + k*delta})
		}
	}
	lrange := func() {
		req = resp.Append(req, resp.Cmd("lrange", list, "0", "-1"))
		expect = append(expect, e2eExpect{kind: "list"})
	}
	if slow {
		// large replies first (the > 32768 element list is 230 KB on the wire), then a long run of integer
		// replies that are all ready while the session still writes: they are encoded back to back and cross
		// the end of the 8 KiB bufio.Writer in the middle of an integer
		for i := 0; i < cfg.fill; i++ {
			lrange()
		}
		get()
		incr(cfg.slowIncrs)
		get()
	} else {
		for it := 0; it < iters; it++ {
			get()
			incr(incrs)
			if it == 2 {
				lrange()
			}
		}
	}
	werr := make(chan error, 1)
	go func() {
		c.C.SetWriteDeadline(time.Now().Add(60 * time.Second))
		_, err := c.C.Write(req)
		werr <- err
	}()
	// a slow reader (every third client reads at full speed)
	rd := c.R
	if slow {
		rd = resp.NewReader(&slowConn{c: c.C, pause: pause})
	}
	for i, e := range expect {
		c.C.SetReadDeadline(time.Now().Add(20 * time.Second))
		v, err := rd.Read()
		if err != nil {
			if ne, ok := err.(net.Error); ok && ne.Timeout() {
				// nothing arrives any more: a length prefix larger than what was sent, or the proxy is stuck
				out.mismatch(concMismatch{Part: "e2e", What: "stalled", Worker: g, Round: i, Sent: e.kind, Err: err.Error()})
			} else {
				fail("misframed", i, e.kind, nil, err)
			}
			return
		}
		atomic.AddInt64(replies, 1)
		switch e.kind {
		case "bulk":
			if v.Kind != '$' || v.Null || !bytes.Equal(v.Str, val) {
				fail("value-differs", i, fmt.Sprintf("GET of %d bytes", len(val)), fmt.Sprintf("kind %c, %d bytes", v.Kind, len(v.Str)), nil)
				return
			}
		case "int":
			if v.Kind != ':' || v.Int != e.i {
				fail("value-differs", i, fmt.Sprintf("INCRBY result %d", e.i), v.String(), nil)
				return
			}
		case "list":
			ok := v.Kind == '*' && !v.Null && len(v.Arr) == listLen
			for j := 0; ok && j < len(v.Arr); j++ {
				ok = v.Arr[j].Kind == '$' && string(v.Arr[j].Str) == "x"
			}
			if !ok {
				fail("value-differs", i, fmt.Sprintf("LRANGE of %d elements", listLen), fmt.Sprintf("kind %c, %d elements", v.Kind, len(v.Arr)), nil)
				return
			}
		}
	}
	if err := <-werr; err != nil {
		out.infra("e2e", fmt.Sprintf("client %d: writing the pipeline: %v", g, err))
	}
}

func e2e(cfg e2eCfg, out *concOut) (int64, error) {
	sut.FastRefresh()
	cl, err := simredis.NewCluster(2, 0)
	if err != nil {
		return 0, err
	}
	defer cl.Close()
	r, err := sut.StartRedis(sut.RedisOpts{}, cl.Addrs())
	if err != nil {
		return 0, err
	}
	defer sut.StopWithin(r.P, 3*time.Second)
	if !sut.WaitRefresh(r.Name, 5*time.Second) {
		return 0, fmt.Errorf("the processor did not load the slot table")
	}
	var replies int64
	var wg sync.WaitGroup
	for g := 0; g < cfg.clients; g++ {
		wg.Add(1)
		go func(g int) {
			defer wg.Done()
			e2eClient(g, r.Addr, cfg, out, &replies)
		}(g)
	}
	wg.Wait()
	return replies, nil
}

// ---------------------------------------------------------------------------- driver

func concurrent(args []string) error {
	fs := flag.NewFlagSet("c10-concurrent", flag.ContinueOnError)
	outPath := fs.String("out", "", "result ndjson")
	tracePath := fs.String("trace", "", "trace.json of recorded concurrent rounds for TLC")
	vecPath := fs.String("vectors", "", "TLC vectors (ndjson) replayed meanwhile")
	workers := fs.Int("workers", 0, "goroutines of the in-process part (default: max(16, 2*GOMAXPROCS))")
	rounds := fs.Int("rounds", 1200, "rounds per goroutine")
	traceN := fs.Int("tracen", 240, "about how many rounds are recorded for TLC")
	maxVec := fs.Int("maxvectors", 4000, "how many vectors are replayed meanwhile")
	doE2E := fs.Bool("e2e", true, "run the end-to-end part")
	clients := fs.Int("clients", 16, "end-to-end clients")
	iters := fs.Int("iters", 10, "end-to-end pipeline iterations per client (one GET, incrs INCRBY each)")
	incrs := fs.Int("incrs", 800, "INCRBY per iteration")
	pause := fs.Duration("pause", 2*time.Millisecond, "pause of a slow client after every read of at most 16 KiB")
	slowIncrs := fs.Int("slowincrs", 3000, "INCRBY of a slow client")
	fill := fs.Int("fill", 2, "LRANGE replies (230 KB each) a slow client lets pile up first")
	fastMult := fs.Int("fastmult", 2, "a fast client runs this many times the iterations")
	rcvbuf := fs.Int("rcvbuf", 0, "receive buffer of the slow end-to-end clients (0: default)")
	if err := fs.Parse(args); err != nil {
		return err
	}
	n := *workers
	if n <= 0 {
		n = 2 * runtime.GOMAXPROCS(0)
		if n < 16 {
			n = 16
		}
	}
	if n < 8 {
		return fmt.Errorf("at least 8 goroutines")
	}
	w, err := cli.NewNDJSONWriter(*outPath)
	if err != nil {
		return err
	}
	defer w.Close()
	rp := &replayer{w: w, tl: map[string]*tally{}, max23: 1, bufs23: []int{32}}
	out := &concOut{mu: &rp.mu, w: w, n: map[string]int64{}}

	// vectors for the replaying goroutines: an even sample over all classes
	var vecs []vector
	if *vecPath != "" {
		var all []vector
		if err := cli.ReadNDJSON(*vecPath, func(line []byte) error {
			var v vector
			if err := json.Unmarshal(line, &v); err != nil {
				return err
			}
			all = append(all, v)
			return nil
		}); err != nil {
			return err
		}
		step := len(all)/(*maxVec) + 1
		for i := int(cli.Seed()) % step; i < len(all); i += step {
			vecs = append(vecs, all[i])
		}
	}
	for _, t := range []string{"VAL", "CAT", "RD", "INT", "ITOA"} {
		rp.tl[t] = &tally{}
	}
	nVecWorkers := 0
	if len(vecs) > 0 {
		nVecWorkers = n / 4
	}

	var trips, bigs int64
	var trace []traceRec
	var tmu sync.Mutex
	traceEvery := 0
	if *tracePath != "" && *traceN > 0 {
		traceEvery = (n - nVecWorkers) * (*rounds) / (*traceN)
		if traceEvery < 1 {
			traceEvery = 1
		}
	}
	var wg sync.WaitGroup
	vi := 0
	for g := 0; g < n; g++ {
		wg.Add(1)
		if nVecWorkers > 0 && g%4 == 3 {
			lo, hi := vi*len(vecs)/nVecWorkers, (vi+1)*len(vecs)/nVecWorkers
			vi++
			go func(part []vector) {
				defer wg.Done()
				vectorWorker(part, rp)
			}(vecs[lo:hi])
			continue
		}
		go func(g int) {
			defer wg.Done()
			inprocWorker(g, cli.Seed()*7919+int64(g), *rounds, traceEvery, out, &trips, &bigs, &trace, &tmu)
		}(g)
	}
	// the end-to-end part runs at the same time: one more set of real encoders
	var replies int64
	var e2eErr error
	if *doE2E {
		wg.Add(1)
		go func() {
			defer wg.Done()
			replies, e2eErr = e2e(e2eCfg{*clients, *iters, *incrs, *slowIncrs, *rcvbuf, *fastMult, *fill, *pause}, out)
		}()
	}
	wg.Wait()
	if e2eErr != nil {
		out.infra("e2e", e2eErr.Error())
	}
	var vecRuns, vecN, vecBad int64
	for _, t := range rp.tl {
		vecRuns += t.runs
		vecN += t.vectors
		vecBad += t.mismatches
	}
	w.Write(concSummary{Kind: "summary", Part: "inproc", Workers: n - nVecWorkers, RoundTrips: trips, BigNumbers: bigs, Mismatches: out.n["inproc"], Procs: runtime.GOMAXPROCS(0)})
	w.Write(concSummary{Kind: "summary", Part: "vectors", Workers: nVecWorkers, RoundTrips: vecRuns, BigNumbers: vecN, Mismatches: vecBad, Procs: runtime.GOMAXPROCS(0)})
	if *doE2E {
		w.Write(concSummary{Kind: "summary", Part: "e2e", Workers: *clients, RoundTrips: replies, Mismatches: out.n["e2e"], Procs: runtime.GOMAXPROCS(0)})
	}
	if *tracePath != "" {
		b, err := json.Marshal(trace)
		if err != nil {
			return err
		}
		if err := os.WriteFile(*tracePath, b, 0o644); err != nil {
			return err
		}
	}
	return nil
}
