package c01

// c01-local: the pipelines enumerated by spec/redis/LocalReply.tla (a request whose client-controlled bytes could end
// a reply early, at every position of every request the proxy answers itself or forwards, with ordinary requests
// ahead of and behind it) are written to a real Redis processor in one piece; the byte stream that comes back is cut
// into RESP values by a strict reply parser.  The driver reports what was read; checks/c01.py judges.

import (
	"bytes"
	"encoding/json"
	"errors"
	"flag"
	"fmt"
	"io"
	"net"
	"strconv"
	"strings"
	"sync"
	"sync/atomic"
	"time"

	predis "github.com/samaritan-proxy/samaritan/proc/redis"
	"github.com/samaritan-proxy/samaritan/proc/redis/hotkey"

	"verifharness/internal/cli"
	"verifharness/internal/resp"
	"verifharness/internal/simredis"
	"verifharness/internal/sut"
)

func init() { cli.Register("c01-local", localReplies) }

type lvReq struct {
	Kind  string     `json:"kind"` // get | ping | probe
	Form  string     `json:"form"` // array | inline
	Words [][]string `json:"words"`
}

type lvec struct {
	Ctx      string   `json:"ctx"`
	Proxy    string   `json:"proxy"`
	Payload  string   `json:"payload"`
	Form     string   `json:"form"`
	Pre      int      `json:"pre"`
	Stored   bool     `json:"stored"`
	MayClose bool     `json:"mayclose"`
	Reqs     []lvReq  `json:"reqs"`
	Who      []string `json:"who"`
	First    []string `json:"first"`
}

type lres struct {
	ID      int      `json:"id"`
	Ctx     string   `json:"ctx"`
	Proxy   string   `json:"proxy"`
	Payload string   `json:"payload"`
	Form    string   `json:"form"`
	Pre     int      `json:"pre"`
	N       int      `json:"n"`       // requests written
	Want    []string `json:"want"`    // per request: the value it must be answered with ("" = any one value)
	Vals    []string `json:"vals"`    // the values read, in order
	Garbage string   `json:"garbage"` // why the byte stream stopped being a sequence of RESP values
	Rest    string   `json:"rest"`    // bytes that are not part of a complete value
	Sent    string   `json:"sent"`
	Raw     string   `json:"raw"`
	Closed  bool     `json:"closed"`
	Timeout bool     `json:"timeout"` // fewer than N values within the deadline
	Short   bool     `json:"short"`   // ... and the deadline was the shortened one (not a verdict)
	// stored vectors: the bytes of the earlier request were seen in the proxy's own summary before the pipeline
	StoredSeen bool   `json:"storedSeen"`
	Err        string `json:"err,omitempty"`
}

// ---- strict reply parser

var errIncomplete = errors.New("incomplete")

func lpLine(b []byte) (line []byte, n int, err error) {
	i := bytes.IndexByte(b, '\n')
	if i < 0 {
		if bytes.IndexByte(b, '\r') >= 0 && bytes.IndexByte(b, '\r') != len(b)-1 {
			return nil, 0, fmt.Errorf("bare CR inside a line %q", clip(b, 60))
		}
		return nil, 0, errIncomplete
	}
	if i == 0 || b[i-1] != '\r' {
		return nil, 0, fmt.Errorf("line %q ends with a bare LF", clip(b[:i+1], 60))
	}
	line = b[:i-1]
	if bytes.IndexByte(line, '\r') >= 0 {
		return nil, 0, fmt.Errorf("bare CR inside the line %q", clip(b[:i+1], 60))
	}
	return line, i + 1, nil
}

// lpValue parses one reply value at the start of b: its rendering and its length.
func lpValue(b []byte, depth int) (string, int, error) {
	if len(b) == 0 {
		return "", 0, errIncomplete
	}
	if depth > 8 {
		return "", 0, errors.New("nested too deep")
	}
	t := b[0]
	if !strings.ContainsRune("+-:$*", rune(t)) {
		return "", 0, fmt.Errorf("%q where a reply must start with one of + - : $ *", clip(b, 40))
	}
	line, n, err := lpLine(b[1:])
	if err != nil {
		return "", 0, err
	}
	n++
	switch t {
	case '+', '-':
		return string(t) + strconv.Quote(string(line)), n, nil
	case ':':
		if _, err := strconv.ParseInt(string(line), 10, 64); err != nil {
			return "", 0, fmt.Errorf("integer reply %q", line)
		}
		return ":" + string(line), n, nil
	case '$':
		l, err := strconv.ParseInt(string(line), 10, 64)
		if err != nil || l < -1 {
			return "", 0, fmt.Errorf("bulk length %q", line)
		}
		if l == -1 {
			return "$nil", n, nil
		}
		if int64(len(b)-n) < l+2 {
			return "", 0, errIncomplete
		}
		body := b[n : n+int(l)]
		if b[n+int(l)] != '\r' || b[n+int(l)+1] != '\n' {
			return "", 0, fmt.Errorf("bulk of %d bytes not followed by CR LF", l)
		}
		return "$" + strconv.Quote(string(body)), n + int(l) + 2, nil
	default:
		l, err := strconv.ParseInt(string(line), 10, 64)
		if err != nil || l < -1 {
			return "", 0, fmt.Errorf("array length %q", line)
		}
		if l == -1 {
			return "*nil", n, nil
		}
		parts := make([]string, 0, l)
		for i := int64(0); i < l; i++ {
			s, m, err := lpValue(b[n:], depth+1)
			if err != nil {
				return "", 0, err
			}
			parts = append(parts, s)
			n += m
		}
		return "*[" + strings.Join(parts, " ") + "]", n, nil
	}
}

// lpAll cuts b into values: the values, the offset of the first byte that is not part of a complete value, and the
// reason if what follows can never become a value.
func lpAll(b []byte) (vals []string, off int, garbage string) {
	for off < len(b) {
		s, n, err := lpValue(b[off:], 0)
		if err == errIncomplete {
			return
		}
		if err != nil {
			return vals, off, err.Error()
		}
		vals = append(vals, s)
		off += n
	}
	return
}

func clip(b []byte, n int) string {
	if len(b) > n {
		return string(b[:n]) + "..."
	}
	return string(b)
}

// ---- driver

type localEnv struct {
	cl      *simredis.Cluster
	proxies map[string]*sut.Redis
	lost    int32 // pipelines that were not answered completely within the long deadline
}

func (e *localEnv) opts(kind string) sut.RedisOpts {
	o := sut.RedisOpts{ConnectTO: 20 * time.Second}
	if kind == "compress" {
		o.Compression = compressionOn()
	}
	return o
}

func chunks(w []string, key, uniq string) []byte {
	s := strings.Join(w, "")
	s = strings.ReplaceAll(s, "{00}", "\x00")
	s = strings.ReplaceAll(s, "{K}", key)
	s = strings.ReplaceAll(s, "{U}", uniq)
	return []byte(s)
}

func encodeReq(r lvReq, key, uniq string) []byte {
	words := make([][]byte, len(r.Words))
	for i, w := range r.Words {
		words[i] = chunks(w, key, uniq)
	}
	if r.Form == "inline" {
		return append(bytes.Join(words, []byte(" ")), '\r', '\n')
	}
	return resp.Bytes(resp.CmdB(words...))
}

// exchange writes raw in one piece and reads until n values have arrived (and a little longer), the stream is no
// longer RESP, the peer closes, or the deadline passes.
func exchange(addr string, raw []byte, n int, deadline, settle time.Duration, r *lres) {
	c, err := net.DialTimeout("tcp", addr, 5*time.Second)
	if err != nil {
		r.Err = "dial: " + err.Error()
		return
	}
	defer c.Close()
	c.SetWriteDeadline(time.Now().Add(10 * time.Second))
	if _, err := c.Write(raw); err != nil {
		r.Err = "write: " + err.Error()
		return
	}
	var buf []byte
	tmp := make([]byte, 16384)
	end := time.Now().Add(deadline)
	for {
		vals, off, garbage := lpAll(buf)
		r.Vals, r.Garbage, r.Rest = vals, garbage, strconv.Quote(clip(buf[off:], 200))
		if off == len(buf) {
			r.Rest = ""
		}
		if garbage != "" || len(vals) > n+8 {
			break
		}
		dl := end
		if len(vals) >= n && off == len(buf) {
			dl = time.Now().Add(settle)
		}
		c.SetReadDeadline(dl)
		m, err := c.Read(tmp)
		buf = append(buf, tmp[:m]...)
		if err != nil {
			if m > 0 {
				continue
			}
			if ne, ok := err.(net.Error); ok && ne.Timeout() {
				if len(r.Vals) < n {
					r.Timeout = true
				}
			} else if err == io.EOF || strings.Contains(err.Error(), "reset") {
				r.Closed = true
			} else {
				r.Err = "read: " + err.Error()
			}
			vals, off, garbage := lpAll(buf)
			r.Vals, r.Garbage = vals, garbage
			if off < len(buf) {
				r.Rest = strconv.Quote(clip(buf[off:], 200))
			}
			break
		}
	}
	r.Raw = strconv.Quote(clip(buf, 600))
}

func (e *localEnv) run(id int, v lvec) (r lres) {
	r = lres{ID: id, Ctx: v.Ctx, Proxy: v.Proxy, Payload: v.Payload, Form: v.Form, Pre: v.Pre, N: len(v.Reqs)}
	uniq := fmt.Sprintf("c01u:%d", id)
	var raw []byte
	lastProbe := -1
	for i, q := range v.Reqs {
		key := fmt.Sprintf("c01l:%d:%d", id, i)
		switch q.Kind {
		case "get":
			val := fmt.Sprintf("v:%d:%d", id, i)
			e.cl.Preload(key, []byte(val))
			r.Want = append(r.Want, "$"+strconv.Quote(val))
		case "ping":
			r.Want = append(r.Want, `+"PONG"`)
		default:
			r.Want = append(r.Want, "")
			lastProbe = i
		}
		raw = append(raw, encodeReq(q, key, uniq)...)
	}
	r.Sent = strconv.Quote(clip(raw, 600))
	deadline, settle := 3*time.Second, 2*time.Millisecond
	if cli.Thorough() {
		settle = 10 * time.Millisecond
	}
	if atomic.LoadInt32(&e.lost) >= 8 {
		// the long deadline has been spent often enough: a regression that swallows replies must not turn the run
		// into hours; what is read with the short deadline is reported but is not a verdict
		deadline, r.Short = 300*time.Millisecond, true
	}
	px := e.proxies[v.Proxy]
	if v.Stored {
		// a processor of its own, so that the summary is about this pipeline's keys only
		p, err := sut.StartRedis(e.opts(v.Proxy), e.cl.Addrs())
		if err != nil {
			r.Err = "start: " + err.Error()
			return
		}
		defer sut.StopWithin(p.P, 5*time.Second)
		if !sut.WaitRefresh(p.Name, 5*time.Second) {
			r.Err = "slot table not loaded"
			return
		}
		px = p
		c, err := sut.Dial(px.Addr)
		if err != nil {
			r.Err = err.Error()
			return
		}
		var needle []byte
		for i := 0; i < lastProbe; i++ {
			if v.Reqs[i].Kind != "probe" {
				continue
			}
			needle = chunks(v.Reqs[i].Words[len(v.Reqs[i].Words)-1], "", uniq)
			for rep := 0; rep < 5; rep++ {
				c.Send(encodeReq(v.Reqs[i], "", uniq))
				if _, err := c.Recv(5 * time.Second); err != nil {
					r.Err = "stored warm-up: " + err.Error()
					c.Close()
					return
				}
			}
		}
		// the collector period elapses
		for end := time.Now().Add(3 * time.Second); time.Now().Before(end); time.Sleep(5 * time.Millisecond) {
			var one lres
			exchange(px.Addr, resp.Bytes(resp.Cmd("HOTKEY")), 1, 2*time.Second, 0, &one)
			if len(one.Vals) == 1 {
				if s, err := strconv.Unquote(one.Vals[0][1:]); err == nil && bytes.Contains([]byte(s), needle) {
					r.StoredSeen = true
					break
				}
			}
		}
		c.Close()
	}
	exchange(px.Addr, raw, r.N, deadline, settle, &r)
	if r.Timeout && !r.Short {
		atomic.AddInt32(&e.lost, 1)
	}
	return
}

func localReplies(args []string) error {
	fs := flag.NewFlagSet("c01-local", flag.ContinueOnError)
	in := fs.String("in", "", "vectors of LocalReply.tla (ndjson)")
	out := fs.String("out", "", "results (ndjson)")
	workers := fs.Int("workers", 4, "pipelines in flight")
	if err := fs.Parse(args); err != nil {
		return err
	}
	predis.VerifSetSlotsRefreshTimers(time.Hour, 20*time.Millisecond)
	restore := hotkey.VerifSetDefaultIntervals(15*time.Millisecond, time.Hour)
	defer restore()
	var vecs []lvec
	if err := cli.ReadNDJSON(*in, func(line []byte) error {
		var v lvec
		if err := json.Unmarshal(line, &v); err != nil {
			return err
		}
		vecs = append(vecs, v)
		return nil
	}); err != nil {
		return err
	}
	cl, err := simredis.NewCluster(2, 0)
	if err != nil {
		return err
	}
	defer cl.Close()
	e := &localEnv{cl: cl, proxies: map[string]*sut.Redis{}}
	for _, kind := range []string{"plain", "compress"} {
		px, err := sut.StartRedis(e.opts(kind), cl.Addrs())
		if err != nil {
			return err
		}
		defer sut.StopWithin(px.P, 5*time.Second)
		if !sut.WaitRefresh(px.Name, 5*time.Second) {
			return errors.New("slot table not loaded")
		}
		// one backend connection per node before the pipelines start
		w, err := sut.Dial(px.Addr)
		if err != nil {
			return err
		}
		for i := range cl.Nodes {
			if v, err := w.Do(20*time.Second, "get", cl.KeyFor(i, "warm")); err != nil || v.IsErr() {
				return fmt.Errorf("warm-up: %v %v", v, err)
			}
		}
		w.Close()
		e.proxies[kind] = px
	}
	w, err := cli.NewNDJSONWriter(*out)
	if err != nil {
		return err
	}
	defer w.Close()
	var mu sync.Mutex
	var wg sync.WaitGroup
	jobs := make(chan int)
	var werr error
	for i := 0; i < *workers; i++ {
		wg.Add(1)
		go func() {
			defer wg.Done()
			for id := range jobs {
				r := e.run(id+1, vecs[id])
				mu.Lock()
				if err := w.Write(r); err != nil && werr == nil {
					werr = err
				}
				mu.Unlock()
			}
		}()
	}
	for id := range vecs {
		jobs <- id
	}
	close(jobs)
	wg.Wait()
	return werr
}
