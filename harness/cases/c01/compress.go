package c01

import pbredis "github.com/samaritan-proxy/samaritan/pb/config/protocol/redis"

func compressionOn() *pbredis.Compression {
	return &pbredis.Compression{Enable: true, Threshold: 32, Algorithm: pbredis.Compression_SNAPPY}
}
