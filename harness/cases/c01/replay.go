// Package c01 replays Pipeline behaviours (order of client sends and backend
// replies chosen by TLC) end-to-end on a real Redis processor with gated
// simulated nodes, and probes request contents that could desynchronise the
// reply stream.
package c01

import (
	"encoding/json"
	"flag"
	"fmt"
	"time"

	predis "github.com/samaritan-proxy/samaritan/proc/redis"

	"verifharness/internal/cli"
	"verifharness/internal/resp"
	"verifharness/internal/simredis"
	"verifharness/internal/sut"
)

func init() {
	cli.Register("c01-replay", replay)
	cli.Register("c01-inject", inject)
}

type step struct {
	A  string `json:"a"`
	C  int    `json:"c"`
	K  int    `json:"k"`
	Tg []int  `json:"tg"`
	N  int    `json:"n"`
}

type mismatch struct {
	C    int    `json:"c"`
	K    int    `json:"k"`
	Got  string `json:"got"`
	Want string `json:"want"`
}

type result struct {
	ID         int        `json:"id"`
	Sends      int        `json:"sends"`
	Replies    int        `json:"replies"`
	Followed   bool       `json:"followed"` // every backend reply of the behaviour could be released in order
	Mismatches []mismatch `json:"mismatches"`
	Lost       []mismatch `json:"lost"`
	Extra      []mismatch `json:"extra"`
	NodeOrder  []string   `json:"nodeOrder"` // violations of per-node FIFO arrival
	Redirects  int64      `json:"redirects"`
	Err        string     `json:"err,omitempty"`
}

type env struct {
	cl *simredis.Cluster
}

func replayOne(id int, steps []step) (res result) {
	res = result{ID: id, Followed: true}
	cl, err := simredis.NewCluster(3, 0)
	if err != nil {
		res.Err = err.Error()
		return
	}
	defer cl.Close()
	px, err := sut.StartRedis(sut.RedisOpts{}, cl.Addrs())
	if err != nil {
		res.Err = "start: " + err.Error()
		return
	}
	defer sut.StopWithin(px.P, 5*time.Second)
	if !sut.WaitRefresh(px.Name, 3*time.Second) {
		res.Err = "slot table not loaded"
		return
	}
	// warm-up: one backend connection per node, before the nodes are gated
	w, err := sut.Dial(px.Addr)
	if err != nil {
		res.Err = err.Error()
		return
	}
	for i := range cl.Nodes {
		if v, err := w.Do(3*time.Second, "get", cl.KeyFor(i, "warm")); err != nil || v.IsErr() {
			res.Err = fmt.Sprintf("warm-up: %v %v", v, err)
			return
		}
	}
	w.Close()
	for _, n := range cl.Nodes {
		n.ClearLog()
		n.SetGate(true)
	}
	conns := map[int]*sut.Client{}
	want := map[int][]resp.Value{}
	defer func() {
		for _, c := range conns {
			c.Close()
		}
	}()
	keyOf := func(c, k, j, node int) string { return cl.KeyFor(node-1, fmt.Sprintf("c%dk%dj%d_", c, k, j)) }
	for _, st := range steps {
		switch st.A {
		case "send":
			res.Sends++
			cn := conns[st.C]
			if cn == nil {
				cn, err = sut.Dial(px.Addr)
				if err != nil {
					res.Err = err.Error()
					return
				}
				conns[st.C] = cn
			}
			var args []string
			var exp resp.Value
			switch len(st.Tg) {
			case 0:
				args, exp = []string{"PING"}, resp.Simple("PONG")
			case 1:
				key := keyOf(st.C, st.K, 1, st.Tg[0])
				val := fmt.Sprintf("v:%d:%d:1", st.C, st.K)
				cl.Preload(key, []byte(val))
				args, exp = []string{"GET", key}, resp.BulkS(val)
			default:
				args = []string{"MGET"}
				var vs []resp.Value
				for j, n := range st.Tg {
					key := keyOf(st.C, st.K, j+1, n)
					val := fmt.Sprintf("v:%d:%d:%d", st.C, st.K, j+1)
					cl.Preload(key, []byte(val))
					args = append(args, key)
					vs = append(vs, resp.BulkS(val))
				}
				exp = resp.Arr(vs...)
			}
			want[st.C] = append(want[st.C], exp)
			if err := cn.SendCmd(args...); err != nil {
				res.Err = "send: " + err.Error()
				return
			}
			// the model's send is atomic up to the backend queues: wait until the children reached their nodes
			need := map[int]int{}
			for _, n := range st.Tg {
				need[n]++
			}
			_ = need
			time.Sleep(300 * time.Microsecond)
		case "reply":
			n := cl.Nodes[st.N-1]
			if !n.WaitPending(1, 2*time.Second) {
				res.Followed = false
				continue
			}
			n.Release(1)
		}
	}
	for _, n := range cl.Nodes {
		n.SetGate(false)
	}
	for c, cn := range conns {
		for k, exp := range want[c] {
			v, err := cn.Recv(5 * time.Second)
			if err != nil {
				res.Lost = append(res.Lost, mismatch{C: c, K: k + 1, Want: exp.String(), Got: err.Error()})
				break
			}
			res.Replies++
			if !resp.Equal(v, exp) {
				res.Mismatches = append(res.Mismatches, mismatch{C: c, K: k + 1, Got: v.String(), Want: exp.String()})
			}
		}
		if v, err := cn.Recv(15 * time.Millisecond); err == nil {
			res.Extra = append(res.Extra, mismatch{C: c, Got: v.String()})
		}
	}
	res.Redirects = cl.Redirects
	return
}

func replay(args []string) error {
	fs := flag.NewFlagSet("c01-replay", flag.ContinueOnError)
	in := fs.String("in", "", "behaviours (ndjson)")
	out := fs.String("out", "", "results (ndjson)")
	if err := fs.Parse(args); err != nil {
		return err
	}
	predis.VerifSetSlotsRefreshTimers(time.Hour, time.Hour)
	w, err := cli.NewNDJSONWriter(*out)
	if err != nil {
		return err
	}
	defer w.Close()
	id := 0
	return cli.ReadNDJSON(*in, func(line []byte) error {
		var steps []step
		if err := json.Unmarshal(line, &steps); err != nil {
			return err
		}
		id++
		return w.Write(replayOne(id, steps))
	})
}

// ---- request contents that could make the proxy emit more or fewer than one reply

type injectCase struct {
	Name string `json:"name"`
	Raw  []byte `json:"-"`
	// number of requests in Raw (the proxy must answer exactly that many, then PONG for the sentinel)
	N int `json:"n"`
}

type injectResult struct {
	Name    string   `json:"name"`
	N       int      `json:"n"`
	Replies []string `json:"replies"`
	OK      bool     `json:"ok"`
	Why     string   `json:"why"`
	Closed  bool     `json:"closed"`
}

func inject(args []string) error {
	fs := flag.NewFlagSet("c01-inject", flag.ContinueOnError)
	out := fs.String("out", "", "results (ndjson)")
	if err := fs.Parse(args); err != nil {
		return err
	}
	predis.VerifSetSlotsRefreshTimers(time.Hour, 20*time.Millisecond)
	cl, err := simredis.NewCluster(2, 0)
	if err != nil {
		return err
	}
	defer cl.Close()
	w, err := cli.NewNDJSONWriter(*out)
	if err != nil {
		return err
	}
	defer w.Close()
	cmd := func(args ...string) []byte { return resp.Bytes(resp.Cmd(args...)) }
	cases := []injectCase{
		{"name-with-crlf", cmd("FOO\r\nBAR"), 1},
		{"name-with-crlf-pong", cmd("X\r\n+PONG"), 1},
		{"name-with-lf", cmd("FOO\nBAR"), 1},
		{"name-with-cr", cmd("FOO\rBAR"), 1},
		{"unsupported-with-crlf-args", cmd("KEYS", "a\r\nb"), 1},
		{"key-with-crlf", cmd("GET", "k\r\n+OK\r\n"), 1},
		{"value-with-crlf", cmd("SET", "kcrlf", "v\r\n-ERR x\r\n"), 1},
		{"get-value-with-crlf", cmd("GET", "kcrlf"), 1},
		{"mget-keys-with-crlf", cmd("MGET", "a\r\nb", "c\r\n$1"), 1},
		{"empty-name", cmd(""), 1},
		{"name-with-quote", cmd("FOO'BAR"), 1},
		{"long-name", cmd(string(make([]byte, 9000))), 1},
		{"inline-unsupported", []byte("FOO BAR\r\n"), 1},
		{"two-unsupported", append(cmd("A\r\nB"), cmd("C\r\nD")...), 2},
		{"invalid-nonbulk", []byte("*1\r\n:1\r\n"), 1},
		{"invalid-nested", []byte("*1\r\n*1\r\n$1\r\na\r\n"), 1},
		{"empty-array", []byte("*0\r\n"), 1},
		{"null-array", []byte("*-1\r\n"), 1},
	}
	for _, compress := range []bool{false, true} {
		opts := sut.RedisOpts{}
		if compress {
			opts.Compression = compressionOn()
		}
		px, err := sut.StartRedis(opts, cl.Addrs())
		if err != nil {
			return err
		}
		sut.WaitRefresh(px.Name, 3*time.Second)
		cs := cases
		if compress {
			cs = []injectCase{
				{"banned-name-with-crlf", cmd("APPEND\r\nX", "k", "v"), 1},
				{"banned-append", cmd("APPEND", "k", "v"), 1},
				{"banned-eval-crlf", cmd("EVAL", "return 1\r\n+OK", "1", "k"), 1},
			}
		}
		for _, ic := range cs {
			r := injectResult{Name: ic.Name, N: ic.N}
			if compress {
				r.Name = "compress/" + r.Name
			}
			c, err := sut.Dial(px.Addr)
			if err != nil {
				return err
			}
			c.Send(ic.Raw)
			c.SendCmd("PING")
			// read until PONG + a little longer
			for i := 0; i < ic.N+4; i++ {
				d := 2 * time.Second
				if i > ic.N {
					d = 30 * time.Millisecond
				}
				v, err := c.Recv(d)
				if err != nil {
					if i <= ic.N {
						r.Closed = true
					}
					break
				}
				r.Replies = append(r.Replies, v.String())
			}
			c.Close()
			// exactly N replies followed by PONG; or the connection was closed (allowed only for protocol errors)
			switch {
			case len(r.Replies) == ic.N+1 && r.Replies[ic.N] == `+"PONG"`:
				r.OK = true
				for i := 0; i < ic.N; i++ {
					if r.Replies[i] == `+"PONG"` {
						r.OK, r.Why = false, "a request was answered with the sentinel's reply"
					}
				}
			case len(r.Replies) > ic.N+1:
				r.Why = fmt.Sprintf("%d replies for %d requests + sentinel", len(r.Replies), ic.N)
			default:
				r.Why = fmt.Sprintf("%d replies for %d requests + sentinel (closed=%v)", len(r.Replies), ic.N, r.Closed)
			}
			if err := w.Write(r); err != nil {
				return err
			}
		}
		sut.StopWithin(px.P, 5*time.Second)
	}
	return nil
}

// ---- a locally answered (banned) command pipelined behind forwarded ones must not leave them unflushed

func init() { cli.Register("c01-bannedpipe", bannedPipe) }

type bannedPipeResult struct {
	Case    string   `json:"case"`
	Replies []string `json:"replies"`
	Want    int      `json:"want"`
	OK      bool     `json:"ok"`
}

func bannedPipe(args []string) error {
	fs := flag.NewFlagSet("c01-bannedpipe", flag.ContinueOnError)
	out := fs.String("out", "", "results (ndjson)")
	if err := fs.Parse(args); err != nil {
		return err
	}
	predis.VerifSetSlotsRefreshTimers(time.Hour, 20*time.Millisecond)
	cl, err := simredis.NewCluster(1, 0)
	if err != nil {
		return err
	}
	defer cl.Close()
	px, err := sut.StartRedis(sut.RedisOpts{Compression: compressionOn()}, cl.Addrs())
	if err != nil {
		return err
	}
	defer sut.StopWithin(px.P, 5*time.Second)
	sut.WaitRefresh(px.Name, 3*time.Second)
	w, err := cli.NewNDJSONWriter(*out)
	if err != nil {
		return err
	}
	defer w.Close()
	cmd := func(a ...string) []byte { return resp.Bytes(resp.Cmd(a...)) }
	cases := map[string][][]byte{
		"get+banned":          {cmd("GET", "k1"), cmd("APPEND", "k1", "v")},
		"get+get+banned":      {cmd("GET", "k1"), cmd("GET", "k2"), cmd("SETRANGE", "k1", "0", "v")},
		"set+banned+banned":   {cmd("SET", "k1", "v"), cmd("GETBIT", "k1", "1"), cmd("APPEND", "k1", "v")},
		"many-gets-then-eval": {cmd("GET", "a"), cmd("GET", "b"), cmd("GET", "c"), cmd("GET", "d"), cmd("EVAL", "return 1", "1", "k")},
	}
	for name, reqs := range cases {
		for rep := 0; rep < 20; rep++ {
			c, err := sut.Dial(px.Addr)
			if err != nil {
				return err
			}
			c.Do(2*time.Second, "get", "warm")
			var raw []byte
			for _, r := range reqs {
				raw = append(raw, r...)
			}
			c.Send(raw)
			r := bannedPipeResult{Case: name, Want: len(reqs)}
			for i := 0; i < len(reqs); i++ {
				v, err := c.Recv(1500 * time.Millisecond)
				if err != nil {
					break
				}
				r.Replies = append(r.Replies, v.String())
			}
			r.OK = len(r.Replies) == r.Want
			c.Close()
			w.Write(r)
			if !r.OK {
				break
			}
		}
	}
	return nil
}
