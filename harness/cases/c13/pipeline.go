package c13

import (
	"bytes"
	"encoding/json"
	"flag"
	"fmt"
	"strings"
	"sync"
	"time"

	predis "github.com/samaritan-proxy/samaritan/proc/redis"

	"verifharness/internal/cli"
	"verifharness/internal/resp"
	"verifharness/internal/sched"
	"verifharness/internal/simredis"
	"verifharness/internal/sut"
)

// Forced replay of CompressPipe behaviours on the real writer of a backend connection: the writer is parked at the
// top of its loop (hook client.loopWrite.select); "E" hands the next request of the pipeline to the backend connection
// (sent by a client, observed at hook client.Send.enqueued), "T" lets the writer take exactly one request. The node
// holds its replies until the behaviour is over, so that what reached the backend is recorded before any reply can
// disturb the processor.

type pipeBeh struct {
	Enabled bool     `json:"enabled"`
	Items   []string `json:"items"`
	Sched   []string `json:"sched"`
	Window  int      `json:"window"`
	Wire    []int    `json:"wire"`
	Local   []int    `json:"local"`
}

type pipeResult struct {
	ID      int      `json:"id"`
	Phase   string   `json:"phase"` // "backend": what reached the node; "replies": what the clients got
	Beh     pipeBeh  `json:"beh"`
	Cmds    []string `json:"cmds"`
	Backend []string `json:"backend"`
	Replies []string `json:"replies,omitempty"`
	Forced  bool     `json:"forced"` // the schedule was followed step by step
	Bad     []bad    `json:"bad"`
	Err     string   `json:"err,omitempty"`
}

var bannedCmds = [][]string{
	{"APPEND", "KEY", "tail"}, {"setrange", "KEY", "1", "x"}, {"SETBIT", "KEY", "7", "1"},
	{"getbit", "KEY", "1"}, {"GetRange", "KEY", "0", "3"}, {"EVAL", "return redis.call('get', KEYS[1])", "1", "KEY"},
}

func isBanned(cmd string) bool {
	switch strings.ToLower(cmd) {
	case "append", "eval", "setbit", "getbit", "setrange", "getrange":
		return true
	}
	return false
}

func pipeline(args []string) error {
	fs := flag.NewFlagSet("c13-pipeline", flag.ContinueOnError)
	in := fs.String("in", "", "behaviours (ndjson)")
	out := fs.String("out", "", "results (ndjson)")
	if err := fs.Parse(args); err != nil {
		return err
	}
	var behs []pipeBeh
	if err := cli.ReadNDJSON(*in, func(line []byte) error {
		var b pipeBeh
		if err := json.Unmarshal(line, &b); err != nil {
			return err
		}
		behs = append(behs, b)
		return nil
	}); err != nil {
		return err
	}
	w, err := newLineWriter(*out)
	if err != nil {
		return err
	}
	defer w.Close()

	// no periodic slot refresh: nothing but the pipeline passes through the backend connection
	predis.VerifSetSlotsRefreshTimers(time.Hour, 20*time.Millisecond)
	cl, err := simredis.NewCluster(1, 0)
	if err != nil {
		return err
	}
	defer cl.Close()
	node := cl.Nodes[0]
	const thr = 32
	px, cs, err := startProxy(cl, compression("enabled", thr), 2)
	if err != nil {
		return err
	}
	defer sut.StopWithin(px.P, 5*time.Second)
	setEnabled := func(on bool) error {
		c := "disabled"
		if on {
			c = "enabled"
		}
		return px.P.OnSvcConfigUpdate(sut.RedisConfig(sut.RedisOpts{Port: portOf(px.Addr), Compression: compression(c, thr)}))
	}
	conns := [2]*sut.Client{cs[0], cs[1]}
	defer cs[0].Close()
	defer cs[1].Close()
	// values the pipelines read back and the value the disabled commands aim at (stored compressed)
	rvals := map[string][]byte{}
	for i := 0; i < 4; i++ {
		k := fmt.Sprintf("pr:%d", i)
		rvals[k] = bytes.Repeat([]byte{byte('k' + i)}, 200+17*i)
		if v, err := conns[0].DoB(replyTO, []byte("SET"), []byte(k), rvals[k]); err != nil || v.IsErr() {
			return fmt.Errorf("preparing %s: %v %v", k, v, err)
		}
	}
	target := bytes.Repeat([]byte("t"), 300)
	prepare := func() error {
		// the target is written while compression is on: the backend holds it compressed
		if v, err := conns[0].DoB(replyTO, []byte("SET"), []byte("pb"), target); err != nil || v.IsErr() {
			return fmt.Errorf("preparing pb: %v %v", v, err)
		}
		return nil
	}

	var wmu sync.Mutex
	var wclient interface{} // the backend connection whose writer is parked
	sc := sched.New(func(point string, a, b interface{}) string {
		switch point {
		case "client.loopWrite.select":
			if d := predis.VerifDescribe(a); d.Kind == "client" && d.Addr == node.Addr {
				wmu.Lock()
				wclient = a
				wmu.Unlock()
				return "W"
			}
		case "client.Send.enqueued":
			if d := predis.VerifDescribe(a); d.Kind == "client" && d.Addr == node.Addr {
				return "E"
			}
		}
		return ""
	})
	sc.Install()
	defer sc.Uninstall()
	const stepTO = replyTO
	park := func() bool {
		sc.Gate("W")
		// the writer sits in its select - or, on a loaded machine, has not yet come round from the last request and parks
		// at once; one more request makes it come round to the hook; the queue must be empty when it stays parked
		e0 := sc.Arrived("E")
		done := make(chan bool, 1)
		go func() {
			v, err := conns[0].Do(stepTO, "get", "pr:0")
			done <- err == nil && !v.IsErr()
		}()
		if !sc.WaitArrived("E", e0+1, stepTO) {
			return false
		}
		for i := 0; i < 100; i++ {
			if !sc.WaitParked("W", stepTO) {
				return false
			}
			wmu.Lock()
			st, ok := predis.VerifClientStateOf(wclient)
			wmu.Unlock()
			if ok && st.Pending > 0 {
				sc.Release("W") // parked before it took the request: once more round
				continue
			}
			return <-done
		}
		return false
	}
	unpark := func() { sc.Ungate("W") }

	enabled := true
	for idx, beh := range behs {
		res := pipeResult{ID: idx + 1, Phase: "backend", Beh: beh}
		// --- set up (writer free)
		if beh.Enabled != enabled {
			if err := setEnabled(true); err != nil {
				return err
			}
		}
		if err := prepare(); err != nil {
			res.Err = err.Error()
			w.Write(res)
			return nil
		}
		if err := setEnabled(beh.Enabled); err != nil {
			return err
		}
		enabled = beh.Enabled
		if !park() {
			res.Err = "writer did not park"
			w.Write(res)
			return nil
		}
		node.ClearLog()
		node.SetGate(true)
		// --- the requests
		var reqs [][]byte
		var expect []func(v resp.Value) string // per request: "" or what is wrong with the reply
		var connOf []int
		for j, kind := range beh.Items {
			var a []string
			switch kind {
			case "read":
				k := fmt.Sprintf("pr:%d", (idx+j)%4)
				a = []string{"GET", k}
				want := rvals[k]
				expect = append(expect, func(v resp.Value) string {
					if v.Kind != '$' || !bytes.Equal(v.Str, want) {
						return fmt.Sprintf("GET %s answered %s", k, clipS(v.String()))
					}
					return ""
				})
			case "write":
				k := fmt.Sprintf("pw:%d:%d", idx, j)
				a = []string{"SET", k, strings.Repeat(string(rune('A'+(idx+j)%26)), 64+j)}
				expect = append(expect, func(v resp.Value) string {
					if v.Kind != '+' {
						return fmt.Sprintf("SET %s answered %s", k, clipS(v.String()))
					}
					return ""
				})
			default:
				tmpl := bannedCmds[(idx+j)%len(bannedCmds)]
				for _, x := range tmpl {
					if x == "KEY" {
						x = "pb"
					}
					a = append(a, x)
				}
				name := a[0]
				on := beh.Enabled
				expect = append(expect, func(v resp.Value) string {
					if on && !(v.IsErr() && strings.Contains(string(v.Str), "disabled in compress mode")) {
						return fmt.Sprintf("%s answered %s instead of the 'disabled in compress mode' error", name, clipS(v.String()))
					}
					return ""
				})
			}
			res.Cmds = append(res.Cmds, strings.Join(a[:2], " "))
			reqs = append(reqs, resp.Bytes(resp.Cmd(a...)))
			cn := 0
			if idx%2 == 1 {
				cn = j % 2 // several sessions share the backend connection
			}
			connOf = append(connOf, cn)
		}
		// --- the schedule
		res.Forced = true
		next := 0
		enq := sc.Arrived("E")
		for _, s := range beh.Sched {
			if s == "E" {
				conns[connOf[next]].Send(reqs[next])
				next++
				enq++
				if !sc.WaitArrived("E", enq, stepTO) {
					res.Forced = false
					break
				}
			} else {
				if !sc.Release("W") || !sc.WaitParked("W", stepTO) {
					res.Forced = false
					break
				}
			}
		}
		// --- what reached the backend (replies are still held)
		stable, last := time.Now(), -1
		dl := time.Now().Add(time.Second)
		for time.Now().Before(dl) {
			n := len(node.Records())
			if n != last {
				last, stable = n, time.Now()
			} else if time.Since(stable) > 10*time.Millisecond && (n >= len(beh.Wire) || time.Since(stable) > 60*time.Millisecond) {
				break
			}
			time.Sleep(500 * time.Microsecond)
		}
		for _, r := range simredis.DataCommands(node.Records()) {
			name := r.Cmd()
			res.Backend = append(res.Backend, name)
			if beh.Enabled && isBanned(name) {
				res.Bad = append(res.Bad, bad{Sig: "banned-not-rejected/queued-behind/" + name,
					What: fmt.Sprintf("pipeline %v, schedule %s: %s reached the backend although compression is enabled (taken by the writer with up to %d request(s) queued behind it)",
						res.Cmds, strings.Join(beh.Sched, ""), name, beh.Window)})
			}
		}
		if !res.Forced {
			res.Err = "schedule not followed"
		}
		w.Write(res)
		// --- the replies
		unpark()
		ungate(node)
		res.Phase, res.Bad = "replies", nil
		broken := false
		for j := range reqs {
			v, err := conns[connOf[j]].Recv(stepTO)
			if err != nil {
				// a reply that does not come is not a verdict about compression
				res.Err = fmt.Sprintf("pipeline %v, schedule %s: no reply to request %d (%s): %v", res.Cmds, strings.Join(beh.Sched, ""), j+1, res.Cmds[j], err)
				broken = true
				break
			}
			res.Replies = append(res.Replies, clipS(v.String()))
			if why := expect[j](v); why != "" {
				sig := "read-back/pipelined"
				if beh.Items[j] == "banned" {
					sig = "banned-not-rejected/reply"
				}
				res.Bad = append(res.Bad, bad{Sig: sig, What: fmt.Sprintf("pipeline %v, schedule %s, request %d: %s", res.Cmds, strings.Join(beh.Sched, ""), j+1, why)})
			}
		}
		if !broken && beh.Enabled {
			// the value the disabled commands aimed at is untouched
			v, err := conns[0].Do(stepTO, "GET", "pb")
			if err != nil {
				broken = true
			} else if !bytes.Equal(v.Str, target) {
				res.Bad = append(res.Bad, bad{Sig: "read-back/after-disabled-command", What: fmt.Sprintf("pipeline %v: the value the disabled commands named reads back as %s", res.Cmds, clipS(v.String()))})
			}
		}
		w.Write(res)
		if broken {
			return nil // the connections are out of step; what was recorded stands
		}
	}
	return nil
}

func clipS(s string) string {
	if len(s) > 80 {
		return s[:80] + "..."
	}
	return s
}
