// Package c13 replays Compress histories (config switches, writes with one
// or several value positions, redirections and concurrent traffic, reads at
// every reply nesting depth) through a real Redis processor with the real
// snappy compression, against simulated nodes that redirect on demand
// (replay.go); forces every CompressPipe behaviour on the real writer of a
// backend connection (pipeline.go); and runs concurrent writers (concurrent.go).
package c13

import (
	"bytes"
	"flag"
	"fmt"
	"math/rand"
	"time"

	predis "github.com/samaritan-proxy/samaritan/proc/redis"

	"verifharness/internal/cli"
	"verifharness/internal/simredis"
	"verifharness/internal/sut"
)

func init() {
	cli.Register("c13-replay", replay)
	cli.Register("c13-values", values)
	cli.Register("c13-pipeline", pipeline)
	cli.Register("c13-concurrent", concurrent)
}

// ---- white box: value compression round trip over lengths around the threshold and entropies; banned commands

type valResult struct {
	Case string `json:"case"`
	OK   bool   `json:"ok"`
	Why  string `json:"why,omitempty"`
}

func values(args []string) error {
	fs := flag.NewFlagSet("c13-values", flag.ContinueOnError)
	out := fs.String("out", "", "results (ndjson)")
	n := fs.Int("n", 2000, "random values")
	if err := fs.Parse(args); err != nil {
		return err
	}
	w, err := cli.NewNDJSONWriter(*out)
	if err != nil {
		return err
	}
	defer w.Close()
	rnd := rand.New(rand.NewSource(cli.Seed()))
	hdr := predis.VerifCompressHeader()
	bad := 0
	for i := 0; i < *n; i++ {
		l := rnd.Intn(300)
		if i%10 == 0 {
			l = rnd.Intn(70000)
		}
		v := make([]byte, l)
		switch rnd.Intn(4) {
		case 0:
			rnd.Read(v)
		case 1:
			for j := range v {
				v[j] = byte('a' + rnd.Intn(2))
			}
		case 2:
			for j := range v {
				v[j] = '0'
			}
		default:
			for j := range v {
				v[j] = byte(j / 7)
			}
		}
		if bytes.HasPrefix(v, hdr) {
			continue
		}
		c := predis.VerifCompressValue(v)
		ok, why := storedFormOK(c, v)
		if ok && !bytes.Equal(c, v) {
			d, err := predis.VerifDecompressValue(c)
			if err != nil || !bytes.Equal(d, v) {
				ok, why = false, fmt.Sprintf("decompress(compress(v)) != v (%v)", err)
			}
		}
		if !ok {
			bad++
			w.Write(valResult{Case: fmt.Sprintf("value len=%d", l), Why: why})
		}
	}
	w.Write(valResult{Case: fmt.Sprintf("%d random values", *n), OK: bad == 0})
	// boundary of "strictly shorter": noise followed by a run of k identical bytes sweeps the size of the framed form
	// across the size of the value (frame longer / equal / shorter by a few bytes)
	sweepBad, band := 0, 0
	for _, noise := range []int{8, 16, 64, 200, 1000} {
		nb := make([]byte, noise)
		rnd.Read(nb)
		if bytes.HasPrefix(nb, hdr) {
			nb[0] ^= 0xff
		}
		for k := 0; k < 200; k++ {
			v := append(append([]byte{}, nb...), bytes.Repeat([]byte{'r'}, k)...)
			framed := len(hdr) + len(snappyStream(v))
			if d := framed - len(v); d >= -8 && d <= 8 {
				band++
			}
			c := predis.VerifCompressValue(v)
			ok, why := storedFormOK(c, v)
			if ok && !bytes.Equal(c, v) {
				if d, err := predis.VerifDecompressValue(c); err != nil || !bytes.Equal(d, v) {
					ok, why = false, fmt.Sprintf("decompress(compress(v)) != v (%v)", err)
				}
			}
			if ok && bytes.Equal(c, v) && framed < len(v) {
				ok, why = false, fmt.Sprintf("a %d byte value whose framed form has %d bytes was not compressed", len(v), framed)
			}
			if !ok {
				sweepBad++
				w.Write(valResult{Case: fmt.Sprintf("break-even noise=%d run=%d framed-len=%+d", noise, k, framed-len(v)), Why: why})
			}
		}
	}
	w.Write(valResult{Case: fmt.Sprintf("break-even sweep (%d values within 8 bytes of the boundary)", band), OK: sweepBad == 0 && band > 20})
	// absolute sizes: around the 64 KiB block of the stream format, 512 KiB, 1 MiB, several MiB
	sizedBad := 0
	for _, n := range []int{65535, 65536, 65537, 524287, 524288, 524289, 1<<20 + 1, 3 << 20, 16 << 20} {
		for _, cls := range []string{"comp2", "incomp"} {
			v := sizedValue(cls, n, rnd)
			c := predis.VerifCompressValue(v)
			ok, why := storedFormOK(c, v)
			if ok && !bytes.Equal(c, v) {
				if d, err := predis.VerifDecompressValue(c); err != nil || !bytes.Equal(d, v) {
					ok, why = false, fmt.Sprintf("decompress(compress(v)) gives %d bytes, v has %d (%v)", len(d), len(v), err)
				}
			}
			if ok && cls == "comp2" && bytes.Equal(c, v) {
				ok, why = false, "a compressible value was not compressed"
			}
			if !ok {
				sizedBad++
				w.Write(valResult{Case: fmt.Sprintf("large value size=%d %s", n, cls), Why: why})
			}
		}
	}
	w.Write(valResult{Case: "large values (18 sizes x entropies)", OK: sizedBad == 0})
	// banned commands are rejected locally while compression is enabled
	sut.FastRefresh()
	cl, err := simredis.NewCluster(2, 0)
	if err != nil {
		return err
	}
	defer cl.Close()
	px, cs, err := startProxy(cl, compression("enabled", 32), 1)
	if err != nil {
		return err
	}
	defer sut.StopWithin(px.P, 5*time.Second)
	c := cs[0]
	defer c.Close()
	for _, cmd := range [][]string{{"APPEND", "k", "v"}, {"append", "k", "v"}, {"SETBIT", "k", "1", "1"}, {"getbit", "k", "1"}, {"SETRANGE", "k", "1", "x"},
		{"GetRange", "k", "0", "1"}, {"EVAL", "return 1", "1", "k"}} {
		for _, n := range cl.Nodes {
			n.ClearLog()
		}
		v, err := c.Do(replyTO, cmd...)
		if err != nil {
			return fmt.Errorf("%s: no reply: %v", cmd[0], err) // not a verdict about compression
		}
		r := valResult{Case: "banned " + cmd[0], OK: true}
		if !v.IsErr() {
			r.OK, r.Why = false, fmt.Sprintf("expected an error reply, got %v %v", v, err)
		}
		time.Sleep(time.Millisecond)
		for _, n := range cl.Nodes {
			if len(simredis.DataCommands(n.Records())) > 0 {
				r.OK, r.Why = false, "banned command reached a backend"
			}
		}
		w.Write(r)
	}
	return nil
}
