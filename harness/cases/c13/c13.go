// Package c13 replays Compress histories (config switches, writes with
// redirections, reads) through a real Redis processor with the real snappy
// compression, against simulated nodes that redirect on demand.
package c13

import (
	"bytes"
	"encoding/json"
	"flag"
	"fmt"
	"math/rand"
	"time"

	"github.com/golang/snappy"
	pbredis "github.com/samaritan-proxy/samaritan/pb/config/protocol/redis"
	predis "github.com/samaritan-proxy/samaritan/proc/redis"

	"verifharness/internal/cli"
	"verifharness/internal/resp"
	"verifharness/internal/simredis"
	"verifharness/internal/sut"
)

func init() {
	cli.Register("c13-replay", replay)
	cli.Register("c13-values", values)
}

type step struct {
	A   string `json:"a"`
	C   string `json:"c"`
	K   string `json:"k"`
	Cls string `json:"cls"`
	R   int    `json:"r"`
}

type bad struct {
	Step int    `json:"step"`
	What string `json:"what"`
	Sig  string `json:"sig"`
}

type result struct {
	ID     int    `json:"id"`
	Writes int    `json:"writes"`
	Reads  int    `json:"reads"`
	Bad    []bad  `json:"bad"`
	Err    string `json:"err,omitempty"`
}

// value of a class for the given threshold; verified against the real value compression
func valueOf(cls string, thr int, rnd *rand.Rand) []byte {
	switch cls {
	case "small":
		n := rnd.Intn(thr)
		return bytes.Repeat([]byte("s"), n)
	case "comp1":
		return bytes.Repeat([]byte("a"), thr+rnd.Intn(8))
	case "comp2":
		// the once-compressed form must still be >= thr and shrink again
		n := 1024
		for {
			v := bytes.Repeat([]byte("0"), n)
			once := predis.VerifCompressValue(v)
			if len(once) >= thr && len(predis.VerifCompressValue(once)) < len(once) {
				return v
			}
			n *= 2
			if n > 1<<26 {
				return nil
			}
		}
	default: // incomp
		v := make([]byte, thr+16)
		rnd.Read(v)
		if bytes.HasPrefix(v, predis.VerifCompressHeader()) {
			v[0] ^= 0xff
		}
		return v
	}
}

// decodeStored checks the documented stored form: original, or header + one snappy stream expanding to the original and shorter.
func storedFormOK(stored, orig []byte) (bool, string) {
	if bytes.Equal(stored, orig) {
		return true, ""
	}
	hdr := predis.VerifCompressHeader()
	if !bytes.HasPrefix(stored, hdr) {
		return false, "stored bytes are neither the original nor carry the compression header"
	}
	if len(stored) >= len(orig) {
		return false, fmt.Sprintf("stored form (%d bytes) is not shorter than the original (%d bytes)", len(stored), len(orig))
	}
	dec, err := decodeSnappyStream(stored[len(hdr):])
	if err != nil {
		return false, "stored stream does not decompress: " + err.Error()
	}
	if !bytes.Equal(dec, orig) {
		return false, fmt.Sprintf("stored stream expands to %d bytes which are not the original (%d bytes): compressed more than once?", len(dec), len(orig))
	}
	return true, ""
}

// snappyStream is the framed snappy encoding of v computed by the harness' own use of the library.
func snappyStream(v []byte) []byte {
	var b bytes.Buffer
	w := snappy.NewBufferedWriter(&b)
	w.Write(v)
	w.Close()
	return b.Bytes()
}

func decodeSnappyStream(b []byte) ([]byte, error) {
	r := snappy.NewReader(bytes.NewReader(b))
	var out bytes.Buffer
	_, err := out.ReadFrom(r)
	return out.Bytes(), err
}

type writeCmd struct {
	name string
	args func(key string, val []byte) [][]byte
	hash bool
}

var writeCmds = []writeCmd{
	{"SET", func(k string, v []byte) [][]byte { return [][]byte{[]byte("SET"), []byte(k), v} }, false},
	{"setnx", func(k string, v []byte) [][]byte { return [][]byte{[]byte("setnx"), []byte(k), v} }, false},
	{"GETSET", func(k string, v []byte) [][]byte { return [][]byte{[]byte("GETSET"), []byte(k), v} }, false},
	{"setex", func(k string, v []byte) [][]byte { return [][]byte{[]byte("setex"), []byte(k), []byte("1000"), v} }, false},
	{"PSETEX", func(k string, v []byte) [][]byte { return [][]byte{[]byte("PSETEX"), []byte(k), []byte("100000"), v} }, false},
	{"mset", func(k string, v []byte) [][]byte { return [][]byte{[]byte("mset"), []byte(k), v} }, false},
	{"HSET", func(k string, v []byte) [][]byte { return [][]byte{[]byte("HSET"), []byte(k), []byte("f"), v} }, true},
	{"hmset", func(k string, v []byte) [][]byte { return [][]byte{[]byte("hmset"), []byte(k), []byte("g"), []byte("x"), []byte("f"), v} }, true},
	{"HSETNX", func(k string, v []byte) [][]byte { return [][]byte{[]byte("HSETNX"), []byte(k), []byte("f"), v} }, true},
}

func compression(c string, thr int) *pbredis.Compression {
	switch c {
	case "enabled":
		return &pbredis.Compression{Enable: true, Threshold: uint32(thr), Algorithm: pbredis.Compression_SNAPPY}
	case "disabled":
		return &pbredis.Compression{Enable: false, Threshold: uint32(thr), Algorithm: pbredis.Compression_SNAPPY}
	}
	return nil
}

func replayOne(id int, steps []step, rnd *rand.Rand, thr int) (res result) {
	res = result{ID: id}
	cl, err := simredis.NewCluster(3, 0)
	if err != nil {
		res.Err = err.Error()
		return
	}
	defer cl.Close()
	if len(steps) == 0 || steps[0].A != "config" {
		res.Err = "history does not start with a config"
		return
	}
	px, err := sut.StartRedis(sut.RedisOpts{Compression: compression(steps[0].C, thr)}, cl.Addrs())
	if err != nil {
		res.Err = "start: " + err.Error()
		return
	}
	defer sut.StopWithin(px.P, 5*time.Second)
	if !sut.WaitRefresh(px.Name, 3*time.Second) {
		res.Err = "slot table not loaded"
		return
	}
	c, err := sut.Dial(px.Addr)
	if err != nil {
		res.Err = err.Error()
		return
	}
	defer c.Close()
	type kv struct {
		orig []byte
		hash bool
		key  string
	}
	written := map[string]*kv{}
	hops := func(key string, r int) {
		if r == 0 {
			return
		}
		time.Sleep(15 * time.Millisecond) // let the proxy's table catch up with earlier moves
		cur := cl.Owner(simredis.Slot([]byte(key)))
		var hs []int
		for i := 0; i < r; i++ {
			cur = (cur + 1) % 3
			hs = append(hs, cur)
		}
		cl.Bounce(key, hs)
	}
	addBad := func(i int, sig, what string) { res.Bad = append(res.Bad, bad{Step: i, What: what, Sig: sig}) }
	curCfg := steps[0].C
	for i, st := range steps[1:] {
		switch st.A {
		case "config":
			curCfg = st.C
			cfg := sut.RedisConfig(sut.RedisOpts{Port: portOf(px.Addr), Compression: compression(st.C, thr)})
			if err := px.P.OnSvcConfigUpdate(cfg); err != nil {
				res.Err = "config update: " + err.Error()
				return
			}
		case "write":
			res.Writes++
			wc := writeCmds[rnd.Intn(len(writeCmds))]
			key := fmt.Sprintf("%s:%d:%v", st.K, id, wc.hash)
			val := valueOf(st.Cls, thr, rnd)
			if val == nil {
				res.Err = "no value of class " + st.Cls
				return
			}
			orig := append([]byte{}, val...)
			if wc.name == "setnx" || wc.name == "HSETNX" {
				// make sure the conditional write takes effect
				c.DoB(3*time.Second, []byte("del"), []byte(key))
			}
			hops(key, st.R)
			v, err := c.DoB(5*time.Second, wc.args(key, val)...)
			if err != nil || v.IsErr() {
				addBad(i, "write-failed/"+wc.name, fmt.Sprintf("%s %s: %v %v", wc.name, key, v, err))
				continue
			}
			written[st.K+fmt.Sprint(wc.hash)] = &kv{orig: orig, hash: wc.hash, key: key}
			// what reached the backend
			for _, n := range cl.Masters() {
				if e, ok := n.Get(key); ok {
					stored := e.Str
					if wc.hash {
						stored = e.Hash["f"]
					}
					if ok, why := storedFormOK(stored, orig); !ok {
						addBad(i, fmt.Sprintf("stored-form/%s/redirects=%d", st.Cls, st.R), fmt.Sprintf("%s of a %d byte %s value with %d redirection(s): %s", wc.name, len(orig), st.Cls, st.R, why))
					}
				}
			}
		case "read":
			for _, h := range []bool{false, true} {
				w := written[st.K+fmt.Sprint(h)]
				if w == nil {
					continue
				}
				res.Reads++
				hops(w.key, st.R)
				var v resp.Value
				var err error
				var got []byte
				variant := rnd.Intn(3)
				switch {
				case !h && variant == 0:
					v, err = c.Do(5*time.Second, "GET", w.key)
					got = v.Str
				case !h && variant == 1:
					v, err = c.Do(5*time.Second, "mget", w.key, w.key+"-absent")
					if len(v.Arr) == 2 {
						got = v.Arr[0].Str
					}
				case !h:
					v, err = c.DoB(5*time.Second, []byte("getset"), []byte(w.key), w.orig)
					got = v.Str
				case variant == 0:
					v, err = c.Do(5*time.Second, "HGET", w.key, "f")
					got = v.Str
				case variant == 1:
					v, err = c.Do(5*time.Second, "hmget", w.key, "f")
					if len(v.Arr) == 1 {
						got = v.Arr[0].Str
					}
				default:
					v, err = c.Do(5*time.Second, "HGETALL", w.key)
					for j := 0; j+1 < len(v.Arr); j += 2 {
						if string(v.Arr[j].Str) == "f" {
							got = v.Arr[j+1].Str
						}
					}
				}
				if err != nil || v.IsErr() {
					addBad(i, "read-failed", fmt.Sprintf("read of %s: %v %v", w.key, v, err))
					continue
				}
				if !bytes.Equal(got, w.orig) && curCfg == "absent" {
					// Compress.tla, ReadBack: without a compression section the filter is out of the chain
					// ("enable: false" is the documented switch under which "uncompress will always work");
					// a value stored compressed earlier comes back as stored - outside the property.
					continue
				}
				if !bytes.Equal(got, w.orig) {
					addBad(i, fmt.Sprintf("read-back/redirects=%d", st.R), fmt.Sprintf("read %d bytes (%q...), wrote %d bytes (%q...)", len(got), clip(got), len(w.orig), clip(w.orig)))
				}
			}
		}
	}
	return
}

func clip(b []byte) []byte {
	if len(b) > 24 {
		return b[:24]
	}
	return b
}

func portOf(addr string) int {
	var p int
	fmt.Sscanf(addr[len("127.0.0.1:"):], "%d", &p)
	return p
}

func replay(args []string) error {
	fs := flag.NewFlagSet("c13-replay", flag.ContinueOnError)
	in := fs.String("in", "", "histories (ndjson)")
	out := fs.String("out", "", "results (ndjson)")
	if err := fs.Parse(args); err != nil {
		return err
	}
	sut.FastRefresh()
	w, err := cli.NewNDJSONWriter(*out)
	if err != nil {
		return err
	}
	defer w.Close()
	rnd := rand.New(rand.NewSource(cli.Seed()))
	thresholds := []int{32, 1, 512, 100}
	id := 0
	return cli.ReadNDJSON(*in, func(line []byte) error {
		var steps []step
		if err := json.Unmarshal(line, &steps); err != nil {
			return err
		}
		id++
		return w.Write(replayOne(id, steps, rnd, thresholds[id%len(thresholds)]))
	})
}

// ---- white box: value compression round trip over lengths around the threshold and entropies; banned commands

type valResult struct {
	Case string `json:"case"`
	OK   bool   `json:"ok"`
	Why  string `json:"why,omitempty"`
}

func values(args []string) error {
	fs := flag.NewFlagSet("c13-values", flag.ContinueOnError)
	out := fs.String("out", "", "results (ndjson)")
	n := fs.Int("n", 2000, "random values")
	if err := fs.Parse(args); err != nil {
		return err
	}
	w, err := cli.NewNDJSONWriter(*out)
	if err != nil {
		return err
	}
	defer w.Close()
	rnd := rand.New(rand.NewSource(cli.Seed()))
	hdr := predis.VerifCompressHeader()
	bad := 0
	for i := 0; i < *n; i++ {
		l := rnd.Intn(300)
		if i%10 == 0 {
			l = rnd.Intn(70000)
		}
		v := make([]byte, l)
		switch rnd.Intn(4) {
		case 0:
			rnd.Read(v)
		case 1:
			for j := range v {
				v[j] = byte('a' + rnd.Intn(2))
			}
		case 2:
			for j := range v {
				v[j] = '0'
			}
		default:
			for j := range v {
				v[j] = byte(j / 7)
			}
		}
		if bytes.HasPrefix(v, hdr) {
			continue
		}
		c := predis.VerifCompressValue(v)
		ok, why := storedFormOK(c, v)
		if ok && !bytes.Equal(c, v) {
			d, err := predis.VerifDecompressValue(c)
			if err != nil || !bytes.Equal(d, v) {
				ok, why = false, fmt.Sprintf("decompress(compress(v)) != v (%v)", err)
			}
		}
		if !ok {
			bad++
			w.Write(valResult{Case: fmt.Sprintf("value len=%d", l), Why: why})
		}
	}
	w.Write(valResult{Case: fmt.Sprintf("%d random values", *n), OK: bad == 0})
	// boundary of "strictly shorter": noise followed by a run of k identical bytes sweeps the size of the framed form
	// across the size of the value (frame longer / equal / shorter by a few bytes)
	sweepBad, band := 0, 0
	for _, noise := range []int{8, 16, 64, 200, 1000} {
		nb := make([]byte, noise)
		rnd.Read(nb)
		if bytes.HasPrefix(nb, hdr) {
			nb[0] ^= 0xff
		}
		for k := 0; k < 200; k++ {
			v := append(append([]byte{}, nb...), bytes.Repeat([]byte{'r'}, k)...)
			framed := len(hdr) + len(snappyStream(v))
			if d := framed - len(v); d >= -8 && d <= 8 {
				band++
			}
			c := predis.VerifCompressValue(v)
			ok, why := storedFormOK(c, v)
			if ok && !bytes.Equal(c, v) {
				if d, err := predis.VerifDecompressValue(c); err != nil || !bytes.Equal(d, v) {
					ok, why = false, fmt.Sprintf("decompress(compress(v)) != v (%v)", err)
				}
			}
			if ok && bytes.Equal(c, v) && framed < len(v) {
				ok, why = false, fmt.Sprintf("a %d byte value whose framed form has %d bytes was not compressed", len(v), framed)
			}
			if !ok {
				sweepBad++
				w.Write(valResult{Case: fmt.Sprintf("break-even noise=%d run=%d framed-len=%+d", noise, k, framed-len(v)), Why: why})
			}
		}
	}
	w.Write(valResult{Case: fmt.Sprintf("break-even sweep (%d values within 8 bytes of the boundary)", band), OK: sweepBad == 0 && band > 20})
	// banned commands are rejected locally while compression is enabled
	sut.FastRefresh()
	cl, err := simredis.NewCluster(2, 0)
	if err != nil {
		return err
	}
	defer cl.Close()
	px, err := sut.StartRedis(sut.RedisOpts{Compression: compression("enabled", 32)}, cl.Addrs())
	if err != nil {
		return err
	}
	defer sut.StopWithin(px.P, 5*time.Second)
	sut.WaitRefresh(px.Name, 3*time.Second)
	c, err := sut.Dial(px.Addr)
	if err != nil {
		return err
	}
	defer c.Close()
	c.Do(2*time.Second, "get", "warm1")
	c.Do(2*time.Second, "get", "warm2")
	for _, cmd := range [][]string{{"APPEND", "k", "v"}, {"append", "k", "v"}, {"SETBIT", "k", "1", "1"}, {"getbit", "k", "1"}, {"SETRANGE", "k", "1", "x"},
		{"GetRange", "k", "0", "1"}, {"EVAL", "return 1", "1", "k"}} {
		for _, n := range cl.Nodes {
			n.ClearLog()
		}
		v, err := c.Do(3*time.Second, cmd...)
		r := valResult{Case: "banned " + cmd[0], OK: true}
		if err != nil || !v.IsErr() {
			r.OK, r.Why = false, fmt.Sprintf("expected an error reply, got %v %v", v, err)
		}
		time.Sleep(time.Millisecond)
		for _, n := range cl.Nodes {
			if len(simredis.DataCommands(n.Records())) > 0 {
				r.OK, r.Why = false, "banned command reached a backend"
			}
		}
		w.Write(r)
	}
	return nil
}
