package c13

import (
	"bytes"
	"flag"
	"fmt"
	"math/rand"
	"sync"
	"sync/atomic"
	"time"

	predis "github.com/samaritan-proxy/samaritan/proc/redis"

	"verifharness/internal/cli"
	"verifharness/internal/resp"
	"verifharness/internal/sched"
	"verifharness/internal/simredis"
	"verifharness/internal/sut"
)

// Concurrent writers (Compress.tla: writes with busy = TRUE): several clients write values of every class with every
// write command through one processor at the same time, while slots change owner (genuine MOVED redirections) and
// compression is switched off and on; every value is judged at the backend and read back by its writer.

type concResult struct {
	Case   string `json:"case"`
	Writes int    `json:"writes"`
	Values int    `json:"values"`
	Packed int    `json:"packed"`
	Moves  int    `json:"moves"`
	Flips  int    `json:"flips"`
	// backend requests of the processor that ended with an error reply (connect failures ...): with any, only the
	// stored form of what did reach a node is judged
	Failures int64 `json:"failures"`
	// connections that did not end at the processor under test (another process on the same port); they were replaced
	Strangers int64  `json:"strangers"`
	Bad       []bad  `json:"bad"`
	Err       string `json:"err,omitempty"`
}

func concurrent(args []string) error {
	fs := flag.NewFlagSet("c13-concurrent", flag.ContinueOnError)
	out := fs.String("out", "", "results (ndjson)")
	clients := fs.Int("clients", 6, "concurrent clients")
	ops := fs.Int("ops", 40, "writes per client")
	short := fs.Int("short", 1536, "short-stream writes per client")
	if err := fs.Parse(args); err != nil {
		return err
	}
	w, err := newLineWriter(*out)
	if err != nil {
		return err
	}
	defer w.Close()
	sut.FastRefresh()
	const thr = 64
	e, err := newEnv("enabled", thr)
	if err != nil {
		return err
	}
	defer e.close()

	var mu sync.Mutex
	res := concResult{Case: fmt.Sprintf("%d clients x %d writes", *clients, *ops)}
	addBad := func(sig, what string) {
		mu.Lock()
		if len(res.Bad) < 50 {
			res.Bad = append(res.Bad, bad{Sig: sig, What: what})
			// at once: a processor that panics later takes the driver along, what was seen stands
			w.Write(concResult{Case: res.Case + " (partial)", Bad: []bad{{Sig: sig, What: what}}})
		}
		mu.Unlock()
	}
	var stop int32
	var side sync.WaitGroup
	// slots of keys in use change owner
	keysInUse := make(chan string, 1024)
	side.Add(1)
	go func() {
		defer side.Done()
		rnd := rand.New(rand.NewSource(cli.Seed() + 77))
		for atomic.LoadInt32(&stop) == 0 {
			select {
			case k := <-keysInUse:
				if rnd.Intn(4) == 0 {
					e.cl.MoveSlot(simredis.Slot([]byte(k)), rnd.Intn(3))
					mu.Lock()
					res.Moves++
					mu.Unlock()
				}
			case <-time.After(time.Millisecond):
			}
		}
	}()
	// compression is switched off and on again (the decompress hook stays in both)
	side.Add(1)
	go func() {
		defer side.Done()
		on := true
		for atomic.LoadInt32(&stop) == 0 {
			time.Sleep(7 * time.Millisecond)
			on = !on
			c := "disabled"
			if on {
				c = "enabled"
			}
			if e.setConfig(c, thr) == nil {
				mu.Lock()
				res.Flips++
				mu.Unlock()
			}
		}
	}()

	classes := []string{"comp1", "comp2", "comp1", "incomp", "small", "comp1"}
	var wg sync.WaitGroup
	for ci := 0; ci < *clients; ci++ {
		wg.Add(1)
		go func(ci int) {
			defer wg.Done()
			rnd := rand.New(rand.NewSource(cli.Seed()*100 + int64(ci)))
			c, err := dialVerified(e.px, e.cl, fmt.Sprintf("cc%d", ci))
			if err != nil {
				addBad("read-failed", "dial: "+err.Error())
				return
			}
			defer c.Close()
			for op := 0; op < *ops; op++ {
				n := 1 + rnd.Intn(3)
				vals := make([][]byte, n)
				cls := make([]string, n)
				for j := range vals {
					cls[j] = classes[rnd.Intn(len(classes))]
					vals[j] = valueOf(cls[j], thr, rnd)
					if cls[j] == "comp1" && rnd.Intn(2) == 0 {
						// all sizes, not only the smallest of the class
						vals[j] = bytes.Repeat([]byte{byte('a' + rnd.Intn(26)), byte('a' + rnd.Intn(26))}, 40+rnd.Intn(4000))
					}
				}
				origs := make([][]byte, n)
				for j := range vals {
					origs[j] = append([]byte{}, vals[j]...)
				}
				hash := rnd.Intn(2) == 0
				base := fmt.Sprintf("cc:%d:%d", ci, op)
				var args [][]byte
				var keys, fields []string
				name := ""
				switch {
				case n == 1:
					wc := writeCmds[rnd.Intn(len(writeCmds))]
					hash, name = wc.hash, wc.name
					args = wc.args(base, vals[0])
					keys, fields = []string{base}, []string{"f0"}
				case hash:
					name = []string{"hmset", "HSET"}[rnd.Intn(2)]
					args = [][]byte{[]byte(name), []byte(base)}
					for j := range vals {
						fields = append(fields, fmt.Sprintf("f%d", j))
						args = append(args, []byte(fields[j]), vals[j])
					}
				default:
					name = "MSET"
					args = [][]byte{[]byte(name)}
					for j := range vals {
						keys = append(keys, fmt.Sprintf("%s:%d", base, j))
						args = append(args, []byte(keys[j]), vals[j])
					}
				}
				select {
				case keysInUse <- base:
				default:
				}
				v, err := c.DoB(replyTO, args...)
				if err != nil {
					addBad("read-failed", fmt.Sprintf("%s %s: %v", name, base, err))
					return
				}
				if infraErr(v) {
					addBad("read-failed", fmt.Sprintf("%s %s: %v", name, base, v))
					continue
				}
				if v.IsErr() {
					addBad("write-failed/concurrent", fmt.Sprintf("%s %s: %v", name, base, v))
					continue
				}
				mu.Lock()
				res.Writes++
				res.Values += n
				mu.Unlock()
				// at the backend
				for j := range vals {
					var stored []byte
					found := false
					if hash {
						if ent, ok := e.find(base); ok && ent.Hash != nil {
							stored, found = ent.Hash[fields[j]]
						}
					} else if ent, ok := e.find(keys[j]); ok {
						stored, found = ent.Str, true
					}
					if !found {
						addBad("write-lost/concurrent", fmt.Sprintf("%s %s: value %d of %d is on no node", name, base, j+1, n))
						continue
					}
					if !bytes.Equal(stored, origs[j]) {
						mu.Lock()
						res.Packed++
						mu.Unlock()
					}
					if ok, why := storedFormOK(stored, origs[j]); !ok {
						addBad("stored-form/concurrent/"+cls[j], fmt.Sprintf("%s, value %d of %d (%d bytes, %s) written by one of %d concurrent clients: %s", name, j+1, n, len(origs[j]), cls[j], *clients, why))
					}
				}
				// read back
				got := make([][]byte, n)
				rname := ""
				switch {
				case hash && rnd.Intn(2) == 0:
					rname = "HGETALL"
					v, err = c.Do(replyTO, "HGETALL", base)
					m := pairs(v)
					for j := range got {
						got[j] = m[fields[j]]
					}
				case hash:
					rname = "HGET"
					for j := range got {
						v, err = c.Do(replyTO, "HGET", base, fields[j])
						if err != nil {
							break
						}
						got[j] = v.Str
					}
				case rnd.Intn(2) == 0:
					rname = "MGET"
					v, err = c.Do(replyTO, append([]string{"MGET"}, keys...)...)
					for j := range got {
						if j < len(v.Arr) {
							got[j] = v.Arr[j].Str
						}
					}
				default:
					rname = "GET"
					for j := range got {
						v, err = c.Do(replyTO, "GET", keys[j])
						if err != nil {
							break
						}
						got[j] = v.Str
					}
				}
				if err != nil {
					addBad("read-failed", fmt.Sprintf("%s %s: %v", rname, base, err))
					return
				}
				if infraErr(v) {
					addBad("read-failed", fmt.Sprintf("%s %s: %v", rname, base, v))
					continue
				}
				for j := range got {
					if !bytes.Equal(got[j], origs[j]) {
						addBad("read-back/concurrent", fmt.Sprintf("%s after %s, value %d of %d: read %d bytes (%q...), wrote %d bytes (%q...)", rname, name, j+1, n, len(got[j]), clip(got[j]), len(origs[j]), clip(origs[j])))
					}
				}
			}
		}(ci)
	}
	wg.Wait()
	atomic.StoreInt32(&stop, 1)
	side.Wait()
	res.Failures = e.failures()
	res.Strangers = strangers.Load()
	if err := w.Write(res); err != nil {
		return err
	}
	return shortStreams(w, *short)
}

// Short streams (Compress.tla: comp1 values near the threshold, busy = TRUE; OwnFrame): the writers of ALL backend
// connections compress at the same instant, values whose snappy stream is a few dozen bytes (short runs of one character)
// and values just above. Every node gets its own pipelining clients, so that the writer of its connection always has
// work; compression stays on, no slot moves. A value tells who wrote it (the character) and which write it was (the
// length), so a value that ends up under another key is recognisable.
func shortStreams(w *lineWriter, perClient int) error {
	const thr = 64
	e, err := newEnvN("enabled", thr, 8) // eight backend connections, eight writers
	if err != nil {
		return err
	}
	defer e.close()
	res := concResult{Case: fmt.Sprintf("short streams: %d nodes x 4 clients x %d writes in bursts of 32, the backend writers let go together", len(e.cl.Nodes), perClient)}
	var mu sync.Mutex
	addBad := func(sig, what string) {
		mu.Lock()
		if len(res.Bad) < 50 {
			res.Bad = append(res.Bad, bad{Sig: sig, What: what})
			w.Write(concResult{Case: res.Case + " (partial)", Bad: []bad{{Sig: sig, What: what}}})
		}
		mu.Unlock()
	}
	// lengths by the size of the stream the harness' own snappy produces: <= 58 bytes (it fits behind a 6 byte header
	// in 64 bytes) and just above
	var short, above []int
	for n := 100; n <= 4000 && (len(short) < 400 || len(above) < 100); n++ {
		l := len(snappyStream(bytes.Repeat([]byte{'x'}, n)))
		if l <= 58 {
			short = append(short, n)
		} else if l <= 90 {
			above = append(above, n)
		}
	}
	if len(short) < 50 {
		return fmt.Errorf("no values with a short stream found")
	}
	type wr struct {
		key string
		val []byte
	}
	const perNode = 4 // clients per node
	const burst = 32  // requests a session keeps outstanding
	nclients := perNode * len(e.cl.Nodes)
	written := make([][]wr, nclients)
	conns := make([]*sut.Client, nclients)
	rounds := (perClient + burst - 1) / burst
	for ci := range conns {
		if conns[ci], err = dialVerified(e.px, e.cl, fmt.Sprintf("ss%d", ci)); err != nil {
			return err
		}
		defer conns[ci].Close()
		idx := ci % len(e.cl.Nodes)
		rnd := rand.New(rand.NewSource(cli.Seed()*1000 + int64(ci)))
		for op := 0; op < rounds*burst; op++ {
			n := short[(op*7+ci)%len(short)]
			if op%10 == 9 && len(above) > 0 {
				n = above[rnd.Intn(len(above))]
			}
			written[ci] = append(written[ci], wr{e.cl.KeyFor(idx, fmt.Sprintf("ss:%d:%d:", ci, op)), bytes.Repeat([]byte{byte('A' + ci)}, n)})
		}
	}
	// "at the same instant": the writers of all backend connections are held at the top of their loop (hook
	// client.loopWrite.select) while every client hands over a burst, then let go together - each works through a queue of
	// perNode x burst requests while the others do the same
	addrs := map[string]bool{}
	for _, n := range e.cl.Nodes {
		addrs[n.Addr] = true
	}
	sc := sched.New(func(point string, a, b interface{}) string {
		if point != "client.loopWrite.select" && point != "client.Send.enqueued" {
			return ""
		}
		if d := predis.VerifDescribe(a); d.Kind != "client" || !addrs[d.Addr] {
			return ""
		}
		if point == "client.loopWrite.select" {
			return "W"
		}
		return "E"
	})
	defer sc.Uninstall()
	for r := 0; r < rounds; r++ {
		sc.Install()
		sc.Gate("W")
		e0 := sc.Arrived("E")
		for ci := range conns {
			var raw []byte
			for _, x := range written[ci][r*burst : (r+1)*burst] {
				raw = append(raw, resp.Bytes(resp.CmdB([]byte("SET"), []byte(x.key), x.val))...)
			}
			conns[ci].Send(raw)
		}
		sc.WaitArrived("E", e0+nclients*burst, 5*time.Second) // all handed over (or as many as the queues take)
		// let go - and take the hook function away, so that the writers do not queue up at the hook's own lock
		sc.Uninstall()
		for ci := range conns {
			for j := r * burst; j < (r+1)*burst; j++ {
				v, err := conns[ci].Recv(replyTO)
				if err != nil {
					res.Err = fmt.Sprintf("SET %s: no reply: %v", written[ci][j].key, err)
					return w.Write(res)
				}
				if v.IsErr() {
					addBad("read-failed", fmt.Sprintf("SET %s: %v", written[ci][j].key, v))
				}
			}
		}
	}
	sc.Uninstall()
	// what reached the backend, and what comes back
	for ci := range conns {
		for _, x := range written[ci] {
			res.Writes++
			res.Values++
			ent, ok := e.find(x.key)
			if !ok {
				addBad("write-lost/concurrent", fmt.Sprintf("SET %s: on no node", x.key))
				continue
			}
			if !bytes.Equal(ent.Str, x.val) {
				res.Packed++
			}
			if ok, why := storedFormOK(ent.Str, x.val); !ok {
				who := ""
				if dec, err := decodeSnappyStream(ent.Str[minInt(len(ent.Str), 6):]); err == nil && len(dec) > 0 {
					who = fmt.Sprintf(" (it holds %d x %q: a value of client %d)", len(dec), dec[:1], int(dec[0]-'A'))
				}
				addBad("stored-form/concurrent/short-stream", fmt.Sprintf("SET of %d x %q by client %d while %d clients write to %d nodes: %s%s", len(x.val), x.val[:1], ci, nclients, len(e.cl.Nodes), why, who))
			}
		}
		const batch = 100
	reads:
		for lo := 0; lo < len(written[ci]); lo += batch {
			hi := minInt(lo+batch, len(written[ci]))
			var raw []byte
			for _, x := range written[ci][lo:hi] {
				raw = append(raw, resp.Bytes(resp.Cmd("GET", x.key))...)
			}
			conns[ci].Send(raw)
			for _, x := range written[ci][lo:hi] {
				v, err := conns[ci].Recv(replyTO)
				if err != nil {
					addBad("read-failed", fmt.Sprintf("GET %s: %v", x.key, err))
					break reads
				}
				if !bytes.Equal(v.Str, x.val) && !infraErr(v) {
					addBad("read-back/concurrent/short-stream", fmt.Sprintf("GET after SET of %d x %q by client %d: read %d bytes (%q...)", len(x.val), x.val[:1], ci, len(v.Str), clip(v.Str)))
				}
			}
		}
	}
	res.Failures = e.failures()
	res.Strangers = strangers.Load()
	return w.Write(res)
}

func minInt(a, b int) int {
	if a < b {
		return a
	}
	return b
}
