package c13

import (
	"bytes"
	"flag"
	"fmt"
	"math/rand"
	"sync"
	"sync/atomic"
	"time"

	"verifharness/internal/cli"
	"verifharness/internal/simredis"
	"verifharness/internal/sut"
)

// Concurrent writers (Compress.tla: writes with busy = TRUE): several clients write values of every class with every
// write command through one processor at the same time, while slots change owner (genuine MOVED redirections) and
// compression is switched off and on; every value is judged at the backend and read back by its writer.

type concResult struct {
	Case   string `json:"case"`
	Writes int    `json:"writes"`
	Values int    `json:"values"`
	Packed int    `json:"packed"`
	Moves  int    `json:"moves"`
	Flips  int    `json:"flips"`
	// backend requests of the processor that ended with an error reply (connect failures ...): with any, only the
	// stored form of what did reach a node is judged
	Failures int64 `json:"failures"`
	// connections that did not end at the processor under test (another process on the same port); they were replaced
	Strangers int64  `json:"strangers"`
	Bad       []bad  `json:"bad"`
	Err       string `json:"err,omitempty"`
}

func concurrent(args []string) error {
	fs := flag.NewFlagSet("c13-concurrent", flag.ContinueOnError)
	out := fs.String("out", "", "results (ndjson)")
	clients := fs.Int("clients", 6, "concurrent clients")
	ops := fs.Int("ops", 40, "writes per client")
	if err := fs.Parse(args); err != nil {
		return err
	}
	w, err := newLineWriter(*out)
	if err != nil {
		return err
	}
	defer w.Close()
	sut.FastRefresh()
	const thr = 64
	e, err := newEnv("enabled", thr)
	if err != nil {
		return err
	}
	defer e.close()

	var mu sync.Mutex
	res := concResult{Case: fmt.Sprintf("%d clients x %d writes", *clients, *ops)}
	addBad := func(sig, what string) {
		mu.Lock()
		if len(res.Bad) < 50 {
			res.Bad = append(res.Bad, bad{Sig: sig, What: what})
			// at once: a processor that panics later takes the driver along, what was seen stands
			w.Write(concResult{Case: res.Case + " (partial)", Bad: []bad{{Sig: sig, What: what}}})
		}
		mu.Unlock()
	}
	var stop int32
	var side sync.WaitGroup
	// slots of keys in use change owner
	keysInUse := make(chan string, 1024)
	side.Add(1)
	go func() {
		defer side.Done()
		rnd := rand.New(rand.NewSource(cli.Seed() + 77))
		for atomic.LoadInt32(&stop) == 0 {
			select {
			case k := <-keysInUse:
				if rnd.Intn(4) == 0 {
					e.cl.MoveSlot(simredis.Slot([]byte(k)), rnd.Intn(3))
					mu.Lock()
					res.Moves++
					mu.Unlock()
				}
			case <-time.After(time.Millisecond):
			}
		}
	}()
	// compression is switched off and on again (the decompress hook stays in both)
	side.Add(1)
	go func() {
		defer side.Done()
		on := true
		for atomic.LoadInt32(&stop) == 0 {
			time.Sleep(7 * time.Millisecond)
			on = !on
			c := "disabled"
			if on {
				c = "enabled"
			}
			if e.setConfig(c, thr) == nil {
				mu.Lock()
				res.Flips++
				mu.Unlock()
			}
		}
	}()

	classes := []string{"comp1", "comp2", "comp1", "incomp", "small", "comp1"}
	var wg sync.WaitGroup
	for ci := 0; ci < *clients; ci++ {
		wg.Add(1)
		go func(ci int) {
			defer wg.Done()
			rnd := rand.New(rand.NewSource(cli.Seed()*100 + int64(ci)))
			c, err := dialVerified(e.px, e.cl, fmt.Sprintf("cc%d", ci))
			if err != nil {
				addBad("read-failed", "dial: "+err.Error())
				return
			}
			defer c.Close()
			for op := 0; op < *ops; op++ {
				n := 1 + rnd.Intn(3)
				vals := make([][]byte, n)
				cls := make([]string, n)
				for j := range vals {
					cls[j] = classes[rnd.Intn(len(classes))]
					vals[j] = valueOf(cls[j], thr, rnd)
					if cls[j] == "comp1" && rnd.Intn(2) == 0 {
						// all sizes, not only the smallest of the class
						vals[j] = bytes.Repeat([]byte{byte('a' + rnd.Intn(26)), byte('a' + rnd.Intn(26))}, 40+rnd.Intn(4000))
					}
				}
				origs := make([][]byte, n)
				for j := range vals {
					origs[j] = append([]byte{}, vals[j]...)
				}
				hash := rnd.Intn(2) == 0
				base := fmt.Sprintf("cc:%d:%d", ci, op)
				var args [][]byte
				var keys, fields []string
				name := ""
				switch {
				case n == 1:
					wc := writeCmds[rnd.Intn(len(writeCmds))]
					hash, name = wc.hash, wc.name
					args = wc.args(base, vals[0])
					keys, fields = []string{base}, []string{"f0"}
				case hash:
					name = []string{"hmset", "HSET"}[rnd.Intn(2)]
					args = [][]byte{[]byte(name), []byte(base)}
					for j := range vals {
						fields = append(fields, fmt.Sprintf("f%d", j))
						args = append(args, []byte(fields[j]), vals[j])
					}
				default:
					name = "MSET"
					args = [][]byte{[]byte(name)}
					for j := range vals {
						keys = append(keys, fmt.Sprintf("%s:%d", base, j))
						args = append(args, []byte(keys[j]), vals[j])
					}
				}
				select {
				case keysInUse <- base:
				default:
				}
				v, err := c.DoB(replyTO, args...)
				if err != nil {
					addBad("read-failed", fmt.Sprintf("%s %s: %v", name, base, err))
					return
				}
				if infraErr(v) {
					addBad("read-failed", fmt.Sprintf("%s %s: %v", name, base, v))
					continue
				}
				if v.IsErr() {
					addBad("write-failed/concurrent", fmt.Sprintf("%s %s: %v", name, base, v))
					continue
				}
				mu.Lock()
				res.Writes++
				res.Values += n
				mu.Unlock()
				// at the backend
				for j := range vals {
					var stored []byte
					found := false
					if hash {
						if ent, ok := e.find(base); ok && ent.Hash != nil {
							stored, found = ent.Hash[fields[j]]
						}
					} else if ent, ok := e.find(keys[j]); ok {
						stored, found = ent.Str, true
					}
					if !found {
						addBad("write-lost/concurrent", fmt.Sprintf("%s %s: value %d of %d is on no node", name, base, j+1, n))
						continue
					}
					if !bytes.Equal(stored, origs[j]) {
						mu.Lock()
						res.Packed++
						mu.Unlock()
					}
					if ok, why := storedFormOK(stored, origs[j]); !ok {
						addBad("stored-form/concurrent/"+cls[j], fmt.Sprintf("%s, value %d of %d (%d bytes, %s) written by one of %d concurrent clients: %s", name, j+1, n, len(origs[j]), cls[j], *clients, why))
					}
				}
				// read back
				got := make([][]byte, n)
				rname := ""
				switch {
				case hash && rnd.Intn(2) == 0:
					rname = "HGETALL"
					v, err = c.Do(replyTO, "HGETALL", base)
					m := pairs(v)
					for j := range got {
						got[j] = m[fields[j]]
					}
				case hash:
					rname = "HGET"
					for j := range got {
						v, err = c.Do(replyTO, "HGET", base, fields[j])
						if err != nil {
							break
						}
						got[j] = v.Str
					}
				case rnd.Intn(2) == 0:
					rname = "MGET"
					v, err = c.Do(replyTO, append([]string{"MGET"}, keys...)...)
					for j := range got {
						if j < len(v.Arr) {
							got[j] = v.Arr[j].Str
						}
					}
				default:
					rname = "GET"
					for j := range got {
						v, err = c.Do(replyTO, "GET", keys[j])
						if err != nil {
							break
						}
						got[j] = v.Str
					}
				}
				if err != nil {
					addBad("read-failed", fmt.Sprintf("%s %s: %v", rname, base, err))
					return
				}
				if infraErr(v) {
					addBad("read-failed", fmt.Sprintf("%s %s: %v", rname, base, v))
					continue
				}
				for j := range got {
					if !bytes.Equal(got[j], origs[j]) {
						addBad("read-back/concurrent", fmt.Sprintf("%s after %s, value %d of %d: read %d bytes (%q...), wrote %d bytes (%q...)", rname, name, j+1, n, len(got[j]), clip(got[j]), len(origs[j]), clip(origs[j])))
					}
				}
			}
		}(ci)
	}
	wg.Wait()
	atomic.StoreInt32(&stop, 1)
	side.Wait()
	res.Failures = e.failures()
	res.Strangers = strangers.Load()
	return w.Write(res)
}
