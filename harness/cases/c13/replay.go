package c13

import (
	"bytes"
	"encoding/json"
	"flag"
	"fmt"
	"math/rand"
	"os"
	"sort"
	"strings"
	"sync"
	"sync/atomic"
	"time"

	"github.com/golang/snappy"
	pbredis "github.com/samaritan-proxy/samaritan/pb/config/protocol/redis"
	predis "github.com/samaritan-proxy/samaritan/proc/redis"
	"github.com/samaritan-proxy/samaritan/utils/verifhook"

	"verifharness/internal/cli"
	"verifharness/internal/resp"
	"verifharness/internal/simredis"
	"verifharness/internal/sut"
)

// step is one event of a CompressGen history.
type step struct {
	A    string   `json:"a"`
	C    string   `json:"c"`
	K    string   `json:"k"`
	Vals []string `json:"vals"` // classes of the value positions of a write
	R    int      `json:"r"`
	Busy bool     `json:"busy"` // other values are compressed / decompressed while the write is on its way
	D    int      `json:"d"`    // nesting depth of the reply of a read: 0 bulk, 1 flat array, 2 nested array
	Sz   []int    `json:"sz"`   // absolute sizes of the value positions (0: near the threshold)
	N    string   `json:"n"`    // the backend connection the request is first sent over ("a", "b"; "any": connection age not modelled); the node of a reconnect
}

// physical node of a modelled connection
func phys(n string) int {
	if n == "b" {
		return 1
	}
	return 0
}

func modelled(n string) bool { return n == "a" || n == "b" }

type bad struct {
	Step int    `json:"step"`
	What string `json:"what"`
	Sig  string `json:"sig"`
}

type result struct {
	ID      int      `json:"id"`
	Writes  int      `json:"writes"`
	Reads   int      `json:"reads"`
	Values  int      `json:"values"`  // value positions written
	Packed  int      `json:"packed"`  // ... of which reached the backend compressed
	Nested  int      `json:"nested"`  // values stored compressed that were read back inside a nested array
	Multi   int      `json:"multi"`   // requests that carried two or more values that reached the backend compressed
	Traffic int      `json:"traffic"` // background values written and read back while a write was on its way
	Large   int      `json:"large"`   // values of more than 512 KiB that reached the backend compressed and were read back
	Refused int      `json:"refused"` // updates with a compression section without threshold that the processor refused
	OldConn int      `json:"oldconn"` // values stored compressed that were read back over a connection made before the config became what it is
	OffConn int      `json:"offconn"` // compressible values written over a connection made while compression was enabled, after it was switched off
	Cmds    []string `json:"cmds"`
	Bad     []bad    `json:"bad"`
	Err     string   `json:"err,omitempty"`
	Infra   []string `json:"infra,omitempty"` // requests the processor could not deliver (connect failure, ...): not judged
	Log     []string `json:"log,omitempty"`   // on a violation: what every node received / answered for this history, in global order
}

// compresses reports the length of the stored form the real value compression produces for v.
func packedLen(v []byte) int { return len(predis.VerifCompressValue(v)) }

// valueOf returns a value of a class for the given threshold, verified against the real value compression.
func valueOf(cls string, thr int, rnd *rand.Rand) []byte {
	letter := byte('a' + rnd.Intn(26))
	switch cls {
	case "small":
		return bytes.Repeat([]byte{letter}, rnd.Intn(thr))
	case "comp1":
		// compresses exactly once: the stored form is shorter, and is below the threshold or does not shrink again
		isComp1 := func(v []byte) bool {
			once := predis.VerifCompressValue(v)
			return len(v) >= thr && len(once) < len(v) && (len(once) < thr || packedLen(once) >= len(once))
		}
		base := thr + rnd.Intn(8)
		if base < 40 {
			base = 40 + rnd.Intn(8)
		}
		cands := []int{base}
		if rnd.Intn(3) == 0 {
			cands = []int{base * (2 + rnd.Intn(3)), base}
		}
		for _, n := range cands {
			for k := 0; k < 64; k++ {
				if v := bytes.Repeat([]byte{letter}, n+k); isComp1(v) {
					return v
				}
			}
		}
		return nil
	case "comp2":
		// the once-compressed form must still be >= thr and shrink again
		n := 1024
		for {
			v := bytes.Repeat([]byte{letter}, n)
			once := predis.VerifCompressValue(v)
			if len(once) < len(v) && len(once) >= thr && packedLen(once) < len(once) {
				return v
			}
			n *= 2
			if n > 1<<26 {
				return nil
			}
		}
	default: // incomp
		v := make([]byte, thr+16+rnd.Intn(16))
		rnd.Read(v)
		if bytes.HasPrefix(v, predis.VerifCompressHeader()) {
			v[0] ^= 0xff
		}
		return v
	}
}

// sizedValue returns a large value of exactly n bytes: compressible (a text whose lines carry their number, so that every
// part of the value differs from every other) or incompressible (random bytes).
func sizedValue(cls string, n int, rnd *rand.Rand) []byte {
	v := make([]byte, 0, n+64)
	if cls == "incomp" {
		v = v[:n]
		rnd.Read(v)
		if bytes.HasPrefix(v, predis.VerifCompressHeader()) {
			v[0] ^= 0xff
		}
		return v
	}
	salt := rnd.Intn(1 << 20)
	for i := 0; len(v) < n; i++ {
		v = append(v, fmt.Sprintf("line %08d of a large value, salt %07d, the quick brown fox jumps over the lazy dog\n", i, salt)...)
	}
	return v[:n]
}

// storedFormOK checks the documented stored form: original, or header + one snappy stream expanding to the original and shorter.
func storedFormOK(stored, orig []byte) (bool, string) {
	if bytes.Equal(stored, orig) {
		return true, ""
	}
	hdr := predis.VerifCompressHeader()
	if !bytes.HasPrefix(stored, hdr) {
		return false, "stored bytes are neither the original nor carry the compression header"
	}
	if len(stored) >= len(orig) {
		return false, fmt.Sprintf("stored form (%d bytes) is not shorter than the original (%d bytes)", len(stored), len(orig))
	}
	dec, err := decodeSnappyStream(stored[len(hdr):])
	if err != nil {
		return false, "stored stream does not decompress: " + err.Error()
	}
	if !bytes.Equal(dec, orig) {
		return false, fmt.Sprintf("stored stream expands to %d bytes which are not the original (%d bytes): compressed more than once, or another value's stream?", len(dec), len(orig))
	}
	return true, ""
}

// snappyStream is the framed snappy encoding of v computed by the harness' own use of the library.
func snappyStream(v []byte) []byte {
	var b bytes.Buffer
	w := snappy.NewBufferedWriter(&b)
	w.Write(v)
	w.Close()
	return b.Bytes()
}

func decodeSnappyStream(b []byte) ([]byte, error) {
	r := snappy.NewReader(bytes.NewReader(b))
	var out bytes.Buffer
	_, err := out.ReadFrom(r)
	return out.Bytes(), err
}

type writeCmd struct {
	name string
	args func(key string, val []byte) [][]byte
	hash bool
}

var writeCmds = []writeCmd{
	{"SET", func(k string, v []byte) [][]byte { return [][]byte{[]byte("SET"), []byte(k), v} }, false},
	{"setnx", func(k string, v []byte) [][]byte { return [][]byte{[]byte("setnx"), []byte(k), v} }, false},
	{"GETSET", func(k string, v []byte) [][]byte { return [][]byte{[]byte("GETSET"), []byte(k), v} }, false},
	{"setex", func(k string, v []byte) [][]byte { return [][]byte{[]byte("setex"), []byte(k), []byte("1000"), v} }, false},
	{"PSETEX", func(k string, v []byte) [][]byte { return [][]byte{[]byte("PSETEX"), []byte(k), []byte("100000"), v} }, false},
	{"mset", func(k string, v []byte) [][]byte { return [][]byte{[]byte("mset"), []byte(k), v} }, false},
	{"HSET", func(k string, v []byte) [][]byte { return [][]byte{[]byte("HSET"), []byte(k), []byte("f0"), v} }, true},
	{"hmset", func(k string, v []byte) [][]byte {
		return [][]byte{[]byte("hmset"), []byte(k), []byte("g"), []byte("x"), []byte("f0"), v}
	}, true},
	{"HSETNX", func(k string, v []byte) [][]byte { return [][]byte{[]byte("HSETNX"), []byte(k), []byte("f0"), v} }, true},
}

// multi-value requests: every value position of the commands that carry several
var multiCmds = []string{"hmset", "HSET", "mset-one-slot", "MSET-spread"}

func compression(c string, thr int) *pbredis.Compression {
	switch c {
	case "enabled":
		return &pbredis.Compression{Enable: true, Threshold: uint32(thr), Algorithm: pbredis.Compression_SNAPPY}
	case "disabled":
		return &pbredis.Compression{Enable: false, Threshold: uint32(thr), Algorithm: pbredis.Compression_SNAPPY}
	}
	return nil
}

// env is a cluster of three simulated nodes, a real Redis processor in front of it and two client connections.
type env struct {
	cl    *simredis.Cluster
	px    *sut.Redis
	c, bg *sut.Client
	used  int
	sick  bool
	t0    time.Time
	trace []string // ring of node and driver events (appended under the cluster lock)
}

const traceCap = 6000

// note appends a driver event to the trace.
func (e *env) note(format string, a ...interface{}) {
	e.cl.Lock()
	e.addTrace("driver " + fmt.Sprintf(format, a...))
	e.cl.Unlock()
}

func (e *env) addTrace(s string) {
	if len(e.trace) >= traceCap {
		e.trace = append(e.trace[:0], e.trace[traceCap/2:]...)
	}
	e.trace = append(e.trace, fmt.Sprintf("%s %s", stamp(), s))
}

func stamp() string { return fmt.Sprintf("%010dus", time.Now().UnixNano()/1000%10000000000) }

// hook points of the processor (all environments of the process share them): what happens to every backend request
var (
	hookMu    sync.Mutex
	hookTrace []string
)

func installHookTrace() {
	verifhook.Set(func(point string, a, b interface{}) {
		if !strings.HasPrefix(point, "client.") && point != "simpleRequest.SetResponse" {
			return
		}
		var line string
		if point == "simpleRequest.SetResponse" {
			line = fmt.Sprintf("hook   %s req=%v resp=%.80q", point, predis.VerifDescribe(a), strings.Join(predis.VerifDescribe(b).Args, " "))
		} else if b != nil {
			line = fmt.Sprintf("hook   %s client=%s req=%v", point, predis.VerifDescribe(a).Addr, predis.VerifDescribe(b))
		} else {
			return
		}
		hookMu.Lock()
		if len(hookTrace) >= 40000 {
			hookTrace = append(hookTrace[:0], hookTrace[20000:]...)
		}
		hookTrace = append(hookTrace, stamp()+" "+line)
		hookMu.Unlock()
	})
}

func hookTraceOf(marker string) []string {
	hookMu.Lock()
	defer hookMu.Unlock()
	var out []string
	for _, l := range hookTrace {
		if strings.Contains(l, marker) {
			out = append(out, l)
		}
	}
	return out
}

// traceOf returns the events from the first one that names the marker (keys of one history carry its id) onwards:
// everything every node received and answered meanwhile, in global order.
func (e *env) traceOf(marker string) []string {
	e.cl.Lock()
	defer e.cl.Unlock()
	first := -1
	for i, l := range e.trace {
		if strings.Contains(l, marker) {
			first = i
			break
		}
	}
	if first < 0 {
		return nil
	}
	out := append([]string{}, e.trace[first:]...)
	if len(out) > 600 {
		out = out[:600]
	}
	return out
}

func newEnv(cfg string, thr int) (*env, error) { return newEnvN(cfg, thr, 3) }

func newEnvN(cfg string, thr, masters int) (*env, error) {
	cl, err := simredis.NewCluster(masters, 0)
	if err != nil {
		return nil, err
	}
	e := &env{cl: cl, t0: time.Now()}
	cl.Trace = func(ev simredis.Event) { // called under the cluster lock
		if ev.Rec == nil || (ev.Kind != "recv" && ev.Kind != "reply") {
			return
		}
		var a []string
		for i, x := range ev.Rec.Args {
			if i >= 3 {
				break
			}
			a = append(a, string(clip(x)))
		}
		rep := ev.Rec.Reply.String()
		if ev.Rec.RawRepl != nil {
			rep = string(ev.Rec.RawRepl)
		}
		if len(rep) > 60 {
			rep = rep[:60]
		}
		e.addTrace(fmt.Sprintf("node%d conn%d seq%d %-5s %s served=%v -> %q", ev.Node, ev.Conn, ev.Rec.Seq, ev.Kind, strings.Join(a, " "), ev.Rec.Served, rep))
	}
	var conns []*sut.Client
	e.px, conns, err = startProxy(cl, compression(cfg, thr), 2)
	if err != nil {
		cl.Close()
		return nil, err
	}
	e.c, e.bg = conns[0], conns[1]
	return e, nil
}

// startProxy starts a processor in front of cl and opens n client connections that are proven to end at it.
// The processor's port is chosen by closing a listener and binding again (sut.FreePort): when many harness processes
// run side by side another process can take the port in between, the processor keeps retrying its bind, and a client
// that dials the address talks to a stranger (another copy's processor or node). Every connection therefore sends one
// probe per node which must show up in that node's own log; otherwise everything is torn down and started again.
// The probes also make the processor connect to every node before the test starts: it connects on first use, on a
// loaded machine that can take long, and a request that meets a failed connect is answered with the dial error (a child
// of MSET even silently, the parent says +OK).
func startProxy(cl *simredis.Cluster, comp *pbredis.Compression, n int) (*sut.Redis, []*sut.Client, error) {
	var last error
	for attempt := 0; attempt < 6; attempt++ {
		px, err := sut.StartRedis(sut.RedisOpts{Compression: comp, ConnectTO: connectTO}, cl.Addrs())
		if err != nil {
			last = fmt.Errorf("start: %v", err)
			continue
		}
		var conns []*sut.Client
		fail := func(err error) {
			last = err
			for _, c := range conns {
				c.Close()
			}
			sut.StopWithin(px.P, 5*time.Second)
		}
		if !sut.WaitRefresh(px.Name, 30*time.Second) {
			fail(fmt.Errorf("slot table not loaded"))
			continue
		}
		ok := true
		for ci := 0; ci < n && ok; ci++ {
			c, err := sut.Dial(px.Addr)
			if err != nil {
				fail(err)
				ok = false
				break
			}
			conns = append(conns, c)
			for idx, node := range cl.Nodes {
				key := cl.KeyFor(idx, fmt.Sprintf("probe:%s:%d:%d:", px.Name, attempt, ci))
				v, err := c.Do(replyTO, "GET", key)
				seen := false
				for _, r := range node.Records() {
					if len(r.Args) == 2 && string(r.Args[1]) == key {
						seen = true
					}
				}
				if err != nil || v.IsErr() || !seen {
					fail(fmt.Errorf("connection %d to %s does not end at the processor under test (probe of node %d: %v %v, seen by the node: %v)", ci, px.Addr, idx, v, err, seen))
					ok = false
					break
				}
			}
		}
		if ok {
			return px, conns, nil
		}
	}
	return nil, nil, last
}

// dialVerified opens a client connection to the processor and proves that it ends there: a probe sent over it must show
// up in the log of one of the cluster's own nodes.
func dialVerified(px *sut.Redis, cl *simredis.Cluster, tag string) (*sut.Client, error) {
	var last error
	for try := 0; try < 20; try++ {
		c, err := sut.Dial(px.Addr)
		if err != nil {
			last = err
			time.Sleep(5 * time.Millisecond)
			continue
		}
		key := fmt.Sprintf("probe:%s:%s:%d", px.Name, tag, try)
		v, err := c.Do(replyTO, "GET", key)
		seen := false
		for _, n := range cl.Nodes {
			for _, r := range n.Records() {
				if len(r.Args) == 2 && string(r.Args[1]) == key {
					seen = true
				}
			}
		}
		if err == nil && !v.IsErr() && seen {
			return c, nil
		}
		last = fmt.Errorf("connection to %s does not end at the processor under test (probe: %v %v)", px.Addr, v, err)
		strangers.Add(1)
		c.Close()
		time.Sleep(5 * time.Millisecond)
	}
	return nil, last
}

// strangers counts connections that ended somewhere else (another process on the same port).
var strangers atomic.Int64

// connectTO is the processor's connect timeout towards the nodes: generous, the machine may be heavily loaded and a
// failed connect is a fault of the environment, not of the compression.
const connectTO = 20 * time.Second

// replyTO is the deadline for a reply. A reply that does not come is not a verdict about compression: the history is
// reported as not replayed (and the check turns inconclusive when that happens often).
const replyTO = connectTO + 5*time.Second

// infraErr recognises error replies the processor produces when it cannot talk to a node (not a verdict about compression).
func infraErr(v resp.Value) bool {
	if !v.IsErr() {
		for _, x := range v.Arr {
			if infraErr(x) {
				return true
			}
		}
		return false
	}
	t := string(v.Str)
	for _, m := range []string{"dial tcp", "i/o timeout", "exited", "connection refused", "connection reset", "broken pipe", "EOF", "closed network connection"} {
		if strings.Contains(t, m) {
			return true
		}
	}
	return false
}

// failures is the processor's count of backend requests that ended with an error reply (connect failures included).
func (e *env) failures() int64 { return sut.ServiceStats(e.px.Name)["upstream.rq_failure_total"] }

func (e *env) close() {
	if e.c != nil {
		e.c.Close()
	}
	if e.bg != nil {
		e.bg.Close()
	}
	if e.px != nil {
		sut.StopWithin(e.px.P, 5*time.Second)
	}
	e.cl.Close()
}

func (e *env) setConfig(c string, thr int) error {
	cfg := sut.RedisConfig(sut.RedisOpts{Port: portOf(e.px.Addr), Compression: compression(c, thr)})
	return e.px.P.OnSvcConfigUpdate(cfg)
}

// ungate lets a node answer again. simredis writes released replies outside its lock: when several held replies are
// flushed at once, the reply to a command that arrives on the same connection meanwhile (the processor asks for CLUSTER
// NODES as soon as it sees the first MOVED) can be written between them - the node would answer out of order on one
// connection, which no Redis does, and the processor would pair the replies with the wrong requests. So the held replies
// are released one at a time while the gate stays on (later replies queue up behind), and the gate is switched off only
// when nothing is held.
func ungate(n *simredis.Node) {
	for i := 0; i < 100000; i++ {
		if n.Pending() == 0 {
			time.Sleep(300 * time.Microsecond)
			if n.Pending() == 0 {
				break
			}
		}
		n.Release(1)
	}
	n.SetGate(false)
}

// hops arranges r redirections for the next request naming key and returns the node that will serve it.
func (e *env) hops(key string, r int) int {
	// scripted replies left over from an earlier step (a redirection chain the request did not walk to its end because the
	// processor's table was ahead of it) must not fire now
	for _, n := range e.cl.Nodes {
		n.ClearScripts()
	}
	slot := simredis.Slot([]byte(key))
	cur := e.cl.Owner(slot)
	if r == 0 {
		return cur
	}
	time.Sleep(15 * time.Millisecond) // let the proxy's table catch up with earlier moves
	var hs []int
	for i := 0; i < r; i++ {
		cur = (cur + 1) % 3
		hs = append(hs, cur)
	}
	e.cl.Bounce(key, hs)
	return cur
}

// find returns the entry of key on whichever master holds it. The nodes are looked at one after the other: while slots
// change owner concurrently a key can move behind the scan, so a miss is confirmed by further scans.
func (e *env) find(key string) (*simredis.Entry, bool) {
	for try := 0; try < 6; try++ {
		for _, n := range e.cl.Masters() {
			if ent, ok := n.Get(key); ok {
				return ent, true
			}
		}
		time.Sleep(time.Duration(try) * 300 * time.Microsecond)
	}
	return nil, false
}

// traffic builds a pipeline of n SETs with compressible values on keys that node `avoid` does not own; they are read back
// afterwards, one by one (a GET pipelined behind its SET may legitimately overtake it when the SET is redirected).
type trafficItem struct {
	key string
	val []byte
}

func (e *env) traffic(id, seq, n, avoid int, rnd *rand.Rand) ([]byte, []trafficItem) {
	var raw []byte
	var items []trafficItem
	for i := 0; i < n; i++ {
		idx := rnd.Intn(3)
		if idx == avoid {
			idx = (idx + 1) % 3
		}
		key := e.cl.KeyFor(idx, fmt.Sprintf("bg:%d:%d:%d:", id, seq, i))
		val := bytes.Repeat([]byte{byte('A' + rnd.Intn(26)), byte('0' + rnd.Intn(10))}, 300+rnd.Intn(3000))
		items = append(items, trafficItem{key, val})
		raw = append(raw, resp.Bytes(resp.CmdB([]byte("SET"), []byte(key), val))...)
	}
	return raw, items
}

func (e *env) dataCommands() int {
	n := 0
	for _, nd := range e.cl.Nodes {
		n += len(simredis.DataCommands(nd.Records()))
	}
	return n
}

type wrote struct {
	hash   bool
	key    string   // hash: the key; strings: the first key
	fields []string // hash fields, one per value
	keys   []string // string keys, one per value
	origs  [][]byte
	packed []bool // reached the backend compressed
}

type replayer struct {
	e   *env
	rnd *rand.Rand
	thr int
	id  int
	res *result
	seq int
	// keys that are read back with a command whose reply nests arrays
	needHash map[string]bool
	curCfg   string
	bareAck  bool // an update with a compression section without threshold was acknowledged
	// histories with connection age: the config under which the connection to each node was made
	connCfg map[int]string
}

// reconnect breaks the processor's connection to node idx and waits until a new one is made (under the current config).
func (e *env) reconnect(idx int) error {
	node := e.cl.Nodes[idx]
	before := node.AcceptCount()
	node.ResetConns(true)
	key := e.cl.KeyFor(idx, "reco:")
	dl := time.Now().Add(connectTO)
	for time.Now().Before(dl) {
		v, err := e.c.Do(replyTO, "TYPE", key) // the first request may still meet the dying connection and fail
		if err != nil {
			e.sick = true
			return fmt.Errorf("reconnect node %d: no reply: %v", idx, err)
		}
		if !v.IsErr() && node.AcceptCount() > before && node.ConnCount() >= 1 {
			e.note("reconnected node%d", idx)
			return nil
		}
		time.Sleep(time.Millisecond)
	}
	return fmt.Errorf("reconnect node %d: the processor did not connect again", idx)
}

// routeVia makes node idx the owner of key's slot and waits until the processor sends requests for the key straight to
// it: the next request for the key passes the filter of the connection to that node.
func (e *env) routeVia(key string, idx int) error {
	slot := simredis.Slot([]byte(key))
	if e.cl.Owner(slot) != idx {
		e.cl.MoveSlot(slot, idx)
		e.note("slot %d of %s moved to node%d", slot, key, idx)
	}
	dl := time.Now().Add(connectTO)
	for time.Now().Before(dl) {
		r0 := atomic.LoadInt64(&e.cl.Redirects)
		if _, err := e.c.Do(replyTO, "TYPE", key); err != nil {
			e.sick = true
			return fmt.Errorf("routing %s via node %d: no reply: %v", key, idx, err)
		}
		if atomic.LoadInt64(&e.cl.Redirects) == r0 {
			return nil
		}
		time.Sleep(2 * time.Millisecond)
	}
	return fmt.Errorf("routing %s via node %d: the processor keeps being redirected", key, idx)
}

// mix spreads the choice of the concrete command over the histories independently of their enumeration order.
func mix(id, i int) int { return int((uint32(id)*2654435761 + uint32(i)*40503) >> 7) }

func (p *replayer) addBad(i int, sig, what string) {
	p.res.Bad = append(p.res.Bad, bad{Step: i, What: what, Sig: sig})
}

// netTrouble marks the environment unusable (the connection is out of step after a missing reply).
func (p *replayer) netTrouble() { p.e.sick = true }

func (p *replayer) write(i int, st step, variant int) *wrote {
	e, rnd := p.e, p.rnd
	c := e.c
	n := len(st.Vals)
	vals := make([][]byte, n)
	for j, cls := range st.Vals {
		if j < len(st.Sz) && st.Sz[j] > 0 {
			vals[j] = sizedValue(cls, st.Sz[j], rnd)
			continue
		}
		vals[j] = valueOf(cls, p.thr, rnd)
		if vals[j] == nil {
			p.res.Err = "no value of class " + cls
			return nil
		}
	}
	w := &wrote{packed: make([]bool, n)}
	for _, v := range vals {
		w.origs = append(w.origs, append([]byte{}, v...))
	}
	var args [][]byte
	var name string
	if n == 1 {
		wc := writeCmds[variant%len(writeCmds)]
		if p.needHash[st.K] {
			wc = writeCmds[6+variant%3]
		}
		name = wc.name
		w.hash = wc.hash
		w.key = fmt.Sprintf("%s:%d:%v", st.K, p.id, wc.hash)
		if wc.hash {
			w.fields = []string{"f0"}
		} else {
			w.keys = []string{w.key}
		}
		args = wc.args(w.key, vals[0])
		if wc.name == "setnx" || wc.name == "HSETNX" {
			// make sure the conditional write takes effect
			if _, err := c.DoB(replyTO, []byte("del"), []byte(w.key)); err != nil {
				p.netTrouble()
				p.res.Err = fmt.Sprintf("del %s: no reply: %v", w.key, err)
				return nil
			}
		}
	} else {
		name = multiCmds[variant%len(multiCmds)]
		if modelled(st.N) {
			name = multiCmds[variant%3] // every value over the same connection: one slot
		}
		if p.needHash[st.K] {
			name = multiCmds[variant%2]
		}
		switch name {
		case "hmset", "HSET":
			w.hash = true
			w.key = fmt.Sprintf("%s:%d:true", st.K, p.id)
			args = [][]byte{[]byte(name), []byte(w.key)}
			for j := range vals {
				f := fmt.Sprintf("f%d", j)
				w.fields = append(w.fields, f)
				args = append(args, []byte(f), vals[j])
			}
		default:
			args = [][]byte{[]byte(name[:4])}
			for j := range vals {
				k := fmt.Sprintf("{%s:%d:false}:%d", st.K, p.id, j)
				if name == "MSET-spread" {
					k = fmt.Sprintf("%s:%d:false:%d", st.K, p.id, j)
				}
				w.keys = append(w.keys, k)
				args = append(args, []byte(k), vals[j])
			}
			w.key = w.keys[0]
		}
	}
	p.res.Cmds = append(p.res.Cmds, name)
	req := resp.Bytes(resp.CmdB(args...))
	if modelled(st.N) {
		if err := e.routeVia(w.key, phys(st.N)); err != nil {
			p.res.Err = err.Error()
			return nil
		}
	}
	from := e.cl.Owner(simredis.Slot([]byte(w.key)))
	failed := e.failures()
	final := e.hops(w.key, st.R)
	e.note("history :%d: step %d %s key %s slot %d owner node%d redirections %d -> node%d busy=%v", p.id, i, name, w.key, simredis.Slot([]byte(w.key)), from, st.R, final, st.Busy)
	var v resp.Value
	var err error
	switch {
	case st.Busy && st.R > 0:
		// hold the redirection of the first send, let other values pass through the proxy, then let the write go on
		node := e.cl.Nodes[from]
		slot := simredis.Slot([]byte(w.key))
		p.seq++
		raw, items := e.traffic(p.id, p.seq, 3, from, rnd)
		node.SetGate(true)
		e.note("history :%d: gate on node%d", p.id, from)
		c.Send(req)
		dl := time.Now().Add(2 * time.Second)
		for e.cl.Owner(slot) == from && time.Now().Before(dl) {
			time.Sleep(200 * time.Microsecond)
		}
		before := e.dataCommands()
		e.bg.Send(raw)
		dl = time.Now().Add(500 * time.Millisecond)
		for e.dataCommands() < before+len(items) && time.Now().Before(dl) {
			time.Sleep(200 * time.Microsecond)
		}
		e.note("history :%d: gate off node%d (held %d)", p.id, from, node.Pending())
		ungate(node)
		v, err = c.Recv(replyTO)
		e.note("history :%d: reply %v %v", p.id, v, err)
		p.recvTraffic(i, items)
	case st.Busy:
		p.seq++
		raw, items := e.traffic(p.id, p.seq, 3, -1, rnd)
		e.bg.Send(raw)
		c.Send(req)
		v, err = c.Recv(replyTO)
		p.recvTraffic(i, items)
	default:
		c.Send(req)
		v, err = c.Recv(replyTO)
	}
	if err != nil {
		p.netTrouble()
		p.res.Err = fmt.Sprintf("%s %s: no reply: %v", name, w.key, err)
		return nil
	}
	if infraErr(v) {
		p.res.Infra = append(p.res.Infra, fmt.Sprintf("%s %s: %v", name, w.key, v))
		return nil
	}
	if v.IsErr() {
		p.addBad(i, "write-failed/"+name, fmt.Sprintf("%s %s: %v %v", name, w.key, v, err))
		return nil
	}
	if now := e.failures(); now != failed {
		// a backend request ended with an error reply although the client got %v: MSET answers +OK whatever its
		// children were answered. Whatever made the child fail (a connect failure under load) is not the compression.
		p.res.Infra = append(p.res.Infra, fmt.Sprintf("%s %s answered %v although %d backend request(s) of the processor failed meanwhile", name, w.key, v, now-failed))
		return nil
	}
	// what reached the backend
	packed := 0
	for j := range vals {
		p.res.Values++
		var stored []byte
		found := false
		if w.hash {
			if ent, ok := e.find(w.key); ok && ent.Hash != nil {
				stored, found = ent.Hash[w.fields[j]]
			}
		} else if ent, ok := e.find(w.keys[j]); ok {
			stored, found = ent.Str, true
		}
		if !found {
			p.addBad(i, "write-lost/"+name, fmt.Sprintf("%s %s: value %d of %d is on no node after the reply %v", name, w.key, j+1, n, v))
			continue
		}
		if !bytes.Equal(stored, w.origs[j]) {
			w.packed[j] = true
			p.res.Packed++
			packed++
		}
		older := modelled(st.N) && p.connCfg[phys(st.N)] != p.curCfg
		if older && p.connCfg[phys(st.N)] == "enabled" && st.Vals[j] != "small" && st.Vals[j] != "incomp" {
			p.res.OffConn++
		}
		if p.curCfg != "enabled" && bytes.HasPrefix(stored, predis.VerifCompressHeader()) && !bytes.Equal(stored, w.origs[j]) {
			// Compress.tla, OffMeansOff: switched off ("enable: false") or without a compression section nothing is compressed
			sig := "stored-form/compressed-while-off"
			if older {
				sig = "stored-form/connection-older-than-config"
			}
			p.addBad(i, sig, fmt.Sprintf("%s, value %d of %d (%d bytes, %s): stored compressed (%d bytes) although compression is %s%s", name, j+1, n, len(w.origs[j]), st.Vals[j], len(stored), p.curCfg,
				map[bool]string{true: "; the connection to the node was made while it was " + p.connCfg[phys(st.N)], false: ""}[older]))
		}
		if ok, why := storedFormOK(stored, w.origs[j]); !ok {
			sig := fmt.Sprintf("stored-form/%s/redirects=%d", st.Vals[j], st.R)
			if n > 1 {
				sig = fmt.Sprintf("stored-form/multi-value/%s/redirects=%d", st.Vals[j], st.R)
			}
			p.addBad(i, sig, fmt.Sprintf("%s, value %d of %d (%d bytes, %s, classes %v) with %d redirection(s)%s: %s", name, j+1, n, len(w.origs[j]), st.Vals[j], st.Vals, st.R,
				map[bool]string{true: " and other traffic", false: ""}[st.Busy], why))
		}
	}
	if packed >= 2 && w.hash {
		p.res.Multi++
	}
	return w
}

func (p *replayer) recvTraffic(i int, items []trafficItem) {
	sets := make([]resp.Value, len(items))
	for j := range items {
		v, err := p.e.bg.Recv(replyTO)
		if err != nil {
			p.netTrouble()
			p.res.Err = fmt.Sprintf("background SET of %s: %v", items[j].key, err)
			return
		}
		sets[j] = v
	}
	for j, it := range items {
		if infraErr(sets[j]) {
			p.res.Infra = append(p.res.Infra, fmt.Sprintf("background SET of %s: %v", it.key, sets[j]))
			continue
		}
		v, err := p.e.bg.Do(replyTO, "GET", it.key)
		if err != nil {
			p.netTrouble()
			p.res.Err = fmt.Sprintf("background GET of %s: %v", it.key, err)
			return
		}
		if infraErr(v) {
			p.res.Infra = append(p.res.Infra, fmt.Sprintf("background GET of %s: %v", it.key, v))
			continue
		}
		p.res.Traffic++
		if sets[j].IsErr() || v.IsErr() || !bytes.Equal(v.Str, it.val) {
			p.addBad(i, "read-back/background-traffic", fmt.Sprintf("background SET/GET of %s: SET -> %v, GET -> %d bytes (%q...), wrote %d bytes (%q...)", it.key, sets[j], len(v.Str), clip(v.Str), len(it.val), clip(it.val)))
		}
		if ent, ok := p.e.find(it.key); ok {
			if ok, why := storedFormOK(ent.Str, it.val); !ok {
				p.addBad(i, "stored-form/background-traffic", fmt.Sprintf("background SET of %s (%d bytes): %s", it.key, len(it.val), why))
			}
		}
	}
}

// scriptHScan makes node idx answer the next HSCAN of key the way Redis does: [cursor, [field, value, ...]] with the stored bytes.
func (p *replayer) scriptHScan(key string, idx int) bool {
	ent, ok := p.e.find(key)
	if !ok || ent.Hash == nil {
		return false
	}
	var fields []string
	for f := range ent.Hash {
		fields = append(fields, f)
	}
	sort.Strings(fields)
	var items []resp.Value
	for _, f := range fields {
		items = append(items, resp.BulkS(f), resp.Bulk(ent.Hash[f]))
	}
	raw := resp.Bytes(resp.Arr(resp.BulkS("0"), resp.Arr(items...)))
	p.e.cl.Nodes[idx].Script(&simredis.Scripted{
		Match: func(cmd string, args [][]byte) bool { return cmd == "hscan" && len(args) > 1 && string(args[1]) == key },
		Raw:   raw, Times: 1,
	})
	return true
}

func pairs(v resp.Value) map[string][]byte {
	out := map[string][]byte{}
	for j := 0; j+1 < len(v.Arr); j += 2 {
		out[string(v.Arr[j].Str)] = v.Arr[j+1].Str
	}
	return out
}

// read reads every value of w back with a command whose reply has nesting depth d and returns what came back per value.
func (p *replayer) read(i int, st step, w *wrote, variant int, curCfg string) {
	e := p.e
	c := e.c
	n := len(w.origs)
	got := make([][]byte, n)
	var v resp.Value
	var err error
	name := ""
	depth := st.D
	if modelled(st.N) {
		if err := e.routeVia(w.key, phys(st.N)); err != nil {
			p.res.Err = err.Error()
			return
		}
	}
	older := modelled(st.N) && p.connCfg[phys(st.N)] != curCfg
	final := e.hops(w.key, st.R)
	fail := func() bool {
		if err != nil {
			p.netTrouble()
			p.res.Err = fmt.Sprintf("%s of %s: no reply: %v", name, w.key, err)
			return true
		}
		if infraErr(v) {
			p.res.Infra = append(p.res.Infra, fmt.Sprintf("%s of %s: %v", name, w.key, v))
			return true
		}
		if v.IsErr() {
			p.addBad(i, "read-failed", fmt.Sprintf("%s of %s: %v %v", name, w.key, v, err))
			return true
		}
		return false
	}
	switch {
	case !w.hash && depth == 0:
		for j, k := range w.keys {
			if variant%2 == 1 && j == 0 {
				name = "getset"
				v, err = c.DoB(replyTO, []byte("getset"), []byte(k), w.origs[j])
			} else {
				name = "GET"
				v, err = c.Do(replyTO, "GET", k)
			}
			if fail() {
				return
			}
			got[j] = v.Str
		}
	case !w.hash:
		depth = 1 // no command answers string values in nested arrays
		name = "mget"
		v, err = c.Do(replyTO, append(append([]string{"mget"}, w.keys...), w.key+"-absent")...)
		if fail() {
			return
		}
		for j := range w.keys {
			if j < len(v.Arr) {
				got[j] = v.Arr[j].Str
			}
		}
	case depth == 0:
		name = "HGET"
		for j, f := range w.fields {
			v, err = c.Do(replyTO, "HGET", w.key, f)
			if fail() {
				return
			}
			got[j] = v.Str
		}
	case depth == 1:
		switch variant % 3 {
		case 0:
			name = "hmget"
			v, err = c.Do(replyTO, append([]string{"hmget", w.key}, w.fields...)...)
			if fail() {
				return
			}
			for j := range w.fields {
				if j < len(v.Arr) {
					got[j] = v.Arr[j].Str
				}
			}
		case 1:
			name = "HGETALL"
			v, err = c.Do(replyTO, "HGETALL", w.key)
			if fail() {
				return
			}
			m := pairs(v)
			for j, f := range w.fields {
				got[j] = m[f]
			}
		default:
			name = "hvals"
			v, err = c.Do(replyTO, "hvals", w.key)
			if fail() {
				return
			}
			// order of a hash is not defined: every value written must be among the values read
			for j := range w.fields {
				for _, x := range v.Arr {
					if bytes.Equal(x.Str, w.origs[j]) {
						got[j] = x.Str
					}
				}
				if got[j] == nil && len(v.Arr) > 0 {
					got[j] = v.Arr[0].Str
				}
			}
		}
	default:
		name = "HSCAN"
		if !p.scriptHScan(w.key, final) {
			p.res.Err = "hash " + w.key + " not found on any node"
			return
		}
		v, err = c.Do(replyTO, "HSCAN", w.key, "0", "COUNT", "100")
		if fail() {
			return
		}
		if len(v.Arr) != 2 {
			p.addBad(i, "read-failed", fmt.Sprintf("HSCAN of %s: %v", w.key, v))
			return
		}
		m := pairs(v.Arr[1])
		for j, f := range w.fields {
			got[j] = m[f]
		}
	}
	p.res.Cmds = append(p.res.Cmds, name)
	for j := range got {
		p.res.Reads++
		if depth == 2 && w.packed[j] && curCfg != "absent" {
			p.res.Nested++
		}
		if older && w.packed[j] && curCfg != "absent" {
			p.res.OldConn++
		}
		if w.packed[j] && len(w.origs[j]) > 512*1024 && curCfg != "absent" {
			p.res.Large++
		}
		if bytes.Equal(got[j], w.origs[j]) {
			continue
		}
		if curCfg == "absent" {
			// Compress.tla, ReadBack: without a compression section the filter is out of the chain
			// ("enable: false" is the documented switch under which "uncompress will always work");
			// a value stored compressed earlier comes back as stored - outside the property.
			continue
		}
		sig := fmt.Sprintf("read-back/redirects=%d", st.R)
		if depth == 2 {
			sig = fmt.Sprintf("read-back/nested-reply/redirects=%d", st.R)
		}
		if len(w.origs[j]) >= 65535 {
			sig = fmt.Sprintf("read-back/large-value/redirects=%d", st.R)
		}
		if p.bareAck {
			sig = "read-back/section-without-threshold-acknowledged"
		}
		if older {
			sig = "read-back/connection-older-than-config"
			name += fmt.Sprintf(" over a connection made while compression was %s", p.connCfg[phys(st.N)])
		}
		p.addBad(i, sig, fmt.Sprintf("%s (values at depth %d of the reply, compression %s), value %d of %d: read %d bytes (%q...), wrote %d bytes (%q...)", name, depth, curCfg, j+1, len(got),
			len(got[j]), clip(got[j]), len(w.origs[j]), clip(w.origs[j])))
	}
}

func replayOne(e *env, id int, steps []step, rnd *rand.Rand, thr int, fresh bool) (res result) {
	res = result{ID: id}
	if len(steps) == 0 || steps[0].A != "config" {
		res.Err = "history does not start with a config"
		return
	}
	if !fresh {
		if err := e.setConfig(steps[0].C, thr); err != nil {
			res.Err = "config update: " + err.Error()
			return
		}
	}
	p := &replayer{e: e, rnd: rnd, thr: thr, id: id, res: &res, needHash: map[string]bool{}, curCfg: steps[0].C, connCfg: map[int]string{}}
	ages := false
	for _, st := range steps {
		if st.A == "read" && st.D == 2 {
			p.needHash[st.K] = true // only hashes are answered in nested arrays (HSCAN)
		}
		ages = ages || modelled(st.N)
	}
	if ages {
		// Compress.tla, Init: every node is connected under the first config (a fresh processor was, by its probes)
		for idx := range e.cl.Nodes {
			if !fresh {
				if err := e.reconnect(idx); err != nil {
					res.Err = err.Error()
					return
				}
			}
			p.connCfg[idx] = steps[0].C
		}
	}
	written := map[string]*wrote{}
	curCfg := steps[0].C
	for i, st := range steps[1:] {
		if e.sick || res.Err != "" {
			break
		}
		switch st.A {
		case "config":
			if strings.HasSuffix(st.C, "-bare") {
				// a compression section without threshold: the validator refuses it (Compress.tla, BareConfig) and nothing
				// changes; should the processor acknowledge it, the operator has been told that compression is on / off
				on := st.C == "enabled-bare"
				cfg := sut.RedisConfig(sut.RedisOpts{Port: portOf(e.px.Addr), Compression: &pbredis.Compression{Enable: on, Algorithm: pbredis.Compression_SNAPPY}})
				if err := e.px.P.OnSvcConfigUpdate(cfg); err != nil {
					res.Refused++
				} else {
					p.bareAck = true
					curCfg = map[bool]string{true: "enabled", false: "disabled"}[on]
					p.curCfg = curCfg
					e.note("history :%d: update %s acknowledged", id, st.C)
				}
				continue
			}
			curCfg = st.C
			p.curCfg = st.C
			if err := e.setConfig(st.C, thr); err != nil {
				res.Err = "config update: " + err.Error()
				return
			}
		case "reconnect":
			if err := e.reconnect(phys(st.N)); err != nil {
				res.Err = err.Error()
				return
			}
			p.connCfg[phys(st.N)] = curCfg
		case "write":
			res.Writes++
			if w := p.write(i, st, mix(id, i)); w != nil {
				written[st.K+fmt.Sprint(w.hash)] = w
			}
		case "read":
			for _, h := range []bool{false, true} {
				if w := written[st.K+fmt.Sprint(h)]; w != nil && !e.sick {
					p.read(i, st, w, mix(id, i), curCfg)
				}
			}
		}
	}
	if e.sick && res.Err == "" && len(res.Bad) == 0 {
		res.Err = "connection out of step"
	}
	if len(res.Bad) > 0 {
		res.Log = append(e.traceOf(fmt.Sprintf(":%d:", id)), hookTraceOf(fmt.Sprintf(":%d:", id))...)
		sort.Strings(res.Log)
	}
	return
}

func clip(b []byte) []byte {
	if len(b) > 24 {
		return b[:24]
	}
	return b
}

func portOf(addr string) int {
	var p int
	fmt.Sscanf(addr[len("127.0.0.1:"):], "%d", &p)
	return p
}

func replay(args []string) error {
	fs := flag.NewFlagSet("c13-replay", flag.ContinueOnError)
	in := fs.String("in", "", "histories (ndjson)")
	out := fs.String("out", "", "results (ndjson)")
	workers := fs.Int("workers", 4, "parallel environments")
	reuse := fs.Int("reuse", 40, "histories replayed on one processor before a fresh one is started")
	if err := fs.Parse(args); err != nil {
		return err
	}
	sut.FastRefresh()
	installHookTrace()
	var hists [][]step
	if err := cli.ReadNDJSON(*in, func(line []byte) error {
		var steps []step
		if err := json.Unmarshal(line, &steps); err != nil {
			return err
		}
		hists = append(hists, steps)
		return nil
	}); err != nil {
		return err
	}
	w, err := newLineWriter(*out)
	if err != nil {
		return err
	}
	defer w.Close()
	thresholds := []int{32, 1, 512, 100}
	var wg sync.WaitGroup
	for wk := 0; wk < *workers; wk++ {
		wg.Add(1)
		go func(wk int) {
			defer wg.Done()
			rnd := rand.New(rand.NewSource(cli.Seed()*1000 + int64(wk)))
			var e *env
			failures := 0
			for idx := wk; idx < len(hists); idx += *workers {
				id := idx + 1
				thr := thresholds[(id/(*workers))%len(thresholds)]
				if failures >= 5 || len(hists[idx]) == 0 {
					w.Write(result{ID: id, Err: "environment failed repeatedly (or empty history)"})
					continue
				}
				fresh := false
				if e == nil || e.sick || e.used >= *reuse {
					if e != nil {
						e.close()
					}
					var err error
					if e, err = newEnv(hists[idx][0].C, thr); err != nil {
						w.Write(result{ID: id, Err: err.Error()})
						e = nil
						failures++
						continue
					}
					fresh = true
				}
				e.used++
				w.Write(replayOne(e, id, hists[idx], rnd, thr, fresh))
				if e.sick {
					failures++
				}
			}
			if e != nil {
				e.close()
			}
		}(wk)
	}
	wg.Wait()
	return nil
}

// lineWriter writes one JSON line per record straight to the file (nothing is lost when the process under test panics).
type lineWriter struct {
	mu sync.Mutex
	f  *os.File
}

func newLineWriter(path string) (*lineWriter, error) {
	f, err := os.Create(path)
	if err != nil {
		return nil, err
	}
	return &lineWriter{f: f}, nil
}

func (w *lineWriter) Write(v interface{}) error {
	b, err := json.Marshal(v)
	if err != nil {
		return err
	}
	w.mu.Lock()
	defer w.mu.Unlock()
	_, err = w.f.Write(append(b, '\n'))
	return err
}

func (w *lineWriter) Close() error { return w.f.Close() }
