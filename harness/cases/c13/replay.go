package c13

import (
	"bytes"
	"encoding/json"
	"flag"
	"fmt"
	"math/rand"
	"os"
	"sort"
	"sync"
	"time"

	"github.com/golang/snappy"
	pbredis "github.com/samaritan-proxy/samaritan/pb/config/protocol/redis"
	predis "github.com/samaritan-proxy/samaritan/proc/redis"

	"verifharness/internal/cli"
	"verifharness/internal/resp"
	"verifharness/internal/simredis"
	"verifharness/internal/sut"
)

// step is one event of a CompressGen history.
type step struct {
	A    string   `json:"a"`
	C    string   `json:"c"`
	K    string   `json:"k"`
	Vals []string `json:"vals"` // classes of the value positions of a write
	R    int      `json:"r"`
	Busy bool     `json:"busy"` // other values are compressed / decompressed while the write is on its way
	D    int      `json:"d"`    // nesting depth of the reply of a read: 0 bulk, 1 flat array, 2 nested array
}

type bad struct {
	Step int    `json:"step"`
	What string `json:"what"`
	Sig  string `json:"sig"`
}

type result struct {
	ID      int      `json:"id"`
	Writes  int      `json:"writes"`
	Reads   int      `json:"reads"`
	Values  int      `json:"values"`  // value positions written
	Packed  int      `json:"packed"`  // ... of which reached the backend compressed
	Nested  int      `json:"nested"`  // values stored compressed that were read back inside a nested array
	Multi   int      `json:"multi"`   // requests that carried two or more values that reached the backend compressed
	Traffic int      `json:"traffic"` // background values written and read back while a write was on its way
	Cmds    []string `json:"cmds"`
	Bad     []bad    `json:"bad"`
	Err     string   `json:"err,omitempty"`
}

// compresses reports the length of the stored form the real value compression produces for v.
func packedLen(v []byte) int { return len(predis.VerifCompressValue(v)) }

// valueOf returns a value of a class for the given threshold, verified against the real value compression.
func valueOf(cls string, thr int, rnd *rand.Rand) []byte {
	letter := byte('a' + rnd.Intn(26))
	switch cls {
	case "small":
		return bytes.Repeat([]byte{letter}, rnd.Intn(thr))
	case "comp1":
		// compresses exactly once: the stored form is shorter, and is below the threshold or does not shrink again
		isComp1 := func(v []byte) bool {
			once := predis.VerifCompressValue(v)
			return len(v) >= thr && len(once) < len(v) && (len(once) < thr || packedLen(once) >= len(once))
		}
		base := thr + rnd.Intn(8)
		if base < 40 {
			base = 40 + rnd.Intn(8)
		}
		cands := []int{base}
		if rnd.Intn(3) == 0 {
			cands = []int{base * (2 + rnd.Intn(3)), base}
		}
		for _, n := range cands {
			for k := 0; k < 64; k++ {
				if v := bytes.Repeat([]byte{letter}, n+k); isComp1(v) {
					return v
				}
			}
		}
		return nil
	case "comp2":
		// the once-compressed form must still be >= thr and shrink again
		n := 1024
		for {
			v := bytes.Repeat([]byte{letter}, n)
			once := predis.VerifCompressValue(v)
			if len(once) < len(v) && len(once) >= thr && packedLen(once) < len(once) {
				return v
			}
			n *= 2
			if n > 1<<26 {
				return nil
			}
		}
	default: // incomp
		v := make([]byte, thr+16+rnd.Intn(16))
		rnd.Read(v)
		if bytes.HasPrefix(v, predis.VerifCompressHeader()) {
			v[0] ^= 0xff
		}
		return v
	}
}

// storedFormOK checks the documented stored form: original, or header + one snappy stream expanding to the original and shorter.
func storedFormOK(stored, orig []byte) (bool, string) {
	if bytes.Equal(stored, orig) {
		return true, ""
	}
	hdr := predis.VerifCompressHeader()
	if !bytes.HasPrefix(stored, hdr) {
		return false, "stored bytes are neither the original nor carry the compression header"
	}
	if len(stored) >= len(orig) {
		return false, fmt.Sprintf("stored form (%d bytes) is not shorter than the original (%d bytes)", len(stored), len(orig))
	}
	dec, err := decodeSnappyStream(stored[len(hdr):])
	if err != nil {
		return false, "stored stream does not decompress: " + err.Error()
	}
	if !bytes.Equal(dec, orig) {
		return false, fmt.Sprintf("stored stream expands to %d bytes which are not the original (%d bytes): compressed more than once, or another value's stream?", len(dec), len(orig))
	}
	return true, ""
}

// snappyStream is the framed snappy encoding of v computed by the harness' own use of the library.
func snappyStream(v []byte) []byte {
	var b bytes.Buffer
	w := snappy.NewBufferedWriter(&b)
	w.Write(v)
	w.Close()
	return b.Bytes()
}

func decodeSnappyStream(b []byte) ([]byte, error) {
	r := snappy.NewReader(bytes.NewReader(b))
	var out bytes.Buffer
	_, err := out.ReadFrom(r)
	return out.Bytes(), err
}

type writeCmd struct {
	name string
	args func(key string, val []byte) [][]byte
	hash bool
}

var writeCmds = []writeCmd{
	{"SET", func(k string, v []byte) [][]byte { return [][]byte{[]byte("SET"), []byte(k), v} }, false},
	{"setnx", func(k string, v []byte) [][]byte { return [][]byte{[]byte("setnx"), []byte(k), v} }, false},
	{"GETSET", func(k string, v []byte) [][]byte { return [][]byte{[]byte("GETSET"), []byte(k), v} }, false},
	{"setex", func(k string, v []byte) [][]byte { return [][]byte{[]byte("setex"), []byte(k), []byte("1000"), v} }, false},
	{"PSETEX", func(k string, v []byte) [][]byte { return [][]byte{[]byte("PSETEX"), []byte(k), []byte("100000"), v} }, false},
	{"mset", func(k string, v []byte) [][]byte { return [][]byte{[]byte("mset"), []byte(k), v} }, false},
	{"HSET", func(k string, v []byte) [][]byte { return [][]byte{[]byte("HSET"), []byte(k), []byte("f0"), v} }, true},
	{"hmset", func(k string, v []byte) [][]byte {
		return [][]byte{[]byte("hmset"), []byte(k), []byte("g"), []byte("x"), []byte("f0"), v}
	}, true},
	{"HSETNX", func(k string, v []byte) [][]byte { return [][]byte{[]byte("HSETNX"), []byte(k), []byte("f0"), v} }, true},
}

// multi-value requests: every value position of the commands that carry several
var multiCmds = []string{"hmset", "HSET", "mset-one-slot", "MSET-spread"}

func compression(c string, thr int) *pbredis.Compression {
	switch c {
	case "enabled":
		return &pbredis.Compression{Enable: true, Threshold: uint32(thr), Algorithm: pbredis.Compression_SNAPPY}
	case "disabled":
		return &pbredis.Compression{Enable: false, Threshold: uint32(thr), Algorithm: pbredis.Compression_SNAPPY}
	}
	return nil
}

// env is a cluster of three simulated nodes, a real Redis processor in front of it and two client connections.
type env struct {
	cl    *simredis.Cluster
	px    *sut.Redis
	c, bg *sut.Client
	used  int
	sick  bool
}

func newEnv(cfg string, thr int) (*env, error) {
	cl, err := simredis.NewCluster(3, 0)
	if err != nil {
		return nil, err
	}
	e := &env{cl: cl}
	e.px, err = sut.StartRedis(sut.RedisOpts{Compression: compression(cfg, thr)}, cl.Addrs())
	if err != nil {
		cl.Close()
		return nil, fmt.Errorf("start: %v", err)
	}
	if !sut.WaitRefresh(e.px.Name, 3*time.Second) {
		e.close()
		return nil, fmt.Errorf("slot table not loaded")
	}
	if e.c, err = sut.Dial(e.px.Addr); err != nil {
		e.close()
		return nil, err
	}
	if e.bg, err = sut.Dial(e.px.Addr); err != nil {
		e.close()
		return nil, err
	}
	return e, nil
}

func (e *env) close() {
	if e.c != nil {
		e.c.Close()
	}
	if e.bg != nil {
		e.bg.Close()
	}
	if e.px != nil {
		sut.StopWithin(e.px.P, 5*time.Second)
	}
	e.cl.Close()
}

func (e *env) setConfig(c string, thr int) error {
	cfg := sut.RedisConfig(sut.RedisOpts{Port: portOf(e.px.Addr), Compression: compression(c, thr)})
	return e.px.P.OnSvcConfigUpdate(cfg)
}

// hops arranges r redirections for the next request naming key and returns the node that will serve it.
func (e *env) hops(key string, r int) int {
	slot := simredis.Slot([]byte(key))
	cur := e.cl.Owner(slot)
	if r == 0 {
		return cur
	}
	time.Sleep(15 * time.Millisecond) // let the proxy's table catch up with earlier moves
	var hs []int
	for i := 0; i < r; i++ {
		cur = (cur + 1) % 3
		hs = append(hs, cur)
	}
	e.cl.Bounce(key, hs)
	return cur
}

// find returns the entry of key on whichever master holds it. The nodes are looked at one after the other: while slots
// change owner concurrently a key can move behind the scan, so a miss is confirmed by further scans.
func (e *env) find(key string) (*simredis.Entry, bool) {
	for try := 0; try < 6; try++ {
		for _, n := range e.cl.Masters() {
			if ent, ok := n.Get(key); ok {
				return ent, true
			}
		}
		time.Sleep(time.Duration(try) * 300 * time.Microsecond)
	}
	return nil, false
}

// traffic builds a pipeline of n SET/GET pairs with compressible values on keys that node `avoid` does not own.
type trafficItem struct {
	key string
	val []byte
}

func (e *env) traffic(id, seq, n, avoid int, rnd *rand.Rand) ([]byte, []trafficItem) {
	var raw []byte
	var items []trafficItem
	for i := 0; i < n; i++ {
		idx := rnd.Intn(3)
		if idx == avoid {
			idx = (idx + 1) % 3
		}
		key := e.cl.KeyFor(idx, fmt.Sprintf("bg:%d:%d:%d:", id, seq, i))
		val := bytes.Repeat([]byte{byte('A' + rnd.Intn(26)), byte('0' + rnd.Intn(10))}, 300+rnd.Intn(3000))
		items = append(items, trafficItem{key, val})
		raw = append(raw, resp.Bytes(resp.CmdB([]byte("SET"), []byte(key), val))...)
		raw = append(raw, resp.Bytes(resp.CmdB([]byte("GET"), []byte(key)))...)
	}
	return raw, items
}

func (e *env) dataCommands() int {
	n := 0
	for _, nd := range e.cl.Nodes {
		n += len(simredis.DataCommands(nd.Records()))
	}
	return n
}

type wrote struct {
	hash   bool
	key    string   // hash: the key; strings: the first key
	fields []string // hash fields, one per value
	keys   []string // string keys, one per value
	origs  [][]byte
	packed []bool // reached the backend compressed
}

type replayer struct {
	e   *env
	rnd *rand.Rand
	thr int
	id  int
	res *result
	seq int
	// keys that are read back with a command whose reply nests arrays
	needHash map[string]bool
}

// mix spreads the choice of the concrete command over the histories independently of their enumeration order.
func mix(id, i int) int { return int((uint32(id)*2654435761 + uint32(i)*40503) >> 7) }

func (p *replayer) addBad(i int, sig, what string) {
	p.res.Bad = append(p.res.Bad, bad{Step: i, What: what, Sig: sig})
}

// netTrouble marks the environment unusable (the connection is out of step after a missing reply).
func (p *replayer) netTrouble() { p.e.sick = true }

func (p *replayer) write(i int, st step, variant int) *wrote {
	e, rnd := p.e, p.rnd
	c := e.c
	n := len(st.Vals)
	vals := make([][]byte, n)
	for j, cls := range st.Vals {
		vals[j] = valueOf(cls, p.thr, rnd)
		if vals[j] == nil {
			p.res.Err = "no value of class " + cls
			return nil
		}
	}
	w := &wrote{packed: make([]bool, n)}
	for _, v := range vals {
		w.origs = append(w.origs, append([]byte{}, v...))
	}
	var args [][]byte
	var name string
	if n == 1 {
		wc := writeCmds[variant%len(writeCmds)]
		if p.needHash[st.K] {
			wc = writeCmds[6+variant%3]
		}
		name = wc.name
		w.hash = wc.hash
		w.key = fmt.Sprintf("%s:%d:%v", st.K, p.id, wc.hash)
		if wc.hash {
			w.fields = []string{"f0"}
		} else {
			w.keys = []string{w.key}
		}
		args = wc.args(w.key, vals[0])
		if wc.name == "setnx" || wc.name == "HSETNX" {
			// make sure the conditional write takes effect
			c.DoB(3*time.Second, []byte("del"), []byte(w.key))
		}
	} else {
		name = multiCmds[variant%len(multiCmds)]
		if p.needHash[st.K] {
			name = multiCmds[variant%2]
		}
		switch name {
		case "hmset", "HSET":
			w.hash = true
			w.key = fmt.Sprintf("%s:%d:true", st.K, p.id)
			args = [][]byte{[]byte(name), []byte(w.key)}
			for j := range vals {
				f := fmt.Sprintf("f%d", j)
				w.fields = append(w.fields, f)
				args = append(args, []byte(f), vals[j])
			}
		default:
			args = [][]byte{[]byte(name[:4])}
			for j := range vals {
				k := fmt.Sprintf("{%s:%d:false}:%d", st.K, p.id, j)
				if name == "MSET-spread" {
					k = fmt.Sprintf("%s:%d:false:%d", st.K, p.id, j)
				}
				w.keys = append(w.keys, k)
				args = append(args, []byte(k), vals[j])
			}
			w.key = w.keys[0]
		}
	}
	p.res.Cmds = append(p.res.Cmds, name)
	req := resp.Bytes(resp.CmdB(args...))
	from := e.cl.Owner(simredis.Slot([]byte(w.key)))
	e.hops(w.key, st.R)
	var v resp.Value
	var err error
	switch {
	case st.Busy && st.R > 0:
		// hold the redirection of the first send, let other values pass through the proxy, then let the write go on
		node := e.cl.Nodes[from]
		slot := simredis.Slot([]byte(w.key))
		p.seq++
		raw, items := e.traffic(p.id, p.seq, 3, from, rnd)
		node.SetGate(true)
		c.Send(req)
		dl := time.Now().Add(2 * time.Second)
		for e.cl.Owner(slot) == from && time.Now().Before(dl) {
			time.Sleep(200 * time.Microsecond)
		}
		before := e.dataCommands()
		e.bg.Send(raw)
		dl = time.Now().Add(500 * time.Millisecond)
		for e.dataCommands() < before+2*len(items) && time.Now().Before(dl) {
			time.Sleep(200 * time.Microsecond)
		}
		node.SetGate(false)
		v, err = c.Recv(5 * time.Second)
		p.recvTraffic(i, items)
	case st.Busy:
		p.seq++
		raw, items := e.traffic(p.id, p.seq, 3, -1, rnd)
		e.bg.Send(raw)
		c.Send(req)
		v, err = c.Recv(5 * time.Second)
		p.recvTraffic(i, items)
	default:
		c.Send(req)
		v, err = c.Recv(5 * time.Second)
	}
	if err != nil {
		p.netTrouble()
	}
	if err != nil || v.IsErr() {
		p.addBad(i, "write-failed/"+name, fmt.Sprintf("%s %s: %v %v", name, w.key, v, err))
		return nil
	}
	// what reached the backend
	packed := 0
	for j := range vals {
		p.res.Values++
		var stored []byte
		found := false
		if w.hash {
			if ent, ok := e.find(w.key); ok && ent.Hash != nil {
				stored, found = ent.Hash[w.fields[j]]
			}
		} else if ent, ok := e.find(w.keys[j]); ok {
			stored, found = ent.Str, true
		}
		if !found {
			p.addBad(i, "write-lost/"+name, fmt.Sprintf("%s %s: value %d of %d is on no node after the reply %v", name, w.key, j+1, n, v))
			continue
		}
		if !bytes.Equal(stored, w.origs[j]) {
			w.packed[j] = true
			p.res.Packed++
			packed++
		}
		if ok, why := storedFormOK(stored, w.origs[j]); !ok {
			sig := fmt.Sprintf("stored-form/%s/redirects=%d", st.Vals[j], st.R)
			if n > 1 {
				sig = fmt.Sprintf("stored-form/multi-value/%s/redirects=%d", st.Vals[j], st.R)
			}
			p.addBad(i, sig, fmt.Sprintf("%s, value %d of %d (%d bytes, %s, classes %v) with %d redirection(s)%s: %s", name, j+1, n, len(w.origs[j]), st.Vals[j], st.Vals, st.R,
				map[bool]string{true: " and other traffic", false: ""}[st.Busy], why))
		}
	}
	if packed >= 2 && w.hash {
		p.res.Multi++
	}
	return w
}

func (p *replayer) recvTraffic(i int, items []trafficItem) {
	for _, it := range items {
		v1, err1 := p.e.bg.Recv(5 * time.Second)
		v2, err2 := p.e.bg.Recv(5 * time.Second)
		if err1 != nil || err2 != nil {
			p.netTrouble()
			p.addBad(i, "read-failed", fmt.Sprintf("background SET/GET of %s: %v %v", it.key, err1, err2))
			return
		}
		p.res.Traffic++
		if v1.IsErr() || v2.IsErr() || !bytes.Equal(v2.Str, it.val) {
			p.addBad(i, "read-back/background-traffic", fmt.Sprintf("background SET/GET of %s: SET -> %v, GET -> %d bytes (%q...), wrote %d bytes (%q...)", it.key, v1, len(v2.Str), clip(v2.Str), len(it.val), clip(it.val)))
		}
		if ent, ok := p.e.find(it.key); ok {
			if ok, why := storedFormOK(ent.Str, it.val); !ok {
				p.addBad(i, "stored-form/background-traffic", fmt.Sprintf("background SET of %s (%d bytes): %s", it.key, len(it.val), why))
			}
		}
	}
}

// scriptHScan makes node idx answer the next HSCAN of key the way Redis does: [cursor, [field, value, ...]] with the stored bytes.
func (p *replayer) scriptHScan(key string, idx int) bool {
	ent, ok := p.e.find(key)
	if !ok || ent.Hash == nil {
		return false
	}
	var fields []string
	for f := range ent.Hash {
		fields = append(fields, f)
	}
	sort.Strings(fields)
	var items []resp.Value
	for _, f := range fields {
		items = append(items, resp.BulkS(f), resp.Bulk(ent.Hash[f]))
	}
	raw := resp.Bytes(resp.Arr(resp.BulkS("0"), resp.Arr(items...)))
	p.e.cl.Nodes[idx].Script(&simredis.Scripted{
		Match: func(cmd string, args [][]byte) bool { return cmd == "hscan" && len(args) > 1 && string(args[1]) == key },
		Raw:   raw, Times: 1,
	})
	return true
}

func pairs(v resp.Value) map[string][]byte {
	out := map[string][]byte{}
	for j := 0; j+1 < len(v.Arr); j += 2 {
		out[string(v.Arr[j].Str)] = v.Arr[j+1].Str
	}
	return out
}

// read reads every value of w back with a command whose reply has nesting depth d and returns what came back per value.
func (p *replayer) read(i int, st step, w *wrote, variant int, curCfg string) {
	e := p.e
	c := e.c
	n := len(w.origs)
	got := make([][]byte, n)
	var v resp.Value
	var err error
	name := ""
	depth := st.D
	final := e.hops(w.key, st.R)
	fail := func() bool {
		if err != nil {
			p.netTrouble()
		}
		if err != nil || v.IsErr() {
			p.addBad(i, "read-failed", fmt.Sprintf("%s of %s: %v %v", name, w.key, v, err))
			return true
		}
		return false
	}
	switch {
	case !w.hash && depth == 0:
		for j, k := range w.keys {
			if variant%2 == 1 && j == 0 {
				name = "getset"
				v, err = c.DoB(5*time.Second, []byte("getset"), []byte(k), w.origs[j])
			} else {
				name = "GET"
				v, err = c.Do(5*time.Second, "GET", k)
			}
			if fail() {
				return
			}
			got[j] = v.Str
		}
	case !w.hash:
		depth = 1 // no command answers string values in nested arrays
		name = "mget"
		v, err = c.Do(5*time.Second, append(append([]string{"mget"}, w.keys...), w.key+"-absent")...)
		if fail() {
			return
		}
		for j := range w.keys {
			if j < len(v.Arr) {
				got[j] = v.Arr[j].Str
			}
		}
	case depth == 0:
		name = "HGET"
		for j, f := range w.fields {
			v, err = c.Do(5*time.Second, "HGET", w.key, f)
			if fail() {
				return
			}
			got[j] = v.Str
		}
	case depth == 1:
		switch variant % 3 {
		case 0:
			name = "hmget"
			v, err = c.Do(5*time.Second, append([]string{"hmget", w.key}, w.fields...)...)
			if fail() {
				return
			}
			for j := range w.fields {
				if j < len(v.Arr) {
					got[j] = v.Arr[j].Str
				}
			}
		case 1:
			name = "HGETALL"
			v, err = c.Do(5*time.Second, "HGETALL", w.key)
			if fail() {
				return
			}
			m := pairs(v)
			for j, f := range w.fields {
				got[j] = m[f]
			}
		default:
			name = "hvals"
			v, err = c.Do(5*time.Second, "hvals", w.key)
			if fail() {
				return
			}
			// order of a hash is not defined: every value written must be among the values read
			for j := range w.fields {
				for _, x := range v.Arr {
					if bytes.Equal(x.Str, w.origs[j]) {
						got[j] = x.Str
					}
				}
				if got[j] == nil && len(v.Arr) > 0 {
					got[j] = v.Arr[0].Str
				}
			}
		}
	default:
		name = "HSCAN"
		if !p.scriptHScan(w.key, final) {
			p.res.Err = "hash " + w.key + " not found on any node"
			return
		}
		v, err = c.Do(5*time.Second, "HSCAN", w.key, "0", "COUNT", "100")
		if fail() {
			return
		}
		if len(v.Arr) != 2 {
			p.addBad(i, "read-failed", fmt.Sprintf("HSCAN of %s: %v", w.key, v))
			return
		}
		m := pairs(v.Arr[1])
		for j, f := range w.fields {
			got[j] = m[f]
		}
	}
	p.res.Cmds = append(p.res.Cmds, name)
	for j := range got {
		p.res.Reads++
		if depth == 2 && w.packed[j] && curCfg != "absent" {
			p.res.Nested++
		}
		if bytes.Equal(got[j], w.origs[j]) {
			continue
		}
		if curCfg == "absent" {
			// Compress.tla, ReadBack: without a compression section the filter is out of the chain
			// ("enable: false" is the documented switch under which "uncompress will always work");
			// a value stored compressed earlier comes back as stored - outside the property.
			continue
		}
		sig := fmt.Sprintf("read-back/redirects=%d", st.R)
		if depth == 2 {
			sig = fmt.Sprintf("read-back/nested-reply/redirects=%d", st.R)
		}
		p.addBad(i, sig, fmt.Sprintf("%s (values at depth %d of the reply, compression %s), value %d of %d: read %d bytes (%q...), wrote %d bytes (%q...)", name, depth, curCfg, j+1, len(got),
			len(got[j]), clip(got[j]), len(w.origs[j]), clip(w.origs[j])))
	}
}

func replayOne(e *env, id int, steps []step, rnd *rand.Rand, thr int, fresh bool) (res result) {
	res = result{ID: id}
	if len(steps) == 0 || steps[0].A != "config" {
		res.Err = "history does not start with a config"
		return
	}
	if !fresh {
		if err := e.setConfig(steps[0].C, thr); err != nil {
			res.Err = "config update: " + err.Error()
			return
		}
	}
	p := &replayer{e: e, rnd: rnd, thr: thr, id: id, res: &res, needHash: map[string]bool{}}
	for _, st := range steps {
		if st.A == "read" && st.D == 2 {
			p.needHash[st.K] = true // only hashes are answered in nested arrays (HSCAN)
		}
	}
	written := map[string]*wrote{}
	curCfg := steps[0].C
	for i, st := range steps[1:] {
		if e.sick || res.Err != "" {
			break
		}
		switch st.A {
		case "config":
			curCfg = st.C
			if err := e.setConfig(st.C, thr); err != nil {
				res.Err = "config update: " + err.Error()
				return
			}
		case "write":
			res.Writes++
			if w := p.write(i, st, mix(id, i)); w != nil {
				written[st.K+fmt.Sprint(w.hash)] = w
			}
		case "read":
			for _, h := range []bool{false, true} {
				if w := written[st.K+fmt.Sprint(h)]; w != nil && !e.sick {
					p.read(i, st, w, mix(id, i), curCfg)
				}
			}
		}
	}
	if e.sick && res.Err == "" && len(res.Bad) == 0 {
		res.Err = "connection out of step"
	}
	return
}

func clip(b []byte) []byte {
	if len(b) > 24 {
		return b[:24]
	}
	return b
}

func portOf(addr string) int {
	var p int
	fmt.Sscanf(addr[len("127.0.0.1:"):], "%d", &p)
	return p
}

func replay(args []string) error {
	fs := flag.NewFlagSet("c13-replay", flag.ContinueOnError)
	in := fs.String("in", "", "histories (ndjson)")
	out := fs.String("out", "", "results (ndjson)")
	workers := fs.Int("workers", 4, "parallel environments")
	reuse := fs.Int("reuse", 40, "histories replayed on one processor before a fresh one is started")
	if err := fs.Parse(args); err != nil {
		return err
	}
	sut.FastRefresh()
	var hists [][]step
	if err := cli.ReadNDJSON(*in, func(line []byte) error {
		var steps []step
		if err := json.Unmarshal(line, &steps); err != nil {
			return err
		}
		hists = append(hists, steps)
		return nil
	}); err != nil {
		return err
	}
	w, err := newLineWriter(*out)
	if err != nil {
		return err
	}
	defer w.Close()
	thresholds := []int{32, 1, 512, 100}
	var wg sync.WaitGroup
	for wk := 0; wk < *workers; wk++ {
		wg.Add(1)
		go func(wk int) {
			defer wg.Done()
			rnd := rand.New(rand.NewSource(cli.Seed()*1000 + int64(wk)))
			var e *env
			failures := 0
			for idx := wk; idx < len(hists); idx += *workers {
				id := idx + 1
				thr := thresholds[(id/(*workers))%len(thresholds)]
				if failures >= 5 || len(hists[idx]) == 0 {
					w.Write(result{ID: id, Err: "environment failed repeatedly (or empty history)"})
					continue
				}
				fresh := false
				if e == nil || e.sick || e.used >= *reuse {
					if e != nil {
						e.close()
					}
					var err error
					if e, err = newEnv(hists[idx][0].C, thr); err != nil {
						w.Write(result{ID: id, Err: err.Error()})
						e = nil
						failures++
						continue
					}
					fresh = true
				}
				e.used++
				w.Write(replayOne(e, id, hists[idx], rnd, thr, fresh))
				if e.sick {
					failures++
				}
			}
			if e != nil {
				e.close()
			}
		}(wk)
	}
	wg.Wait()
	return nil
}

// lineWriter writes one JSON line per record straight to the file (nothing is lost when the process under test panics).
type lineWriter struct {
	mu sync.Mutex
	f  *os.File
}

func newLineWriter(path string) (*lineWriter, error) {
	f, err := os.Create(path)
	if err != nil {
		return nil, err
	}
	return &lineWriter{f: f}, nil
}

func (w *lineWriter) Write(v interface{}) error {
	b, err := json.Marshal(v)
	if err != nil {
		return err
	}
	w.mu.Lock()
	defer w.mu.Unlock()
	_, err = w.f.Write(append(b, '\n'))
	return err
}

func (w *lineWriter) Close() error { return w.f.Close() }
