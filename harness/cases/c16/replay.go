package c16

import (
	"encoding/json"
	"flag"
	"fmt"
	"sort"
	"sync"
	"time"

	"github.com/samaritan-proxy/samaritan/logger"

	"verifharness/internal/cli"
)

func init() {
	logger.SetLevel("FATAL")
	cli.Register("c16-replay", replayCmd)
	cli.Register("c16-random", randomCmd)
}

// ---- behaviour format emitted by spec/config/DiscoveryGen.tla (projected by checks/c16.py to
// the environment-level steps)

type scriptStep struct {
	A    string   `json:"a"` // call | nsOK | nsFail | fail | silent | detect | send
	Kind string   `json:"kind,omitempty"`
	S    string   `json:"s,omitempty"`
	What string   `json:"what,omitempty"` // resub | batch
	Sub  []string `json:"S,omitempty"`
	Uns  []string `json:"U,omitempty"`
	Res  string   `json:"res,omitempty"` // ok | err | lost
}

type script struct {
	ID    int          `json:"id"`
	Kind  string       `json:"kind"` // sim | cex-deadlock | cex-outofsync
	Cap   int          `json:"cap"`  // queue capacity of the model that produced it
	Steps []scriptStep `json:"steps"`
}

type replayResult struct {
	ID         int     `json:"id"`
	Kind       string  `json:"kind"`
	Steps      int     `json:"steps"`
	Scale      int     `json:"scale"`
	Attempt    int     `json:"attempt"`
	DeadlineS  float64 `json:"deadline_s"`
	Followed   bool    `json:"followed"` // every step found the client where the model has it
	DivergeAt  int     `json:"divergeAt"`
	DivergeWhy string  `json:"divergeWhy,omitempty"`
	StuckAt    int     `json:"stuckAt"` // step before which a call did not return (-1: none, len: end phase)
	Out        outcome `json:"out"`
	Err        string  `json:"err,omitempty"`
}

func scaleNames(names []string, k int) []string {
	out := []string{}
	for _, n := range names {
		for i := 1; i <= k; i++ {
			out = append(out, fmt.Sprintf("%s#%d", n, i))
		}
	}
	sort.Strings(out)
	return out
}

func toSet(l []string) map[string]bool {
	m := map[string]bool{}
	for _, x := range l {
		m[x] = true
	}
	return m
}

func subsetOf(l []string, m map[string]bool) bool {
	for _, x := range l {
		if !m[x] {
			return false
		}
	}
	return true
}

// replayOne executes the environment-level steps of one model behaviour on a fresh real client.
// One model service stands for `scale` real services (real capacity / model capacity), so that
// "the queue is full" means the same in both.
func replayOne(sc script, deadline time.Duration, attempt int) replayResult {
	s := newSession(deadline)
	defer s.close()
	_, _, realCap := s.cli.QueueLens()
	scale := 1
	if sc.Cap > 0 && realCap%sc.Cap == 0 {
		scale = realCap / sc.Cap
	}
	res := replayResult{ID: sc.ID, Kind: sc.Kind, Steps: len(sc.Steps), Scale: scale, Attempt: attempt,
		DeadlineS: deadline.Seconds(), StuckAt: -1}
	f := s.f
	stuck := false
	nfail := 0
	// the model's failures have no kind the client reacts to: every signalled failure of the script gets
	// one of the kinds, rotating with the script's number so that all kinds occur
	nextKind := func() string {
		k := failureKinds[(sc.ID+nfail)%len(failureKinds)]
		nfail++
		return k
	}
	for i, st := range sc.Steps {
		switch st.A {
		case "call":
			if !s.awaitResolving(s.callerIdleLocked, true, i, "previous call had not returned") {
				stuck = true
				res.StuckAt = i
			} else {
				group := []realOp{}
				for _, n := range scaleNames([]string{st.S}, scale) {
					group = append(group, realOp{Kind: st.Kind, S: n})
				}
				s.submit(group)
				s.waitFor(s.callerIdleLocked, settleWindow)
			}
		case "nsOK", "nsFail":
			got := s.awaitResolvingNS(i)
			if !got {
				s.markDiverged(i, "no stream creation pending")
			} else {
				f.mu.Lock()
				if st.A == "nsOK" {
					f.answerNSLocked(true)
				} else {
					f.answerNSKindLocked(false, nextKind())
				}
				f.mu.Unlock()
				s.waitFor(func() bool { return f.pendSend != nil }, settleWindow/4)
			}
		case "fail":
			f.mu.Lock()
			ok := f.failStreamKindLocked(nextKind())
			f.mu.Unlock()
			if !ok {
				s.markDiverged(i, "no established stream to break")
			}
			s.waitFor(func() bool { return false }, settleWindow/8)
		case "silent":
			f.mu.Lock()
			ok := f.silentLocked()
			f.mu.Unlock()
			if !ok {
				s.markDiverged(i, "no established stream to silence")
			}
		case "detect":
			f.mu.Lock()
			ok := f.detectLocked()
			f.mu.Unlock()
			if !ok {
				s.markDiverged(i, "no silent stream")
			}
			s.waitFor(func() bool { return false }, settleWindow/8)
		case "send":
			// One model service is `scale` real services, enqueued one by one while the sender is
			// free to run: the real client may cut the model's request into consecutive parts.
			wantS, wantU := toSet(scaleNames(st.Sub, scale)), toSet(scaleNames(st.Uns, scale))
			released := 0
			for len(wantS)+len(wantU) > 0 || released == 0 {
				win := settleWindow
				if released > 0 {
					win = settleWindow / 2
				}
				if !s.waitFor(func() bool { return f.pendSend != nil }, win) {
					if released == 0 {
						s.markDiverged(i, "no Send pending")
					} else {
						s.markDiverged(i, "request is a strict part of the model's")
					}
					break
				}
				f.mu.Lock()
				if f.pendSend == nil {
					f.mu.Unlock()
					continue
				}
				m := f.pendSend.m
				part := subsetOf(m.Sub, wantS) && subsetOf(m.Unsub, wantU)
				if !part && released > 0 {
					f.mu.Unlock()
					s.markDiverged(i, "request is a strict part of the model's")
					break
				}
				if !part {
					s.markDiverged(i, "request differs from the model's")
				}
				for _, x := range m.Sub {
					delete(wantS, x)
				}
				for _, x := range m.Unsub {
					delete(wantU, x)
				}
				f.releaseSendLocked(st.Res == "lost")
				released++
				f.mu.Unlock()
				if !part {
					break
				}
			}
			s.waitFor(func() bool { return f.pendSend != nil }, settleWindow/8)
		}
		if stuck {
			break
		}
	}
	if stuck {
		// a call never returned although the environment was friendly: report where the client is
		f.mu.Lock()
		o := s.evalLocked()
		d := s.diagLocked()
		o.Stuck, o.Diag, o.NoRetry = true, &d, f.retryOutstanding
		f.logLocked("stuck", "h", sc.ID)
		o.Trace = append([]event{}, f.log...)
		o.Streams = len(f.streams)
		f.mu.Unlock()
		res.Out = o
	} else {
		res.Out = s.finish(sc.ID)
		if res.Out.Stuck {
			res.StuckAt = len(sc.Steps)
		}
	}
	res.Followed, res.DivergeAt, res.DivergeWhy = !s.diverged, s.divAt, s.divWhy
	return res
}

// awaitResolvingNS waits for the client to ask for a new stream; Sends left pending by the
// script are released meanwhile (the client cannot notice a broken stream while it is held in Send).
func (s *session) awaitResolvingNS(step int) bool {
	d := s.deadline
	if d > 2500*time.Millisecond {
		d = 2500 * time.Millisecond // the retry timer is at most 1.2 s
	}
	end := time.Now().Add(d)
	settle := time.Now().Add(settleWindow)
	for {
		s.f.mu.Lock()
		if s.f.pendNS != nil {
			s.f.mu.Unlock()
			return true
		}
		if time.Now().After(settle) && s.f.pendSend != nil {
			s.f.releaseSendLocked(false)
			s.markDiverged(step, "Send still pending when the model creates a stream")
			settle = time.Now().Add(settleWindow)
		}
		s.f.mu.Unlock()
		if time.Now().After(end) {
			return false
		}
		select {
		case <-s.f.changed:
		case <-time.After(2 * time.Millisecond):
		}
	}
}

func replayCmd(args []string) error {
	fs := flag.NewFlagSet("c16-replay", flag.ContinueOnError)
	in := fs.String("in", "", "behaviours (ndjson)")
	out := fs.String("out", "", "results (ndjson)")
	par := fs.Int("par", 48, "behaviours replayed concurrently")
	d1 := fs.Duration("deadline", 3*time.Second, "deadline for a call to return / the client to settle")
	d2 := fs.Duration("deadline2", 10*time.Second, "deadline of the confirming re-run")
	if err := fs.Parse(args); err != nil {
		return err
	}
	var scripts []script
	err := cli.ReadNDJSON(*in, func(line []byte) error {
		var sc script
		if err := json.Unmarshal(line, &sc); err != nil {
			return err
		}
		scripts = append(scripts, sc)
		return nil
	})
	if err != nil {
		return err
	}
	w, err := cli.NewNDJSONWriter(*out)
	if err != nil {
		return err
	}
	defer w.Close()
	results := make([]replayResult, len(scripts))
	sem := make(chan struct{}, *par)
	var wg sync.WaitGroup
	for i := range scripts {
		wg.Add(1)
		sem <- struct{}{}
		go func(i int) {
			defer wg.Done()
			defer func() { <-sem }()
			r := replayOne(scripts[i], *d1, 1)
			if r.Out.Stuck {
				// a verdict is only given when the longer re-run agrees
				r2 := replayOne(scripts[i], *d2, 2)
				if r2.Out.Stuck {
					r = r2
				} else {
					r = r2
					r.Err = ""
				}
			}
			results[i] = r
		}(i)
	}
	wg.Wait()
	for _, r := range results {
		if err := w.Write(r); err != nil {
			return err
		}
	}
	return nil
}
