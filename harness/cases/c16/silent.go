package c16

import (
	"flag"
	"fmt"
	"net"
	"reflect"
	"time"

	"google.golang.org/grpc"
	"google.golang.org/grpc/keepalive"

	"github.com/samaritan-proxy/samaritan/config"
	"github.com/samaritan-proxy/samaritan/pb/api"
	"github.com/samaritan-proxy/samaritan/pb/common"
	"github.com/samaritan-proxy/samaritan/pb/config/bootstrap"

	"verifharness/internal/cli"
)

func init() {
	cli.Register("c16-keepalive", keepaliveCmd)
	cli.Register("c16-blackhole", blackholeCmd)
	cli.Register("c16-largeset", largesetCmd)
	cli.Register("c16-kinds", kindsCmd)
	cli.Register("c16-latestart", latestartCmd)
}

// The silent kind of stream failure (Discovery.tla SilentFail / KeepaliveDetect).  Here the client is
// the one the proxy runs: config.New -> newDynamicSource -> initDiscoveryClient (config/dynamic.go),
// i.e. the code path that builds the real grpc.ClientConn with its dial options, and its three loops
// (dependency stream whose hook subscribes on the two service streams), against the real gRPC server
// of e2e.go behind the TCP forwarder of forward.go.

type realWorld struct {
	srv *e2eServer
	gs  *grpc.Server
	fwd *forwarder
	cfg *config.Config
}

func newRealWorld(initialDeps []string) (*realWorld, error) {
	return newRealWorldChunked(initialDeps, 0)
}

func newRealWorldChunked(initialDeps []string, depChunk int) (*realWorld, error) {
	srv := newE2EServer()
	srv.accept = true
	srv.depChunk = depChunk
	for _, d := range initialDeps {
		srv.deps[d] = true
	}
	lis, err := net.Listen("tcp", "127.0.0.1:0")
	if err != nil {
		return nil, err
	}
	// a server that tolerates the client's pings (the default policy answers pings more frequent
	// than 5 min with GOAWAY after the third; not what is examined here)
	gs := grpc.NewServer(grpc.KeepaliveEnforcementPolicy(keepalive.EnforcementPolicy{MinTime: 5 * time.Second, PermitWithoutStream: true}))
	api.RegisterDiscoveryServiceServer(gs, srv)
	go gs.Serve(lis) //nolint:errcheck
	fwd, err := newForwarder(lis.Addr().String())
	if err != nil {
		gs.Stop()
		return nil, err
	}
	b := &bootstrap.Bootstrap{
		Admin:               &bootstrap.Admin{Bind: &common.Address{Ip: "127.0.0.1", Port: 1}},
		Instance:            &common.Instance{Id: "verif", Belong: "verif"},
		DynamicSourceConfig: &bootstrap.ConfigSource{Endpoint: fwd.addr()},
	}
	cfg, err := config.New(b) // starts the dynamic source: grpc.Dial with the production options, Serve()
	if err != nil {
		fwd.close()
		gs.Stop()
		return nil, fmt.Errorf("config.New: %v", err)
	}
	return &realWorld{srv: srv, gs: gs, fwd: fwd, cfg: cfg}, nil
}

func (w *realWorld) close() {
	w.fwd.close()
	w.gs.Stop()
}

// view of one scope as the server sees it: number of streams, the last one alive, what it carries
func (w *realWorld) scopeLocked(scope string) (n int, alive bool, carried map[string]bool) {
	recs := w.srv.scopes[scope]
	if len(recs) == 0 {
		return 0, false, map[string]bool{}
	}
	last := recs[len(recs)-1]
	return len(recs), last.alive, fold(last.msgs, false)
}

func sameKeys(a, b map[string]bool) bool {
	ka, kb := keys(a), keys(b)
	if len(ka) != len(kb) {
		return false
	}
	for i := range ka {
		if ka[i] != kb[i] {
			return false
		}
	}
	return true
}

// carriesDeps: a stream numbered > after exists for both scopes, is alive and carries exactly deps.
func (w *realWorld) carriesDeps(after map[string]int) bool {
	w.srv.mu.Lock()
	defer w.srv.mu.Unlock()
	for _, scope := range []string{"config", "endpoint"} {
		n, alive, carried := w.scopeLocked(scope)
		if n <= after[scope] || !alive || !sameKeys(carried, w.srv.deps) {
			return false
		}
	}
	return true
}

func (w *realWorld) waitCarries(after map[string]int, d time.Duration) bool {
	end := time.Now().Add(d)
	for {
		if w.carriesDeps(after) {
			return true
		}
		if time.Now().After(end) {
			return false
		}
		time.Sleep(50 * time.Millisecond)
	}
}

// keepaliveOf reads the keepalive parameters of the ClientConn that initDiscoveryClient built.
// grpc has no public accessor for dial options: the fields are read (read-only reflection, nothing is
// modified) along Config.d -> dynamicSource.conn -> ClientConn.dopts.copts.KeepaliveParams.
func keepaliveOf(cfg *config.Config) (kt, kto time.Duration, permit bool, err error) {
	defer func() {
		if r := recover(); r != nil {
			err = fmt.Errorf("cannot read the keepalive parameters of the ClientConn: %v", r)
		}
	}()
	d := reflect.ValueOf(cfg).Elem().FieldByName("d")
	if !d.IsValid() || d.IsNil() {
		return 0, 0, false, fmt.Errorf("the configuration store has no dynamic source")
	}
	conn := d.Elem().Elem().FieldByName("conn")
	if !conn.IsValid() || conn.IsNil() {
		return 0, 0, false, fmt.Errorf("the dynamic source has no ClientConn")
	}
	kp := conn.Elem().FieldByName("dopts").FieldByName("copts").FieldByName("KeepaliveParams")
	kt = time.Duration(kp.FieldByName("Time").Int())
	kto = time.Duration(kp.FieldByName("Timeout").Int())
	permit = kp.FieldByName("PermitWithoutStream").Bool()
	return kt, kto, permit, nil
}

type keepaliveResult struct {
	StreamsUp     bool    `json:"streamsUp"` // the three production loops reached the server through this ClientConn
	TimeS         float64 `json:"time_s"`    // as passed to grpc.Dial (0 = not set = no keepalive)
	TimeoutS      float64 `json:"timeout_s"`
	Permit        bool    `json:"permitWithoutStream"`
	EffTimeS      float64 `json:"effective_time_s"` // after grpc's defaults and clamping; -1 = infinity
	EffTimeoutS   float64 `json:"effective_timeout_s"`
	DetectWithinS float64 `json:"detect_within_s"` // 2*time + timeout (grpc 1.23: the timer is re-armed once after activity); -1 = never
	Err           string  `json:"err,omitempty"`
}

func probeKeepalive(w *realWorld) keepaliveResult {
	var res keepaliveResult
	kt, kto, permit, err := keepaliveOf(w.cfg)
	if err != nil {
		res.Err = err.Error()
		return res
	}
	res.TimeS, res.TimeoutS, res.Permit = kt.Seconds(), kto.Seconds(), permit
	// grpc-go v1.23 internal/transport/http2_client.go:172-183, dialoptions.go:398-403
	if kt == 0 {
		res.EffTimeS, res.DetectWithinS = -1, -1
	} else {
		if kt < 10*time.Second {
			kt = 10 * time.Second
		}
		res.EffTimeS = kt.Seconds()
	}
	if kto == 0 {
		kto = 20 * time.Second
	}
	res.EffTimeoutS = kto.Seconds()
	if res.EffTimeS > 0 {
		res.DetectWithinS = (2*kt + kto).Seconds()
	}
	return res
}

func keepaliveCmd(args []string) error {
	fs := flag.NewFlagSet("c16-keepalive", flag.ContinueOnError)
	out := fs.String("out", "", "result (ndjson)")
	if err := fs.Parse(args); err != nil {
		return err
	}
	w, err := newRealWorld([]string{"svc00", "svc01"})
	if err != nil {
		return err
	}
	defer w.close()
	res := probeKeepalive(w)
	res.StreamsUp = w.waitCarries(map[string]int{"config": 0, "endpoint": 0}, 10*time.Second)
	wr, err := cli.NewNDJSONWriter(*out)
	if err != nil {
		return err
	}
	defer wr.Close()
	return wr.Write(res)
}

type blackholeResult struct {
	Name         string             `json:"name"`
	DeadlineS    float64            `json:"deadline_s"`
	Keepalive    keepaliveResult    `json:"keepalive"`
	FirstUp      bool               `json:"firstUp"`   // the first streams carried the dependency set
	Recovered    bool               `json:"recovered"` // new streams carried the (changed) dependency set
	ElapsedS     float64            `json:"elapsed_s"` // black-hole -> recovered (or give-up)
	Connections  int                `json:"connections"`
	StreamsAfter map[string]int     `json:"streamsAfter"`
	Clients      map[string]outcome `json:"clients"`
	Err          string             `json:"err,omitempty"`
}

func blackholeCmd(args []string) error {
	fs := flag.NewFlagSet("c16-blackhole", flag.ContinueOnError)
	out := fs.String("out", "", "result (ndjson)")
	dl := fs.Duration("deadline", 90*time.Second, "deadline for new streams carrying the dependency set after the black-hole")
	confirm := fs.Duration("confirm", 150*time.Second, "how long to keep waiting before 'never' is reported (loaded machines)")
	if err := fs.Parse(args); err != nil {
		return err
	}
	res := blackholeResult{Name: "silent/connection-black-holed-2-dependencies-added", DeadlineS: dl.Seconds(),
		Clients: map[string]outcome{}, StreamsAfter: map[string]int{}}
	wr, err := cli.NewNDJSONWriter(*out)
	if err != nil {
		return err
	}
	defer wr.Close()
	w, err := newRealWorld(names("svc", 0, 5))
	if err != nil {
		return err
	}
	defer w.close()
	res.Keepalive = probeKeepalive(w)
	res.FirstUp = w.waitCarries(map[string]int{"config": 0, "endpoint": 0}, 15*time.Second)
	res.Keepalive.StreamsUp = res.FirstUp
	if !res.FirstUp {
		res.Err = "the first streams never carried the dependency set"
		return wr.Write(res)
	}
	w.srv.mu.Lock()
	before := map[string]int{}
	for _, scope := range []string{"config", "endpoint"} {
		before[scope], _, _ = w.scopeLocked(scope)
	}
	w.srv.mu.Unlock()
	// the connection dies silently; new connections are possible at once; the dependency set grows
	// (a (re)connecting instance is told all its dependencies)
	w.fwd.blackhole()
	start := time.Now()
	w.srv.mu.Lock()
	for _, n := range names("svc", 5, 7) {
		w.srv.deps[n] = true
	}
	w.srv.mu.Unlock()
	wait := *dl
	if *confirm > wait {
		wait = *confirm
	}
	res.Recovered = w.waitCarries(before, wait)
	res.ElapsedS = time.Since(start).Seconds()
	res.Connections = w.fwd.connections()
	w.srv.mu.Lock()
	for _, scope := range []string{"config", "endpoint"} {
		n, alive, _ := w.scopeLocked(scope)
		res.StreamsAfter[scope] = n
		recs := w.srv.scopes[scope]
		f := &fakeServer{deps: w.srv.deps}
		if n > before[scope] {
			f.cur = &fakeStream{msgs: recs[n-1].msgs, broken: !alive}
		}
		o := (&session{f: f}).evalLocked() // no newer stream: nothing is subscribed anywhere the server can see
		o.Streams = n
		o.Trace = []event{}
		res.Clients[scope] = o
	}
	w.srv.mu.Unlock()
	return wr.Write(res)
}

// ---- a large dependency set through the production dial path

type largeResult struct {
	Name         string             `json:"name"`
	Services     int                `json:"services"`
	NameBytes    int                `json:"nameBytes"` // bytes of names in the resubscription request
	DeadlineS    float64            `json:"deadline_s"`
	FirstUp      bool               `json:"firstUp"`
	Recovered    bool               `json:"recovered"`
	ElapsedS     float64            `json:"elapsed_s"`
	StreamsAfter map[string]int     `json:"streamsAfter"`
	Clients      map[string]outcome `json:"clients"`
	Err          string             `json:"err,omitempty"`
}

// longNames are service names of the kind a service registry holds.
func longNames(n int) []string {
	envs := []string{"production", "staging", "canary"}
	teams := []string{"payment-gateway", "order-fulfilment", "customer-profile", "search-indexer", "notification-dispatcher", "inventory-ledger"}
	kinds := []string{"redis-cluster", "redis-cache", "mysql-proxy", "session-store"}
	out := make([]string, 0, n)
	for i := 0; i < n; i++ {
		out = append(out, fmt.Sprintf("%s.%s.%s.shard-%04d.svc.dc-%d.example.internal",
			envs[i%len(envs)], teams[(i/3)%len(teams)], kinds[(i/7)%len(kinds)], i, 1+i%4))
	}
	return out
}

// largesetCmd: the production client (config.New -> initDiscoveryClient -> grpc.Dial with the production
// options) learns a large dependency set; the server then ends the service streams once.  The next
// streams must carry exactly the set: the resubscription is ONE request naming every service.
func largesetCmd(args []string) error {
	fs := flag.NewFlagSet("c16-largeset", flag.ContinueOnError)
	out := fs.String("out", "", "result (ndjson)")
	n := fs.Int("n", 1500, "services")
	dl := fs.Duration("deadline", 10*time.Second, "deadline for the new streams to carry the set")
	confirm := fs.Duration("confirm", 25*time.Second, "how long to keep waiting before 'never' is reported")
	if err := fs.Parse(args); err != nil {
		return err
	}
	res := largeResult{Name: fmt.Sprintf("large-set/%d-services-service-streams-ended-once", *n), Services: *n, DeadlineS: dl.Seconds(),
		Clients: map[string]outcome{}, StreamsAfter: map[string]int{}}
	wr, err := cli.NewNDJSONWriter(*out)
	if err != nil {
		return err
	}
	defer wr.Close()
	deps := longNames(*n)
	for _, d := range deps {
		res.NameBytes += len(d)
	}
	// the dependencies arrive in responses of 40 services (3 KB each): what is examined is the request
	// that resubscribes all of them at once
	w, err := newRealWorldChunked(deps, 40)
	if err != nil {
		return err
	}
	defer w.close()
	res.FirstUp = w.waitCarries(map[string]int{"config": 0, "endpoint": 0}, 30*time.Second)
	if !res.FirstUp {
		res.Err = "the first streams never carried the dependency set (incremental requests)"
		return wr.Write(res)
	}
	w.srv.mu.Lock()
	before := map[string]int{}
	for _, scope := range []string{"config", "endpoint"} {
		before[scope], _, _ = w.scopeLocked(scope)
	}
	w.srv.mu.Unlock()
	w.srv.killSvcStreams()
	start := time.Now()
	wait := *dl
	if *confirm > wait {
		wait = *confirm
	}
	res.Recovered = w.waitCarries(before, wait)
	res.ElapsedS = time.Since(start).Seconds()
	w.srv.mu.Lock()
	for _, scope := range []string{"config", "endpoint"} {
		nst, alive, _ := w.scopeLocked(scope)
		res.StreamsAfter[scope] = nst
		recs := w.srv.scopes[scope]
		f := &fakeServer{deps: w.srv.deps}
		if nst > before[scope] {
			f.cur = &fakeStream{msgs: recs[nst-1].msgs, broken: !alive}
		}
		o := (&session{f: f}).evalLocked()
		o.Streams = nst
		o.Trace = []event{}
		// keep the artefact small
		o.Msgs = nil
		if len(o.Missing) > 8 {
			o.Missing = append(o.Missing[:8], fmt.Sprintf("... %d more", len(o.Missing)-8))
		}
		o.Deps, o.Srv = nil, nil
		res.Clients[scope] = o
	}
	w.srv.mu.Unlock()
	return wr.Write(res)
}

// ---- the real server ends streams with every status code the client can observe

type kindsResult struct {
	Name      string         `json:"name"`
	Kind      string         `json:"kind"`
	Target    string         `json:"target"` // service | dependency
	DeadlineS float64        `json:"deadline_s"`
	Recovered bool           `json:"recovered"`
	ElapsedS  float64        `json:"elapsed_s"`
	Streams   map[string]int `json:"streams"`
	Missing   []string       `json:"missing"`
	Err       string         `json:"err,omitempty"`
}

func kindsCmd(args []string) error {
	fs := flag.NewFlagSet("c16-kinds", flag.ContinueOnError)
	out := fs.String("out", "", "results (ndjson)")
	list := fs.String("kinds", "Canceled,Unavailable", "comma separated kinds")
	dl := fs.Duration("deadline", 10*time.Second, "deadline for new streams to carry the set")
	confirm := fs.Duration("confirm", 25*time.Second, "how long to keep waiting before 'never' is reported")
	if err := fs.Parse(args); err != nil {
		return err
	}
	wr, err := cli.NewNDJSONWriter(*out)
	if err != nil {
		return err
	}
	defer wr.Close()
	var kinds []string
	for _, k := range splitComma(*list) {
		kinds = append(kinds, k)
	}
	type job struct{ kind, target string }
	var jobs []job
	for _, k := range kinds {
		jobs = append(jobs, job{k, "service"}, job{k, "dependency"})
	}
	results := make([]kindsResult, len(jobs))
	done := make(chan int, len(jobs))
	for i, j := range jobs {
		go func(i int, j job) {
			defer func() { done <- i }()
			res := kindsResult{Name: fmt.Sprintf("status/%s-stream-ended-with-%s", j.target, j.kind), Kind: j.kind, Target: j.target,
				DeadlineS: dl.Seconds(), Streams: map[string]int{}}
			w, err := newRealWorld(names("svc", 0, 5))
			if err != nil {
				res.Err = err.Error()
				results[i] = res
				return
			}
			defer w.close()
			if !w.waitCarries(map[string]int{"config": 0, "endpoint": 0}, 15*time.Second) {
				res.Err = "the first streams never carried the dependency set"
				results[i] = res
				return
			}
			w.srv.mu.Lock()
			w.srv.killKind = j.kind
			before := map[string]int{}
			for _, scope := range []string{"config", "endpoint"} {
				before[scope], _, _ = w.scopeLocked(scope)
			}
			w.srv.mu.Unlock()
			start := time.Now()
			if j.target == "service" {
				w.srv.killSvcStreams()
				// the set changes while the streams are gone
				w.srv.push(names("svc", 5, 7), nil)
			} else {
				// the dependency stream ends; a reconnecting instance is told all its dependencies
				w.srv.mu.Lock()
				for _, n := range names("svc", 5, 7) {
					w.srv.deps[n] = true
				}
				w.srv.mu.Unlock()
				w.srv.depKill <- struct{}{}
				before = map[string]int{"config": 0, "endpoint": 0}
			}
			wait := *dl
			if *confirm > wait {
				wait = *confirm
			}
			res.Recovered = w.waitCarries(before, wait)
			res.ElapsedS = time.Since(start).Seconds()
			w.srv.mu.Lock()
			for _, scope := range []string{"config", "endpoint"} {
				n, _, carried := w.scopeLocked(scope)
				res.Streams[scope] = n
				if scope == "config" {
					for _, d := range keys(w.srv.deps) {
						if !carried[d] || n <= before[scope] {
							res.Missing = append(res.Missing, d)
						}
					}
				}
			}
			w.srv.mu.Unlock()
			results[i] = res
		}(i, j)
	}
	for range jobs {
		<-done
	}
	for _, r := range results {
		if err := wr.Write(r); err != nil {
			return err
		}
	}
	return nil
}

func splitComma(s string) []string {
	var out []string
	cur := ""
	for _, c := range s {
		if c == ',' {
			if cur != "" {
				out = append(out, cur)
			}
			cur = ""
		} else {
			cur += string(c)
		}
	}
	if cur != "" {
		out = append(out, cur)
	}
	return out
}

// ---- the discovery server is not reachable when the proxy starts

type lateResult struct {
	Name      string         `json:"name"`
	DelayS    float64        `json:"delay_s"`
	DeadlineS float64        `json:"deadline_s"`  // counted from the moment the server listens
	NewS      float64        `json:"configNew_s"` // how long config.New took
	Recovered bool           `json:"recovered"`
	ElapsedS  float64        `json:"elapsed_s"` // server listening -> streams carry the set (or give-up)
	Streams   map[string]int `json:"streams"`
	Err       string         `json:"err,omitempty"`
}

func lateOne(delay, deadline, confirm time.Duration) lateResult {
	res := lateResult{Name: fmt.Sprintf("start/server-starts-listening-%.0fs-after-the-proxy", delay.Seconds()), DelayS: delay.Seconds(),
		DeadlineS: deadline.Seconds(), Streams: map[string]int{}}
	// reserve an address nothing listens on
	l0, err := net.Listen("tcp", "127.0.0.1:0")
	if err != nil {
		res.Err = err.Error()
		return res
	}
	addr := l0.Addr().String()
	l0.Close()
	b := &bootstrap.Bootstrap{
		Admin:               &bootstrap.Admin{Bind: &common.Address{Ip: "127.0.0.1", Port: 1}},
		Instance:            &common.Instance{Id: "verif", Belong: "verif"},
		DynamicSourceConfig: &bootstrap.ConfigSource{Endpoint: addr},
	}
	t0 := time.Now()
	if _, err := config.New(b); err != nil { // the proxy starts while the discovery server is down
		res.Err = fmt.Sprintf("config.New: %v", err)
		return res
	}
	res.NewS = time.Since(t0).Seconds()
	if rem := delay - time.Since(t0); rem > 0 {
		time.Sleep(rem)
	}
	srv := newE2EServer()
	srv.accept = true
	for _, d := range names("svc", 0, 5) {
		srv.deps[d] = true
	}
	lis, err := net.Listen("tcp", addr)
	if err != nil {
		res.Err = fmt.Sprintf("cannot listen on the reserved address: %v", err)
		return res
	}
	gs := grpc.NewServer(grpc.KeepaliveEnforcementPolicy(keepalive.EnforcementPolicy{MinTime: 5 * time.Second, PermitWithoutStream: true}))
	api.RegisterDiscoveryServiceServer(gs, srv)
	go gs.Serve(lis) //nolint:errcheck
	defer gs.Stop()
	w := &realWorld{srv: srv}
	start := time.Now()
	wait := deadline
	if confirm > wait {
		wait = confirm
	}
	res.Recovered = w.waitCarries(map[string]int{"config": 0, "endpoint": 0}, wait)
	res.ElapsedS = time.Since(start).Seconds()
	srv.mu.Lock()
	for _, scope := range []string{"config", "endpoint"} {
		res.Streams[scope] = len(srv.scopes[scope])
	}
	srv.mu.Unlock()
	return res
}

func latestartCmd(args []string) error {
	fs := flag.NewFlagSet("c16-latestart", flag.ContinueOnError)
	out := fs.String("out", "", "results (ndjson)")
	list := fs.String("delays", "7", "comma separated delays in seconds")
	if err := fs.Parse(args); err != nil {
		return err
	}
	wr, err := cli.NewNDJSONWriter(*out)
	if err != nil {
		return err
	}
	defer wr.Close()
	var delays []time.Duration
	for _, d := range splitComma(*list) {
		var n int
		fmt.Sscanf(d, "%d", &n)
		delays = append(delays, time.Duration(n)*time.Second)
	}
	results := make([]lateResult, len(delays))
	done := make(chan int, len(delays))
	for i, d := range delays {
		go func(i int, d time.Duration) {
			// grpc's connection back-off grows with the outage (1 s, 1.6, 2.6, ... 120 s max): the next attempt
			// may come as late as the outage has lasted
			deadline := 15*time.Second + 2*d
			results[i] = lateOne(d, deadline, deadline+15*time.Second)
			done <- i
		}(i, d)
	}
	for range delays {
		<-done
	}
	for _, r := range results {
		if err := wr.Write(r); err != nil {
			return err
		}
	}
	return nil
}
