package c16

import (
	"flag"
	"fmt"
	"math/rand"
	"sync"
	"time"

	"verifharness/internal/cli"
)

type randomResult struct {
	ID        int     `json:"id"`
	Seed      int64   `json:"seed"`
	Profile   string  `json:"profile"`
	Attempt   int     `json:"attempt"`
	DeadlineS float64 `json:"deadline_s"`
	Ops       int     `json:"ops"`
	Out       outcome `json:"out"`
}

// randomOne runs one seeded random history against a fresh real client: caller operations (more than
// the queue holds), stream creations granted, refused or delayed, Sends held back so that batches
// form, the established stream broken at random points.  Every choice is drawn from rng; which
// choices are possible depends on what the real client is doing (it decides when it asks for a
// stream or sends), so the history is recorded as a trace.
func randomOne(id int, seed int64, deadline time.Duration, attempt int) randomResult {
	rng := rand.New(rand.NewSource(seed))
	s := newSession(deadline)
	defer s.close()
	f := s.f
	nsvc := 8 + rng.Intn(33)
	target := 40 + rng.Intn(100)
	failsLeft := rng.Intn(4)
	// profile: how eagerly the environment answers
	wSend := []float64{8, 1, 0.3}[rng.Intn(3)]  // weight of releasing a pending Send
	wNS := []float64{6, 0.5, 0.05}[rng.Intn(3)] // weight of answering a pending stream creation
	pFlip := []float64{0.1, 0.4}[rng.Intn(2)]   // probability of operating on the previous service again
	// calm callers change few dependencies while no stream is up (weight of pausing 1 ms instead)
	wWaitDown := []float64{0, 0, 600}[rng.Intn(3)]
	waitFirst := rng.Intn(4) != 0 // no operation before the first stream is established
	profile := fmt.Sprintf("svcs=%d ops=%d fails=%d wSend=%g wNS=%g pFlip=%g wWaitDown=%g waitFirst=%v",
		nsvc, target, failsLeft, wSend, wNS, pFlip, wWaitDown, waitFirst)
	res := randomResult{ID: id, Seed: seed, Profile: profile, Attempt: attempt, DeadlineS: deadline.Seconds()}
	deps := map[string]bool{}
	last := ""
	ops := 0
	idleSince := time.Time{}
	stuck := false
	for {
		f.mu.Lock()
		callerIdle := s.callerIdleLocked()
		if ops >= target && callerIdle {
			f.mu.Unlock()
			break
		}
		type choice struct {
			name string
			w    float64
		}
		var cs []choice
		if callerIdle && ops < target && !(waitFirst && f.cur == nil) {
			cs = append(cs, choice{"op", 6})
			if !f.upLocked() && wWaitDown > 0 {
				cs = append(cs, choice{"wait", wWaitDown})
			}
		}
		if f.pendSend != nil {
			cs = append(cs, choice{"send", wSend})
		}
		if f.pendNS != nil {
			cs = append(cs, choice{"ns", wNS})
		}
		if f.upLocked() && failsLeft > 0 {
			cs = append(cs, choice{"fail", 0.15}, choice{"silent", 0.1})
		}
		if f.silentNowLocked() {
			cs = append(cs, choice{"detect", 0.4}) // the keepalive fires after a while
		}
		onlyFaults := true
		for _, c := range cs {
			if c.name != "fail" && c.name != "silent" {
				onlyFaults = false
			}
		}
		if len(cs) == 0 || onlyFaults {
			// nothing for the environment to do: the client is in its retry timer, or blocked
			f.mu.Unlock()
			if idleSince.IsZero() {
				idleSince = time.Now()
			} else if time.Since(idleSince) > deadline {
				stuck = true
				break
			}
			select {
			case <-f.changed:
			case <-time.After(2 * time.Millisecond):
			}
			continue
		}
		idleSince = time.Time{}
		tot := 0.0
		for _, c := range cs {
			tot += c.w
		}
		x := rng.Float64() * tot
		pick := cs[len(cs)-1].name
		for _, c := range cs {
			if x < c.w {
				pick = c.name
				break
			}
			x -= c.w
		}
		switch pick {
		case "send":
			f.releaseSendLocked(false)
		case "ns":
			ok := true
			if failsLeft > 0 && rng.Float64() < 0.3 {
				ok = false
				failsLeft--
			}
			if ok {
				f.answerNSLocked(true)
			} else {
				f.answerNSKindLocked(false, failureKinds[rng.Intn(len(failureKinds))])
			}
		case "fail":
			f.failStreamKindLocked(failureKinds[rng.Intn(len(failureKinds))])
			failsLeft--
		case "silent":
			f.silentLocked()
			failsLeft--
		case "detect":
			f.detectLocked()
		}
		f.mu.Unlock()
		if pick == "wait" {
			time.Sleep(time.Millisecond)
		} else if pick == "op" {
			svc := fmt.Sprintf("s%02d", rng.Intn(nsvc))
			if last != "" && rng.Float64() < pFlip {
				svc = last
			}
			kind := "sub"
			if deps[svc] {
				kind = "unsub"
			}
			if rng.Float64() < 0.05 { // a call that finds the service already in the requested state
				if kind == "sub" {
					kind = "unsub"
				} else {
					kind = "sub"
				}
			}
			if kind == "sub" {
				deps[svc] = true
			} else {
				delete(deps, svc)
			}
			last = svc
			ops++
			s.submit([]realOp{{Kind: kind, S: svc}})
			// let the call run; it may legitimately block on a full queue
			s.waitFor(s.callerIdleLocked, time.Duration(200+rng.Intn(1500))*time.Microsecond)
		} else if rng.Intn(3) == 0 {
			time.Sleep(time.Duration(rng.Intn(300)) * time.Microsecond)
		}
	}
	res.Ops = ops
	if stuck {
		f.mu.Lock()
		o := s.evalLocked()
		d := s.diagLocked()
		o.Stuck, o.Diag, o.NoRetry = true, &d, f.retryOutstanding
		f.logLocked("stuck", "h", id)
		o.Trace = append([]event{}, f.log...)
		o.Streams = len(f.streams)
		f.mu.Unlock()
		for _, e := range o.Trace {
			if e["ev"] == "call" {
				o.Calls++
			}
		}
		res.Out = o
	} else {
		res.Out = s.finish(id)
	}
	return res
}

func randomCmd(args []string) error {
	fs := flag.NewFlagSet("c16-random", flag.ContinueOnError)
	n := fs.Int("n", 40, "histories")
	out := fs.String("out", "", "results (ndjson)")
	par := fs.Int("par", 32, "histories run concurrently")
	d1 := fs.Duration("deadline", 3*time.Second, "deadline")
	d2 := fs.Duration("deadline2", 10*time.Second, "deadline of the confirming re-run")
	if err := fs.Parse(args); err != nil {
		return err
	}
	w, err := cli.NewNDJSONWriter(*out)
	if err != nil {
		return err
	}
	defer w.Close()
	results := make([]randomResult, *n)
	sem := make(chan struct{}, *par)
	var wg sync.WaitGroup
	for i := 0; i < *n; i++ {
		wg.Add(1)
		sem <- struct{}{}
		go func(i int) {
			defer wg.Done()
			defer func() { <-sem }()
			seed := cli.Seed()*1000003 + int64(i)
			r := randomOne(i, seed, *d1, 1)
			if r.Out.Stuck {
				r = randomOne(i, seed, *d2, 2)
			}
			results[i] = r
		}(i)
	}
	wg.Wait()
	for _, r := range results {
		if err := w.Write(r); err != nil {
			return err
		}
	}
	return nil
}
