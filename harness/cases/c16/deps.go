package c16

import (
	"context"
	"encoding/json"
	"flag"
	"sort"
	"strings"
	"sync"
	"time"

	"google.golang.org/grpc"

	"github.com/samaritan-proxy/samaritan/config"
	"github.com/samaritan-proxy/samaritan/pb/api"
	"github.com/samaritan-proxy/samaritan/pb/common"
	"github.com/samaritan-proxy/samaritan/pb/config/service"

	"verifharness/internal/cli"
)

func init() { cli.Register("c16-deps", depsCmd) }

// The dependency side: the real discoveryClient (config/discovery.go:31-76) on a scripted
// api.DiscoveryServiceClient.  The dependency stream delivers the messages of the script to the real
// receive loop, whose hook calls Subscribe / Unsubscribe on the two real subscription clients; the
// service-config and service-endpoint streams are the scripted streams of fake.go (creation and
// every Send held until the script answers).  Model: Discovery.tla DepMsg / ApplyNext.

type depStream struct {
	grpc.ClientStream
	ctx  context.Context
	ch   chan *api.DependencyDiscoveryResponse
	fail chan error
}

func (d *depStream) Recv() (*api.DependencyDiscoveryResponse, error) {
	select {
	case err := <-d.fail: // the dependency stream itself ends with an error of some kind
		return nil, err
	default:
	}
	select {
	case m := <-d.ch:
		return m, nil
	case err := <-d.fail:
		return nil, err
	case <-d.ctx.Done():
		return nil, d.ctx.Err()
	}
}

type cfgStream struct {
	grpc.ClientStream
	st config.VerifSvcStream
}

func (c *cfgStream) Send(r *api.SvcConfigDiscoveryRequest) error {
	return c.st.Send(r.SvcNamesSubscribe, r.SvcNamesUnsubscribe)
}
func (c *cfgStream) Recv() (*api.SvcConfigDiscoveryResponse, error) { return nil, c.st.Recv() }

type epStream struct {
	grpc.ClientStream
	st config.VerifSvcStream
}

func (c *epStream) Send(r *api.SvcEndpointDiscoveryRequest) error {
	return c.st.Send(r.SvcNamesSubscribe, r.SvcNamesUnsubscribe)
}
func (c *epStream) Recv() (*api.SvcEndpointDiscoveryResponse, error) { return nil, c.st.Recv() }

type depStub struct {
	depCh   chan *api.DependencyDiscoveryResponse
	depFail chan error
	mu      sync.Mutex
	depReqs int // StreamDependencies calls
	cfg     *fakeServer
	ep      *fakeServer
}

func (s *depStub) StreamDependencies(ctx context.Context, in *api.DependencyDiscoveryRequest, opts ...grpc.CallOption) (api.DiscoveryService_StreamDependenciesClient, error) {
	s.mu.Lock()
	s.depReqs++
	s.mu.Unlock()
	return &depStream{ctx: ctx, ch: s.depCh, fail: s.depFail}, nil
}

func (s *depStub) StreamSvcConfigs(ctx context.Context, opts ...grpc.CallOption) (api.DiscoveryService_StreamSvcConfigsClient, error) {
	st, err := s.cfg.maker(ctx)
	if err != nil {
		return nil, err
	}
	return &cfgStream{st: st}, nil
}

func (s *depStub) StreamSvcEndpoints(ctx context.Context, opts ...grpc.CallOption) (api.DiscoveryService_StreamSvcEndpointsClient, error) {
	st, err := s.ep.maker(ctx)
	if err != nil {
		return nil, err
	}
	return &epStream{st: st}, nil
}

// ---- scripts (environment-level steps of DiscoveryGen behaviours, or hand-written strata)

type depStep struct {
	A       string   `json:"a"` // dep | depfail | nsOK | nsFail | fail | silent | detect | send | hold
	Code    string   `json:"code,omitempty"`
	Added   []string `json:"added,omitempty"`
	Removed []string `json:"removed,omitempty"`
	Sub     []string `json:"S,omitempty"`
	Uns     []string `json:"U,omitempty"`
	Res     string   `json:"res,omitempty"`
}

type depScript struct {
	ID    int       `json:"id"`
	Kind  string    `json:"kind"`
	Cap   int       `json:"cap"`
	Steps []depStep `json:"steps"`
}

type depResult struct {
	ID         int                `json:"id"`
	Kind       string             `json:"kind"`
	Scale      int                `json:"scale"`
	Attempt    int                `json:"attempt"`
	DeadlineS  float64            `json:"deadline_s"`
	Followed   bool               `json:"followed"`
	DivergeWhy string             `json:"divergeWhy,omitempty"`
	Messages   int                `json:"messages"` // dependency messages delivered
	HooksSeen  int                `json:"hooksSeen"`
	Applied    bool               `json:"applied"` // the receive loop took the closing marker: every message has been applied
	Deps       []string           `json:"deps"`    // the dependency set as the user's hook has it
	Clients    map[string]outcome `json:"clients"` // per scope: what its current stream carries
	SetDiffers map[string]bool    `json:"setDiffers"`
}

type depSession struct {
	stub     *depStub
	dc       *config.VerifDiscoveryClient
	cancel   context.CancelFunc
	scopes   map[string]*fakeServer
	handles  map[string]*config.VerifSvcClient
	mu       sync.Mutex
	deps     map[string]bool
	hooks    int
	marker   bool
	deadline time.Duration
	diverged string
}

func newDepSession(deadline time.Duration) *depSession {
	s := &depSession{deadline: deadline, deps: map[string]bool{}}
	s.stub = &depStub{depCh: make(chan *api.DependencyDiscoveryResponse, 256), depFail: make(chan error, 4),
		cfg: newFakeServer(), ep: newFakeServer()}
	s.scopes = map[string]*fakeServer{"config": s.stub.cfg, "endpoint": s.stub.ep}
	s.dc = config.NewVerifDiscoveryClient(s.stub)
	s.handles = map[string]*config.VerifSvcClient{"config": s.dc.SvcConfigClient(), "endpoint": s.dc.SvcEndpointClient()}
	ctx, cancel := context.WithCancel(context.Background())
	s.cancel = cancel
	hook := func(added, removed []*service.Service) {
		s.mu.Lock()
		defer s.mu.Unlock()
		for _, a := range added {
			s.deps[a.Name] = true
		}
		for _, r := range removed {
			if r.Name == markerSvc {
				s.marker = true
				continue
			}
			delete(s.deps, r.Name)
		}
		s.hooks++
	}
	// the three loops of dynamicSource.Serve
	go s.dc.StreamDependencies(ctx, &common.Instance{Id: "verif", Belong: "verif"}, hook)
	go s.dc.StreamSvcConfigs(ctx, nil)
	go s.dc.StreamSvcEndpoints(ctx, nil)
	return s
}

func (s *depSession) close() {
	s.cancel()
	for _, f := range s.scopes {
		f.close()
	}
}

func (s *depSession) div(why string) {
	if s.diverged == "" {
		s.diverged = why
	}
}

func fsWait(f *fakeServer, cond func() bool, d time.Duration) bool {
	end := time.Now().Add(d)
	for {
		f.mu.Lock()
		ok := cond()
		f.mu.Unlock()
		if ok {
			return true
		}
		if time.Now().After(end) {
			return false
		}
		select {
		case <-f.changed:
		case <-time.After(2 * time.Millisecond):
		}
	}
}

func (s *depSession) push(added, removed []string) {
	m := &api.DependencyDiscoveryResponse{}
	for _, n := range added {
		m.Added = append(m.Added, &service.Service{Name: n})
	}
	for _, n := range removed {
		m.Removed = append(m.Removed, &service.Service{Name: n})
	}
	s.stub.depCh <- m
}

// quiet: nothing has happened on either scripted server for d
func (s *depSession) quiet(d time.Duration) bool {
	for _, f := range s.scopes {
		f.mu.Lock()
		q := time.Since(f.lastActivity) >= d
		f.mu.Unlock()
		if !q {
			return false
		}
	}
	return true
}

func (s *depSession) settle(max time.Duration) {
	end := time.Now().Add(max)
	for time.Now().Before(end) {
		if s.quiet(settleWindow / 2) {
			return
		}
		time.Sleep(2 * time.Millisecond)
	}
}

// releaseSend releases the Send(s) of one scope that make up the model's request (see replay.go).
func (s *depSession) releaseSend(f *fakeServer, st depStep, scale int) {
	wantS, wantU := toSet(scaleNames(st.Sub, scale)), toSet(scaleNames(st.Uns, scale))
	released := 0
	for len(wantS)+len(wantU) > 0 || released == 0 {
		win := settleWindow
		if released > 0 {
			win = settleWindow / 2
		}
		if !fsWait(f, func() bool { return f.pendSend != nil }, win) {
			if released == 0 {
				s.div("no Send pending")
			} else {
				s.div("request is a strict part of the model's")
			}
			return
		}
		f.mu.Lock()
		if f.pendSend == nil {
			f.mu.Unlock()
			continue
		}
		m := f.pendSend.m
		part := subsetOf(m.Sub, wantS) && subsetOf(m.Unsub, wantU)
		if !part && released > 0 {
			f.mu.Unlock()
			s.div("request is a strict part of the model's")
			return
		}
		if !part {
			s.div("request differs from the model's")
		}
		for _, x := range m.Sub {
			delete(wantS, x)
		}
		for _, x := range m.Unsub {
			delete(wantU, x)
		}
		f.releaseSendLocked(st.Res == "lost")
		released++
		f.mu.Unlock()
		if !part {
			return
		}
	}
}

func runDepScript(sc depScript, deadline time.Duration, attempt int) depResult {
	s := newDepSession(deadline)
	defer s.close()
	_, _, realCap := s.handles["config"].QueueLens()
	scale := 1
	if sc.Cap > 0 && realCap%sc.Cap == 0 {
		scale = realCap / sc.Cap
	}
	res := depResult{ID: sc.ID, Kind: sc.Kind, Scale: scale, Attempt: attempt, DeadlineS: deadline.Seconds(),
		Clients: map[string]outcome{}, SetDiffers: map[string]bool{}}
	order := []string{"config", "endpoint"}
	nfail := 0
	kindOf := func(st depStep) string {
		if strings.HasPrefix(sc.Kind, "stratum/") && st.Code != "" {
			return st.Code // hand-written strata name the kind
		}
		k := failureKinds[(sc.ID+nfail)%len(failureKinds)] // TLC's behaviours carry no kind: rotate
		nfail++
		return k
	}
	for _, st := range sc.Steps {
		switch st.A {
		case "depfail":
			// the dependency stream ends with an error; its client must ask for a new one (retry timer ~1 s)
			s.stub.mu.Lock()
			before := s.stub.depReqs
			s.stub.mu.Unlock()
			s.stub.depFail <- errOfKind(st.Code)
			end := time.Now().Add(2500 * time.Millisecond)
			for time.Now().Before(end) {
				s.stub.mu.Lock()
				n := s.stub.depReqs
				s.stub.mu.Unlock()
				if n > before {
					break
				}
				time.Sleep(5 * time.Millisecond)
			}
		case "dep":
			s.push(scaleNames(st.Added, scale), scaleNames(st.Removed, scale))
			res.Messages++
			time.Sleep(time.Millisecond)
			s.settle(settleWindow)
		case "nsOK", "nsFail":
			for _, scope := range order {
				f := s.scopes[scope]
				if !fsWait(f, func() bool { return f.pendNS != nil }, 2500*time.Millisecond) {
					// a Send the script left pending keeps the client from noticing the failure
					f.mu.Lock()
					f.releaseSendLocked(false)
					f.mu.Unlock()
					if !fsWait(f, func() bool { return f.pendNS != nil }, 2500*time.Millisecond) {
						s.div("no stream creation pending")
						continue
					}
				}
				f.mu.Lock()
				if st.A == "nsOK" {
					f.answerNSLocked(true)
				} else {
					f.answerNSKindLocked(false, kindOf(st))
				}
				f.mu.Unlock()
			}
			s.settle(settleWindow)
		case "fail", "silent", "detect":
			kind := ""
			if st.A == "fail" {
				kind = kindOf(st)
			}
			for _, scope := range order {
				f := s.scopes[scope]
				f.mu.Lock()
				var ok bool
				switch st.A {
				case "fail":
					ok = f.failStreamKindLocked(kind)
				case "silent":
					ok = f.silentLocked()
				default:
					ok = f.detectLocked()
				}
				f.mu.Unlock()
				if !ok {
					s.div("stream not in the state the model has")
				}
			}
			s.settle(settleWindow / 2)
		case "send":
			for _, scope := range order {
				s.releaseSend(s.scopes[scope], st, scale)
			}
			s.settle(settleWindow / 2)
		case "hold":
			// hand-written strata: wait until both senders are parked in a Send
			for _, scope := range order {
				f := s.scopes[scope]
				if !fsWait(f, func() bool { return f.pendSend != nil }, 500*time.Millisecond) {
					s.div("sender not parked in Send")
				}
			}
		}
	}
	// end phase: friendly environment; a closing marker message tells when the receive loop has applied
	// every earlier message (it applies them one by one); then both clients must come to rest
	for _, f := range s.scopes {
		f.mu.Lock()
		f.setAutoLocked()
		f.mu.Unlock()
	}
	s.push(nil, []string{markerSvc})
	end := time.Now().Add(deadline)
	rest := func() bool {
		s.mu.Lock()
		marker := s.marker
		s.mu.Unlock()
		if !marker {
			return false
		}
		for scope, f := range s.scopes {
			f.mu.Lock()
			ok := f.upLocked() && f.pendSend == nil && f.pendNS == nil && time.Since(f.lastActivity) >= 3*quietWindow
			f.mu.Unlock()
			if !ok {
				return false
			}
			if sq, uq, _ := s.handles[scope].QueueLens(); sq != 0 || uq != 0 {
				return false
			}
		}
		return true
	}
	ok := false
	for time.Now().Before(end) {
		if rest() {
			ok = true
			break
		}
		time.Sleep(5 * time.Millisecond)
	}
	if ok {
		// persistence: an out-of-sync verdict is given only if nothing more arrives
		time.Sleep(300 * time.Millisecond)
		ok = rest()
		for !ok && time.Now().Before(end) {
			time.Sleep(5 * time.Millisecond)
			ok = rest()
		}
	}
	s.mu.Lock()
	res.Applied = s.marker
	res.HooksSeen = s.hooks
	deps := map[string]bool{}
	for k := range s.deps {
		deps[k] = true
	}
	s.mu.Unlock()
	res.Deps = keys(deps)
	for scope, f := range s.scopes {
		f.mu.Lock()
		ff := &fakeServer{deps: deps, cur: f.cur}
		o := (&session{f: ff}).evalLocked()
		o.Streams = len(f.streams)
		if !ok {
			o.Stuck = true
			d := diag{CallerBlocked: !res.Applied, StreamUp: f.upLocked(), PendNS: f.pendNS != nil, PendSend: f.pendSend != nil,
				RetryOutstanding: f.retryOutstanding, Streams: len(f.streams), NSRequests: f.nsReqs, LastFailKind: f.lastFailKind}
			d.SubQ, d.UnsubQ, d.Cap = s.handles[scope].QueueLens()
			d.LockFree = s.handles[scope].LockFree()
			if f.cur != nil {
				d.MsgsOnStream = len(f.cur.msgs)
			}
			o.Diag = &d
			o.NoRetry = f.retryOutstanding
		}
		o.Trace = []event{}
		f.mu.Unlock()
		if names, ok2 := s.handles[scope].Subscribed(); ok2 {
			o.Subscribed = names
			sort.Strings(names)
			res.SetDiffers[scope] = !equalStrings(names, res.Deps)
		}
		res.Clients[scope] = o
	}
	res.Followed, res.DivergeWhy = s.diverged == "", s.diverged
	return res
}

func equalStrings(a, b []string) bool {
	if len(a) != len(b) {
		return false
	}
	for i := range a {
		if a[i] != b[i] {
			return false
		}
	}
	return true
}

func depsCmd(args []string) error {
	fs := flag.NewFlagSet("c16-deps", flag.ContinueOnError)
	in := fs.String("in", "", "scripts (ndjson)")
	out := fs.String("out", "", "results (ndjson)")
	par := fs.Int("par", 48, "scripts run concurrently")
	d1 := fs.Duration("deadline", 3*time.Second, "deadline for the clients to come to rest")
	d2 := fs.Duration("deadline2", 10*time.Second, "deadline of the confirming re-run")
	if err := fs.Parse(args); err != nil {
		return err
	}
	var scripts []depScript
	err := cli.ReadNDJSON(*in, func(line []byte) error {
		var sc depScript
		if err := json.Unmarshal(line, &sc); err != nil {
			return err
		}
		scripts = append(scripts, sc)
		return nil
	})
	if err != nil {
		return err
	}
	w, err := cli.NewNDJSONWriter(*out)
	if err != nil {
		return err
	}
	defer w.Close()
	results := make([]depResult, len(scripts))
	sem := make(chan struct{}, *par)
	var wg sync.WaitGroup
	for i := range scripts {
		wg.Add(1)
		sem <- struct{}{}
		go func(i int) {
			defer wg.Done()
			defer func() { <-sem }()
			r := runDepScript(scripts[i], *d1, 1)
			bad := false
			for _, o := range r.Clients {
				if o.Stuck || !o.InSync {
					bad = true
				}
			}
			if bad {
				r = runDepScript(scripts[i], *d2, 2) // a verdict is only given when the longer re-run agrees
			}
			results[i] = r
		}(i)
	}
	wg.Wait()
	for _, r := range results {
		if err := w.Write(r); err != nil {
			return err
		}
	}
	return nil
}
