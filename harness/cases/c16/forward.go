package c16

import (
	"net"
	"sync"
	"time"
)

// forwarder is a TCP forwarder in front of the discovery server.  blackhole() makes every
// connection established so far go silent: nothing is forwarded any more in either direction and
// nothing is closed (no FIN, no RST) - what a client sees when the discovery server's host or a
// NAT/LB entry on the path disappears.  Connections accepted afterwards are forwarded normally.
type forwarder struct {
	l      net.Listener
	target string

	mu     sync.Mutex
	gen    chan struct{} // closed by blackhole() for the connections made so far
	conns  []net.Conn
	nconns int
	closed bool
}

func newForwarder(target string) (*forwarder, error) {
	l, err := net.Listen("tcp", "127.0.0.1:0")
	if err != nil {
		return nil, err
	}
	p := &forwarder{l: l, target: target, gen: make(chan struct{})}
	go p.serve()
	return p, nil
}

func (p *forwarder) addr() string { return p.l.Addr().String() }

func (p *forwarder) serve() {
	for {
		in, err := p.l.Accept()
		if err != nil {
			return
		}
		out, err := net.Dial("tcp", p.target)
		if err != nil {
			in.Close()
			continue
		}
		p.mu.Lock()
		silent := p.gen
		p.conns = append(p.conns, in, out)
		p.nconns++
		p.mu.Unlock()
		go p.pipe(in, out, silent)
		go p.pipe(out, in, silent)
	}
}

func (p *forwarder) pipe(dst, src net.Conn, silent <-chan struct{}) {
	buf := make([]byte, 32*1024)
	for {
		select {
		case <-silent:
			return // stop reading and writing, keep both sockets open
		default:
		}
		src.SetReadDeadline(time.Now().Add(50 * time.Millisecond)) //nolint:errcheck
		n, err := src.Read(buf)
		select {
		case <-silent:
			return
		default:
		}
		if n > 0 {
			if _, werr := dst.Write(buf[:n]); werr != nil {
				return
			}
		}
		if err != nil {
			if ne, ok := err.(net.Error); ok && ne.Timeout() {
				continue
			}
			dst.Close() // a real close is passed on
			return
		}
	}
}

func (p *forwarder) blackhole() {
	p.mu.Lock()
	close(p.gen)
	p.gen = make(chan struct{})
	p.mu.Unlock()
}

func (p *forwarder) connections() int {
	p.mu.Lock()
	defer p.mu.Unlock()
	return p.nconns
}

func (p *forwarder) close() {
	p.l.Close()
	p.mu.Lock()
	for _, c := range p.conns {
		c.Close()
	}
	p.mu.Unlock()
}
