package c16

import (
	"context"
	"flag"
	"fmt"
	"net"
	"sync"
	"time"

	"google.golang.org/grpc"
	"google.golang.org/grpc/codes"
	"google.golang.org/grpc/status"

	"github.com/samaritan-proxy/samaritan/config"
	"github.com/samaritan-proxy/samaritan/pb/api"
	"github.com/samaritan-proxy/samaritan/pb/common"
	"github.com/samaritan-proxy/samaritan/pb/config/service"

	"verifharness/internal/cli"
)

func init() { cli.Register("c16-e2e", e2eCmd) }

// End to end: the production discovery client (dependency stream whose hook subscribes on the
// service-config and service-endpoint streams, config/discovery.go:45-76) over real gRPC against a
// discovery server implemented here with the repo's generated stubs.

type svcStreamRec struct {
	msgs  []msg
	alive bool
	kill  chan struct{}
}

type e2eServer struct {
	mu      sync.Mutex
	accept  bool // service-config / service-endpoint streams are accepted
	scopes  map[string][]*svcStreamRec
	depPush chan *api.DependencyDiscoveryResponse
	depKill chan struct{}
	depUp   bool
	deps    map[string]bool
	lastMsg time.Time
	// a (re)connecting instance is told its dependencies in responses of at most depChunk services (0: one response)
	depChunk int
	// how killed streams end: a gRPC status code, or "EOF" (the handler returns nil: OK end of stream)
	killKind string
}

func (s *e2eServer) killErr() error {
	s.mu.Lock()
	k := s.killKind
	s.mu.Unlock()
	if k == "" {
		return status.Error(codes.Unavailable, "stream killed by the scenario")
	}
	if k == "EOF" {
		return nil
	}
	return errOfKind(k)
}

func newE2EServer() *e2eServer {
	return &e2eServer{scopes: map[string][]*svcStreamRec{}, depPush: make(chan *api.DependencyDiscoveryResponse, 64),
		depKill: make(chan struct{}, 1), deps: map[string]bool{}, lastMsg: time.Now()}
}

func (s *e2eServer) StreamDependencies(req *api.DependencyDiscoveryRequest, stream api.DiscoveryService_StreamDependenciesServer) error {
	s.mu.Lock()
	s.depUp = true
	// a (re)connected instance is told all its dependencies
	var all []*service.Service
	for _, n := range keys(s.deps) {
		all = append(all, &service.Service{Name: n})
	}
	s.mu.Unlock()
	defer func() { s.mu.Lock(); s.depUp = false; s.mu.Unlock() }()
	for len(all) > 0 {
		n := len(all)
		if s.depChunk > 0 && n > s.depChunk {
			n = s.depChunk
		}
		if err := stream.Send(&api.DependencyDiscoveryResponse{Added: all[:n]}); err != nil {
			return err
		}
		all = all[n:]
	}
	for {
		select {
		case r := <-s.depPush:
			if err := stream.Send(r); err != nil {
				return err
			}
		case <-s.depKill:
			return s.killErr()
		case <-stream.Context().Done():
			return stream.Context().Err()
		}
	}
}

type subReq interface {
	GetSvcNamesSubscribe() []string
	GetSvcNamesUnsubscribe() []string
}

func (s *e2eServer) serveSvc(scope string, ctx context.Context, recv func() (subReq, error)) error {
	s.mu.Lock()
	if !s.accept {
		s.mu.Unlock()
		return status.Error(codes.Unavailable, "stream refused by the scenario")
	}
	rec := &svcStreamRec{alive: true, kill: make(chan struct{})}
	s.scopes[scope] = append(s.scopes[scope], rec)
	s.mu.Unlock()
	defer func() { s.mu.Lock(); rec.alive = false; s.mu.Unlock() }()
	type in struct {
		r   subReq
		err error
	}
	ch := make(chan in, 1)
	go func() {
		for {
			r, err := recv()
			ch <- in{r, err}
			if err != nil {
				return
			}
		}
	}()
	for {
		select {
		case m := <-ch:
			if m.err != nil {
				return m.err
			}
			s.mu.Lock()
			rec.msgs = append(rec.msgs, msg{Sub: nn(m.r.GetSvcNamesSubscribe()), Unsub: nn(m.r.GetSvcNamesUnsubscribe())})
			s.lastMsg = time.Now()
			s.mu.Unlock()
		case <-rec.kill:
			return s.killErr()
		case <-ctx.Done():
			return ctx.Err()
		}
	}
}

func (s *e2eServer) StreamSvcConfigs(stream api.DiscoveryService_StreamSvcConfigsServer) error {
	return s.serveSvc("config", stream.Context(), func() (subReq, error) { r, err := stream.Recv(); return r, err })
}

func (s *e2eServer) StreamSvcEndpoints(stream api.DiscoveryService_StreamSvcEndpointsServer) error {
	return s.serveSvc("endpoint", stream.Context(), func() (subReq, error) { r, err := stream.Recv(); return r, err })
}

func (s *e2eServer) setAccept(v bool) { s.mu.Lock(); s.accept = v; s.mu.Unlock() }

func (s *e2eServer) killSvcStreams() {
	s.mu.Lock()
	for _, recs := range s.scopes {
		for _, r := range recs {
			if r.alive {
				select {
				case <-r.kill:
				default:
					close(r.kill)
				}
			}
		}
	}
	s.mu.Unlock()
}

func (s *e2eServer) push(added, removed []string) {
	r := &api.DependencyDiscoveryResponse{}
	s.mu.Lock()
	for _, n := range added {
		s.deps[n] = true
		r.Added = append(r.Added, &service.Service{Name: n})
	}
	for _, n := range removed {
		delete(s.deps, n)
		r.Removed = append(r.Removed, &service.Service{Name: n})
	}
	s.mu.Unlock()
	s.depPush <- r
}

type e2eResult struct {
	Name      string             `json:"name"`
	DeadlineS float64            `json:"deadline_s"`
	Clients   map[string]outcome `json:"clients"`
	HookDone  bool               `json:"hookDone"`
	Err       string             `json:"err,omitempty"`
}

func names(prefix string, from, to int) []string {
	var out []string
	for i := from; i < to; i++ {
		out = append(out, fmt.Sprintf("%s%02d", prefix, i))
	}
	return out
}

const markerSvc = "~marker"

// runE2E runs one scenario; script drives the server, then the client gets the deadline to settle.
func runE2E(name string, deadline time.Duration, script func(s *e2eServer)) e2eResult {
	res := e2eResult{Name: name, DeadlineS: deadline.Seconds(), Clients: map[string]outcome{}}
	srv := newE2EServer()
	lis, err := net.Listen("tcp", "127.0.0.1:0")
	if err != nil {
		res.Err = err.Error()
		return res
	}
	gs := grpc.NewServer()
	api.RegisterDiscoveryServiceServer(gs, srv)
	go gs.Serve(lis)
	defer gs.Stop()
	conn, err := grpc.Dial(lis.Addr().String(), grpc.WithInsecure())
	if err != nil {
		res.Err = err.Error()
		return res
	}
	defer conn.Close()
	dc := config.NewVerifDiscoveryClient(api.NewDiscoveryServiceClient(conn))
	ctx, cancel := context.WithCancel(context.Background())
	defer cancel()
	markerSeen := make(chan struct{}, 16)
	hook := func(added, removed []*service.Service) {
		for _, a := range removed {
			if a.Name == markerSvc {
				select {
				case markerSeen <- struct{}{}:
				default:
				}
			}
		}
	}
	// the three loops of dynamicSource.Serve (config/dynamic.go:118-138)
	go dc.StreamDependencies(ctx, &common.Instance{Id: "verif", Belong: "verif"}, hook)
	go dc.StreamSvcConfigs(ctx, nil)
	go dc.StreamSvcEndpoints(ctx, nil)

	script(srv)
	// the dependency loop is serial: once the hook sees the marker every earlier hook call has returned
	// (removing an unknown service is a no-op for the subscription clients)
	srv.depPush <- &api.DependencyDiscoveryResponse{Removed: []*service.Service{{Name: markerSvc}}}
	end := time.Now().Add(deadline)
	select {
	case <-markerSeen:
		res.HookDone = true
	case <-time.After(deadline):
	}
	handles := map[string]*config.VerifSvcClient{"config": dc.SvcConfigClient(), "endpoint": dc.SvcEndpointClient()}
	settled := func() bool {
		srv.mu.Lock()
		defer srv.mu.Unlock()
		if time.Since(srv.lastMsg) < 400*time.Millisecond {
			return false
		}
		for scope, h := range handles {
			recs := srv.scopes[scope]
			if len(recs) == 0 || !recs[len(recs)-1].alive {
				return false
			}
			if sq, uq, _ := h.QueueLens(); sq != 0 || uq != 0 {
				return false
			}
		}
		return true
	}
	ok := res.HookDone
	for ok && !settled() {
		if time.Now().After(end) {
			ok = false
			break
		}
		time.Sleep(20 * time.Millisecond)
	}
	srv.mu.Lock()
	defer srv.mu.Unlock()
	for scope, h := range handles {
		var o outcome
		recs := srv.scopes[scope]
		var msgs []msg
		up := false
		if len(recs) > 0 {
			msgs = recs[len(recs)-1].msgs
			up = recs[len(recs)-1].alive
		}
		f := &fakeServer{deps: srv.deps}
		if len(recs) > 0 {
			f.cur = &fakeStream{msgs: msgs, broken: !up}
		}
		o = (&session{f: f}).evalLocked()
		o.Streams = len(recs)
		if !ok {
			o.Stuck = true
			d := diag{CallerBlocked: !res.HookDone, StreamUp: up, MsgsOnStream: len(msgs), Streams: len(recs)}
			d.SubQ, d.UnsubQ, d.Cap = h.QueueLens()
			d.LockFree = h.LockFree()
			o.Diag = &d
		}
		if names, ok2 := h.Subscribed(); ok2 {
			o.Subscribed = names
		}
		o.Trace = []event{}
		res.Clients[scope] = o
	}
	return res
}

func e2eCmd(args []string) error {
	fs := flag.NewFlagSet("c16-e2e", flag.ContinueOnError)
	out := fs.String("out", "", "results (ndjson)")
	dl := fs.Duration("deadline", 10*time.Second, "deadline for the client to settle after the scenario")
	if err := fs.Parse(args); err != nil {
		return err
	}
	type scen struct {
		name   string
		script func(s *e2eServer)
	}
	waitDep := func(s *e2eServer) {
		for i := 0; i < 500; i++ {
			s.mu.Lock()
			up := s.depUp
			s.mu.Unlock()
			if up {
				return
			}
			time.Sleep(10 * time.Millisecond)
		}
	}
	scens := []scen{
		{"steady/20-added-5-removed-5-added", func(s *e2eServer) {
			s.setAccept(true)
			waitDep(s)
			time.Sleep(300 * time.Millisecond)
			s.push(names("svc", 0, 20), nil)
			time.Sleep(100 * time.Millisecond)
			s.push(nil, names("svc", 0, 5))
			s.push(names("new", 0, 5), nil)
		}},
		{"burst/20-dependencies-before-the-service-streams-are-accepted", func(s *e2eServer) {
			s.setAccept(false)
			waitDep(s)
			s.push(names("svc", 0, 20), nil)
			time.Sleep(2500 * time.Millisecond)
			s.setAccept(true)
		}},
		{"outage/service-streams-killed-20-dependencies-change-then-accepted-again", func(s *e2eServer) {
			s.setAccept(true)
			waitDep(s)
			time.Sleep(300 * time.Millisecond)
			s.push(names("svc", 0, 5), nil)
			time.Sleep(300 * time.Millisecond)
			s.setAccept(false)
			s.killSvcStreams()
			time.Sleep(100 * time.Millisecond)
			s.push(names("svc", 5, 25), names("svc", 0, 2))
			time.Sleep(2500 * time.Millisecond)
			s.setAccept(true)
		}},
		{"outage/16-dependencies-change-while-down", func(s *e2eServer) {
			s.setAccept(true)
			waitDep(s)
			time.Sleep(300 * time.Millisecond)
			s.push(names("svc", 0, 4), nil)
			time.Sleep(300 * time.Millisecond)
			s.setAccept(false)
			s.killSvcStreams()
			time.Sleep(100 * time.Millisecond)
			s.push(names("svc", 4, 16), names("svc", 0, 4))
			time.Sleep(2500 * time.Millisecond)
			s.setAccept(true)
		}},
	}
	w, err := cli.NewNDJSONWriter(*out)
	if err != nil {
		return err
	}
	defer w.Close()
	results := make([]e2eResult, len(scens))
	var wg sync.WaitGroup
	for i := range scens {
		wg.Add(1)
		go func(i int) {
			defer wg.Done()
			results[i] = runE2E(scens[i].name, *dl, scens[i].script)
		}(i)
	}
	wg.Wait()
	for _, r := range results {
		if err := w.Write(r); err != nil {
			return err
		}
	}
	return nil
}
