package c16

import (
	"flag"
	"fmt"
	"syscall"
	"time"

	"github.com/samaritan-proxy/samaritan/logger"

	"verifharness/internal/cli"
)

func init() { cli.Register("c16-parked", parkedCmd) }

// The window inside resubscribe (Discovery.tla ResubLock .. ResubSnap, W_WriterWaitsForResubscribe): the
// caller is parked on the full queue when the stream is granted; the flush inside resubscribe's read
// section releases it straight into its next Subscribe, whose Lock() arrives while resubscribe is
// still inside.  The client has no hook point between the flush and the end of the read section, so
// the placement cannot be forced from outside: free-running rounds, with the client's logger at DEBUG
// as in a proxy run with debug logging (log lines written inside the section widen the window).

// slowStdout replaces the process' standard output, where the client's logger writes, by a sink that
// takes its time: a 4 KiB pipe kept full, drained `chunk` bytes every `every`.  Every log line then costs
// a few milliseconds, as with a slow terminal, a blocked pipe or a synchronous log shipper.  This is a
// perturbation of the environment only; it is how a write inside a critical section is stretched
// without a hook in the code.
func slowStdout(chunk int, every time.Duration) error {
	// A raw, BLOCKING pipe: os.Pipe would put the descriptors into non-blocking mode, and that mode belongs to the
	// open file description shared with fd 1 - the logger's writes would then fail with EAGAIN at once instead of
	// waiting (which is what made this sink nearly ineffective before).
	var p [2]int
	if err := syscall.Pipe2(p[:], syscall.O_CLOEXEC); err != nil {
		return err
	}
	const fSetPipeSz = 1031
	if _, _, e := syscall.Syscall(syscall.SYS_FCNTL, uintptr(p[1]), fSetPipeSz, 4096); e != 0 {
		return e
	}
	if err := syscall.Dup3(p[1], 1, 0); err != nil {
		return err
	}
	// the padding that keeps the pipe full is written through a description of its own (re-opened through /proc),
	// so that its non-blocking mode is not shared with fd 1
	fill, err := syscall.Open(fmt.Sprintf("/proc/self/fd/%d", p[1]), syscall.O_WRONLY|syscall.O_NONBLOCK|syscall.O_CLOEXEC, 0)
	if err != nil {
		return err
	}
	pad := make([]byte, 32)
	for i := range pad {
		pad[i] = '.'
	}
	pad[len(pad)-1] = '\n'
	go func() {
		for {
			for {
				if _, err := syscall.Write(fill, pad); err != nil {
					break
				}
			}
			time.Sleep(every / 8)
		}
	}()
	go func() {
		buf := make([]byte, chunk)
		for {
			if _, err := syscall.Read(p[0], buf); err != nil {
				return
			}
			time.Sleep(every)
		}
	}()
	return nil
}

type parkedResult struct {
	Rounds    int     `json:"rounds"`
	Stuck     int     `json:"stuck"`
	FirstAt   int     `json:"firstStuckRound"`
	OutOfSync int     `json:"outOfSync"`
	Pending   int     `json:"subscribesPerRound"`
	DeadlineS float64 `json:"deadline_s"`
	Out       outcome `json:"out"` // the first violating round (or the last round)
}

func parkedRound(id, pending int, deadline, confirm time.Duration) (outcome, error) {
	s := newSession(deadline)
	defer s.close()
	f := s.f
	group := make([]realOp, 0, pending)
	for i := 0; i < pending; i++ {
		group = append(group, realOp{Kind: "sub", S: fmt.Sprintf("r%03d-s%02d", id, i)})
	}
	s.submit(group)
	_, _, capacity := s.cli.QueueLens()
	parked := s.waitFor(func() bool {
		sq, _, _ := s.cli.QueueLens()
		return sq == capacity && f.pendNS != nil
	}, 2*time.Second)
	if !parked {
		return outcome{}, fmt.Errorf("round %d: the caller did not park on the full queue", id)
	}
	time.Sleep(200 * time.Microsecond) // let the 17th call reach its channel send
	o := s.finish(id)                  // grants the stream, completes every Send, waits for rest
	if o.Stuck && confirm > deadline {
		// a verdict only after the longer wait, in the same session (a deadlock does not go away)
		s.deadline = confirm - deadline
		o = s.finish(id)
	}
	return o, nil
}

func parkedCmd(args []string) error {
	fs := flag.NewFlagSet("c16-parked", flag.ContinueOnError)
	out := fs.String("out", "", "result (ndjson)")
	rounds := fs.Int("rounds", 150, "rounds")
	pending := fs.Int("pending", 40, "subscribes made before the stream is granted")
	debug := fs.Bool("debuglog", true, "run the client with its logger at DEBUG")
	slow := fs.Bool("slowlog", true, "the client's log output goes to a slow sink")
	d1 := fs.Duration("deadline", 3*time.Second, "deadline")
	d2 := fs.Duration("deadline2", 10*time.Second, "total wait before a verdict")
	if err := fs.Parse(args); err != nil {
		return err
	}
	if *slow {
		// 128 bytes every 5 ms: a log line of 150-250 bytes waits for one or two drains, 5-10 ms
		if err := slowStdout(128, 5*time.Millisecond); err != nil {
			return fmt.Errorf("slow log sink: %v", err)
		}
	}
	if *debug {
		logger.SetLevel("DEBUG")
	}
	res := parkedResult{Pending: *pending, DeadlineS: d2.Seconds(), FirstAt: -1}
	for i := 0; i < *rounds; i++ {
		o, err := parkedRound(i, *pending, *d1, *d2)
		if err != nil {
			return err
		}
		res.Rounds++
		bad := false
		if o.Stuck {
			res.Stuck++
			bad = true
		} else if !o.InSync {
			res.OutOfSync++
			bad = true
		}
		if bad && res.FirstAt < 0 {
			res.FirstAt = i
			if len(o.Trace) > 120 {
				o.Trace = o.Trace[len(o.Trace)-120:]
			}
			res.Out = o
			break
		}
		if i == *rounds-1 {
			o.Trace = nil
			o.Msgs = nil
			res.Out = o
		}
	}
	w, err := cli.NewNDJSONWriter(*out)
	if err != nil {
		return err
	}
	defer w.Close()
	return w.Write(res)
}
