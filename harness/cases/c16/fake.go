// Package c16 drives the real discovery subscription client (config/discovery.go,
// svcDiscoveryClient) against a scripted discovery server and reports what the client did.
// Verdicts are made by checks/c16.py (and by TLC on the recorded traces), not here.
package c16

import (
	"context"
	"errors"
	"io"

	"google.golang.org/grpc/codes"
	"google.golang.org/grpc/status"
	"sort"
	"sync"
	"time"

	"github.com/samaritan-proxy/samaritan/config"
)

// event is one record of the environment-level trace (see spec/config/DiscoveryTrace.tla).
type event map[string]interface{}

type msg struct {
	Sub   []string `json:"sub"`
	Unsub []string `json:"unsub"`
}

var errBroken = errors.New("scripted discovery stream: broken")
var errRefused = errors.New("scripted discovery server: stream refused")

type nsReq struct {
	reply chan *fakeStream // nil: refused
	err   error
}

// failureKinds are the ways a signalled failure can look to the client (Discovery.tla Kinds).
var failureKinds = []string{"Canceled", "DeadlineExceeded", "Unavailable", "Internal", "ResourceExhausted", "EOF"}

// errOfKind is the error a stream (or its creation) fails with.
func errOfKind(kind string) error {
	switch kind {
	case "Canceled":
		return status.Error(codes.Canceled, "scripted discovery server: stream cancelled by the server")
	case "DeadlineExceeded":
		return status.Error(codes.DeadlineExceeded, "scripted discovery server: deadline exceeded")
	case "Internal":
		return status.Error(codes.Internal, "scripted discovery server: internal error")
	case "ResourceExhausted":
		return status.Error(codes.ResourceExhausted, "scripted discovery server: resource exhausted")
	case "EOF":
		return io.EOF
	case "Unavailable":
		return status.Error(codes.Unavailable, "scripted discovery server: unavailable")
	}
	return errBroken
}

type sendReq struct {
	st    *fakeStream
	m     msg
	reply chan error
}

// fakeServer is the scripted discovery server: stream creation and every Send block until the
// driver answers them (or are answered at once in auto mode); Recv blocks until the stream breaks.
type fakeServer struct {
	mu       sync.Mutex
	t0       time.Time
	log      []event
	auto     bool
	pendNS   *nsReq
	pendSend *sendReq
	cur      *fakeStream
	streams  []*fakeStream
	nsReqs   int
	// a failure has been injected and the client has not asked for a new stream since
	retryOutstanding bool
	lastFailKind     string
	activity         int
	lastActivity     time.Time
	changed          chan struct{}
	// caller side (logged under the same mutex)
	callerBusy int // groups submitted and not finished
	inCall     bool
	deps       map[string]bool
	closed     bool
}

type fakeStream struct {
	srv      *fakeServer
	id       int
	broken   bool
	silent   bool  // no longer reaches the server; Send returns nil, Recv keeps blocking
	err      error // what Recv / Send return once broken
	brokenCh chan struct{}
	msgs     []msg
}

func newFakeServer() *fakeServer {
	return &fakeServer{t0: time.Now(), changed: make(chan struct{}, 1), deps: map[string]bool{},
		lastActivity: time.Now()}
}

func nn(s []string) []string {
	out := make([]string, len(s))
	copy(out, s)
	return out
}

// logLocked appends an event; must hold mu.
func (f *fakeServer) logLocked(ev string, kv ...interface{}) {
	e := event{"ev": ev, "t": time.Since(f.t0).Microseconds()}
	for i := 0; i+1 < len(kv); i += 2 {
		e[kv[i].(string)] = kv[i+1]
	}
	f.log = append(f.log, e)
	f.activity++
	f.lastActivity = time.Now()
	select {
	case f.changed <- struct{}{}:
	default:
	}
}

func (f *fakeServer) openLocked() *fakeStream {
	st := &fakeStream{srv: f, id: len(f.streams) + 1, brokenCh: make(chan struct{})}
	f.streams = append(f.streams, st)
	f.cur = st
	f.logLocked("nsOK", "stream", st.id)
	return st
}

// maker is the stream factory handed to the real client.
func (f *fakeServer) maker(ctx context.Context) (config.VerifSvcStream, error) {
	f.mu.Lock()
	if f.closed {
		f.mu.Unlock()
		return nil, errRefused
	}
	f.nsReqs++
	f.retryOutstanding = false
	f.logLocked("nsReq")
	if f.auto {
		st := f.openLocked()
		f.mu.Unlock()
		return st, nil
	}
	req := &nsReq{reply: make(chan *fakeStream, 1)}
	f.pendNS = req
	f.mu.Unlock()
	select {
	case st := <-req.reply:
		if st == nil {
			if req.err != nil {
				return nil, req.err
			}
			return nil, errRefused
		}
		return st, nil
	case <-ctx.Done():
		return nil, ctx.Err()
	}
}

// answerNSLocked answers the pending stream creation.
func (f *fakeServer) answerNSLocked(ok bool) bool { return f.answerNSKindLocked(ok, "") }

// answerNSKindLocked answers the pending stream creation; a refusal carries the error of the given kind.
func (f *fakeServer) answerNSKindLocked(ok bool, kind string) bool {
	req := f.pendNS
	if req == nil {
		return false
	}
	f.pendNS = nil
	if ok {
		req.reply <- f.openLocked()
	} else {
		f.retryOutstanding = true
		f.lastFailKind = kind
		if kind != "" {
			req.err = errOfKind(kind)
		}
		f.logLocked("nsFail", "code", kind)
		req.reply <- nil
	}
	return true
}

func (f *fakeServer) deliverLocked(st *fakeStream, m msg, lossy bool) error {
	if st.silent && !st.broken {
		// into the socket buffer of a connection that died without FIN/RST
		f.logLocked("sendLost", "sub", m.Sub, "unsub", m.Unsub, "stream", st.id)
		return nil
	}
	if st.broken {
		if lossy {
			f.logLocked("sendLost", "sub", m.Sub, "unsub", m.Unsub, "stream", st.id)
			return nil
		}
		f.logLocked("sendErr", "sub", m.Sub, "unsub", m.Unsub, "stream", st.id)
		if st.err != nil {
			return st.err
		}
		return errBroken
	}
	st.msgs = append(st.msgs, m)
	f.logLocked("msg", "sub", m.Sub, "unsub", m.Unsub, "stream", st.id)
	return nil
}

func (st *fakeStream) Send(subscribed, unsubscribed []string) error {
	f := st.srv
	m := msg{Sub: nn(subscribed), Unsub: nn(unsubscribed)}
	f.mu.Lock()
	f.logLocked("sendReq", "sub", m.Sub, "unsub", m.Unsub, "stream", st.id)
	if f.auto || f.closed {
		err := f.deliverLocked(st, m, false)
		f.mu.Unlock()
		return err
	}
	req := &sendReq{st: st, m: m, reply: make(chan error, 1)}
	f.pendSend = req
	f.mu.Unlock()
	return <-req.reply
}

func (st *fakeStream) Recv() error {
	<-st.brokenCh
	st.srv.mu.Lock()
	err := st.err
	st.srv.mu.Unlock()
	if err != nil {
		return err
	}
	return errBroken
}

// releaseSendLocked lets the pending Send complete.
func (f *fakeServer) releaseSendLocked(lossy bool) bool {
	req := f.pendSend
	if req == nil {
		return false
	}
	f.pendSend = nil
	req.reply <- f.deliverLocked(req.st, req.m, lossy)
	return true
}

// failStreamLocked breaks the current stream.
func (f *fakeServer) failStreamLocked() bool { return f.failStreamKindLocked("") }

// failStreamKindLocked breaks the current stream; Recv and Send fail with the error of the given kind.
func (f *fakeServer) failStreamKindLocked(kind string) bool {
	if f.cur == nil || f.cur.broken {
		return false
	}
	f.cur.broken = true
	if kind != "" {
		f.cur.err = errOfKind(kind)
	}
	close(f.cur.brokenCh)
	f.retryOutstanding = true
	f.lastFailKind = kind
	f.logLocked("fail", "stream", f.cur.id, "code", kind)
	return true
}

// silentLocked makes the current stream go silent: nothing errors, nothing is delivered.
func (f *fakeServer) silentLocked() bool {
	if f.cur == nil || f.cur.broken || f.cur.silent {
		return false
	}
	f.cur.silent = true
	f.logLocked("silent", "stream", f.cur.id)
	return true
}

// detectLocked is the transport's keepalive: the silent stream starts to fail.
func (f *fakeServer) detectLocked() bool {
	if f.cur == nil || f.cur.broken || !f.cur.silent {
		return false
	}
	f.cur.broken = true
	close(f.cur.brokenCh)
	f.retryOutstanding = true
	f.logLocked("detect", "stream", f.cur.id)
	return true
}

func (f *fakeServer) upLocked() bool { return f.cur != nil && !f.cur.broken && !f.cur.silent }

func (f *fakeServer) silentNowLocked() bool { return f.cur != nil && !f.cur.broken && f.cur.silent }

// setAutoLocked switches to auto mode and resolves what is pending favourably.
func (f *fakeServer) setAutoLocked() {
	f.auto = true
	f.releaseSendLocked(false)
	f.detectLocked() // the keepalive eventually fires
	f.answerNSLocked(true)
}

// close tears the server down: everything pending fails.
func (f *fakeServer) close() {
	f.mu.Lock()
	f.closed = true
	for _, st := range f.streams {
		if !st.broken {
			st.broken = true
			close(st.brokenCh)
		}
	}
	if f.pendSend != nil {
		f.pendSend.reply <- errBroken
		f.pendSend = nil
	}
	if f.pendNS != nil {
		f.pendNS.reply <- nil
		f.pendNS = nil
	}
	f.mu.Unlock()
}

// fold computes the server's view of a stream: per request, srv = (srv + subscribe) - unsubscribe;
// alt applies the two lists in the opposite order.
func fold(msgs []msg, alt bool) map[string]bool {
	srv := map[string]bool{}
	for _, m := range msgs {
		if alt {
			for _, s := range m.Unsub {
				delete(srv, s)
			}
			for _, s := range m.Sub {
				srv[s] = true
			}
		} else {
			for _, s := range m.Sub {
				srv[s] = true
			}
			for _, s := range m.Unsub {
				delete(srv, s)
			}
		}
	}
	return srv
}

func keys(m map[string]bool) []string {
	out := make([]string, 0, len(m))
	for k, v := range m {
		if v {
			out = append(out, k)
		}
	}
	sort.Strings(out)
	return out
}

func has(l []string, s string) bool {
	for _, x := range l {
		if x == s {
			return true
		}
	}
	return false
}
