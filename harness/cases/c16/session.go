package c16

import (
	"context"
	"time"

	"github.com/samaritan-proxy/samaritan/config"
)

type realOp struct {
	Kind string // "sub" | "unsub"
	S    string
}

// session = one real subscription client, its caller goroutine and its scripted server.
type session struct {
	f        *fakeServer
	cli      *config.VerifSvcClient
	cancel   context.CancelFunc
	callCh   chan []realOp
	deadline time.Duration
	diverged bool
	divAt    int
	divWhy   string
}

const (
	settleWindow = 40 * time.Millisecond // how long the client gets to reach its next blocking point
	quietWindow  = 60 * time.Millisecond // no activity for this long = at rest
)

func newSession(deadline time.Duration) *session {
	s := &session{f: newFakeServer(), callCh: make(chan []realOp, 1024), deadline: deadline, divAt: -1}
	s.cli = config.NewVerifSvcClient("verif", s.f.maker)
	ctx, cancel := context.WithCancel(context.Background())
	s.cancel = cancel
	go s.cli.Run(ctx)
	go s.callerLoop()
	return s
}

// callerLoop is the single goroutine that calls Subscribe / Unsubscribe (the dependency hook).
func (s *session) callerLoop() {
	f := s.f
	for group := range s.callCh {
		for _, op := range group {
			f.mu.Lock()
			if op.Kind == "sub" {
				f.deps[op.S] = true
			} else {
				delete(f.deps, op.S)
			}
			f.inCall = true
			f.logLocked("call", "kind", op.Kind, "s", op.S)
			f.mu.Unlock()
			if op.Kind == "sub" {
				s.cli.Subscribe(op.S)
			} else {
				s.cli.Unsubscribe(op.S)
			}
			f.mu.Lock()
			f.inCall = false
			f.logLocked("ret")
			f.mu.Unlock()
		}
		f.mu.Lock()
		f.callerBusy--
		f.logActivityLocked()
		f.mu.Unlock()
	}
}

func (f *fakeServer) logActivityLocked() {
	f.activity++
	f.lastActivity = time.Now()
	select {
	case f.changed <- struct{}{}:
	default:
	}
}

// submit hands a group of operations to the caller goroutine.
func (s *session) submit(group []realOp) {
	s.f.mu.Lock()
	s.f.callerBusy++
	s.f.mu.Unlock()
	s.callCh <- group
}

func (s *session) callerIdleLocked() bool { return s.f.callerBusy == 0 }

// waitFor waits until cond (evaluated under the server's mutex) holds, at most d.
func (s *session) waitFor(cond func() bool, d time.Duration) bool {
	end := time.Now().Add(d)
	for {
		s.f.mu.Lock()
		ok := cond()
		s.f.mu.Unlock()
		if ok {
			return true
		}
		rem := time.Until(end)
		if rem <= 0 {
			return false
		}
		if rem > 2*time.Millisecond {
			rem = 2 * time.Millisecond
		}
		select {
		case <-s.f.changed:
		case <-time.After(rem):
		}
	}
}

// awaitResolving waits for cond; when the client makes no progress because the script has not
// answered a Send (or, with resolveNS, a stream creation), the request is answered favourably
// and the replay is marked as diverged from the model behaviour.  Only when nothing is pending
// on the environment's side and cond still does not hold for the whole deadline it gives up.
func (s *session) awaitResolving(cond func() bool, resolveNS bool, step int, why string) bool {
	end := time.Now().Add(s.deadline)
	settle := time.Now().Add(settleWindow)
	for {
		s.f.mu.Lock()
		if cond() {
			s.f.mu.Unlock()
			return true
		}
		if time.Now().After(settle) {
			resolved := false
			if s.f.pendSend != nil {
				s.f.releaseSendLocked(false)
				resolved = true
			} else if resolveNS && s.f.pendNS != nil {
				s.f.answerNSLocked(true)
				resolved = true
			}
			if resolved {
				s.markDiverged(step, why)
				end = time.Now().Add(s.deadline)
				settle = time.Now().Add(settleWindow)
			}
		}
		s.f.mu.Unlock()
		if time.Now().After(end) {
			return false
		}
		select {
		case <-s.f.changed:
		case <-time.After(2 * time.Millisecond):
		}
	}
}

func (s *session) markDiverged(step int, why string) {
	if !s.diverged {
		s.diverged = true
		s.divAt = step
		s.divWhy = why
	}
}

// diag is the state of the real client as far as it can be observed without blocking.
type diag struct {
	CallerBlocked    bool   `json:"callerBlocked"`
	SubQ             int    `json:"subq"`
	UnsubQ           int    `json:"unsubq"`
	Cap              int    `json:"cap"`
	LockFree         bool   `json:"lockFree"`
	StreamUp         bool   `json:"streamUp"`
	PendNS           bool   `json:"pendNS"`
	PendSend         bool   `json:"pendSend"`
	RetryOutstanding bool   `json:"retryOutstanding"`
	LastFailKind     string `json:"lastFailKind"`
	MsgsOnStream     int    `json:"msgsOnStream"`
	Streams          int    `json:"streams"`
	NSRequests       int    `json:"nsRequests"`
}

func (s *session) diagLocked() diag {
	f := s.f
	d := diag{CallerBlocked: f.callerBusy > 0, StreamUp: f.upLocked(), PendNS: f.pendNS != nil,
		PendSend: f.pendSend != nil, RetryOutstanding: f.retryOutstanding, Streams: len(f.streams),
		NSRequests: f.nsReqs, LastFailKind: f.lastFailKind}
	d.SubQ, d.UnsubQ, d.Cap = s.cli.QueueLens()
	d.LockFree = s.cli.LockFree()
	if f.cur != nil {
		d.MsgsOnStream = len(f.cur.msgs)
	}
	return d
}

// outcome is the property-level result of one history.
type outcome struct {
	Stuck      bool     `json:"stuck"`
	Diag       *diag    `json:"diag,omitempty"`
	NoRetry    bool     `json:"noRetry"`
	InSync     bool     `json:"inSync"`
	InSyncAlt  bool     `json:"inSyncAlt"` // unsubscribe list applied before the subscribe list
	Missing    []string `json:"missing"`   // in deps, not subscribed on the stream
	Extra      []string `json:"extra"`     // subscribed on the stream, not in deps
	Ambiguous  []string `json:"ambiguous"` // out-of-sync services whose last request named them in both lists
	Deps       []string `json:"deps"`
	Srv        []string `json:"srv"`
	Msgs       []msg    `json:"msgs"` // requests seen on the final stream
	Subscribed []string `json:"subscribed"`
	Calls      int      `json:"calls"`
	Streams    int      `json:"streams"`
	Fails      int      `json:"fails"`
	MaxBatch   int      `json:"maxBatch"`
	Trace      []event  `json:"trace"`
}

// finish runs the end phase: the environment turns friendly (streams are granted, sends complete),
// the client gets the deadline to come to rest on an established stream, then the property's
// predicate is evaluated on what the server saw.
func (s *session) finish(hid int) outcome {
	f := s.f
	f.mu.Lock()
	f.setAutoLocked()
	f.mu.Unlock()
	rest := func() bool {
		if !(s.callerIdleLocked() && f.upLocked() && f.pendSend == nil && f.pendNS == nil) {
			return false
		}
		if time.Since(f.lastActivity) < quietWindow {
			return false
		}
		sq, uq, _ := s.cli.QueueLens()
		return sq == 0 && uq == 0
	}
	ok := s.waitFor(rest, s.deadline)
	var o outcome
	if ok {
		// the verdict "out of sync" is only given when it persists
		for _, extra := range []time.Duration{0, 300 * time.Millisecond, 700 * time.Millisecond} {
			if extra > 0 {
				time.Sleep(extra)
				if !s.waitFor(rest, s.deadline) {
					ok = false
					break
				}
			}
			f.mu.Lock()
			o = s.evalLocked()
			f.mu.Unlock()
			if o.InSync {
				break
			}
		}
	}
	f.mu.Lock()
	if !ok {
		o = s.evalLocked()
		o.Stuck = true
		d := s.diagLocked()
		o.Diag = &d
		o.NoRetry = f.retryOutstanding
		f.logLocked("stuck", "h", hid)
	} else {
		f.logLocked("settled", "h", hid)
	}
	o.Trace = append([]event{}, f.log...)
	o.Streams = len(f.streams)
	f.mu.Unlock()
	for _, e := range o.Trace {
		switch e["ev"] {
		case "call":
			o.Calls++
		case "fail", "nsFail", "silent":
			o.Fails++
		case "msg":
			n := len(e["sub"].([]string)) + len(e["unsub"].([]string))
			if n > o.MaxBatch {
				o.MaxBatch = n
			}
		}
	}
	if names, ok := s.cli.Subscribed(); ok {
		o.Subscribed = names
	}
	return o
}

func (s *session) evalLocked() outcome {
	f := s.f
	var o outcome
	var msgs []msg
	if f.cur != nil {
		msgs = f.cur.msgs
	}
	srv := fold(msgs, false)
	alt := fold(msgs, true)
	o.Deps = keys(f.deps)
	o.Srv = keys(srv)
	o.Msgs = append([]msg{}, msgs...)
	o.Missing, o.Extra, o.Ambiguous = []string{}, []string{}, []string{}
	o.InSyncAlt = true
	all := map[string]bool{}
	for k := range f.deps {
		all[k] = true
	}
	for k := range srv {
		all[k] = true
	}
	for k := range alt {
		all[k] = true
	}
	for _, k := range keys(all) {
		if f.deps[k] != alt[k] {
			o.InSyncAlt = false
		}
		if f.deps[k] == srv[k] {
			continue
		}
		if f.deps[k] {
			o.Missing = append(o.Missing, k)
		} else {
			o.Extra = append(o.Extra, k)
		}
		// last request naming k
		for i := len(msgs) - 1; i >= 0; i-- {
			inS, inU := has(msgs[i].Sub, k), has(msgs[i].Unsub, k)
			if inS || inU {
				if inS && inU {
					o.Ambiguous = append(o.Ambiguous, k)
				}
				break
			}
		}
	}
	o.InSync = len(o.Missing) == 0 && len(o.Extra) == 0
	return o
}

func (s *session) close() {
	s.cancel()
	s.f.close()
	close(s.callCh)
}
