package c09

import "encoding/json"

// ---- behaviour format emitted by spec/proc/ListenerGen.tla

type lisGates struct {
	Serve string            `json:"serve"`
	Stop  string            `json:"stop"`
	Drain string            `json:"drain"`
	H     map[string]string `json:"h"`
}

type lisObs struct {
	Quit         bool              `json:"quit"`
	Drain        bool              `json:"drain"`
	Done         bool              `json:"done"`
	LnPub        bool              `json:"lnPub"`
	SockOpen     bool              `json:"sockOpen"`
	ConnsNil     bool              `json:"connsNil"`
	NConns       int               `json:"nconns"`
	Serving      int               `json:"serving"`
	Closed       map[string]bool   `json:"closed"`
	Hs           map[string]string `json:"hs"`
	Srv          string            `json:"srv"`
	Stp          string            `json:"stp"`
	Drn          string            `json:"drn"`
	CxTotal      int64             `json:"cxTotal"`
	CxActive     int64             `json:"cxActive"`
	CxDestroy    int64             `json:"cxDestroy"`
	CxRestricted int64             `json:"cxRestricted"`
}

type lisStep struct {
	A     string   `json:"a"`
	Role  string   `json:"role"`
	H     string   `json:"h"`
	Gates lisGates `json:"gates"`
	Obs   lisObs   `json:"obs"`
	Win   []string `json:"win"`
}

type lisBeh struct {
	Limit int       `json:"limit"`
	Busy  bool      `json:"busy"`
	Steps []lisStep `json:"steps"`
}

// ---- jobs and results (ndjson, one per line)

// Job is one case executed by a worker process.
type Job struct {
	ID         int             `json:"id"`
	Kind       string          `json:"kind"` // "replay" | "proc" | "free" | "burst"
	Name       string          `json:"name,omitempty"`
	DeadlineMs int             `json:"deadlineMs"` // how long Stop/Drain may take
	Attempt    int             `json:"attempt"`
	MaxMs      int             `json:"maxMs,omitempty"`    // the parent's watchdog for long-running jobs (default 3 x deadline + 60 s)
	Beh        *lisBeh         `json:"beh,omitempty"`      // kind replay
	Scenario   *Scenario       `json:"scenario,omitempty"` // kind proc
	Free       *FreeSpec       `json:"free,omitempty"`     // kind free
	Race       *RaceSpec       `json:"race,omitempty"`     // kind race
	Burst      *BurstSpec      `json:"burst,omitempty"`    // kind burst
	Raw        json.RawMessage `json:"-"`
}

// Finding is one property predicate that did not hold in a real execution.
type Finding struct {
	Sig  string `json:"sig"`  // stable signature: predicate/window-or-class
	What string `json:"what"` // human readable
}

// StatsObs is the listener part of C20: connection statistics of one history
// that ended in quiescence.
type StatsObs struct {
	Total      int64 `json:"cx_total"`
	Destroy    int64 `json:"cx_destroy_total"`
	Active     int64 `json:"cx_active"` // gauge read as signed
	Restricted int64 `json:"cx_restricted"`
}

// Result is what the real code did in one job.
type Result struct {
	ID         int    `json:"id"`
	Kind       string `json:"kind"`
	Name       string `json:"name,omitempty"`
	Attempt    int    `json:"attempt"`
	DeadlineMs int    `json:"deadlineMs"`

	// forced replay
	Steps      int      `json:"steps,omitempty"`
	Exact      bool     `json:"exact"`     // every step followed, state equal after each
	DivergeAt  int      `json:"divergeAt"` // first step that could not be followed (-1)
	DivergeWhy string   `json:"divergeWhy,omitempty"`
	Windows    []string `json:"windows,omitempty"` // named windows of the behaviour (from the model)
	Actions    []string `json:"actions,omitempty"` // action sequence (key for distinctness)

	// what the property predicate looks at
	StopCalled    bool     `json:"stopCalled"`
	CleanupStop   bool     `json:"cleanupStop,omitempty"` // Stop was called by the driver after the behaviour ended
	StopReturned  bool     `json:"stopReturned"`
	StopMs        float64  `json:"stopMs,omitempty"`
	DrainCalled   bool     `json:"drainCalled"`
	DrainReturned bool     `json:"drainReturned"`
	Hung          bool     `json:"hung"`                 // Stop or Drain did not return within the deadline
	HangWindow    string   `json:"hangWindow,omitempty"` // window / class derived from the hook trail and the stacks
	Stuck         []string `json:"stuck,omitempty"`      // goroutines of the code under test that are left
	ServeTrail    []string `json:"serveTrail,omitempty"`
	ServeReturned bool     `json:"serveReturned"`
	PortRefused   *bool    `json:"portRefused,omitempty"`
	PeersOpen     []string `json:"peersOpen,omitempty"` // peers that never saw their connection closed
	Leaked        []string `json:"leaked,omitempty"`    // goroutines left after Stop returned
	UpstreamOpen  int      `json:"upstreamOpen,omitempty"`

	DrainEchoOK        *bool    `json:"drainEchoOK,omitempty"`
	AcceptedAfterDrain []string `json:"acceptedAfterDrain,omitempty"`

	Limit             int      `json:"limit"`
	MaxServing        int      `json:"maxServing"`
	Served            []string `json:"served,omitempty"`
	Refused           []string `json:"refused,omitempty"`
	UnderLimitRefused []string `json:"underLimitRefused,omitempty"`
	OverLimitServed   []string `json:"overLimitServed,omitempty"`

	// C20 (listener part)
	Quiescent  bool      `json:"quiescent"`
	Stats      *StatsObs `json:"stats,omitempty"` // observed
	Ghost      *StatsObs `json:"ghost,omitempty"` // the model's ghost counters at the end (exact replays)
	OpenAtStop int       `json:"openAtStop"`      // connections registered when Stop took the registry
	Conserved  *bool     `json:"conserved,omitempty"`

	Findings []Finding `json:"findings,omitempty"`
	Flaky    bool      `json:"flaky,omitempty"` // hung with the short deadline, passed the re-run
	Trace    []TraceEv `json:"trace,omitempty"` // kind free: hook-interval trace for ListenerTrace.tla
	Poisoned bool      `json:"poisoned,omitempty"`
	Err      string    `json:"err,omitempty"` // infrastructure trouble, never a verdict
	WallMs   float64   `json:"wallMs"`
}

func (r *Result) find(sig, what string) {
	for _, f := range r.Findings {
		if f.Sig == sig {
			return
		}
	}
	r.Findings = append(r.Findings, Finding{Sig: sig, What: what})
}

func boolp(b bool) *bool { return &b }
