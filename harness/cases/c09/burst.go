package c09

import (
	"flag"
	"fmt"
	"math/rand"
	"net"
	"sync"
	"sync/atomic"
	"time"

	"github.com/samaritan-proxy/samaritan/pb/common"
	"github.com/samaritan-proxy/samaritan/pb/config/service"
	"github.com/samaritan-proxy/samaritan/proc"
	"github.com/samaritan-proxy/samaritan/stats"

	"verifharness/internal/cli"
	"verifharness/internal/sut"
)

func init() { cli.Register("c09-burstjobs", printBurstJobs) }

// BurstSpec: connection-limit check under simultaneous arrivals. Every round
// Burst peers dial at the same moment a listener with ConnectionLimit Limit
// whose handler holds each connection until it is closed; every accepted
// connection registers on a goroutine of its own, so the addConn calls of one
// round overlap (sequential arrivals never do). The model's LimitRespected /
// UnderLimitServed are the oracle: once the round has settled exactly Limit
// connections are being served - never more, and not fewer (a connection that
// arrives while fewer than Limit are registered must be served).
type BurstSpec struct {
	Seed   int64 `json:"seed"`
	Limit  int   `json:"limit"`
	MinB   int   `json:"minB"`
	MaxB   int   `json:"maxB"`
	Rounds int   `json:"rounds"`
}

var addrPause int32

type burstRig struct {
	entered int64
	exited  int64
	serving int64
	max     int64
}

func (b *burstRig) handler(conn net.Conn) {
	// serving before entered: the driver waits for entered and then reads serving
	n := atomic.AddInt64(&b.serving, 1)
	for {
		m := atomic.LoadInt64(&b.max)
		if n <= m || atomic.CompareAndSwapInt64(&b.max, m, n) {
			break
		}
	}
	atomic.AddInt64(&b.entered, 1)
	buf := make([]byte, 64)
	for {
		if _, err := conn.Read(buf); err != nil {
			break
		}
	}
	atomic.AddInt64(&b.serving, -1)
	atomic.AddInt64(&b.exited, 1)
}

func runBurst(job *Job) (res Result) {
	t0 := time.Now()
	f := job.Burst
	res = Result{ID: job.ID, Kind: job.Kind, Name: job.Name, Attempt: job.Attempt, DeadlineMs: job.DeadlineMs, DivergeAt: -1, Exact: true, Limit: f.Limit}
	defer func() { res.WallMs = ms(time.Since(t0)) }()
	baseline := len(samaritanGoroutines())
	rig := &burstRig{}
	port := allocPort()
	defer releasePort(port)
	addr := fmt.Sprintf("127.0.0.1:%d", port)
	name := sut.UniqueName("c09burst")
	ds := proc.NewDownstreamStats(stats.CreateScope("service." + name + "."))
	cfg := &service.Listener{Address: &common.Address{Ip: "127.0.0.1", Port: uint32(port)}, ConnectionLimit: uint32(f.Limit)}
	l, err := proc.VerifNewListener(cfg, ds, "["+name+"]", rig.handler)
	if err != nil {
		res.Err = "listener: " + err.Error()
		return
	}
	served := make(chan struct{})
	go func() { l.Serve(); close(served) }()
	if !waitUntil(5*time.Second, func() bool { st, _ := proc.VerifListenerStateOf(l); return st.LnSet }) {
		res.Err = "listener never bound"
		res.Poisoned = true
		return
	}
	rnd := rand.New(rand.NewSource(f.Seed))
	rounds, dialFailures := 0, 0
	// other users of the listener keep its lock busy (Address() is what the admin API and the loggers
	// call): a contended lock is released through its slow path, which keeps apart what a check-then-act
	// addConn does in two critical sections - also on a machine too busy to run the handlers in parallel
	var stopAddr int32
	defer atomic.StoreInt32(&stopAddr, 1)
	for k := 0; k < 2; k++ {
		go func() {
			for atomic.LoadInt32(&stopAddr) == 0 {
				l.Address()
				if atomic.LoadInt32(&addrPause) == 1 {
					time.Sleep(500 * time.Microsecond)
				}
			}
		}()
	}
	for ; rounds < f.Rounds && len(res.Findings) == 0; rounds++ {
		B := f.MinB + rnd.Intn(f.MaxB-f.MinB+1)
		enteredBefore := atomic.LoadInt64(&rig.entered)
		var closedSeen, failed int64
		var closing int32
		conns := make([]net.Conn, B)
		start := make(chan struct{})
		var wg sync.WaitGroup
		for i := 0; i < B; i++ {
			wg.Add(1)
			go func(i int) {
				defer wg.Done()
				<-start
				c, err := net.DialTimeout("tcp4", addr, 5*time.Second)
				if err != nil {
					atomic.AddInt64(&failed, 1)
					return
				}
				conns[i] = c
				go func() {
					buf := make([]byte, 16)
					for {
						if _, err := c.Read(buf); err != nil {
							break
						}
					}
					if atomic.LoadInt32(&closing) == 0 {
						atomic.AddInt64(&closedSeen, 1) // refused: closed by the listener
					}
				}()
			}(i)
		}
		atomic.StoreInt32(&addrPause, 0)
		close(start)
		wg.Wait()
		settled := waitUntil(3*time.Second, func() bool {
			return atomic.LoadInt64(&rig.entered)-enteredBefore+atomic.LoadInt64(&closedSeen)+atomic.LoadInt64(&failed) == int64(B)
		})
		atomic.StoreInt32(&addrPause, 1) // only the arrivals are contended, not the settling
		arrived := B - int(atomic.LoadInt64(&failed))
		dialFailures += B - arrived
		servingNow := int(atomic.LoadInt64(&rig.serving))
		refused := int(atomic.LoadInt64(&closedSeen))
		want := f.Limit
		if arrived < want {
			want = arrived
		}
		switch {
		case !settled:
			res.Err = fmt.Sprintf("round %d did not settle: %d dialled, %d served, %d refused, %d failed", rounds, B, servingNow, refused, B-arrived)
		case servingNow > f.Limit:
			res.find("limit/exceeded/burst", fmt.Sprintf("%d connections served concurrently with connection_limit %d (burst of %d simultaneous arrivals, round %d)",
				servingNow, f.Limit, B, rounds))
		case servingNow < want && arrived == B:
			// (a round in which a dial failed is not judged for this: the listener may still have accepted
			// and served the connection its peer gave up on)
			res.find("limit/under-limit-refused/burst", fmt.Sprintf("only %d connections served with connection_limit %d although %d arrived (%d refused, round %d)",
				servingNow, f.Limit, arrived, refused, rounds))
		}
		res.MaxServing = int(atomic.LoadInt64(&rig.max))
		// the round ends: every peer leaves (RST, no TIME_WAIT), the registry empties
		atomic.StoreInt32(&closing, 1)
		for _, c := range conns {
			if c != nil {
				if tc, ok := c.(*net.TCPConn); ok {
					tc.SetLinger(0)
				}
				c.Close()
			}
		}
		if res.Err != "" {
			break
		}
		if !waitUntil(3*time.Second, func() bool {
			st, _ := proc.VerifListenerStateOf(l)
			return st.Conns == 0 && atomic.LoadInt64(&rig.serving) == 0
		}) {
			res.Err = fmt.Sprintf("round %d: registry did not empty", rounds)
			break
		}
	}
	res.Steps = rounds
	res.Served = []string{fmt.Sprintf("rounds=%d dialFailures=%d", rounds, dialFailures)}
	res.Actions = []string{fmt.Sprintf("burst limit=%d size=%d..%d seed=%d", f.Limit, f.MinB, f.MaxB, f.Seed)}
	// Stop, and the listener part of C20 over the whole run
	res.StopCalled = true
	stopDone := make(chan struct{})
	go func() { l.Stop(); close(stopDone) }()
	select {
	case <-stopDone:
		res.StopReturned = true
	case <-time.After(time.Duration(job.DeadlineMs) * time.Millisecond):
		res.Hung = true
		res.HangWindow = "burst"
		res.Poisoned = true
		res.find("stop-hangs/burst", "Stop did not return after the burst rounds")
		return
	}
	<-served
	res.ServeReturned = true
	if left := waitGoroutinesGone(baseline, 2*time.Second); len(left) > 0 {
		res.Leaked = describeAll(left)
		res.Poisoned = true
	}
	res.Quiescent = len(res.Leaked) == 0
	res.Stats = &StatsObs{Total: int64(ds.CxTotal.Value()), Destroy: int64(ds.CxDestroyTotal.Value()),
		Active: int64(ds.CxActive.Value()), Restricted: int64(ds.CxRestricted.Value())}
	if res.Quiescent {
		ok := res.Stats.Active == 0 && res.Stats.Total == res.Stats.Destroy
		res.Conserved = boolp(ok)
		if !ok {
			res.find("stats/other", fmt.Sprintf("after %d burst rounds and Stop: cx_total=%d cx_destroy_total=%d cx_active=%d",
				rounds, res.Stats.Total, res.Stats.Destroy, res.Stats.Active))
		}
	}
	return
}

func burstJobs(thorough bool, seed int64, firstID int) []Job {
	rounds, per := 1500, 2
	if thorough {
		rounds, per = 3000, 2
	}
	var out []Job
	for _, lim := range []int{1, 2, 3} {
		for k := 0; k < per; k++ {
			f := &BurstSpec{Seed: seed*7919 + int64(lim*10+k), Limit: lim, MinB: 8, MaxB: 16, Rounds: rounds}
			out = append(out, Job{ID: firstID + len(out), Kind: "burst", Name: fmt.Sprintf("burst/limit%d/%d", lim, k), DeadlineMs: 5000, MaxMs: 900000, Attempt: 1, Burst: f})
		}
	}
	return out
}

func printBurstJobs(args []string) error {
	fs := flag.NewFlagSet("c09-burstjobs", flag.ContinueOnError)
	outF := fs.String("out", "", "jobs (ndjson)")
	first := fs.Int("firstID", 400000, "id of the first job")
	if err := fs.Parse(args); err != nil {
		return err
	}
	w, err := cli.NewNDJSONWriter(*outF)
	if err != nil {
		return err
	}
	defer w.Close()
	for _, j := range burstJobs(cli.Thorough(), cli.Seed(), *first) {
		if err := w.Write(j); err != nil {
			return err
		}
	}
	return nil
}
