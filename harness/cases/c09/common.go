// Package c09 holds the conformance drivers of property C09 (listeners: stop and
// drain always complete and release what they hold) and of the listener part of
// C20 (connection statistics are conserved).
//
//	c09-run      parent: distributes jobs (forced replays of TLC behaviours of
//	             spec/proc/ListenerGen.tla, processor scenarios, free-running
//	             listener runs) over re-exec'ed worker processes, re-runs hung
//	             jobs once with a longer deadline
//	c09-worker   child: executes jobs read from stdin on the real code
//	c09-lstats   listener connection-statistics histories (reused by C20)
//	c09-scenarios prints the processor scenarios as jobs
package c09

import (
	"fmt"
	"net"
	"os"
	"runtime"
	"sort"
	"strings"
	"sync"
	"sync/atomic"
	"syscall"
	"time"

	"github.com/samaritan-proxy/samaritan/proc"
)

// ---------------------------------------------------------------- ports

var (
	portSeq   int64
	portMu    sync.Mutex
	portLocks = map[int]*os.File{}
)

// allocPort returns a loopback port below the ephemeral range that nobody is
// bound to (probed with a plain listener: fails even against SO_REUSEPORT
// sockets) and that no other harness process has been given: the code under
// test binds the port itself, later and with SO_REUSEPORT, so two processes that
// probed the same free port would end up sharing it and stealing each other's
// connections. The claim is an flock on a per-port file, held until
// releasePort or the end of the process (nothing stale can be left behind).
func allocPort() int {
	start := 10000 + (os.Getpid()*7919)%18000
	os.MkdirAll(portLockDir, 0o777)
	for i := 0; i < 20000; i++ {
		p := 10000 + (start-10000+int(atomic.AddInt64(&portSeq, 1))*3)%20000
		f, err := os.OpenFile(fmt.Sprintf("%s/%d", portLockDir, p), os.O_CREATE|os.O_RDWR, 0o666)
		if err != nil {
			continue
		}
		if err := syscall.Flock(int(f.Fd()), syscall.LOCK_EX|syscall.LOCK_NB); err != nil {
			f.Close()
			continue
		}
		ln, err := net.Listen("tcp4", fmt.Sprintf("127.0.0.1:%d", p))
		if err != nil {
			f.Close()
			continue
		}
		ln.Close()
		portMu.Lock()
		portLocks[p] = f
		portMu.Unlock()
		return p
	}
	panic("no free port")
}

const portLockDir = "/tmp/verif-c09-ports"

// releasePort gives a port back to the other harness processes.
func releasePort(p int) {
	portMu.Lock()
	f := portLocks[p]
	delete(portLocks, p)
	portMu.Unlock()
	if f != nil {
		f.Close()
	}
}

// ---------------------------------------------------------------- goroutines

// gDump is one goroutine of a stack dump.
type gDump struct {
	Header string   // "goroutine 12 [chan receive]:"
	Funcs  []string // function names, innermost first
}

func (g gDump) state() string {
	i := strings.IndexByte(g.Header, '[')
	j := strings.LastIndexByte(g.Header, ']')
	if i < 0 || j < i {
		return ""
	}
	s := g.Header[i+1 : j]
	if k := strings.IndexByte(s, ','); k >= 0 {
		s = s[:k]
	}
	return s
}

// samaritanGoroutines returns the goroutines that execute code of the
// samaritan processors (package path filter), excluding the harness' own.
func samaritanGoroutines() []gDump {
	buf := make([]byte, 1<<20)
	for {
		n := runtime.Stack(buf, true)
		if n < len(buf) {
			buf = buf[:n]
			break
		}
		buf = make([]byte, 2*len(buf))
	}
	var out []gDump
	for _, blk := range strings.Split(string(buf), "\n\n") {
		lines := strings.Split(strings.TrimSpace(blk), "\n")
		if len(lines) == 0 || !strings.HasPrefix(lines[0], "goroutine ") {
			continue
		}
		g := gDump{Header: lines[0]}
		rel := false
		for _, ln := range lines[1:] {
			if strings.HasPrefix(ln, "\t") || strings.HasPrefix(ln, "created by ") {
				if strings.HasPrefix(ln, "created by ") && strings.Contains(ln, "samaritan-proxy/samaritan/proc") {
					rel = true
				}
				continue
			}
			fn := ln
			if i := strings.LastIndexByte(fn, '('); i > 0 {
				fn = fn[:i]
			}
			g.Funcs = append(g.Funcs, fn)
			if strings.Contains(fn, "samaritan-proxy/samaritan/proc") {
				rel = true
			}
		}
		if rel {
			out = append(out, g)
		}
	}
	return out
}

func shortFunc(fn string) string {
	fn = strings.TrimPrefix(fn, "github.com/samaritan-proxy/samaritan/")
	return fn
}

// describe renders a goroutine as "state: innermost samaritan frames".
func (g gDump) describe() string {
	var fr []string
	for _, f := range g.Funcs {
		if strings.Contains(f, "samaritan-proxy/samaritan/") {
			fr = append(fr, shortFunc(f))
			if len(fr) == 3 {
				break
			}
		}
	}
	return g.state() + ": " + strings.Join(fr, " < ")
}

// waitGoroutinesGone waits until at most base samaritan goroutines are left.
func waitGoroutinesGone(base int, d time.Duration) []gDump {
	dl := time.Now().Add(d)
	for {
		gs := samaritanGoroutines()
		if len(gs) <= base || time.Now().After(dl) {
			if len(gs) <= base {
				return nil
			}
			return gs
		}
		time.Sleep(2 * time.Millisecond)
	}
}

func describeAll(gs []gDump) []string {
	var out []string
	for _, g := range gs {
		out = append(out, g.describe())
	}
	sort.Strings(out)
	return out
}

// ---------------------------------------------------------------- recording bind function

// recLn wraps the listening socket created by the code under test so that
// the harness knows whether it is open.
type recLn struct {
	net.Listener
	st *sockState
}

type sockState struct {
	// called inside the bind function of the code under test, before the bind and after a
	// successful one (the socket exists, Serve has not published it yet); set before Serve starts
	beforeBind, afterBind func()

	mu     sync.Mutex
	binds  int // successful binds
	fails  int // failed binds
	open   bool
	closes int
}

func (s *sockState) isOpen() bool {
	s.mu.Lock()
	defer s.mu.Unlock()
	return s.open
}

func (s *sockState) counts() (binds, fails, closes int) {
	s.mu.Lock()
	defer s.mu.Unlock()
	return s.binds, s.fails, s.closes
}

func (r *recLn) Close() error {
	err := r.Listener.Close()
	r.st.mu.Lock()
	r.st.open = false
	r.st.closes++
	r.st.mu.Unlock()
	return err
}

var (
	sockMu     sync.Mutex
	sockStates = map[string]*sockState{}
	origListen proc.VerifListenFunc
	listenOnce sync.Once
)

// watchSocket makes binds to addr observable; it installs the recording bind
// function (which calls the original one) on first use.
func watchSocket(addr string) *sockState {
	listenOnce.Do(func() {
		origListen = proc.VerifSetListenFunc(func(proto, a string) (net.Listener, error) {
			sockMu.Lock()
			st := sockStates[a]
			sockMu.Unlock()
			if st == nil {
				return origListen(proto, a)
			}
			if st.beforeBind != nil {
				st.beforeBind()
			}
			ln, err := origListen(proto, a)
			if err == nil && st.afterBind != nil {
				st.afterBind()
			}
			st.mu.Lock()
			defer st.mu.Unlock()
			if err != nil {
				st.fails++
				return ln, err
			}
			st.binds++
			st.open = true
			return &recLn{Listener: ln, st: st}, nil
		})
	})
	st := &sockState{}
	sockMu.Lock()
	sockStates[addr] = st
	sockMu.Unlock()
	return st
}

func unwatchSocket(addr string) {
	sockMu.Lock()
	delete(sockStates, addr)
	sockMu.Unlock()
}

// ---------------------------------------------------------------- peers

// peer is a scripted downstream client of the listener / processor.
type peer struct {
	name   string
	c      net.Conn
	local  string
	lport  int
	mu     sync.Mutex
	closed bool // the peer saw its connection closed (EOF / reset)
	self   bool // the peer closed the connection itself
	poked  bool
	rx     []byte
	rxC    chan struct{}
}

// dialPeer connects from a local port chosen beforehand, so that the handler
// of the connection can be attributed to the peer before the handshake ends.
func dialPeer(name, addr string, register func(local string)) (*peer, error) {
	var lastErr error
	for try := 0; try < 5; try++ {
		lp := allocPort()
		local := fmt.Sprintf("127.0.0.1:%d", lp)
		if register != nil {
			register(local)
		}
		d := net.Dialer{Timeout: 2 * time.Second, LocalAddr: &net.TCPAddr{IP: net.IPv4(127, 0, 0, 1), Port: lp}}
		c, err := d.Dial("tcp4", addr)
		if err != nil {
			lastErr = err
			releasePort(lp)
			if strings.Contains(err.Error(), "address already in use") {
				continue
			}
			return nil, err
		}
		p := &peer{name: name, c: c, local: local, lport: lp, rxC: make(chan struct{}, 1)}
		go p.readLoop()
		return p, nil
	}
	return nil, lastErr
}

func (p *peer) readLoop() {
	buf := make([]byte, 4096)
	for {
		n, err := p.c.Read(buf)
		p.mu.Lock()
		if n > 0 {
			p.rx = append(p.rx, buf[:n]...)
		}
		if err != nil {
			p.closed = true
		}
		p.mu.Unlock()
		select {
		case p.rxC <- struct{}{}:
		default:
		}
		if err != nil {
			return
		}
	}
}

func (p *peer) sawClosed() bool {
	p.mu.Lock()
	defer p.mu.Unlock()
	return p.closed || p.self
}

func (p *peer) closedByProxy() bool {
	p.mu.Lock()
	defer p.mu.Unlock()
	return p.closed && !p.self
}

func (p *peer) close() {
	p.mu.Lock()
	p.self = true
	p.mu.Unlock()
	p.c.Close()
}

// roundTrip writes msg and waits until want has been received.
func (p *peer) roundTrip(msg, want string, d time.Duration) bool {
	p.mu.Lock()
	p.rx = nil
	p.mu.Unlock()
	p.c.SetWriteDeadline(time.Now().Add(d))
	if _, err := p.c.Write([]byte(msg)); err != nil {
		return false
	}
	dl := time.Now().Add(d)
	for {
		p.mu.Lock()
		got := string(p.rx)
		cl := p.closed
		p.mu.Unlock()
		if strings.Contains(got, want) {
			return true
		}
		if cl || time.Now().After(dl) {
			return false
		}
		select {
		case <-p.rxC:
		case <-time.After(5 * time.Millisecond):
		}
	}
}

// poke writes one byte. A connection that the kernel completed for the peer while the listening
// socket was being closed can be left half-open (established at the peer, unknown to the server,
// no RST: observed for about 1 % of the dials that race with the close on this kernel); the
// listener never had it. The first segment the peer sends is answered with a RST.
func (p *peer) poke() {
	p.mu.Lock()
	done := p.poked
	p.poked = true
	p.mu.Unlock()
	if !done {
		p.c.SetWriteDeadline(time.Now().Add(time.Second))
		p.c.Write([]byte("?"))
	}
}

func (p *peer) waitClosed(d time.Duration) bool {
	dl := time.Now().Add(d)
	for !p.sawClosed() {
		if time.Now().After(dl) {
			return false
		}
		time.Sleep(time.Millisecond)
	}
	return true
}

// portRefused reports whether connecting to addr is refused (polls up to d:
// the kernel needs no time, but a repaired Serve may close the socket a
// moment after Drain returned).
func portRefused(addr string, d time.Duration) bool {
	dl := time.Now().Add(d)
	for {
		c, err := net.DialTimeout("tcp4", addr, 300*time.Millisecond)
		if err != nil {
			return true
		}
		c.Close()
		if time.Now().After(dl) {
			return false
		}
		time.Sleep(5 * time.Millisecond)
	}
}

func waitUntil(d time.Duration, f func() bool) bool {
	dl := time.Now().Add(d)
	for {
		if f() {
			return true
		}
		if time.Now().After(dl) {
			return false
		}
		time.Sleep(200 * time.Microsecond)
	}
}

func ms(d time.Duration) float64 { return float64(d.Microseconds()) / 1000 }
