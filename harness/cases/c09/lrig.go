package c09

import (
	"fmt"
	"net"
	"strings"
	"sync"
	"sync/atomic"
	"time"

	"github.com/samaritan-proxy/samaritan/pb/common"
	"github.com/samaritan-proxy/samaritan/pb/config/service"
	"github.com/samaritan-proxy/samaritan/proc"
	"github.com/samaritan-proxy/samaritan/stats"
	"github.com/samaritan-proxy/samaritan/utils/verifhook"

	"verifharness/internal/sched"
	"verifharness/internal/sut"
)

// trailEv is one entry of the rig's ordered log: hook arrivals of the
// listener's goroutines (written inside the scheduler's critical section) and
// the driver's own calls / returns.
type trailEv struct {
	N     int64
	Role  string // serve | stop | drain | h:<peer> | env
	Point string
}

// lisRig is one real listener (proc.NewListener with an echo handler) plus
// everything the driver needs to observe it.
type lisRig struct {
	name  string
	port  int
	addr  string
	limit int
	l     proc.Listener
	ds    *proc.DownstreamStats
	sock  *sockState
	sc    *sched.Sched

	mu         sync.Mutex
	n          int64
	trail      []trailEv
	blocker    net.Listener
	localPeer  map[string]string // local address of a peer -> its name
	peers      map[string]*peer
	dialN      map[string]int64 // log position at which the peer started to connect
	addN       map[string]int64 // log position of the peer's addConn arrival
	served     map[string]bool  // the protocol handler was entered for the peer
	serving    int
	maxServing int
	unknownAdd int // connections accepted that no scripted peer made (probes)

	serveStarted  int32
	serveReturned int32
	stopCalled    bool
	drainCalled   bool
	stopDone      chan struct{}
	drainDone     chan struct{}
	stopT0        time.Time
	stopDur       time.Duration
}

var lisPoints = map[string][]string{
	"serve": {"listener.Serve.check", "listener.Serve.bind", "listener.Serve.retryWait", "listener.Serve.publish",
		"listener.Serve.accept", "listener.Serve.waitConns", "listener.Serve.closeDone"},
	"stop":  {"listener.Stop", "listener.Stop.swap", "listener.Stop.readLn", "listener.Stop.closeConns", "listener.Stop.waitDone"},
	"drain": {"listener.Drain", "listener.Drain.readLn"},
	"h":     {"listener.addConn", "handler.exit", "listener.removeConn"},
}

func newLisRig(limit int, busy bool) (*lisRig, error) {
	r := &lisRig{
		name: sut.UniqueName("c09lis"), limit: limit,
		localPeer: map[string]string{}, peers: map[string]*peer{}, dialN: map[string]int64{}, addN: map[string]int64{},
		served: map[string]bool{}, stopDone: make(chan struct{}), drainDone: make(chan struct{}),
	}
	r.port = allocPort()
	r.addr = fmt.Sprintf("127.0.0.1:%d", r.port)
	if busy {
		b, err := net.Listen("tcp4", r.addr)
		if err != nil {
			return nil, fmt.Errorf("blocker: %v", err)
		}
		r.blocker = b
		go func() { // whoever connects to the other process is not our business
			for {
				c, err := b.Accept()
				if err != nil {
					return
				}
				c.Close()
			}
		}()
	}
	r.sock = watchSocket(r.addr)
	r.ds = proc.NewDownstreamStats(stats.CreateScope("service." + r.name + "."))
	cfg := &service.Listener{Address: &common.Address{Ip: "127.0.0.1", Port: uint32(r.port)}, ConnectionLimit: uint32(limit)}
	l, err := proc.VerifNewListener(cfg, r.ds, "["+r.name+"]", r.handler)
	if err != nil {
		return nil, err
	}
	r.l = l
	r.sc = sched.New(r.key)
	return r, nil
}

func (r *lisRig) log(role, point string) int64 {
	r.mu.Lock()
	defer r.mu.Unlock()
	r.n++
	r.trail = append(r.trail, trailEv{N: r.n, Role: role, Point: point})
	return r.n
}

// key implements sched.KeyFunc (called inside the scheduler's critical section,
// so the order of the log is the order of the arrivals).
func (r *lisRig) key(point string, a, b interface{}) string {
	if a != interface{}(r.l) {
		return ""
	}
	role := ""
	switch {
	case strings.HasPrefix(point, "listener.Serve"):
		role = "serve"
	case strings.HasPrefix(point, "listener.Stop"):
		role = "stop"
	case strings.HasPrefix(point, "listener.Drain"):
		role = "drain"
	case point == "listener.addConn" || point == "listener.removeConn" || point == "handler.exit":
		c, ok := b.(net.Conn)
		if !ok || c == nil {
			return ""
		}
		r.mu.Lock()
		name := r.localPeer[c.RemoteAddr().String()]
		if name == "" && point == "listener.addConn" {
			r.unknownAdd++
		}
		r.mu.Unlock()
		if name == "" {
			r.log("h:?", point)
			return ""
		}
		role = "h:" + name
	default:
		return ""
	}
	n := r.log(role, point)
	if point == "listener.addConn" {
		r.mu.Lock()
		r.addN[strings.TrimPrefix(role, "h:")] = n
		r.mu.Unlock()
	}
	return role + "|" + point
}

// handler is the protocol handler of the listener under test: an echo server.
func (r *lisRig) handler(conn net.Conn) {
	r.mu.Lock()
	name := r.localPeer[conn.RemoteAddr().String()]
	r.serving++
	if r.serving > r.maxServing {
		r.maxServing = r.serving
	}
	if name != "" {
		r.served[name] = true
	} else {
		r.served["?"+conn.RemoteAddr().String()] = true
	}
	r.mu.Unlock()
	r.log("h:"+name, "handler.enter")
	buf := make([]byte, 1024)
	for {
		n, err := conn.Read(buf)
		if err != nil {
			break
		}
		if _, err := conn.Write(buf[:n]); err != nil {
			break
		}
	}
	verifhook.At2("handler.exit", r.l, conn)
	r.mu.Lock()
	r.serving--
	r.mu.Unlock()
}

func (r *lisRig) gateAll(peers []string) {
	var keys []string
	for _, role := range []string{"serve", "stop", "drain"} {
		for _, p := range lisPoints[role] {
			keys = append(keys, role+"|"+p)
		}
	}
	for _, h := range peers {
		for _, p := range lisPoints["h"] {
			keys = append(keys, "h:"+h+"|"+p)
		}
	}
	r.sc.Gate(keys...)
}

func (r *lisRig) startServe() {
	atomic.StoreInt32(&r.serveStarted, 1)
	r.log("env", "callServe")
	go func() {
		r.l.Serve()
		r.log("serve", "returned")
		atomic.StoreInt32(&r.serveReturned, 1)
	}()
}

func (r *lisRig) callStop() {
	r.mu.Lock()
	if r.stopCalled {
		r.mu.Unlock()
		return
	}
	r.stopCalled = true
	r.stopT0 = time.Now()
	r.mu.Unlock()
	r.log("env", "callStop")
	go func() {
		r.l.Stop()
		r.mu.Lock()
		r.stopDur = time.Since(r.stopT0)
		r.mu.Unlock()
		r.log("stop", "returned")
		close(r.stopDone)
	}()
}

func (r *lisRig) callDrain() {
	r.mu.Lock()
	if r.drainCalled {
		r.mu.Unlock()
		return
	}
	r.drainCalled = true
	r.mu.Unlock()
	r.log("env", "callDrain")
	go func() {
		r.l.Drain()
		r.log("drain", "returned")
		close(r.drainDone)
	}()
}

func (r *lisRig) connect(h string) error {
	n := r.log("env", "connect:"+h)
	r.mu.Lock()
	r.dialN[h] = n
	r.mu.Unlock()
	p, err := dialPeer(h, r.addr, func(local string) {
		r.mu.Lock()
		r.localPeer[local] = h
		r.mu.Unlock()
	})
	if err != nil {
		r.log("env", "connectFailed:"+h)
		return err
	}
	r.mu.Lock()
	r.peers[h] = p
	r.mu.Unlock()
	r.log("env", "connected:"+h)
	return nil
}

func (r *lisRig) peer(h string) *peer {
	r.mu.Lock()
	defer r.mu.Unlock()
	return r.peers[h]
}

func (r *lisRig) peerClose(h string) {
	if p := r.peer(h); p != nil {
		r.log("env", "peerClose:"+h)
		p.close()
		r.log("env", "peerClosed:"+h)
	}
}

func (r *lisRig) freePort() {
	r.mu.Lock()
	b := r.blocker
	r.blocker = nil
	r.mu.Unlock()
	if b != nil {
		r.log("env", "portFree")
		b.Close()
		r.log("env", "portFreed")
	}
}

func (r *lisRig) statsObs() *StatsObs {
	return &StatsObs{
		Total:      int64(r.ds.CxTotal.Value()),
		Destroy:    int64(r.ds.CxDestroyTotal.Value()),
		Active:     int64(r.ds.CxActive.Value()),
		Restricted: int64(r.ds.CxRestricted.Value()),
	}
}

func (r *lisRig) servingNow() (int, int) {
	r.mu.Lock()
	defer r.mu.Unlock()
	return r.serving, r.maxServing
}

func (r *lisRig) trailCopy() []trailEv {
	r.mu.Lock()
	defer r.mu.Unlock()
	return append([]trailEv{}, r.trail...)
}

// classifyHang names the window a hung Stop went through, from the ordered
// log of hook arrivals (see the W_* predicates of spec/proc/Listener.tla).
func (r *lisRig) classifyHang() (string, []string) {
	st, _ := proc.VerifListenerStateOf(r.l)
	tr := r.trailCopy()
	w, serve := classifyTrail(tr, st.Done, r.sock.isOpen())
	if strings.HasPrefix(w, "other:waitConns") {
		// Serve waits for a handler whose connection nobody closed. Was the connection admitted
		// after Stop had looked at the registry (its arrival at listener.Stop.readLn)?
		var nSnap int64
		enter := map[string]int64{}
		for _, e := range tr {
			if e.Point == "listener.Stop.readLn" && nSnap == 0 {
				nSnap = e.N
			}
			if e.Point == "handler.enter" && strings.HasPrefix(e.Role, "h:") {
				enter[e.Role[2:]] = e.N
			}
		}
		late, early := false, false
		for h, p := range r.peersSnapshot() {
			if n, ok := enter[h]; ok && !p.sawClosed() {
				if nSnap > 0 && n > nSnap {
					late = true
				} else {
					early = true
				}
			}
		}
		switch {
		case late:
			return "W_AddAfterStop", serve
		case early:
			return "conn-not-closed", serve
		}
	}
	return w, serve
}

// classifyTrail: tr is the ordered log of one listener (roles serve/stop/drain/env).
func classifyTrail(tr []trailEv, done, sockOpen bool) (string, []string) {
	var serve []string
	binds := 0
	var nServeRet, nQuitClosed, nDrainClosed, nStopCall int64
	for _, e := range tr {
		switch {
		case e.Role == "serve" && e.Point == "returned":
			nServeRet = e.N
			serve = append(serve, "returned")
		case e.Role == "serve":
			serve = append(serve, strings.TrimPrefix(e.Point, "listener.Serve."))
			if e.Point == "listener.Serve.bind" {
				binds++
			}
		case e.Point == "listener.Stop.swap": // quit is closed before this arrival
			nQuitClosed = e.N
		case e.Point == "listener.Drain.readLn":
			nDrainClosed = e.N
		case e.Point == "listener.Stop" && nStopCall == 0:
			nStopCall = e.N
		}
	}
	last := ""
	if len(serve) > 0 {
		last = serve[len(serve)-1]
	}
	// Serve has returned if the driver saw it return, or (processor level) if its last
	// section can only end in a return: the check / the retry wait with a closed latch
	returned := nServeRet > 0
	if !returned && !done && (last == "check" || last == "retryWait") && (nQuitClosed > 0 || nDrainClosed > 0) {
		returned = true
		nServeRet = 1 << 62
	}
	switch {
	case returned && !done:
		quitFirst := nQuitClosed > 0 && nQuitClosed < nServeRet
		drainFirst := nDrainClosed > 0 && nDrainClosed < nServeRet
		cause := "Stop"
		if drainFirst && (!quitFirst || (nStopCall > 0 && nDrainClosed < nStopCall)) {
			cause = "Drain"
		}
		if binds == 0 {
			return "W_" + cause + "BeforeBind", serve
		}
		return "W_" + cause + "DuringRetry", serve
	case !returned && last == "accept" && sockOpen:
		return "W_StopBetweenBindAndPublish", serve
	case len(serve) == 0:
		return "serve-never-ran", serve
	}
	return "other:" + last, serve
}

// judge applies the property predicate of C09 (and the listener part of C20)
// to the finished run and fills res. It must be called after every gate has
// been released.
func (r *lisRig) judge(res *Result, deadline time.Duration, baseline int) {
	res.Limit = r.limit
	// Drain returns
	if r.drainCalled {
		res.DrainCalled = true
		select {
		case <-r.drainDone:
			res.DrainReturned = true
		case <-time.After(deadline):
			res.Hung = true
			res.HangWindow = "drain"
			res.find("drain-hangs", "Drain did not return within the deadline")
		}
	}
	if res.DrainReturned && !r.stopCalled {
		// established connections keep working, new ones are not served
		ok := true
		for h, p := range r.peersSnapshot() {
			if r.wasServed(h) && !p.sawClosed() {
				if !p.roundTrip("ping-"+h+"\n", "ping-"+h, 2*time.Second) {
					ok = false
					res.find("drain-closed-established", "an established connection ("+h+") stopped working after Drain")
				}
			}
		}
		res.DrainEchoOK = boolp(ok)
		if atomic.LoadInt32(&r.serveStarted) == 1 {
			r.probeAfterDrain(res)
		}
	}
	// connections accepted although they were made after Drain had returned
	r.acceptedAfterDrain(res)

	if !r.stopCalled {
		res.CleanupStop = true
		r.callStop()
	}
	res.StopCalled = true
	select {
	case <-r.stopDone:
		res.StopReturned = true
		r.mu.Lock()
		res.StopMs = ms(r.stopDur)
		r.mu.Unlock()
	case <-time.After(deadline):
		res.Hung = true
	}
	res.ServeReturned = atomic.LoadInt32(&r.serveReturned) == 1
	serving, maxServing := r.servingNow()
	res.MaxServing = maxServing
	for h := range r.peersSnapshot() {
		if r.wasServed(h) {
			res.Served = append(res.Served, h)
		} else {
			res.Refused = append(res.Refused, h)
		}
	}
	if r.limit > 0 && maxServing > r.limit {
		res.find("limit/exceeded", fmt.Sprintf("%d connections served concurrently with limit %d", maxServing, r.limit))
	}
	if !res.StopReturned {
		w, serve := r.classifyHang()
		res.HangWindow = w
		res.ServeTrail = serve
		res.Stuck = describeAll(samaritanGoroutines())
		res.find("stop-hangs/"+w, fmt.Sprintf("Stop did not return within %s (Serve went through %v)", deadline, serve))
		res.Poisoned = true
		return
	}
	// after Stop: port closed, peers closed, serving goroutine and handlers gone
	r.freePort() // the other process goes away, otherwise the probe would reach it
	refused := portRefused(r.addr, 0)
	res.PortRefused = boolp(refused)
	if !refused || r.sock.isOpen() {
		res.find("after-stop/port-open", "the listening port still accepts connections after Stop returned")
	}
	for h, p := range r.peersSnapshot() {
		if r.wasAccepted(h) {
			if !p.waitClosed(2 * time.Second) {
				res.PeersOpen = append(res.PeersOpen, h)
			}
			continue
		}
		// never handed to the listener by Accept: at most a half-open leftover of the kernel
		if !p.waitClosed(100 * time.Millisecond) {
			p.poke()
			if !p.waitClosed(2 * time.Second) {
				res.PeersOpen = append(res.PeersOpen, h)
			}
		}
	}
	if len(res.PeersOpen) > 0 {
		res.find("after-stop/peer-not-closed", fmt.Sprintf("peers %v never saw their connection closed after Stop returned", res.PeersOpen))
	}
	if atomic.LoadInt32(&r.serveStarted) == 1 {
		left := waitGoroutinesGone(baseline, 2*time.Second)
		res.ServeReturned = atomic.LoadInt32(&r.serveReturned) == 1
		if len(left) > 0 {
			res.Leaked = describeAll(left)
			res.Poisoned = true
			res.find("after-stop/goroutines-left", fmt.Sprintf("goroutines of the listener remain after Stop returned: %v", res.Leaked))
		}
	}
	serving, _ = r.servingNow()
	res.Quiescent = len(res.Leaked) == 0 && serving == 0
	res.Stats = r.statsObs()
	for h, p := range r.peersSnapshot() {
		if r.wasServed(h) && p.closedByProxy() {
			res.OpenAtStop++
		}
	}
	if res.Quiescent {
		ok := res.Stats.Active == 0 && res.Stats.Total == res.Stats.Destroy
		res.Conserved = boolp(ok)
		if !ok {
			// connections that were still registered when Stop took the registry are never
			// counted as destroyed: total - destroyed = active > 0
			cls := "other"
			if res.StopReturned && res.Stats.Active > 0 && res.Stats.Total-res.Stats.Destroy == res.Stats.Active {
				cls = "stop-with-open-conns"
			}
			res.find("stats/"+cls, fmt.Sprintf("quiescent after Stop (%d connection(s) closed by it): cx_total=%d cx_destroy_total=%d cx_active=%d",
				res.OpenAtStop, res.Stats.Total, res.Stats.Destroy, res.Stats.Active))
		}
	}
	if res.Stats.Active < 0 {
		res.find("stats/gauge-negative", fmt.Sprintf("cx_active wrapped below zero (%d)", res.Stats.Active))
	}
}

func (r *lisRig) peersSnapshot() map[string]*peer {
	r.mu.Lock()
	defer r.mu.Unlock()
	out := map[string]*peer{}
	for k, v := range r.peers {
		out[k] = v
	}
	return out
}

// wasAccepted: Accept returned the peer's connection (its handler reached addConn).
func (r *lisRig) wasAccepted(h string) bool {
	r.mu.Lock()
	defer r.mu.Unlock()
	return r.addN[h] > 0
}

func (r *lisRig) wasServed(h string) bool {
	r.mu.Lock()
	defer r.mu.Unlock()
	return r.served[h]
}

// probeAfterDrain connects after Drain has returned: the connection must never
// be handed to the protocol handler, and the port must end up refusing.
func (r *lisRig) probeAfterDrain(res *Result) {
	const name = "probe"
	if err := r.connect(name); err != nil {
		return // refused: fine
	}
	p := r.peer(name)
	waitUntil(300*time.Millisecond, func() bool { return p.sawClosed() || r.wasServed(name) })
	if r.wasServed(name) {
		res.AcceptedAfterDrain = append(res.AcceptedAfterDrain, name)
	}
}

func (r *lisRig) acceptedAfterDrain(res *Result) {
	tr := r.trailCopy()
	var nDrainRet int64
	for _, e := range tr {
		if e.Role == "drain" && e.Point == "returned" {
			nDrainRet = e.N
		}
	}
	if nDrainRet == 0 {
		return
	}
	r.mu.Lock()
	for h, dn := range r.dialN {
		if dn > nDrainRet && r.addN[h] > 0 {
			dup := false
			for _, x := range res.AcceptedAfterDrain {
				dup = dup || x == h
			}
			if !dup {
				res.AcceptedAfterDrain = append(res.AcceptedAfterDrain, h)
			}
		}
	}
	r.mu.Unlock()
	if len(res.AcceptedAfterDrain) > 0 {
		res.find("drain-ineffective/W_DrainBetweenBindAndPublish",
			fmt.Sprintf("connections %v made after Drain had returned were accepted", res.AcceptedAfterDrain))
	}
}

func (r *lisRig) cleanup() {
	for _, p := range r.peersSnapshot() {
		p.close()
		releasePort(p.lport)
	}
	r.freePort()
	unwatchSocket(r.addr)
	releasePort(r.port)
}
