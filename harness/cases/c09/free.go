package c09

import (
	"flag"
	"fmt"
	"math/rand"
	"os"
	"strings"
	"time"

	"github.com/samaritan-proxy/samaritan/proc"

	"verifharness/internal/cli"
)

func init() {
	cli.Register("c09-lstats", runLStats)
	cli.Register("c09-freejobs", printFreeJobs)
}

// FreeSpec describes one free-running (not gated) run of a real listener. The
// script is derived from Seed.
type FreeSpec struct {
	Seed      int64 `json:"seed"`
	Limit     int   `json:"limit"`
	Busy      bool  `json:"busy"`
	Peers     int   `json:"peers"`
	WithDrain bool  `json:"withDrain"`
	SafeStart bool  `json:"safeStart"` // wait until the listener accepts before anything else (no early Stop)
	Perturb   bool  `json:"perturb"`   // random yields / sleeps at the hook points
	MaxGapUs  int   `json:"maxGapUs"`
}

// TraceEv is one entry of the ordered log of a free run (input of ListenerTrace.tla):
// arrivals of the listener's goroutines at hook points and the driver's calls / returns.
type TraceEv struct {
	R string `json:"r"` // serve | stop | drain | h | env | ctl
	P string `json:"p"` // hook point, "returned", or the driver's event
	H string `json:"h"` // connection
}

func freeScript(f *FreeSpec) []string {
	rnd := rand.New(rand.NewSource(f.Seed))
	var ops []string
	for i := 1; i <= f.Peers; i++ {
		ops = append(ops, fmt.Sprintf("connect:c%d", i))
	}
	if f.WithDrain {
		ops = append(ops, "drain")
	}
	ops = append(ops, "stop")
	if !f.SafeStart {
		ops = append(ops, "serve")
		if f.Busy {
			ops = append(ops, "free")
		}
	}
	rnd.Shuffle(len(ops), func(i, j int) { ops[i], ops[j] = ops[j], ops[i] })
	// some peers close their connection at a random later point
	for i := 1; i <= f.Peers; i++ {
		if rnd.Intn(2) == 0 {
			c := fmt.Sprintf("connect:c%d", i)
			pos := 0
			for k, o := range ops {
				if o == c {
					pos = k
				}
			}
			at := pos + 1 + rnd.Intn(len(ops)-pos)
			ops = append(ops[:at], append([]string{fmt.Sprintf("close:c%d", i)}, ops[at:]...)...)
		}
	}
	if f.SafeStart {
		pre := []string{"serve"}
		if f.Busy {
			pre = append(pre, "free")
		}
		ops = append(append(pre, "listening"), ops...)
	}
	return ops
}

func toTrace(tr []trailEv) []TraceEv {
	out := make([]TraceEv, 0, len(tr))
	for _, e := range tr {
		ev := TraceEv{R: e.Role, P: e.Point}
		if strings.HasPrefix(e.Role, "h:") {
			ev.R, ev.H = "h", e.Role[2:]
		}
		if e.Role == "env" {
			if i := strings.IndexByte(e.Point, ':'); i > 0 {
				ev.P, ev.H = e.Point[:i], e.Point[i+1:]
			}
		}
		out = append(out, ev)
	}
	return out
}

// runFree lets a real listener run freely under a random script, records the
// ordered log and judges the outcome with the property predicate.
func runFree(job *Job) (res Result) {
	t0 := time.Now()
	f := job.Free
	res = Result{ID: job.ID, Kind: job.Kind, Name: job.Name, Attempt: job.Attempt, DeadlineMs: job.DeadlineMs, DivergeAt: -1, Exact: true, Limit: f.Limit}
	defer func() { res.WallMs = ms(time.Since(t0)) }()
	ops := freeScript(f)
	res.Actions = ops
	baseline := len(samaritanGoroutines())
	r, err := newLisRig(f.Limit, f.Busy)
	if err != nil {
		res.Err = "rig: " + err.Error()
		return
	}
	defer r.cleanup()
	if f.Perturb {
		r.sc.Perturb(f.Seed, 0.5, 300*time.Microsecond, func(p string) bool { return strings.HasPrefix(p, "listener.") || p == "handler.exit" })
	}
	r.sc.Install()
	defer r.sc.Uninstall()
	rnd := rand.New(rand.NewSource(f.Seed ^ 0x5bd1e995))
	gap := f.MaxGapUs
	if gap <= 0 {
		gap = 200
	}
	for _, op := range ops {
		if rnd.Intn(3) > 0 {
			time.Sleep(time.Duration(rnd.Intn(gap)) * time.Microsecond)
		}
		switch {
		case op == "serve":
			r.startServe()
		case op == "free":
			r.freePort()
		case op == "listening":
			// no probe connection (the model would have to explain it): wait for the publication of the socket
			if !waitUntil(5*time.Second, func() bool { st, _ := proc.VerifListenerStateOf(r.l); return st.LnSet && r.sock.isOpen() }) {
				res.Err = "listener never accepted"
				r.callStop()
				res.Poisoned = true
				return
			}
		case op == "stop":
			r.callStop()
		case op == "drain":
			r.callDrain()
		case strings.HasPrefix(op, "connect:"):
			r.mu.Lock()
			blocked := r.blocker != nil
			r.mu.Unlock()
			if !blocked {
				r.connect(op[8:])
			}
		case strings.HasPrefix(op, "close:"):
			r.peerClose(op[6:])
		}
	}
	r.judge(&res, time.Duration(job.DeadlineMs)*time.Millisecond, baseline)
	if res.Quiescent && res.Stats != nil {
		r.log("ctl", fmt.Sprintf("stats:%d:%d:%d:%d", res.Stats.Total, res.Stats.Active, res.Stats.Destroy, res.Stats.Restricted))
	}
	res.Trace = toTrace(r.trailCopy())
	return
}

func freeJobs(n int, firstID int, deadlineMs int, seed int64, safe bool) []Job {
	rnd := rand.New(rand.NewSource(seed))
	var out []Job
	for i := 0; i < n; i++ {
		f := &FreeSpec{Seed: seed*1000003 + int64(i), Limit: []int{0, 1, 1, 2}[rnd.Intn(4)], Peers: 2 + rnd.Intn(2),
			WithDrain: rnd.Intn(2) == 0, SafeStart: safe, Perturb: rnd.Intn(3) > 0, MaxGapUs: []int{50, 200, 1000}[rnd.Intn(3)]}
		if !safe {
			f.Busy = rnd.Intn(8) == 0
			f.SafeStart = rnd.Intn(2) == 0 // half of the runs exercise the listener's mid-life, half its start
		}
		out = append(out, Job{ID: firstID + i, Kind: "free", Name: fmt.Sprintf("free/%d", f.Seed), DeadlineMs: deadlineMs, Attempt: 1, Free: f})
	}
	return out
}

func printFreeJobs(args []string) error {
	fs := flag.NewFlagSet("c09-freejobs", flag.ContinueOnError)
	outF := fs.String("out", "", "jobs (ndjson)")
	n := fs.Int("n", 40, "number of runs")
	first := fs.Int("firstID", 200000, "id of the first job")
	dl := fs.Int("deadlineMs", 2000, "deadline for Stop")
	safe := fs.Bool("safe", false, "only histories that start after the listener accepts")
	if err := fs.Parse(args); err != nil {
		return err
	}
	w, err := cli.NewNDJSONWriter(*outF)
	if err != nil {
		return err
	}
	defer w.Close()
	for _, j := range freeJobs(*n, *first, *dl, cli.Seed(), *safe) {
		if err := w.Write(j); err != nil {
			return err
		}
	}
	return nil
}

// runLStats is the listener part of C20 as a reusable sub-command:
//
//	c09 c09-lstats -out results.ndjson [-n 40] [-workers 6]
//
// runs n random connection histories (connections under and over the limit,
// peers closing, optional Drain, Stop with connections still open) on real
// listeners that are already accepting (so none of the C09 stop windows is
// involved) and writes one Result per history: stats (observed cx_total,
// cx_destroy_total, cx_active as a signed number, cx_restricted), quiescent,
// conserved (active = 0 and total = destroyed), openAtStop, limit, served,
// refused and findings with the signatures stats/stop-with-open-conns,
// stats/other, stats/gauge-negative.
func runLStats(args []string) error {
	fs := flag.NewFlagSet("c09-lstats", flag.ContinueOnError)
	outF := fs.String("out", "", "results (ndjson)")
	n := fs.Int("n", 40, "number of histories")
	nw := fs.Int("workers", 6, "worker processes")
	if err := fs.Parse(args); err != nil {
		return err
	}
	tmp, err := os.CreateTemp("", "c09-lstats-*.ndjson")
	if err != nil {
		return err
	}
	tmp.Close()
	defer os.Remove(tmp.Name())
	w, err := cli.NewNDJSONWriter(tmp.Name())
	if err != nil {
		return err
	}
	for _, j := range freeJobs(*n, 300000, 5000, cli.Seed(), true) {
		if err := w.Write(j); err != nil {
			return err
		}
	}
	if err := w.Close(); err != nil {
		return err
	}
	return runParent([]string{"-in", tmp.Name(), "-out", *outF, "-workers", fmt.Sprint(*nw)})
}
