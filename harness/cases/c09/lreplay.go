package c09

import (
	"fmt"
	"sort"
	"time"

	"github.com/samaritan-proxy/samaritan/proc"
)

const (
	stepTimeout  = 500 * time.Millisecond
	timerTimeout = 1500 * time.Millisecond // the bind retry timer is 500 ms
)

func roleOfStep(st lisStep) string {
	if st.Role == "h" {
		return "h:" + st.H
	}
	return st.Role
}

func gateOf(g lisGates, role string) string {
	switch role {
	case "serve":
		return g.Serve
	case "stop":
		return g.Stop
	case "drain":
		return g.Drain
	}
	if len(role) > 2 && role[:2] == "h:" {
		return g.H[role[2:]]
	}
	return ""
}

// compare returns "" when the real listener is in the state the model is in.
func (r *lisRig) compare(o lisObs) string {
	st, ok := proc.VerifListenerStateOf(r.l)
	if !ok {
		return "no listener state"
	}
	if st.Quit != o.Quit || st.Drain != o.Drain || st.Done != o.Done {
		return fmt.Sprintf("latches quit=%v drain=%v done=%v, model quit=%v drain=%v done=%v", st.Quit, st.Drain, st.Done, o.Quit, o.Drain, o.Done)
	}
	if st.LnSet != o.LnPub {
		return fmt.Sprintf("ln published=%v, model %v", st.LnSet, o.LnPub)
	}
	if st.ConnsNil != o.ConnsNil || st.Conns != o.NConns {
		return fmt.Sprintf("registry nil=%v size=%d, model nil=%v size=%d", st.ConnsNil, st.Conns, o.ConnsNil, o.NConns)
	}
	if so := r.sock.isOpen(); so != o.SockOpen {
		return fmt.Sprintf("socket open=%v, model %v", so, o.SockOpen)
	}
	if s, _ := r.servingNow(); s != o.Serving {
		return fmt.Sprintf("handlers serving=%d, model %d", s, o.Serving)
	}
	for h, want := range o.Closed {
		got := false
		if p := r.peer(h); p != nil {
			got = p.sawClosed()
			if want && !got && !r.wasAccepted(h) {
				p.poke() // half-open leftover of the kernel (see peer.poke)
			}
		}
		if got != want {
			return fmt.Sprintf("peer %s closed=%v, model %v", h, got, want)
		}
	}
	s := r.statsObs()
	if s.Total != o.CxTotal || s.Active != o.CxActive || s.Destroy != o.CxDestroy || s.Restricted != o.CxRestricted {
		return fmt.Sprintf("stats total=%d active=%d destroy=%d restricted=%d, model total=%d active=%d destroy=%d restricted=%d",
			s.Total, s.Active, s.Destroy, s.Restricted, o.CxTotal, o.CxActive, o.CxDestroy, o.CxRestricted)
	}
	return ""
}

// replayListener forces one behaviour of ListenerGen on a fresh real listener
// and judges the outcome with the property predicate.
func replayListener(job *Job) (res Result) {
	t0 := time.Now()
	beh := job.Beh
	res = Result{ID: job.ID, Kind: job.Kind, Name: job.Name, Attempt: job.Attempt, DeadlineMs: job.DeadlineMs,
		Steps: len(beh.Steps), DivergeAt: -1, Limit: beh.Limit}
	defer func() { res.WallMs = ms(time.Since(t0)) }()
	wins := map[string]bool{}
	peersSeen := map[string]bool{}
	var peers []string
	for _, st := range beh.Steps {
		res.Actions = append(res.Actions, st.A+":"+st.H)
		for _, w := range st.Win {
			wins[w] = true
		}
		for h := range st.Gates.H {
			if !peersSeen[h] {
				peersSeen[h] = true
				peers = append(peers, h)
			}
		}
	}
	for w := range wins {
		res.Windows = append(res.Windows, w)
	}
	sort.Strings(res.Windows)
	sort.Strings(peers)

	baseline := len(samaritanGoroutines())
	r, err := newLisRig(beh.Limit, beh.Busy)
	if err != nil {
		res.Err = "rig: " + err.Error()
		return
	}
	defer r.cleanup()
	r.sc.Install()
	defer r.sc.Uninstall()
	r.gateAll(peers)

	parkedAt := map[string]string{}
	// Two degrees of divergence. A state mismatch (the code is not in the state the model is in) is
	// recorded, but the schedule of the behaviour keeps being forced as long as the goroutines can be
	// followed from gate to gate: the window the behaviour aims at is still placed exactly. Only when a
	// goroutine does not show up at the gate the model expects (free), the gates are given up and
	// only the environment's steps are performed. The verdict comes from judge() in every case.
	free := false
	stateDiverged := false
	note := func(i int, why string) {
		if res.DivergeAt < 0 {
			res.DivergeAt = i
			res.DivergeWhy = why
		}
	}
	diverge := func(i int, why string) {
		note(i, why)
		if !free {
			free = true
			r.sc.ReleaseAll()
		}
	}
	roles := append([]string{"serve", "stop", "drain"}, func() []string {
		var hs []string
		for _, h := range peers {
			hs = append(hs, "h:"+h)
		}
		return hs
	}()...)

	for i, st := range beh.Steps {
		role := roleOfStep(st)
		to := stepTimeout
		if st.A == "SrvRetry" && st.Obs.Srv == "check" {
			to = timerTimeout
		}
		var expectServed *bool
		switch st.A {
		case "SrvStart":
			r.startServe()
		case "CallStop":
			r.callStop()
		case "CallDrain":
			r.callDrain()
		case "PeerConnect":
			if err := r.connect(st.H); err != nil {
				if !free {
					diverge(i, "peer "+st.H+" could not connect: "+err.Error())
				}
			}
		case "PeerClose":
			r.peerClose(st.H)
		case "PortFreed":
			r.freePort()
		case "SrvRecheck", "Drain2":
			// no hook point: part of the code section released by SrvPublish / Drain1
		default:
			if free {
				break
			}
			cur := parkedAt[role]
			if cur == "" {
				diverge(i, fmt.Sprintf("role %s is not parked before %s", role, st.A))
				break
			}
			if !r.sc.WaitParked(role+"|"+cur, to) {
				diverge(i, fmt.Sprintf("role %s never reached %s before %s", role, cur, st.A))
				break
			}
			if st.A == "HAdd" {
				// everything else is parked: the registry cannot change before the handler looks at it
				ls, _ := proc.VerifListenerStateOf(r.l)
				expectServed = boolp(!ls.ConnsNil && (r.limit == 0 || ls.Conns < r.limit))
			}
			r.sc.Release(role + "|" + cur)
			parkedAt[role] = ""
		}
		if free {
			time.Sleep(2 * time.Millisecond)
			continue
		}
		// every role must be parked where the model says it is
		for _, ro := range roles {
			want := gateOf(st.Gates, ro)
			if want == "" {
				parkedAt[ro] = ""
				continue
			}
			if parkedAt[ro] == want && ro != role {
				continue
			}
			if !r.sc.WaitParked(ro+"|"+want, to) {
				diverge(i, fmt.Sprintf("after %s role %s did not park at %s", st.A, ro, want))
				break
			}
			parkedAt[ro] = want
		}
		if free {
			continue
		}
		// compare the observable state (the re-check that follows the publication of l.ln in the
		// repaired code belongs to the same code section: compare after it)
		if i+1 < len(beh.Steps) && ((st.A == "SrvPublish" && beh.Steps[i+1].A == "SrvRecheck") ||
			(st.A == "Drain1" && beh.Steps[i+1].A == "Drain2")) {
			continue
		}
		if !stateDiverged {
			var why string
			if !waitUntil(to, func() bool { why = r.compare(st.Obs); return why == "" }) {
				note(i, fmt.Sprintf("after %s: %s", st.A, why))
				stateDiverged = true
			}
		}
		if expectServed != nil {
			if stateDiverged {
				// no model state to wait for: the handler is entered or the listener closes the connection.
				// A peer that has closed the connection itself cannot tell the two apart: not judged.
				p := r.peer(st.H)
				if p == nil || p.sawClosed() {
					continue
				}
				waitUntil(to, func() bool { return r.wasServed(st.H) || p.closedByProxy() })
			}
			got := r.wasServed(st.H)
			if *expectServed && !got {
				res.UnderLimitRefused = append(res.UnderLimitRefused, st.H)
				res.find("limit/under-limit-refused", "connection "+st.H+" arrived under the limit on a running listener and was refused")
			}
			if !*expectServed && got {
				res.OverLimitServed = append(res.OverLimitServed, st.H)
				res.find("limit/over-limit-served", "connection "+st.H+" was served although the limit was reached or the listener was stopping")
			}
		}
		if st.A == "Drain2" && !stateDiverged {
			// Drain has returned: established connections must still relay
			select {
			case <-r.drainDone:
			case <-time.After(to):
			}
			ok := true
			for _, h := range peers {
				if p := r.peer(h); p != nil && st.Obs.Hs[h] == "serve" && !st.Obs.Closed[h] {
					if !p.roundTrip("ping-"+h+"\n", "ping-"+h, 2*time.Second) {
						ok = false
						res.find("drain-closed-established", "established connection "+h+" stopped working after Drain")
					}
				}
			}
			res.DrainEchoOK = boolp(ok)
		}
	}
	res.Exact = res.DivergeAt < 0
	if res.Exact && len(beh.Steps) > 0 {
		o := beh.Steps[len(beh.Steps)-1].Obs
		res.Ghost = &StatsObs{Total: o.CxTotal, Destroy: o.CxDestroy, Active: o.CxActive, Restricted: o.CxRestricted}
	}
	r.sc.ReleaseAll()
	r.judge(&res, time.Duration(job.DeadlineMs)*time.Millisecond, baseline)
	return
}
