package c09

import (
	"bufio"
	"encoding/json"
	"flag"
	"fmt"
	"io"
	"os"
	"os/exec"
	"sort"
	"sync"
	"time"

	"verifharness/internal/cli"
)

func init() {
	cli.Register("c09-run", runParent)
	cli.Register("c09-worker", runWorker)
}

func execJob(job *Job) (res Result) {
	defer func() {
		if e := recover(); e != nil {
			res.ID, res.Kind, res.Name, res.Attempt = job.ID, job.Kind, job.Name, job.Attempt
			res.Err = fmt.Sprintf("panic in driver: %v", e)
			res.Poisoned = true
		}
	}()
	switch job.Kind {
	case "replay":
		return replayListener(job)
	case "proc":
		return runScenario(job)
	case "free":
		return runFree(job)
	case "burst":
		return runBurst(job)
	case "race":
		return runRace(job)
	}
	return Result{ID: job.ID, Kind: job.Kind, Err: "unknown job kind"}
}

// runWorker executes jobs read from stdin (one JSON object per line) and writes
// one result per job to stdout. After a job that left goroutines of the code
// under test behind (a Stop that never returned) the worker exits, so that
// later jobs start from a clean process.
func runWorker(args []string) error {
	in := bufio.NewReaderSize(os.Stdin, 1<<20)
	out := bufio.NewWriter(os.Stdout)
	for {
		line, err := in.ReadBytes('\n')
		if len(line) > 1 {
			var job Job
			if jerr := json.Unmarshal(line, &job); jerr != nil {
				return jerr
			}
			res := execJob(&job)
			b, _ := json.Marshal(res)
			out.Write(b)
			out.WriteByte('\n')
			out.Flush()
			if res.Poisoned {
				os.Exit(0)
			}
		}
		if err != nil {
			if err == io.EOF {
				return nil
			}
			return err
		}
	}
}

type workerProc struct {
	cmd *exec.Cmd
	in  io.WriteCloser
	out *bufio.Reader
}

func startWorker() (*workerProc, error) {
	cmd := exec.Command(os.Args[0], "c09-worker")
	cmd.Stderr = os.Stderr
	in, err := cmd.StdinPipe()
	if err != nil {
		return nil, err
	}
	outp, err := cmd.StdoutPipe()
	if err != nil {
		return nil, err
	}
	if err := cmd.Start(); err != nil {
		return nil, err
	}
	return &workerProc{cmd: cmd, in: in, out: bufio.NewReaderSize(outp, 1<<20)}, nil
}

func (w *workerProc) kill() {
	w.in.Close()
	w.cmd.Process.Kill()
	w.cmd.Wait()
}

// do runs one job in the worker; the watchdog only guards against a dead driver.
func (w *workerProc) do(job *Job, watchdog time.Duration) (Result, error) {
	b, _ := json.Marshal(job)
	if _, err := w.in.Write(append(b, '\n')); err != nil {
		return Result{}, err
	}
	type rd struct {
		line []byte
		err  error
	}
	ch := make(chan rd, 1)
	go func() {
		line, err := w.out.ReadBytes('\n')
		ch <- rd{line, err}
	}()
	select {
	case x := <-ch:
		if x.err != nil && len(x.line) < 2 {
			return Result{}, fmt.Errorf("worker died: %v", x.err)
		}
		var res Result
		if err := json.Unmarshal(x.line, &res); err != nil {
			return Result{}, err
		}
		return res, nil
	case <-time.After(watchdog):
		return Result{}, fmt.Errorf("worker did not answer within %s", watchdog)
	}
}

// runParent distributes the jobs over worker processes. A job in which Stop or
// Drain did not return within the (short) deadline is run once more with the
// long deadline before anything is concluded; at most rerunCap jobs per hang
// window are re-run, the others keep their first result (marked unconfirmed).
func runParent(args []string) error {
	fs := flag.NewFlagSet("c09-run", flag.ContinueOnError)
	inF := fs.String("in", "", "jobs (ndjson)")
	outF := fs.String("out", "", "results (ndjson)")
	nw := fs.Int("workers", 6, "worker processes")
	longMs := fs.Int("longMs", 10000, "deadline of the re-run")
	rerunCap := fs.Int("rerunCap", 3, "re-runs per hang window")
	if err := fs.Parse(args); err != nil {
		return err
	}
	var jobs []*Job
	err := cli.ReadNDJSON(*inF, func(line []byte) error {
		j := &Job{}
		if err := json.Unmarshal(line, j); err != nil {
			return err
		}
		if j.Attempt == 0 {
			j.Attempt = 1
		}
		jobs = append(jobs, j)
		return nil
	})
	if err != nil {
		return err
	}
	w, err := cli.NewNDJSONWriter(*outF)
	if err != nil {
		return err
	}
	defer w.Close()

	var mu sync.Mutex
	queue := append([]*Job{}, jobs...)
	pending := len(queue)
	// per hang window: how many hangs the long deadline confirmed, how many re-runs are under way, and the
	// hung jobs that were not re-run (yet) because the window already had its share of re-runs
	type winState struct {
		confirmed, inflight int
		deferred            []*Job
	}
	wins := map[string]*winState{}
	rerunOf := map[int]string{} // job id -> window its re-run is meant to confirm
	hadFirst := map[int]bool{}
	results := map[int]Result{}
	cond := sync.NewCond(&mu)
	next := func() *Job {
		mu.Lock()
		defer mu.Unlock()
		for len(queue) == 0 && pending > 0 {
			cond.Wait()
		}
		if len(queue) == 0 {
			return nil
		}
		j := queue[0]
		queue = queue[1:]
		return j
	}
	requeue := func(j *Job) {
		cp := *j
		cp.Attempt = 2
		cp.DeadlineMs = *longMs
		queue = append(queue, &cp)
	}
	finish := func(j *Job, res Result) {
		mu.Lock()
		defer mu.Unlock()
		defer cond.Broadcast()
		if j.Attempt == 1 && res.Hung && res.Err == "" && *rerunCap > 0 && j.DeadlineMs < *longMs {
			w := wins[res.HangWindow]
			if w == nil {
				w = &winState{}
				wins[res.HangWindow] = w
			}
			if w.confirmed+w.inflight < *rerunCap {
				w.inflight++
				rerunOf[j.ID] = res.HangWindow
				hadFirst[j.ID] = true
				requeue(j)
				return // still pending
			}
			w.deferred = append(w.deferred, j)
			results[j.ID] = res
			pending--
			return
		}
		if j.Attempt >= 2 {
			if hadFirst[j.ID] && !res.Hung && res.Err == "" {
				res.Flaky = true
			}
			if wn, ok := rerunOf[j.ID]; ok {
				w := wins[wn]
				w.inflight--
				if res.Hung && res.HangWindow == wn {
					w.confirmed++
				} else if len(w.deferred) > 0 && w.confirmed+w.inflight < *rerunCap {
					// the re-run did not confirm this window: give the next hung job of the window its re-run
					d := w.deferred[0]
					w.deferred = w.deferred[1:]
					w.inflight++
					rerunOf[d.ID] = wn
					hadFirst[d.ID] = true
					pending++
					requeue(d)
				}
			}
		}
		results[j.ID] = res
		pending--
	}
	var wg sync.WaitGroup
	for i := 0; i < *nw; i++ {
		wg.Add(1)
		go func() {
			defer wg.Done()
			var wp *workerProc
			defer func() {
				if wp != nil {
					wp.kill()
				}
			}()
			for {
				j := next()
				if j == nil {
					return
				}
				if wp == nil {
					var err error
					if wp, err = startWorker(); err != nil {
						finish(j, Result{ID: j.ID, Kind: j.Kind, Name: j.Name, Attempt: j.Attempt, Err: "start worker: " + err.Error()})
						continue
					}
				}
				wd := time.Duration(j.DeadlineMs)*time.Millisecond*3 + 60*time.Second
				if m := time.Duration(j.MaxMs) * time.Millisecond; m > wd {
					wd = m
				}
				res, err := wp.do(j, wd)
				if err != nil {
					wp.kill()
					wp = nil
					res = Result{ID: j.ID, Kind: j.Kind, Name: j.Name, Attempt: j.Attempt, DivergeAt: -1, Err: err.Error()}
				} else if res.Poisoned {
					wp.kill()
					wp = nil
				}
				finish(j, res)
			}
		}()
	}
	wg.Wait()
	ids := make([]int, 0, len(results))
	for id := range results {
		ids = append(ids, id)
	}
	sort.Ints(ids)
	for _, id := range ids {
		if err := w.Write(results[id]); err != nil {
			return err
		}
	}
	return nil
}
