package c09

import (
	"bytes"
	"fmt"
	"net"
	"strings"
	"sync"
	"sync/atomic"
	"time"

	"github.com/samaritan-proxy/samaritan/host"
	"github.com/samaritan-proxy/samaritan/pb/common"
	pbhc "github.com/samaritan-proxy/samaritan/pb/config/hc"
	"github.com/samaritan-proxy/samaritan/pb/config/protocol"
	"github.com/samaritan-proxy/samaritan/pb/config/service"
	"github.com/samaritan-proxy/samaritan/proc"

	"verifharness/internal/sut"
)

// Scenarios with a health monitor (windows of spec/proc/HcMonitor.tla). Only the TCP processor has one;
// the Redis processor ignores the health-check part of its configuration.
//
//	tcp/hc-<kind>/<backend>        kind: tcp | atcp (send/expect action) | redis (PING/PONG);
//	                               backend: responsive | silent-after-accept | closed
//	tcp/hc-reconfigured/<change>   OnSvcConfigUpdate with another interval / other thresholds / another
//	                               checker kind, once or twice, against a responsive or a silent backend
//
// Some probes run (and time out), then Stop. Oracle: Stop returns, the goroutines are back to the
// baseline taken before the processor was created (after a settle), and no connection reaches the
// backend any more during the second after Stop returned.
func isHcScenario(s *Scenario) bool { return strings.HasPrefix(s.When, "hc-") }

func hcScenarios() []Scenario {
	var out []Scenario
	for _, kind := range []string{"tcp", "atcp", "redis"} {
		for _, b := range []string{"responsive", "silent-after-accept", "closed"} {
			out = append(out, Scenario{Proto: "tcp", When: "hc-" + kind, Backend: b})
		}
	}
	for _, ch := range []string{"interval", "thresholds", "checker-kind", "twice", "twice-silent"} {
		out = append(out, Scenario{Proto: "tcp", When: "hc-reconfigured", Backend: ch})
	}
	return out
}

// hcBackend answers health probes (PING -> +PONG, anything else is echoed) or accepts and stays silent.
type hcBackend struct {
	ln      net.Listener
	addr    string
	silent  bool
	accepts int64
	mu      sync.Mutex
	conns   []net.Conn
}

func newHcBackend(mode string) (*hcBackend, error) {
	ln, err := net.Listen("tcp4", "127.0.0.1:0")
	if err != nil {
		return nil, err
	}
	b := &hcBackend{ln: ln, addr: ln.Addr().String(), silent: mode == "silent-after-accept"}
	if mode == "closed" {
		ln.Close()
		return b, nil
	}
	go func() {
		for {
			c, err := ln.Accept()
			if err != nil {
				return
			}
			atomic.AddInt64(&b.accepts, 1)
			b.mu.Lock()
			b.conns = append(b.conns, c)
			b.mu.Unlock()
			go func() {
				defer c.Close()
				buf := make([]byte, 4096)
				for {
					n, err := c.Read(buf)
					if err != nil {
						return
					}
					if b.silent {
						continue
					}
					if bytes.Contains(buf[:n], []byte("PING")) {
						c.Write([]byte("+PONG\r\n"))
					} else {
						c.Write(buf[:n])
					}
				}
			}()
		}
	}()
	return b, nil
}

func (b *hcBackend) close() {
	b.ln.Close()
	b.mu.Lock()
	for _, c := range b.conns {
		c.Close()
	}
	b.mu.Unlock()
}

func hcConfig(kind string, interval time.Duration, fall, rise uint32) *pbhc.HealthCheck {
	h := &pbhc.HealthCheck{Interval: interval, Timeout: 50 * time.Millisecond, FallThreshold: fall, RiseThreshold: rise}
	switch kind {
	case "atcp":
		h.Checker = &pbhc.HealthCheck_AtcpChecker{AtcpChecker: &pbhc.ATCPChecker{
			Action: []*pbhc.ATCPChecker_Action{{Send: []byte(`"ping\n"`), Expect: []byte(`"ping\n"`)}}}}
	case "redis":
		h.Checker = &pbhc.HealthCheck_RedisChecker{RedisChecker: &pbhc.RedisChecker{}}
	default:
		h.Checker = &pbhc.HealthCheck_TcpChecker{TcpChecker: &pbhc.TCPChecker{}}
	}
	return h
}

func tcpConfig(port int, h *pbhc.HealthCheck) *service.Config {
	cto := time.Second
	return &service.Config{
		Listener:        &service.Listener{Address: &common.Address{Ip: "127.0.0.1", Port: uint32(port)}},
		ConnectTimeout:  &cto,
		Protocol:        protocol.TCP,
		LbPolicy:        service.LoadBalancePolicy_ROUND_ROBIN,
		HealthCheck:     h,
		ProtocolOptions: &service.Config_TcpOption{TcpOption: &protocol.TCPOption{}},
	}
}

func runHcScenario(job *Job) (res Result) {
	t0 := time.Now()
	s := job.Scenario
	res = Result{ID: job.ID, Kind: job.Kind, Name: job.Name, Attempt: job.Attempt, DeadlineMs: job.DeadlineMs, DivergeAt: -1, Exact: true}
	defer func() { res.WallMs = ms(time.Since(t0)) }()
	deadline := time.Duration(job.DeadlineMs) * time.Millisecond
	reconf := s.When == "hc-reconfigured"
	kind := strings.TrimPrefix(s.When, "hc-")
	mode := s.Backend
	if reconf {
		// (the plain tcp checker only half-opens connections, the backend hardly ever sees them: the
		// reconfigured monitors start from a checker whose probes the backend can count)
		kind = "redis"
		mode = "responsive"
		if s.Backend == "twice-silent" {
			mode = "silent-after-accept"
		}
	}
	// the TCP checker keeps one process-wide event loop (tcp.initSharedCheckerIfNot) that every service
	// shares and that is never stopped by design: it belongs to the process, not to the service, and is
	// brought up before the baseline is taken
	warmSharedChecker()
	baseline := len(samaritanGoroutines())
	be, err := newHcBackend(mode)
	if err != nil {
		res.Err = "backend: " + err.Error()
		return
	}
	defer be.close()
	port := allocPort()
	defer releasePort(port)
	addr := fmt.Sprintf("127.0.0.1:%d", port)
	sock := watchSocket(addr)
	defer unwatchSocket(addr)
	name := sut.UniqueName("c09hc")
	p, err := proc.New(name, tcpConfig(port, hcConfig(kind, 25*time.Millisecond, 2, 2)), []*host.Host{host.New(be.addr)})
	if err != nil {
		res.Err = "proc.New: " + err.Error()
		return
	}
	if err := p.Start(); err != nil {
		res.Err = "Start: " + err.Error()
		return
	}
	if !sut.WaitListening(addr, 5*time.Second) {
		res.Err = "processor never listened"
		sut.StopWithin(p, 2*time.Second)
		return
	}
	// a relayed connection while the backend is usable
	var pr *peer
	if mode == "responsive" {
		if pr, err = dialPeer("p1", addr, nil); err == nil {
			defer func() { pr.close(); releasePort(pr.lport) }()
			pr.roundTrip("hello\n", "hello", 2*time.Second)
		}
	}
	time.Sleep(250 * time.Millisecond) // several probes (each times out after 50 ms with a silent backend)
	var changes []*pbhc.HealthCheck
	switch s.Backend {
	case "interval":
		changes = []*pbhc.HealthCheck{hcConfig(kind, 40*time.Millisecond, 2, 2)}
	case "thresholds":
		changes = []*pbhc.HealthCheck{hcConfig(kind, 25*time.Millisecond, 3, 3)}
	case "checker-kind":
		changes = []*pbhc.HealthCheck{hcConfig("atcp", 25*time.Millisecond, 2, 2)}
	case "twice":
		changes = []*pbhc.HealthCheck{hcConfig(kind, 40*time.Millisecond, 2, 2), hcConfig("atcp", 30*time.Millisecond, 3, 2)}
	case "twice-silent":
		changes = []*pbhc.HealthCheck{hcConfig(kind, 40*time.Millisecond, 2, 2), hcConfig("atcp", 30*time.Millisecond, 3, 2)}
	}
	if reconf {
		for i, h := range changes {
			if err := p.OnSvcConfigUpdate(tcpConfig(port, h)); err != nil {
				res.Err = fmt.Sprintf("OnSvcConfigUpdate %d: %v", i+1, err)
				sut.StopWithin(p, 2*time.Second)
				return
			}
			time.Sleep(120 * time.Millisecond)
		}
	}
	probesBefore := atomic.LoadInt64(&be.accepts)
	res.Actions = []string{fmt.Sprintf("hc kind=%s backend=%s changes=%d", kind, mode, len(changes))}

	// ---- Stop
	res.StopCalled = true
	t1 := time.Now()
	stopDone := make(chan struct{})
	go func() { p.Stop(); close(stopDone) }()
	select {
	case <-stopDone:
		res.StopReturned = true
		res.StopMs = ms(time.Since(t1))
	case <-time.After(deadline):
		res.Hung = true
		res.Stuck = describeAll(samaritanGoroutines())
		res.HangWindow = "hc/" + s.When
		res.find("stop-hangs/hc", fmt.Sprintf("%s: Stop did not return within %s; stuck: %v", job.Name, deadline, compress(res.Stuck)))
		res.Poisoned = true
		return
	}
	atStop := atomic.LoadInt64(&be.accepts)
	refused := portRefused(addr, 0)
	res.PortRefused = boolp(refused)
	if !refused || sock.isOpen() {
		res.find("after-stop/port-open", job.Name+": the listening port still accepts connections after Stop returned")
	}
	if pr != nil && !pr.waitClosed(2*time.Second) {
		res.PeersOpen = []string{pr.name}
		res.find("after-stop/peer-not-closed", job.Name+": the relayed connection is still open after Stop returned")
	}
	// nothing of the service reaches the backend any more
	time.Sleep(time.Second)
	after := atomic.LoadInt64(&be.accepts)
	res.Served = []string{fmt.Sprintf("probes before Stop=%d, connections during the second after Stop=%d", probesBefore, after-atStop)}
	if after > atStop {
		res.UpstreamOpen = int(after - atStop)
		cls := "hc-probes-after-stop"
		if reconf {
			cls = "hc-monitor-after-reconfig"
		}
		res.find("after-stop/upstream-open/"+cls, fmt.Sprintf("%s: %d connection(s) were opened to the backend during the second after Stop returned",
			job.Name, after-atStop))
	}
	if left := waitGoroutinesGone(baseline, 2*time.Second); len(left) > 0 {
		res.Leaked = compress(describeAll(left))
		res.Poisoned = true
		all := strings.Join(res.Leaked, "\n")
		cls := "hc-other"
		switch {
		case strings.Contains(all, "hc.(*Monitor)"): // a monitor that is still running (its probes and helpers come with it)
			cls = "hc-monitor"
		case strings.Contains(all, "hc/atcp.doWithDeadline"):
			cls = "hc-probe-helper"
		}
		res.find("after-stop/goroutines-left/"+cls, fmt.Sprintf("%s: goroutines of the processor remain after Stop returned: %v", job.Name, res.Leaked))
	}
	res.Quiescent = len(res.Leaked) == 0
	if probesBefore == 0 && mode != "closed" {
		res.Err = "no health probe reached the backend before Stop (the scenario decided nothing)"
	}
	return
}

var sharedCheckerOnce sync.Once

// warmSharedChecker makes the process-wide TCP checker start its event loop: a TCP service with a
// plain tcp health check is started and stopped once.
func warmSharedChecker() {
	sharedCheckerOnce.Do(func() {
		be, err := newHcBackend("responsive")
		if err != nil {
			return
		}
		defer be.close()
		port := allocPort()
		defer releasePort(port)
		p, err := proc.New(sut.UniqueName("c09hcwarm"), tcpConfig(port, hcConfig("tcp", 10*time.Millisecond, 1, 1)), []*host.Host{host.New(be.addr)})
		if err != nil || p.Start() != nil {
			return
		}
		time.Sleep(60 * time.Millisecond)
		sut.StopWithin(p, 2*time.Second)
		waitUntil(500*time.Millisecond, func() bool {
			for _, g := range samaritanGoroutines() {
				if !strings.Contains(g.describe(), "initSharedCheckerIfNot") {
					return false
				}
			}
			return true
		})
	})
}
