package c09

import (
	"encoding/json"
	"flag"
	"fmt"
	"net"
	"strings"
	"sync"
	"time"

	"github.com/samaritan-proxy/samaritan/host"
	"github.com/samaritan-proxy/samaritan/pb/common"
	"github.com/samaritan-proxy/samaritan/pb/config/protocol"
	"github.com/samaritan-proxy/samaritan/pb/config/service"
	"github.com/samaritan-proxy/samaritan/proc"

	"verifharness/internal/cli"
	"verifharness/internal/sched"
	"verifharness/internal/simredis"
	"verifharness/internal/sut"
)

func init() { cli.Register("c09-scenarios", printScenarios) }

// Scenario places Stop (or StopListen, then Stop) at one point in the life of a
// whole processor started through the public API.
type Scenario struct {
	Proto   string `json:"proto"`   // redis | tcp
	Backend string `json:"backend"` // responsive | silent | closed
	When    string `json:"when"`    // immediately | port-busy | port-busy-immediately | idle-conns | request-waiting | pipeline-waiting | refresh-waiting | drain-then-stop
	Conns   int    `json:"conns"`
	DelayUs int    `json:"delayUs"` // pause between Start and Stop for "immediately"
}

func (s Scenario) name() string {
	n := fmt.Sprintf("%s/%s/%s", s.Proto, s.When, s.Backend)
	if s.DelayUs > 0 {
		n += fmt.Sprintf("/+%dus", s.DelayUs)
	}
	return n
}

// allScenarios enumerates protocol x placement of Stop x backend behaviour.
func allScenarios(thorough bool) []Scenario {
	var out []Scenario
	backends := []string{"responsive", "silent", "closed"}
	delays := []int{0, 50, 300}
	if thorough {
		delays = []int{0, 20, 50, 100, 200, 300, 500, 1000, 2000}
	}
	for _, proto := range []string{"redis", "tcp"} {
		for _, d := range delays {
			out = append(out, Scenario{Proto: proto, Backend: "responsive", When: "immediately", DelayUs: d})
		}
		for _, b := range backends[1:] {
			out = append(out, Scenario{Proto: proto, Backend: b, When: "immediately"})
		}
		out = append(out, Scenario{Proto: proto, Backend: "responsive", When: "port-busy"})
		out = append(out, Scenario{Proto: proto, Backend: "responsive", When: "port-busy-immediately"})
		for _, b := range backends {
			out = append(out, Scenario{Proto: proto, Backend: b, When: "idle-conns", Conns: 2})
		}
		out = append(out, Scenario{Proto: proto, Backend: "responsive", When: "drain-then-stop", Conns: 2})
	}
	for _, b := range backends {
		out = append(out, Scenario{Proto: "redis", Backend: b, When: "request-waiting", Conns: 1})
		// more outstanding requests than the session's reply queue holds (32): the session's
		// reader is blocked handing a request to its writer, not reading the connection
		out = append(out, Scenario{Proto: "redis", Backend: b, When: "pipeline-waiting", Conns: 1})
		out = append(out, Scenario{Proto: "redis", Backend: b, When: "refresh-waiting"})
	}
	// the stop-all of the upstream against a redirection / a connect in flight (redirect.go)
	out = append(out, Scenario{Proto: "redis", Backend: "fresh-target", When: "redirect-in-flight-at-stop"})
	out = append(out, Scenario{Proto: "redis", Backend: "full-target-queue", When: "redirect-in-flight-at-stop"})
	out = append(out, Scenario{Proto: "redis", Backend: "slow-accept", When: "connect-pending-at-stop"})
	out = append(out, Scenario{Proto: "redis", Backend: "silent", When: "backend-queue-full-at-stop"})
	out = append(out, Scenario{Proto: "redis", Backend: "full-target-queue", When: "refresh-blocked-at-stop"})
	// the health monitor of the TCP processor (hc.go)
	out = append(out, hcScenarios()...)
	return out
}

func printScenarios(args []string) error {
	fs := flag.NewFlagSet("c09-scenarios", flag.ContinueOnError)
	outF := fs.String("out", "", "jobs (ndjson)")
	first := fs.Int("firstID", 100000, "id of the first job")
	dl := fs.Int("deadlineMs", 2000, "deadline for Stop")
	if err := fs.Parse(args); err != nil {
		return err
	}
	w, err := cli.NewNDJSONWriter(*outF)
	if err != nil {
		return err
	}
	defer w.Close()
	for i, s := range allScenarios(cli.Thorough()) {
		sc := s
		d := *dl
		if isUpstreamScenario(&sc) {
			// judged with the generous deadline at once: the windows are entered with a probability
			// (map order) or by a real 1 s SYN retransmission, a re-run would not re-enter them for sure
			d = 10000
		}
		if err := w.Write(Job{ID: *first + i, Kind: "proc", Name: s.name(), DeadlineMs: d, Attempt: 1, Scenario: &sc}); err != nil {
			return err
		}
	}
	return nil
}

// ---------------------------------------------------------------- TCP backend

type tcpBackend struct {
	ln     net.Listener
	addr   string
	silent bool
	mu     sync.Mutex
	open   int // connections on which the backend has not yet seen EOF / an error
	total  int
	conns  []net.Conn
}

func newTCPBackend(silent bool) (*tcpBackend, error) {
	ln, err := net.Listen("tcp4", "127.0.0.1:0")
	if err != nil {
		return nil, err
	}
	b := &tcpBackend{ln: ln, addr: ln.Addr().String(), silent: silent}
	go func() {
		for {
			c, err := ln.Accept()
			if err != nil {
				return
			}
			b.mu.Lock()
			b.open++
			b.total++
			b.conns = append(b.conns, c)
			b.mu.Unlock()
			go func() {
				buf := make([]byte, 4096)
				for {
					n, err := c.Read(buf)
					if err != nil {
						break
					}
					if !b.silent {
						c.Write(buf[:n])
					}
				}
				b.mu.Lock()
				b.open--
				b.mu.Unlock()
				if !b.silent {
					c.Close() // a silent backend never answers, not even with a FIN
				}
			}()
		}
	}()
	return b, nil
}

func (b *tcpBackend) openConns() int {
	b.mu.Lock()
	defer b.mu.Unlock()
	return b.open
}

func (b *tcpBackend) close() {
	b.ln.Close()
	b.mu.Lock()
	for _, c := range b.conns {
		c.Close()
	}
	b.mu.Unlock()
}

// ---------------------------------------------------------------- scenario driver

type procTrail struct {
	mu    sync.Mutex
	addr  string
	n     int64
	trail []trailEv
	lobj  interface{}
}

func (t *procTrail) key(point string, a, b interface{}) string {
	if !strings.HasPrefix(point, "listener.") {
		return ""
	}
	addr, ok := proc.VerifIsListener(a)
	if !ok || addr != t.addr {
		return ""
	}
	role := ""
	switch {
	case strings.HasPrefix(point, "listener.Serve"):
		role = "serve"
	case strings.HasPrefix(point, "listener.Stop"):
		role = "stop"
	case strings.HasPrefix(point, "listener.Drain"):
		role = "drain"
	default:
		role = "h"
	}
	t.mu.Lock()
	t.lobj = a
	t.n++
	t.trail = append(t.trail, trailEv{N: t.n, Role: role, Point: point})
	t.mu.Unlock()
	return ""
}

func runScenario(job *Job) (res Result) {
	t0 := time.Now()
	s := job.Scenario
	if isUpstreamScenario(s) {
		return runUpstreamScenario(job)
	}
	if isHcScenario(s) {
		return runHcScenario(job)
	}
	res = Result{ID: job.ID, Kind: job.Kind, Name: job.Name, Attempt: job.Attempt, DeadlineMs: job.DeadlineMs, DivergeAt: -1, Exact: true}
	defer func() { res.WallMs = ms(time.Since(t0)) }()
	deadline := time.Duration(job.DeadlineMs) * time.Millisecond

	// backends
	var cl *simredis.Cluster
	var tb *tcpBackend
	var seeds []string
	var err error
	if s.Proto == "redis" {
		if cl, err = simredis.NewCluster(2, 0); err != nil {
			res.Err = "cluster: " + err.Error()
			return
		}
		defer cl.Close()
		seeds = cl.Addrs()
	} else {
		if tb, err = newTCPBackend(s.Backend == "silent"); err != nil {
			res.Err = "backend: " + err.Error()
			return
		}
		defer tb.close()
		seeds = []string{tb.addr}
	}
	setSilent := func() {
		if cl != nil {
			for _, n := range cl.Nodes {
				n.SetSilent(true)
			}
		}
	}
	setClosed := func() {
		if cl != nil {
			for _, n := range cl.Nodes {
				n.Shutdown()
			}
		} else {
			tb.close()
		}
	}
	early := s.When == "immediately" || s.When == "port-busy" || s.When == "port-busy-immediately" || s.When == "refresh-waiting"
	if early || s.Proto == "tcp" {
		switch s.Backend {
		case "silent":
			setSilent()
		case "closed":
			setClosed()
		}
	}

	baseline := len(samaritanGoroutines())
	port := allocPort()
	addr := fmt.Sprintf("127.0.0.1:%d", port)
	name := sut.UniqueName("c09" + s.Proto)
	var blocker net.Listener
	if strings.HasPrefix(s.When, "port-busy") {
		if blocker, err = net.Listen("tcp4", addr); err != nil {
			res.Err = "blocker: " + err.Error()
			return
		}
		defer func() {
			if blocker != nil {
				blocker.Close()
			}
		}()
	}
	sock := watchSocket(addr)
	defer unwatchSocket(addr)
	tr := &procTrail{addr: addr}
	sc := sched.New(tr.key)
	sc.Install()
	defer sc.Uninstall()

	var cfg *service.Config
	if s.Proto == "redis" {
		cfg = sut.RedisConfig(sut.RedisOpts{Port: port})
	} else {
		cto := time.Second
		cfg = &service.Config{
			Listener:        &service.Listener{Address: &common.Address{Ip: "127.0.0.1", Port: uint32(port)}},
			ConnectTimeout:  &cto,
			Protocol:        protocol.TCP,
			LbPolicy:        service.LoadBalancePolicy_ROUND_ROBIN,
			ProtocolOptions: &service.Config_TcpOption{TcpOption: &protocol.TCPOption{}},
		}
	}
	hosts := make([]*host.Host, 0, len(seeds))
	for _, a := range seeds {
		hosts = append(hosts, host.New(a))
	}
	p, err := proc.New(name, cfg, hosts)
	if err != nil {
		res.Err = "proc.New: " + err.Error()
		return
	}
	if err := p.Start(); err != nil {
		res.Err = "Start: " + err.Error()
		return
	}

	var peers []*peer
	defer func() {
		for _, c := range peers {
			c.close()
			releasePort(c.lport)
		}
		releasePort(port)
	}()
	connect := func(n int) bool {
		for i := 0; i < n; i++ {
			c, err := dialPeer(fmt.Sprintf("p%d", i+1), addr, nil)
			if err != nil {
				res.Err = "dial: " + err.Error()
				return false
			}
			peers = append(peers, c)
		}
		return true
	}
	request := func(c *peer, key string, wantReply bool) bool {
		var msg string
		if s.Proto == "redis" {
			msg = fmt.Sprintf("*2\r\n$3\r\nget\r\n$%d\r\n%s\r\n", len(key), key)
		} else {
			msg = "ping-" + key + "\n"
		}
		if !wantReply {
			c.c.Write([]byte(msg))
			return true
		}
		want := "ping-" + key
		if s.Proto == "redis" {
			want = "\r\n"
		}
		return c.roundTrip(msg, want, 3*time.Second)
	}
	ready := func() bool {
		if !sut.WaitListening(addr, 5*time.Second) {
			res.Err = "processor never listened"
			return false
		}
		if s.Proto == "redis" && !sut.WaitRefresh(name, 5*time.Second) {
			res.Err = "slot table never loaded"
			return false
		}
		return true
	}

	switch s.When {
	case "immediately", "port-busy-immediately":
		if s.DelayUs > 0 {
			time.Sleep(time.Duration(s.DelayUs) * time.Microsecond)
		}
	case "port-busy":
		// Serve is in its retry loop
		if !waitUntil(3*time.Second, func() bool { _, fails, _ := sock.counts(); return fails >= 1 }) {
			res.Err = "bind was never attempted"
			return
		}
		time.Sleep(5 * time.Millisecond)
	case "idle-conns", "drain-then-stop":
		if !ready() || !connect(s.Conns) {
			p.Stop()
			return
		}
		if s.Proto == "redis" {
			// traffic first (creates the backend connections), then the backend changes
			for i, c := range peers {
				if !request(c, fmt.Sprintf("k%d", i), true) {
					res.Err = "warm-up request not answered"
					sut.StopWithin(p, time.Second)
					return
				}
			}
			switch s.Backend {
			case "silent":
				setSilent()
			case "closed":
				setClosed()
			}
		} else if s.Backend == "responsive" {
			for i, c := range peers {
				if !request(c, fmt.Sprintf("k%d", i), true) {
					res.Err = "relay does not echo"
					sut.StopWithin(p, time.Second)
					return
				}
			}
		} else {
			for i, c := range peers {
				request(c, fmt.Sprintf("k%d", i), false)
			}
			time.Sleep(20 * time.Millisecond)
		}
	case "request-waiting", "pipeline-waiting":
		if !ready() || !connect(1) {
			p.Stop()
			return
		}
		if !request(peers[0], "warm", true) {
			res.Err = "warm-up request not answered"
			sut.StopWithin(p, time.Second)
			return
		}
		switch s.Backend {
		case "silent":
			setSilent()
		case "closed":
			setClosed()
		}
		before := 0
		for _, n := range cl.Nodes {
			before += len(n.Records())
		}
		request(peers[0], "waiting", false)
		if s.When == "pipeline-waiting" {
			for i := 0; i < 47; i++ {
				request(peers[0], fmt.Sprintf("waiting%d", i), false)
			}
		}
		if s.Backend == "silent" {
			// the request must have reached the backend and be waiting for its reply
			if !waitUntil(3*time.Second, func() bool {
				now := 0
				for _, n := range cl.Nodes {
					now += len(n.Records())
				}
				return now > before
			}) {
				res.Err = "request never reached the backend"
				sut.StopWithin(p, time.Second)
				return
			}
		} else {
			time.Sleep(20 * time.Millisecond)
		}
	case "refresh-waiting":
		// not about the listener's start-up: let it get into its accept loop first
		if !sut.WaitListening(addr, 5*time.Second) {
			res.Err = "processor never listened"
			return
		}
		if s.Backend == "silent" {
			if !waitUntil(3*time.Second, func() bool {
				for _, n := range cl.Nodes {
					for _, r := range n.Records() {
						if r.Cmd() == "cluster" {
							return true
						}
					}
				}
				return false
			}) {
				res.Err = "refresh request never reached the backend"
				sut.StopWithin(p, time.Second)
				return
			}
		} else {
			time.Sleep(30 * time.Millisecond)
		}
	}

	if s.When == "drain-then-stop" {
		res.DrainCalled = true
		dch := make(chan struct{})
		go func() { p.StopListen(); close(dch) }()
		select {
		case <-dch:
			res.DrainReturned = true
		case <-time.After(deadline):
			res.Hung = true
			res.HangWindow = "drain"
			res.find("drain-hangs", "StopListen did not return within the deadline")
		}
		if res.DrainReturned {
			ok := true
			for i, c := range peers {
				if !request(c, fmt.Sprintf("d%d", i), true) {
					ok = false
				}
			}
			res.DrainEchoOK = boolp(ok)
			if !ok {
				res.find("drain-closed-established", "an established connection stopped working after StopListen")
			}
			if !portRefused(addr, 2*time.Second) {
				res.AcceptedAfterDrain = []string{"probe"}
				res.find("drain-ineffective/processor", "the port still accepts connections 2 s after StopListen returned")
			}
		}
	}

	// ---- Stop
	res.StopCalled = true
	t1 := time.Now()
	stopDone := make(chan struct{})
	go func() { p.Stop(); close(stopDone) }()
	select {
	case <-stopDone:
		res.StopReturned = true
		res.StopMs = ms(time.Since(t1))
	case <-time.After(deadline):
		res.Hung = true
	}
	tr.mu.Lock()
	trail := append([]trailEv{}, tr.trail...)
	lobj := tr.lobj
	tr.mu.Unlock()
	if !res.StopReturned {
		gs := samaritanGoroutines()
		res.Stuck = describeAll(gs)
		all := strings.Join(res.Stuck, "\n")
		// where is the goroutine that called Stop, and who keeps it there?
		stopAt := ""
		for _, g := range res.Stuck {
			if strings.Contains(g, "Proc).Stop") {
				stopAt = g
			}
		}
		done := false
		if lobj != nil {
			st, _ := proc.VerifListenerStateOf(lobj)
			done = st.Done
		}
		serveWaitsForHandlers := strings.Contains(all, "semacquire: proc.(*listener).Serve")
		cls := ""
		switch {
		case strings.Contains(stopAt, "redis.(*upstream).Stop") && strings.Contains(all, "redis.(*upstream).doSlotsRefresh"):
			cls = "redis-refresh-silent-backend"
		case strings.Contains(stopAt, "proc.(*listener).Stop") && serveWaitsForHandlers &&
			strings.Contains(all, "redis.(*rawRequest).Wait < proc/redis.(*session).loopWrite"):
			cls = "redis-silent-backend"
		case strings.Contains(stopAt, "proc.(*listener).Stop") && serveWaitsForHandlers &&
			strings.Contains(all, "select: proc/redis.(*session).loopRead") && strings.Contains(all, "proc/redis.(*session).loopWrite"):
			// the session's reader is blocked handing a request to its writer (reply queue full), the
			// writer waits for the head request: neither reads the connection the listener closed
			// (W_StopWithFullSessionQueue of spec/proc/RedisStop.tla)
			cls = "redis-session-queue-full"
		case strings.Contains(stopAt, "proc.(*listener).Stop") && serveWaitsForHandlers && strings.Contains(all, "tcp.(*tcpProc).pipeConn"):
			cls = "tcp-silent-backend"
		case !strings.Contains(stopAt, "proc.(*listener).Stop"):
			cls = "other"
		default:
			cls, res.ServeTrail = classifyTrail(trail, done, sock.isOpen())
		}
		res.HangWindow = cls
		res.find("stop-hangs/"+cls, fmt.Sprintf("%s: Stop did not return within %s; stuck: %v", s.name(), deadline, res.Stuck))
		res.Poisoned = true
		return
	}
	if blocker != nil {
		blocker.Close()
		blocker = nil
	}
	refused := portRefused(addr, 0)
	res.PortRefused = boolp(refused)
	if !refused || sock.isOpen() {
		res.find("after-stop/port-open", s.name()+": the listening port still accepts connections after Stop returned")
	}
	for _, c := range peers {
		if !c.waitClosed(2 * time.Second) {
			res.PeersOpen = append(res.PeersOpen, c.name)
		}
	}
	if len(res.PeersOpen) > 0 {
		res.find("after-stop/peer-not-closed", fmt.Sprintf("%s: downstream connections %v still open after Stop returned", s.name(), res.PeersOpen))
	}
	upOpen := func() int {
		if cl != nil {
			n := 0
			for _, nd := range cl.Nodes {
				n += nd.ConnCount()
			}
			return n
		}
		return tb.openConns()
	}
	if !waitUntil(2*time.Second, func() bool { return upOpen() == 0 }) {
		res.UpstreamOpen = upOpen()
		res.find("after-stop/upstream-open", fmt.Sprintf("%s: %d upstream connection(s) still open after Stop returned", s.name(), res.UpstreamOpen))
	}
	if left := waitGoroutinesGone(baseline, 2*time.Second); len(left) > 0 {
		res.Leaked = describeAll(left)
		res.Poisoned = true
		res.find("after-stop/goroutines-left", fmt.Sprintf("%s: goroutines of the processor remain after Stop returned: %v", s.name(), res.Leaked))
	}
	// listener part of C20 at processor level
	st := sut.ServiceStats(name)
	res.Stats = &StatsObs{Total: st["downstream.cx_total"], Destroy: st["downstream.cx_destroy_total"],
		Active: st["downstream.cx_active"], Restricted: st["downstream.cx_restricted"]}
	res.Quiescent = len(res.Leaked) == 0
	for _, c := range peers {
		if c.closedByProxy() {
			res.OpenAtStop++
		}
	}
	if res.Quiescent {
		ok := res.Stats.Active == 0 && res.Stats.Total == res.Stats.Destroy
		res.Conserved = boolp(ok)
		if !ok {
			// connections that were still registered when Stop took the registry are never
			// counted as destroyed: total - destroyed = active > 0
			cls := "other"
			if res.StopReturned && res.Stats.Active > 0 && res.Stats.Total-res.Stats.Destroy == res.Stats.Active {
				cls = "stop-with-open-conns"
			}
			res.find("stats/"+cls, fmt.Sprintf("%s: quiescent after Stop (%d connection(s) closed by it): cx_total=%d cx_destroy_total=%d cx_active=%d",
				s.name(), res.OpenAtStop, res.Stats.Total, res.Stats.Destroy, res.Stats.Active))
		}
	}
	_ = json.Marshal
	return
}
