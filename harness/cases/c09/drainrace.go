package c09

import (
	"flag"
	"fmt"
	"math/rand"
	"net"
	"runtime"
	"sync/atomic"
	"time"

	"github.com/samaritan-proxy/samaritan/pb/common"
	"github.com/samaritan-proxy/samaritan/pb/config/service"
	"github.com/samaritan-proxy/samaritan/proc"
	"github.com/samaritan-proxy/samaritan/stats"
	"github.com/samaritan-proxy/samaritan/utils/verifhook"

	"verifharness/internal/cli"
	"verifharness/internal/sut"
)

func init() { cli.Register("c09-racejobs", printRaceJobs) }

// RaceSpec: Drain raced against Serve's bind -> publish -> re-check (window
// W_DrainDuringBind of spec/proc/Listener.tla), many rounds on fresh listeners.
// The verdict never depends on where a hook point sits inside Drain: Drain
// always runs to completion on its own, only its START is placed.
//
//	hold   - Serve is held between its bind and the publication of the socket
//	         until Drain has returned, then let go
//	coarse - the bind function of the code under test sleeps a random time
//	         after binding, Drain is called at a random offset around it
//	fine   - Serve (at listener.Serve.publish) and Drain (at its entry) spin
//	         on one flag and are released together on two cores, with random
//	         sub-microsecond offsets: Serve's publication and re-check overlap
//	         the first instructions of Drain
//
// Oracle (DrainClosesSocket / DrainStopsAccepting): once Drain has returned and
// the bind is over, the port refuses connections and Serve, which has no
// connection to wait for, ends.
type RaceSpec struct {
	Seed   int64 `json:"seed"`
	Rounds int   `json:"rounds"`
}

const (
	raceHold = iota
	raceCoarse
	raceFine
)

type raceRound struct {
	l             interface{}
	mode          int
	arrivedS      int32
	arrivedD      int32
	goFlag        int32
	drainReturned int32
	delayS        int
	delayD        int
	bindSleep     time.Duration
	contend       int // goroutines calling Address() during the race
}

var spinSink int64

func spinFor(n int) {
	for i := 0; i < n; i++ {
		atomic.LoadInt64(&spinSink)
	}
}

// spinUntil busy-waits (the goroutine keeps its core) until *f is set; it gives up after 2 s.
func spinUntil(f *int32) {
	t0 := time.Now()
	for i := 0; atomic.LoadInt32(f) == 0; i++ {
		if i&0xffff == 0xffff && time.Since(t0) > 2*time.Second {
			return
		}
	}
}

// yieldUntil polls *f, yielding the processor (no sleep: the parked goroutines spin on their cores).
func yieldUntil(d time.Duration, f *int32) bool {
	t0 := time.Now()
	for i := 0; atomic.LoadInt32(f) == 0; i++ {
		if i&0xfff == 0xfff && time.Since(t0) > d {
			return false
		}
		runtime.Gosched()
	}
	return true
}

type raceRig struct{ cur atomic.Value }

func (rr *raceRig) hook(point string, a, b interface{}) {
	cur, _ := rr.cur.Load().(*raceRound)
	if cur == nil || a != cur.l {
		return
	}
	switch point {
	case "listener.Serve.publish":
		switch cur.mode {
		case raceHold:
			atomic.StoreInt32(&cur.arrivedS, 1)
			t0 := time.Now()
			for atomic.LoadInt32(&cur.drainReturned) == 0 && time.Since(t0) < 2*time.Second {
				runtime.Gosched()
			}
		case raceFine:
			atomic.StoreInt32(&cur.arrivedS, 1)
			spinUntil(&cur.goFlag) // keeps its core: the release must reach both sides within nanoseconds
			spinFor(cur.delayS)
		}
	case "listener.Drain":
		if cur.mode == raceFine {
			atomic.StoreInt32(&cur.arrivedD, 1)
			spinUntil(&cur.goFlag)
			spinFor(cur.delayD)
		}
	}
}

func runRace(job *Job) (res Result) {
	t0 := time.Now()
	f := job.Race
	res = Result{ID: job.ID, Kind: job.Kind, Name: job.Name, Attempt: job.Attempt, DeadlineMs: job.DeadlineMs, DivergeAt: -1, Exact: true}
	defer func() { res.WallMs = ms(time.Since(t0)) }()
	baseline := len(samaritanGoroutines())
	port := allocPort()
	defer releasePort(port)
	addr := fmt.Sprintf("127.0.0.1:%d", port)
	name := sut.UniqueName("c09race")
	ds := proc.NewDownstreamStats(stats.CreateScope("service." + name + "."))
	cfg := &service.Listener{Address: &common.Address{Ip: "127.0.0.1", Port: uint32(port)}}
	rig := &raceRig{}
	sock := watchSocket(addr)
	defer unwatchSocket(addr)
	sock.afterBind = func() {
		if cur, _ := rig.cur.Load().(*raceRound); cur != nil && cur.bindSleep > 0 {
			time.Sleep(cur.bindSleep)
		}
	}
	verifhook.Set(rig.hook)
	defer verifhook.Set(nil)
	rnd := rand.New(rand.NewSource(f.Seed))
	deadline := time.Duration(job.DeadlineMs) * time.Millisecond
	counts := [3]int{}
	rounds := 0
	for ; rounds < f.Rounds && len(res.Findings) == 0 && res.Err == ""; rounds++ {
		l, err := proc.VerifNewListener(cfg, ds, "["+name+"]", func(c net.Conn) {})
		if err != nil {
			res.Err = "listener: " + err.Error()
			break
		}
		cur := &raceRound{l: l}
		switch x := rnd.Intn(20); {
		case x == 0:
			cur.mode = raceHold
		case x < 4:
			cur.mode = raceCoarse
			cur.bindSleep = time.Duration(rnd.Intn(300)) * time.Microsecond
		default:
			cur.mode = raceFine
			cur.delayS = rnd.Intn(600)
			cur.delayD = rnd.Intn(600)
			cur.contend = rnd.Intn(4)
		}
		counts[cur.mode]++
		rig.cur.Store(cur)
		served := make(chan struct{})
		drained := make(chan struct{})
		go func() { l.Serve(); close(served) }()
		switch cur.mode {
		case raceHold:
			if !yieldUntil(2*time.Second, &cur.arrivedS) {
				res.Err = "Serve never reached the publication of its socket"
			}
			l.Drain()
			close(drained)
			atomic.StoreInt32(&cur.drainReturned, 1)
		case raceCoarse:
			time.Sleep(time.Duration(rnd.Intn(400)) * time.Microsecond)
			l.Drain()
			close(drained)
		case raceFine:
			if !yieldUntil(2*time.Second, &cur.arrivedS) {
				res.Err = "Serve never reached the publication of its socket"
			}
			go func() { l.Drain(); close(drained) }()
			yieldUntil(2*time.Second, &cur.arrivedD)
			// other users of the listener (Address() is called by the admin API and the loggers) keep its
			// lock busy: unlocking a contended mutex takes its slow path, in Drain as anywhere else
			var stopAddr int32
			if cur.contend > 0 {
				for k := 0; k < cur.contend; k++ {
					go func() {
						for atomic.LoadInt32(&stopAddr) == 0 {
							l.Address()
						}
					}()
				}
				spinFor(2000)
			}
			atomic.StoreInt32(&cur.goFlag, 1)
			<-drained
			atomic.StoreInt32(&stopAddr, 1)
		}
		select {
		case <-drained:
		case <-time.After(deadline):
			res.find("drain-hangs", "Drain did not return within the deadline")
		}
		// Drain has returned and the bind is over (or never happens): Serve must end
		ended := false
		select {
		case <-served:
			ended = true
		case <-time.After(time.Second):
		}
		if !ended {
			// suspicious: give it the long deadline before anything is concluded
			accepts := !portRefused(addr, 0)
			select {
			case <-served:
				ended = true
			case <-time.After(10 * time.Second):
			}
			if !ended {
				res.DrainCalled, res.DrainReturned = true, true
				res.AcceptedAfterDrain = []string{fmt.Sprintf("probe accepted=%v", accepts)}
				res.find("drain-ineffective/W_DrainDuringBind", fmt.Sprintf(
					"Drain called while Serve was binding returned, yet 11 s later Serve is still in its accept loop without any connection "+
						"and the port accepts connections=%v (round %d, mode %s, offsets %d/%d spins, %d Address() callers, bind sleep %s)",
					accepts, rounds, []string{"hold", "coarse", "fine"}[cur.mode], cur.delayS, cur.delayD, cur.contend, cur.bindSleep))
				stopDone := make(chan struct{})
				go func() { l.Stop(); close(stopDone) }()
				select {
				case <-stopDone:
				case <-time.After(2 * time.Second):
					res.Poisoned = true
				}
			}
		}
	}
	res.Steps = rounds
	res.Actions = []string{fmt.Sprintf("drain-vs-bind seed=%d", f.Seed)}
	res.Served = []string{fmt.Sprintf("rounds=%d hold=%d coarse=%d fine=%d", rounds, counts[raceHold], counts[raceCoarse], counts[raceFine])}
	res.StopReturned = true
	if left := waitGoroutinesGone(baseline, 2*time.Second); len(left) > 0 {
		res.Leaked = describeAll(left)
		res.Poisoned = true
		if len(res.Findings) == 0 {
			res.find("after-stop/goroutines-left", fmt.Sprintf("goroutines of drained listeners remain: %v", res.Leaked))
		}
	}
	return
}

func raceJobs(thorough bool, seed int64, firstID int) []Job {
	rounds, n := 700, 4
	if thorough {
		rounds, n = 4000, 4
	}
	var out []Job
	for k := 0; k < n; k++ {
		f := &RaceSpec{Seed: seed*104729 + int64(k), Rounds: rounds}
		out = append(out, Job{ID: firstID + k, Kind: "race", Name: fmt.Sprintf("drain-vs-bind/%d", k), DeadlineMs: 5000, MaxMs: 900000, Attempt: 1, Race: f})
	}
	return out
}

func printRaceJobs(args []string) error {
	fs := flag.NewFlagSet("c09-racejobs", flag.ContinueOnError)
	outF := fs.String("out", "", "jobs (ndjson)")
	first := fs.Int("firstID", 500000, "id of the first job")
	if err := fs.Parse(args); err != nil {
		return err
	}
	w, err := cli.NewNDJSONWriter(*outF)
	if err != nil {
		return err
	}
	defer w.Close()
	for _, j := range raceJobs(cli.Thorough(), cli.Seed(), *first) {
		if err := w.Write(j); err != nil {
			return err
		}
	}
	return nil
}
