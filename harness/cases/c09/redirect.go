package c09

import (
	"fmt"
	"net"
	"os"
	"strings"
	"sync"
	"syscall"
	"time"

	"github.com/samaritan-proxy/samaritan/host"
	"github.com/samaritan-proxy/samaritan/proc"
	predis "github.com/samaritan-proxy/samaritan/proc/redis"

	"verifharness/internal/sched"
	"verifharness/internal/simredis"
	"verifharness/internal/sut"
)

// Scenarios around the last step of stopping a Redis processor, upstream.Serve
// stopping every backend client, while a backend reader still handles a
// MOVED redirection (windows of spec/proc/RedisStopAll.tla):
//
//	redis/redirect-in-flight-at-stop/fresh-target       W_RedirectLockVsStopAll: the target has no client yet; the
//	    reader is held at upstream.createClient (after its quit check, before clientsMu.Lock) until
//	    Serve is inside Stop() of the reader's own client (client.Stop.quitClosed), then let go
//	redis/redirect-in-flight-at-stop/full-target-queue  W_RedirectSendVsStopAll: the target's backend is silent and
//	    its queues are full, the readers of four other clients are blocked in target.Send; free running
//	redis/connect-pending-at-stop/slow-accept           W_ConnectPendingAtStop: the dial for the target is still
//	    pending when Stop begins (accept queue of the target full) and completes afterwards
//	redis/refresh-blocked-at-stop/full-target-queue    the slot refresher sends its CLUSTER NODES to the silent target
//	    with full queues and is blocked in target.Send (window W_StopWhileRefreshBlockedInSend of RedisStop.tla)
//	redis/backend-queue-full-at-stop/silent            the same silent target, but the downstream sessions keep
//	    sending: their readers are blocked in target.Send (window W_StopWithFullBackendQueue of RedisStop.tla)
func isUpstreamScenario(s *Scenario) bool {
	return s.When == "redirect-in-flight-at-stop" || s.When == "connect-pending-at-stop" || s.When == "backend-queue-full-at-stop" ||
		s.When == "refresh-blocked-at-stop"
}

// upTrack maps the hook calls of the upstream under test to gate keys and keeps the client objects.
type upTrack struct {
	mu      sync.Mutex
	target  string // address the redirection points to
	source  string // address of the client whose reader handles the redirection
	clients map[string]interface{}
}

func (t *upTrack) key(point string, a, b interface{}) string {
	if point == "upstream.createClient" {
		if addr, _ := b.(string); addr == t.target {
			return "createClient"
		}
		return ""
	}
	if !strings.HasPrefix(point, "client.") {
		return ""
	}
	d := predis.VerifDescribe(a)
	if d.Kind != "client" {
		return ""
	}
	t.mu.Lock()
	if _, ok := t.clients[d.Addr]; !ok {
		t.clients[d.Addr] = a
	}
	t.mu.Unlock()
	if point == "client.Stop.quitClosed" && d.Addr == t.source {
		return "stopSource"
	}
	return ""
}

func (t *upTrack) client(addr string) interface{} {
	t.mu.Lock()
	defer t.mu.Unlock()
	return t.clients[addr]
}

// slowBackend is a TCP server whose accept queue holds one connection (listen backlog 0) and
// which does not accept until told to: further SYNs are dropped and retransmitted after 1 s.
type slowBackend struct {
	ln      net.Listener
	addr    string
	mu      sync.Mutex
	fillers map[string]bool // local addresses of the driver's own filler connections
	open    int             // accepted connections of anybody else on which no EOF / error was seen yet
	total   int
}

func newSlowBackend() (*slowBackend, error) {
	fd, err := syscall.Socket(syscall.AF_INET, syscall.SOCK_STREAM|syscall.SOCK_CLOEXEC, 0)
	if err != nil {
		return nil, err
	}
	syscall.SetsockoptInt(fd, syscall.SOL_SOCKET, syscall.SO_REUSEADDR, 1)
	if err := syscall.Bind(fd, &syscall.SockaddrInet4{Addr: [4]byte{127, 0, 0, 1}}); err != nil {
		syscall.Close(fd)
		return nil, err
	}
	if err := syscall.Listen(fd, 0); err != nil {
		syscall.Close(fd)
		return nil, err
	}
	f := os.NewFile(uintptr(fd), "slow-backend")
	ln, err := net.FileListener(f)
	f.Close()
	if err != nil {
		return nil, err
	}
	return &slowBackend{ln: ln, addr: ln.Addr().String(), fillers: map[string]bool{}}, nil
}

// fill occupies the accept queue; it reports whether a further connect now stays pending.
func (b *slowBackend) fill() ([]net.Conn, bool) {
	var cs []net.Conn
	for i := 0; i < 6; i++ {
		c, err := net.DialTimeout("tcp4", b.addr, 150*time.Millisecond)
		if err != nil {
			return cs, true
		}
		b.mu.Lock()
		b.fillers[c.LocalAddr().String()] = true
		b.mu.Unlock()
		cs = append(cs, c)
	}
	return cs, false
}

func (b *slowBackend) acceptAll() {
	for {
		c, err := b.ln.Accept()
		if err != nil {
			return
		}
		b.mu.Lock()
		mine := b.fillers[c.RemoteAddr().String()]
		if !mine {
			b.open++
			b.total++
		}
		b.mu.Unlock()
		go func() {
			buf := make([]byte, 4096)
			for {
				if _, err := c.Read(buf); err != nil {
					break
				}
			}
			if !mine {
				b.mu.Lock()
				b.open--
				b.mu.Unlock()
			}
			c.Close()
		}()
	}
}

func (b *slowBackend) counts() (open, total int) {
	b.mu.Lock()
	defer b.mu.Unlock()
	return b.open, b.total
}

func movedTo(node *simredis.Node, key, target string) {
	node.Script(&simredis.Scripted{
		Match: func(cmd string, args [][]byte) bool { return cmd == "get" && len(args) == 2 && string(args[1]) == key },
		Raw:   []byte(fmt.Sprintf("-MOVED 1 %s\r\n", target)),
		Times: 1,
	})
}

func getCmd(key string) string { return fmt.Sprintf("*2\r\n$3\r\nget\r\n$%d\r\n%s\r\n", len(key), key) }

func runUpstreamScenario(job *Job) Result {
	tries := 1
	if job.Scenario.Backend == "full-target-queue" {
		tries = 3 // the map order of the stop-all decides: the window is entered in 4 of 5 runs
	}
	var res Result
	for i := 0; i < tries; i++ {
		res = runUpstreamOnce(job)
		if res.Hung || res.Err != "" || len(res.Findings) > 0 {
			break
		}
	}
	return res
}

func runUpstreamOnce(job *Job) (res Result) {
	t0 := time.Now()
	s := job.Scenario
	res = Result{ID: job.ID, Kind: job.Kind, Name: job.Name, Attempt: job.Attempt, DeadlineMs: job.DeadlineMs, DivergeAt: -1, Exact: true}
	defer func() { res.WallMs = ms(time.Since(t0)) }()
	deadline := time.Duration(job.DeadlineMs) * time.Millisecond
	sessionsBlocked := s.When == "backend-queue-full-at-stop"
	refreshBlocked := s.When == "refresh-blocked-at-stop"
	full := s.Backend == "full-target-queue" || sessionsBlocked
	if refreshBlocked {
		// the refresher may run again a few milliseconds after the start-up refresh (default: 5 s)
		of, om := predis.VerifSetSlotsRefreshTimers(time.Hour, 5*time.Millisecond)
		defer predis.VerifSetSlotsRefreshTimers(of, om)
	}
	pendingConnect := s.When == "connect-pending-at-stop"

	nodes := 2
	if full {
		nodes = 5
	}
	cl, err := simredis.NewCluster(nodes, 0)
	if err != nil {
		res.Err = "cluster: " + err.Error()
		return
	}
	defer cl.Close()
	var seeds []string
	var slow *slowBackend
	tgtNode := cl.Nodes[nodes-1]
	target := tgtNode.Addr
	if refreshBlocked {
		seeds = []string{tgtNode.Addr} // the refresher asks a random seed host: the target
	} else if full {
		seeds = cl.Addrs()
	} else {
		// node 0 owns (almost) every slot and is the only seed: no other address has a client
		for sl := 1; sl < simredis.NumSlots; sl++ {
			cl.SetOwner(sl, 0)
		}
		cl.SetOwner(0, 1)
		seeds = []string{cl.Nodes[0].Addr}
	}
	if pendingConnect {
		if slow, err = newSlowBackend(); err != nil {
			res.Err = "slow backend: " + err.Error()
			return
		}
		defer slow.ln.Close()
		target = slow.addr
	}

	baseline := len(samaritanGoroutines())
	port := allocPort()
	defer releasePort(port)
	addr := fmt.Sprintf("127.0.0.1:%d", port)
	name := sut.UniqueName("c09redis")
	sock := watchSocket(addr)
	defer unwatchSocket(addr)
	tr := &upTrack{target: target, source: cl.Nodes[0].Addr, clients: map[string]interface{}{}}
	sc := sched.New(tr.key)
	sc.Install()
	defer sc.Uninstall()

	cfg := sut.RedisConfig(sut.RedisOpts{Port: port, ConnectTO: 3 * time.Second})
	hosts := make([]*host.Host, 0, len(seeds))
	for _, a := range seeds {
		hosts = append(hosts, host.New(a))
	}
	p, err := proc.New(name, cfg, hosts)
	if err != nil {
		res.Err = "proc.New: " + err.Error()
		return
	}
	if err := p.Start(); err != nil {
		res.Err = "Start: " + err.Error()
		return
	}
	var peers []*peer
	defer func() {
		for _, c := range peers {
			c.close()
			releasePort(c.lport)
		}
	}()
	fail := func(why string) {
		res.Err = why
		sc.ReleaseAll()
		if !sut.StopWithin(p, 3*time.Second) {
			res.Poisoned = true
		}
	}
	if !sut.WaitListening(addr, 5*time.Second) || !sut.WaitRefresh(name, 5*time.Second) {
		fail("processor did not come up")
		return
	}
	newPeer := func() *peer {
		c, err := dialPeer(fmt.Sprintf("p%d", len(peers)+1), addr, nil)
		if err != nil {
			return nil
		}
		peers = append(peers, c)
		return c
	}
	p0 := newPeer()
	if p0 == nil {
		fail("dial failed")
		return
	}
	// warm-up: the clients that are to exist do exist
	warmNodes := []int{0}
	if full {
		warmNodes = []int{0, 1, 2, 3, 4}
	}
	for _, i := range warmNodes {
		if !p0.roundTrip(getCmd(cl.KeyFor(i, "warm")), "\r\n", 3*time.Second) {
			fail("warm-up request not answered")
			return
		}
	}

	var fillers []net.Conn
	defer func() {
		for _, c := range fillers {
			c.Close()
		}
	}()
	tRedirect := time.Now()
	switch {
	case full:
		// the target's backend goes silent and its two queues fill up: 1024 requests wait for their
		// reply, the writer holds one, 1024 are pending = 2049. Exactly that many, 32 per session (what a
		// session's reply queue holds): no session reader is blocked, only the next Send will be.
		// (sessionsBlocked: more than that - the sessions' readers themselves block in target.Send.)
		tgtNode.SetSilent(true)
		key := cl.KeyFor(4, "fill")
		perSession, sessions, extra := 32, 64, 1
		if sessionsBlocked {
			perSession, sessions, extra = 40, 72, 0
		}
		send := func(n int) bool {
			c := newPeer()
			if c == nil {
				return false
			}
			c.c.Write([]byte(strings.Repeat(getCmd(key), n)))
			return true
		}
		for i := 0; i < sessions; i++ {
			if !send(perSession) {
				fail("dial failed")
				return
			}
		}
		if extra > 0 && !send(extra) {
			fail("dial failed")
			return
		}
		if !waitUntil(8*time.Second, func() bool {
			st, ok := predis.VerifClientStateOf(tr.client(target))
			return ok && st.Pending >= 1024
		}) {
			st, _ := predis.VerifClientStateOf(tr.client(target))
			fail(fmt.Sprintf("the target's pending queue did not fill (%d)", st.Pending))
			return
		}
		// four other clients get a MOVED to the target: their readers block in target.Send
		for i := 0; i < 4 && !sessionsBlocked && !refreshBlocked; i++ {
			k := cl.KeyFor(i, "redir")
			movedTo(cl.Nodes[i], k, target)
			c := newPeer()
			if c == nil {
				fail("dial failed")
				return
			}
			c.c.Write([]byte(getCmd(k)))
		}
		if refreshBlocked {
			// a host update triggers a slot refresh: the refresher's request goes to the target
			p.OnSvcHostAdd([]*host.Host{host.New(target)})
		}
		time.Sleep(150 * time.Millisecond)
	case pendingConnect:
		var ok bool
		if fillers, ok = slow.fill(); !ok {
			fail("could not fill the accept queue of the slow backend (skipped)")
			res.Err = "skip: " + res.Err
			return
		}
		k := cl.KeyFor(0, "redir")
		movedTo(cl.Nodes[0], k, target)
		tRedirect = time.Now()
		p0.c.Write([]byte(getCmd(k)))
		go func() { // the backend recovers after Stop has begun; the retransmitted SYN (1 s) then completes
			time.Sleep(500 * time.Millisecond)
			slow.acceptAll()
		}()
		time.Sleep(150 * time.Millisecond)
	default: // fresh-target: hold the reader between its quit check and clientsMu.Lock
		sc.Gate("createClient")
		k := cl.KeyFor(0, "redir")
		movedTo(cl.Nodes[0], k, target)
		p0.c.Write([]byte(getCmd(k)))
		if !sc.WaitParked("createClient", 3*time.Second) {
			fail("the redirection never reached upstream.createClient")
			return
		}
	}

	// ---- Stop
	res.StopCalled = true
	t1 := time.Now()
	stopDone := make(chan struct{})
	go func() { p.Stop(); close(stopDone) }()
	if !full && !pendingConnect {
		// Serve is inside Stop() of the reader's own client (with the lock, as the code is), then the reader goes on
		if !sc.WaitArrived("stopSource", 1, 3*time.Second) {
			res.DivergeWhy = "Serve never reached client.Stop of the redirecting client"
			res.Exact = false
		}
		time.Sleep(20 * time.Millisecond)
		sc.ReleaseAll()
	}
	select {
	case <-stopDone:
		res.StopReturned = true
		res.StopMs = ms(time.Since(t1))
	case <-time.After(deadline):
		res.Hung = true
	}
	if !res.StopReturned {
		res.Stuck = describeAll(samaritanGoroutines())
		all := strings.Join(res.Stuck, "\n")
		cls := "other"
		serveInClientStop := strings.Contains(all, "redis.(*client).Stop < proc/redis.(*upstream).Serve")
		switch {
		case strings.Contains(all, "proc.(*listener).Stop < proc/redis.(*redisProc).Stop") &&
			strings.Contains(all, "select: proc/redis.(*client).Send < proc/redis.(*upstream).MakeRequestToHost < proc/redis.(*upstream).MakeRequest"):
			// the listener waits for sessions whose readers are blocked in Send; the upstream is only stopped afterwards
			res.HangWindow = "redis-backend-queue-full"
			res.find("stop-hangs/redis-backend-queue-full", fmt.Sprintf("%s: Stop did not return within %s; stuck: %v", job.Name, deadline, compress(res.Stuck)))
			res.Poisoned = true
			return
		case strings.Contains(all, "proc/redis.(*upstream).Stop < proc/redis.(*redisProc).Stop") &&
			strings.Contains(all, "select: proc/redis.(*client).Send < proc/redis.(*upstream).MakeRequestToHost < proc/redis.(*upstream).doSlotsRefresh"):
			// Serve waits for the refresher before it tells any client to quit
			res.HangWindow = "redis-refresh-blocked-in-send"
			res.find("stop-hangs/redis-refresh-blocked-in-send", fmt.Sprintf("%s: Stop did not return within %s; stuck: %v", job.Name, deadline, compress(res.Stuck)))
			res.Poisoned = true
			return
		case serveInClientStop && strings.Contains(all, "proc/redis.(*upstream).createClient"):
			cls = "lock"
		case serveInClientStop && strings.Contains(all, "select: proc/redis.(*client).Send < proc/redis.(*upstream).MakeRequestToHost"):
			cls = "full-target-queue"
		}
		res.HangWindow = "redis-redirect-vs-stop-all/" + cls
		res.find("stop-hangs/"+res.HangWindow, fmt.Sprintf("%s: Stop did not return within %s; stuck: %v", job.Name, deadline, compress(res.Stuck)))
		res.Poisoned = true
		return
	}
	// ---- after Stop: port, downstream and upstream connections, goroutines
	if pendingConnect {
		// the dial that was pending when Stop began has completed or failed by now
		if d := 1800*time.Millisecond - time.Since(tRedirect); d > 0 {
			time.Sleep(d)
		}
	}
	refused := portRefused(addr, 0)
	res.PortRefused = boolp(refused)
	if !refused || sock.isOpen() {
		res.find("after-stop/port-open", job.Name+": the listening port still accepts connections after Stop returned")
	}
	for _, c := range peers {
		if !c.waitClosed(2 * time.Second) {
			res.PeersOpen = append(res.PeersOpen, c.name)
		}
	}
	if len(res.PeersOpen) > 0 {
		res.find("after-stop/peer-not-closed", fmt.Sprintf("%s: downstream connections %v still open after Stop returned", job.Name, res.PeersOpen))
	}
	upOpen := func() int {
		n := 0
		for _, nd := range cl.Nodes {
			n += nd.ConnCount()
		}
		if slow != nil {
			o, _ := slow.counts()
			n += o
		}
		return n
	}
	if !waitUntil(2500*time.Millisecond, func() bool { return upOpen() == 0 }) {
		res.UpstreamOpen = upOpen()
		sig := "after-stop/upstream-open"
		if pendingConnect {
			sig += "/connect-pending"
		}
		res.find(sig, fmt.Sprintf("%s: %d upstream connection(s) still open after Stop returned", job.Name, res.UpstreamOpen))
	}
	if left := waitGoroutinesGone(baseline, 2*time.Second); len(left) > 0 {
		res.Leaked = describeAll(left)
		res.Poisoned = true
		res.find("after-stop/goroutines-left", fmt.Sprintf("%s: goroutines of the processor remain after Stop returned: %v", job.Name, res.Leaked))
	}
	if slow != nil {
		_, total := slow.counts()
		res.Served = []string{fmt.Sprintf("slow backend accepted %d proxy connection(s)", total)}
	}
	res.Quiescent = len(res.Leaked) == 0
	return
}

// compress collapses repeated stack descriptions ("17 x ...").
func compress(in []string) []string {
	var out []string
	for i := 0; i < len(in); {
		j := i
		for j < len(in) && in[j] == in[i] {
			j++
		}
		if j-i > 1 {
			out = append(out, fmt.Sprintf("%d x %s", j-i, in[i]))
		} else {
			out = append(out, in[i])
		}
		i = j
	}
	return out
}
