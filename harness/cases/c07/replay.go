// Package c07 replays ConnTable histories (requests, connection loss, backend
// down/up, reset of all clients) end-to-end on a real Redis processor.
package c07

import (
	"encoding/json"
	"flag"
	"fmt"
	"os"
	"strconv"
	"strings"
	"sync"
	"sync/atomic"
	"time"

	"github.com/samaritan-proxy/samaritan/host"
	predis "github.com/samaritan-proxy/samaritan/proc/redis"
	"github.com/samaritan-proxy/samaritan/utils/verifhook"

	"verifharness/internal/cli"
	"verifharness/internal/resp"
	"verifharness/internal/simredis"
	"verifharness/internal/sut"
)

func init() { cli.Register("c07-replay", replay) }

type step struct {
	A      string `json:"a"`
	R      int    `json:"r"`
	Up     bool   `json:"up"`
	Quiet  bool   `json:"quiet"`
	Out    string `json:"out"`
	MayErr bool   `json:"mayErr"`
	Ask    bool   `json:"ask"`
}

type reqObs struct {
	R       int    `json:"r"`
	Model   string `json:"model"`
	MayErr  bool   `json:"mayErr"`
	Got     string `json:"got"` // "ok" | "err" | "none"
	Text    string `json:"text"`
	Accepts int    `json:"accepts"` // connections accepted by the node when the reply arrived
}

type result struct {
	ID             int      `json:"id"`
	Reqs           []reqObs `json:"reqs"`
	Bad            []string `json:"bad"`    // violations of ErrorsOnlyWhileDown / no reply
	HealOK         bool     `json:"healOK"` // after the history, with the backend up, requests succeed again
	HealText       string   `json:"healText"`
	HealTries      int      `json:"healTries"`
	NewConn        bool     `json:"newConn"`    // the healed request went over a connection accepted after the last fault
	ConnsAtEnd     int      `json:"connsAtEnd"` // open backend connections after quiescence (NoOrphanClient: <= 1)
	ConnsAfterStop int      `json:"connsAfterStop"`
	StopOK         bool     `json:"stopOK"`
	Faults         int      `json:"faults"`
	Stalls         int      `json:"stalls"`      // times the in-flight queue of the backend connection was filled (1024 unanswered)
	HeldAtFault    bool     `json:"heldAtFault"` // a fault hit while the writer waited at a hand-over with a request in hand
	FillerSent     int      `json:"fillerSent"`  // requests of other sessions used to fill the queue
	FillerAnswered int      `json:"fillerAnswered"`
	HeldAtReset    bool     `json:"heldAtReset"` // all clients were reset while a reader was held at the entry of createClient(node)
	ResetHung      bool     `json:"resetHung"`   // OnSvcAllHostReplace did not return within 5 s
	Err            string   `json:"err,omitempty"`
	CfgErr         string   `json:"cfgErr,omitempty"` // OnSvcConfigUpdate returned an error
	Late           []string `json:"late,omitempty"`   // replies / returns that came after the first deadline (5 s) but within the extended one (15 s): a loaded machine, no verdict
	// the worker process that hosted the processor died while it replayed this history
	Crash *crashInfo `json:"crash,omitempty"`
}

// Several histories are replayed at the same time (each on its own cluster and processor); the one process-wide
// hook dispatches to the handler of every running replay, which picks its own events by the backend address.
var (
	hookMu   sync.RWMutex
	hookSeq  int
	hookSubs = map[int]verifhook.Func{}
)

// startMu serialises the allocation of ports (cluster listeners, sut.FreePort + bind of the processor) between the
// histories replayed at the same time: a port picked by FreePort must be bound before anybody else looks for one.
var startMu sync.Mutex

func hookAdd(f verifhook.Func) (remove func()) {
	hookMu.Lock()
	hookSeq++
	id := hookSeq
	hookSubs[id] = f
	hookMu.Unlock()
	return func() {
		hookMu.Lock()
		delete(hookSubs, id)
		hookMu.Unlock()
	}
}

func hookDispatch(point string, a, b interface{}) {
	switch point {
	case "client.Start.drained", "client.loopWrite.got", "upstream.createClient", "client.Stop":
	default:
		return
	}
	// a handler may block (gate): the subscribers are called outside the lock
	hookMu.RLock()
	subs := make([]verifhook.Func, 0, len(hookSubs))
	for _, f := range hookSubs {
		subs = append(subs, f)
	}
	hookMu.RUnlock()
	for _, f := range subs {
		f(point, a, b)
	}
}

// fillers: the traffic of other sessions that fills the in-flight queue of a stalled backend connection
const (
	fillConns   = 32
	fillPerConn = 32                      // a session keeps at most 33 requests in flight
	inflightCap = fillConns * fillPerConn // = cap(client.processingReqs) = 1024
)

// Verdicts that rest on a deadline (no reply, a reset that does not return) are only reported when the wait was extended
// from 5 s to 15 s and nothing came: a deadlock stays, a starved goroutine on a loaded machine gets its turn.
const (
	firstWait = 5 * time.Second
	moreWait  = 10 * time.Second
)

// doPatient sends a command and waits for the reply, first firstWait, then moreWait more; late reports a reply that
// needed the extension.
func doPatient(c *sut.Client, args ...string) (v resp.Value, err error, late bool) {
	v, err = c.Do(firstWait, args...)
	if err != nil && isTimeout(err) {
		v, err = c.Recv(moreWait)
		late = err == nil
	}
	return
}

func isTimeout(err error) bool {
	type to interface{ Timeout() bool }
	t, ok := err.(to)
	return ok && t.Timeout()
}

// gateIDs: histories (1-based) in which a reset of all clients that follows an asking request is forced into the window
// "reader about to create the client" (nil: all)
var gateIDs map[int]bool

func replayOne(id int, steps []step) (res result) {
	res = result{ID: id}
	// a second master is needed as the source of ASK redirections (and as the only seed, so that the refresher
	// never talks to the stalled node) when the history stalls the backend or contains asking requests
	two := false
	for _, s := range steps {
		if s.A == "Stall" || (s.A == "Issue" && s.Ask) {
			two = true
		}
	}
	masters := 1
	if two {
		masters = 2
	}
	startMu.Lock()
	locked := true
	unlock := func() {
		if locked {
			locked = false
			startMu.Unlock()
		}
	}
	defer unlock()
	cl, err := simredis.NewCluster(masters, 0)
	if err != nil {
		res.Err = err.Error()
		return
	}
	defer cl.Close()
	node := cl.Nodes[masters-1] // the backend of the model
	seed := cl.Nodes[0]
	// initial reachability = the "up" of the first Issue before any BackendDown/Up
	up := true
	for _, s := range steps {
		if s.A == "Issue" {
			up = s.Up
			break
		}
		if s.A == "BackendDown" {
			up = true
			break
		}
		if s.A == "BackendUp" {
			up = false
			break
		}
	}
	if !up {
		node.Shutdown()
	}
	var drained, got int64
	var cur atomic.Value // the newest client object of the node (for VerifClientStateOf)
	// gate at the entry of createClient(node): holds the goroutine that is about to create the client of the node (the
	// reader of the redirecting backend's client for a redirected request) until the harness has started the reset
	var gateState int32     // 0 off, 1 armed, 2 a goroutine is held
	var seedStops int64     // client.Stop calls for clients of the seed
	var gateCh atomic.Value // chan struct{}: closed to let the held goroutine go on
	gateCh.Store(make(chan struct{}))
	unhook := hookAdd(func(point string, a, b interface{}) {
		switch point {
		case "upstream.createClient":
			if addr, ok := b.(string); ok && addr == node.Addr && atomic.CompareAndSwapInt32(&gateState, 1, 2) {
				select {
				case <-gateCh.Load().(chan struct{}):
				case <-time.After(20 * time.Second):
				}
			}
		case "client.Stop":
			if two && predis.VerifDescribe(a).Addr == seed.Addr {
				atomic.AddInt64(&seedStops, 1)
			}
		case "client.Start.drained":
			if predis.VerifDescribe(a).Addr == node.Addr {
				atomic.AddInt64(&drained, 1)
			}
		case "client.loopWrite.got":
			if predis.VerifDescribe(a).Addr == node.Addr {
				cur.Store(a)
				atomic.AddInt64(&got, 1)
			}
		}
	})
	defer unhook()
	px, err := sut.StartRedis(sut.RedisOpts{ConnectTO: 300 * time.Millisecond}, []string{seed.Addr})
	unlock()
	if err != nil {
		res.Err = "start: " + err.Error()
		return
	}
	if up || two {
		sut.WaitRefresh(px.Name, 2*time.Second)
	}
	keyOf := func(r int, ask bool) string {
		if !two {
			return fmt.Sprintf("k%d", r)
		}
		if ask {
			// a key of a slot that migrates from the seed to the node and is not (no longer) on the seed: ASK
			k := cl.KeyFor(0, fmt.Sprintf("ask%d-", r))
			cl.SetMigrating(simredis.Slot([]byte(k)), 0, 1)
			return k
		}
		return cl.KeyFor(1, fmt.Sprintf("k%d-", r))
	}
	var lost int64 // backend connections the faults so far have taken away: each one's client must drain and remove itself
	settle := func() {
		// let the proxy finish processing the losses: every dying client reaches the end of its drain (hook) and then
		// removes itself from the table
		dl := time.Now().Add(3 * time.Second)
		if res.ResetHung {
			dl = time.Now() // the reset of all clients never returned: nothing will drain any more, the verdicts below stand
		}
		for time.Now().Before(dl) && atomic.LoadInt64(&drained) < atomic.LoadInt64(&lost) {
			time.Sleep(time.Millisecond)
		}
		time.Sleep(25 * time.Millisecond)
	}
	type pending struct {
		done chan struct{}
		obs  reqObs
	}
	pend := map[int]*pending{}
	var mu sync.Mutex
	lastFaultAccepts := 0
	// stall state
	stalled, held := false, false
	var fillers []*sut.Client
	var fillWG sync.WaitGroup
	var fillAnswered int64
	defer func() {
		for _, c := range fillers {
			c.Close()
		}
	}()
	stall := func() error {
		node.SetGate(true)
		key := cl.KeyFor(masters-1, "fill-")
		for i := 0; i < fillConns; i++ {
			c, err := sut.Dial(px.Addr)
			if err != nil {
				return err
			}
			fillers = append(fillers, c)
			for k := 0; k < fillPerConn; k++ {
				if err := c.SendCmd("get", key); err != nil {
					return err
				}
				res.FillerSent++
			}
			fillWG.Add(1)
			go func(c *sut.Client) {
				defer fillWG.Done()
				for k := 0; k < fillPerConn; k++ {
					if _, err := c.Recv(8 * time.Second); err != nil {
						return
					}
					atomic.AddInt64(&fillAnswered, 1)
				}
			}(c)
		}
		dl := time.Now().Add(5 * time.Second)
		for time.Now().Before(dl) {
			if o := cur.Load(); o != nil {
				if st, ok := predis.VerifClientStateOf(o); ok && st.Processing == inflightCap && st.Pending == 0 {
					return nil
				}
			}
			time.Sleep(time.Millisecond)
		}
		st, _ := predis.VerifClientStateOf(cur.Load())
		return fmt.Errorf("in-flight queue did not fill: %+v", st)
	}
	// a fault ends the stall of the lost connection; the simulated node must not hold back what the proxy sends over
	// its NEW connection
	fault := func(f func()) {
		res.Faults++
		atomic.StoreInt64(&lost, int64(node.AcceptCount()))
		if stalled && held {
			res.HeldAtFault = true
		}
		f()
		if stalled {
			node.SetGate(false)
			stalled, held = false, false
		}
		lastFaultAccepts = node.AcceptCount()
	}
	for i, s := range steps {
		switch s.A {
		case "Issue":
			if s.Quiet {
				settle()
			}
			p := &pending{done: make(chan struct{})}
			pend[s.R] = p
			g0 := atomic.LoadInt64(&got)
			key := keyOf(s.R, s.Ask)
			gated := two && s.Ask && !stalled && i+1 < len(steps) && steps[i+1].A == "ResetAll" && (gateIDs == nil || gateIDs[id])
			if gated {
				// all clients are reset next: if the reader of the seed's client has to create the client of the node for
				// this redirected request, it is held at the entry of createClient until the reset is under way
				atomic.StoreInt32(&gateState, 1)
			}
			go func(r int) {
				defer close(p.done)
				c, err := sut.Dial(px.Addr)
				for try := 0; err != nil && try < 3; try++ {
					c, err = sut.Dial(px.Addr) // the listener of the proxy is not what is judged here
				}
				if err != nil {
					mu.Lock()
					p.obs = reqObs{R: r, Got: "infra", Text: "dial: " + err.Error()}
					mu.Unlock()
					return
				}
				defer c.Close()
				v, err, late := doPatient(c, "get", key)
				mu.Lock()
				defer mu.Unlock()
				if late {
					res.Late = append(res.Late, fmt.Sprintf("reply to request %d", r))
				}
				if err != nil {
					p.obs = reqObs{R: r, Got: "none", Text: err.Error()}
				} else if v.IsErr() {
					p.obs = reqObs{R: r, Got: "err", Text: v.String(), Accepts: node.AcceptCount()}
				} else {
					p.obs = reqObs{R: r, Got: "ok", Text: v.String(), Accepts: node.AcceptCount()}
				}
			}(s.R)
			switch {
			case gated:
				dl := time.Now().Add(500 * time.Millisecond)
			waitGate:
				for time.Now().Before(dl) && atomic.LoadInt32(&gateState) != 2 {
					select {
					case <-p.done:
						break waitGate // served without a new connection
					default:
						time.Sleep(200 * time.Microsecond)
					}
				}
				atomic.CompareAndSwapInt32(&gateState, 1, 0)
			case stalled && !held:
				// the writer of the stalled connection takes the request and waits at the hand-over
				dl := time.Now().Add(time.Second)
				for time.Now().Before(dl) && atomic.LoadInt64(&got) == g0 {
					time.Sleep(200 * time.Microsecond)
				}
				held = atomic.LoadInt64(&got) > g0
				time.Sleep(3 * time.Millisecond)
			case stalled:
				time.Sleep(3 * time.Millisecond)
			case i+1 < len(steps) && steps[i+1].A == "Done" && steps[i+1].R == s.R:
				// a request whose life overlaps no fault in the model is completed before the next event
				<-p.done
			default:
				time.Sleep(300 * time.Microsecond)
			}
		case "Done":
			p := pend[s.R]
			if p == nil {
				continue
			}
			<-p.done
			mu.Lock()
			o := p.obs
			mu.Unlock()
			o.Model, o.MayErr = s.Out, s.MayErr
			res.Reqs = append(res.Reqs, o)
			switch {
			case o.Got == "infra":
				res.Err = fmt.Sprintf("request %d: the client could not connect to the proxy: %s", s.R, o.Text)
			case o.Got == "none":
				res.Bad = append(res.Bad, fmt.Sprintf("request %d got no reply: %s", s.R, o.Text))
			case o.Got == "err" && !s.MayErr:
				res.Bad = append(res.Bad, fmt.Sprintf("request %d got %s although the backend was reachable during its whole life", s.R, o.Text))
			}
		case "Stall":
			if err := stall(); err != nil {
				res.Err = "stall: " + err.Error()
				node.SetGate(false)
				return
			}
			stalled, held = true, false
			res.Stalls++
		case "ConfigUpdate":
			// a run-time configuration that does not name the timeouts (the processor wrapper fills the defaults in)
			nc := sut.RedisConfig(sut.RedisOpts{Port: int(px.Cfg.Listener.Address.Port)})
			nc.ConnectTimeout, nc.IdleTimeout = nil, nil
			if err := px.P.OnSvcConfigUpdate(nc); err != nil {
				res.CfgErr = err.Error()
			}
		case "Unstall":
			node.SetGate(false)
			stalled, held = false, false
		case "ConnLost":
			fault(func() { node.ResetConns(true) })
		case "BackendDown":
			fault(func() { node.Shutdown() })
		case "BackendUp":
			if err := node.Restart(); err != nil {
				res.Err = "restart: " + err.Error()
				return
			}
		case "ResetAll":
			fault(func() {
				// resetAllClients stops the old clients: bounded here, a Stop that hangs must not hang the replay
				done := make(chan struct{})
				heldReader := atomic.LoadInt32(&gateState) == 2
				s0 := atomic.LoadInt64(&seedStops)
				go func() {
					px.P.OnSvcAllHostReplace([]*host.Host{host.New(seed.Addr)})
					close(done)
				}()
				if heldReader {
					// the reset has emptied the table and is stopping the old clients (it waits for the reader held
					// at the gate): now the reader goes on and creates the client
					res.HeldAtReset = true
					dl := time.Now().Add(300 * time.Millisecond)
					for time.Now().Before(dl) && atomic.LoadInt64(&seedStops) == s0 {
						time.Sleep(200 * time.Microsecond)
					}
					time.Sleep(2 * time.Millisecond)
					atomic.StoreInt32(&gateState, 0)
					close(gateCh.Swap(make(chan struct{})).(chan struct{}))
				}
				select {
				case <-done:
				case <-time.After(firstWait):
					select {
					case <-done:
						res.Late = append(res.Late, "return of OnSvcAllHostReplace")
					case <-time.After(moreWait):
						res.ResetHung = true
					}
				}
			})
		}
	}
	if stalled {
		node.SetGate(false)
	}
	for _, p := range pend {
		<-p.done
	}
	// healing: with the backend reachable, requests must be served again over a new connection
	if node.IsDown() {
		node.Restart()
	}
	settle()
	healKey := "heal"
	if two {
		healKey = cl.KeyFor(1, "heal-")
	}
	c, err := sut.Dial(px.Addr)
	if err == nil {
		for try := 1; try <= 3; try++ {
			res.HealTries = try
			var v resp.Value
			var err error
			if res.ResetHung {
				v, err = c.Do(2*time.Second, "get", healKey) // the reset has not returned for 15 s: the verdict is in
			} else {
				var late bool
				if v, err, late = doPatient(c, "get", healKey); late {
					res.Late = append(res.Late, "reply to the healing request")
				}
			}
			if err != nil {
				res.HealText = err.Error()
				break
			}
			res.HealText = v.String()
			if !v.IsErr() {
				res.HealOK = true
				break
			}
			time.Sleep(30 * time.Millisecond)
		}
		c.Close()
	} else {
		res.HealText = "dial: " + err.Error()
	}
	res.NewConn = res.Faults == 0 || node.AcceptCount() > lastFaultAccepts || node.ConnCount() > 0
	if res.FillerSent > 0 {
		// the requests of the other sessions: answered by the backend (stall over) or by the drain of the lost connection
		fd := make(chan struct{})
		go func() { fillWG.Wait(); close(fd) }()
		select {
		case <-fd:
		case <-time.After(2 * time.Second):
		}
		res.FillerAnswered = int(atomic.LoadInt64(&fillAnswered))
	}
	// a leaked connection stays for ever, a closing one is dropped from the node's set as soon as its goroutine runs:
	// generous deadlines (loaded machine), the counts are read when they have settled or the deadline has passed
	settleConns := func(max int, d time.Duration) int {
		dl := time.Now().Add(d)
		for time.Now().Before(dl) && node.ConnCount() > max {
			time.Sleep(2 * time.Millisecond)
		}
		return node.ConnCount()
	}
	time.Sleep(30 * time.Millisecond)
	res.ConnsAtEnd = settleConns(1, 2*time.Second)
	stopTO := 5 * time.Second
	if res.ResetHung {
		stopTO = time.Second
	}
	res.StopOK = sut.StopWithin(px.P, stopTO)
	time.Sleep(20 * time.Millisecond)
	res.ConnsAfterStop = settleConns(0, 2*time.Second)
	return
}

func replay(args []string) error {
	fs := flag.NewFlagSet("c07-replay", flag.ContinueOnError)
	in := fs.String("in", "", "behaviours (ndjson)")
	out := fs.String("out", "", "results (ndjson)")
	par := fs.Int("par", 4, "histories replayed at the same time (one worker process each)")
	gate := fs.String("gate", "all", "histories (1-based, comma separated) in which reset-after-asking is forced into the createClient window")
	worker := fs.Bool("worker", false, "replay the one history on stdin in this process, result on stdout")
	id := fs.Int("id", 1, "worker: id of the history")
	gated := fs.Bool("gated", true, "worker: force reset-after-asking into the createClient window")
	if err := fs.Parse(args); err != nil {
		return err
	}
	if *worker {
		var steps []step
		if err := json.NewDecoder(os.Stdin).Decode(&steps); err != nil {
			return err
		}
		if !*gated {
			gateIDs = map[int]bool{}
		}
		predis.VerifSetSlotsRefreshTimers(time.Hour, 20*time.Millisecond)
		verifhook.Set(hookDispatch)
		r := replayOne(*id, steps)
		if r.Err != "" {
			// infrastructure trouble (port, start, queue not filled in time): once more
			r = replayOne(*id, steps)
		}
		return json.NewEncoder(os.Stdout).Encode(r)
	}
	gateAll := *gate == "all"
	gset := map[int]bool{}
	for _, f := range strings.Split(*gate, ",") {
		if n, err := strconv.Atoi(strings.TrimSpace(f)); err == nil {
			gset[n] = true
		}
	}
	w, err := cli.NewNDJSONWriter(*out)
	if err != nil {
		return err
	}
	defer w.Close()
	var all [][]byte
	if err := cli.ReadNDJSON(*in, func(line []byte) error {
		all = append(all, line)
		return nil
	}); err != nil {
		return err
	}
	parse := func(i int, r workerResult) result {
		res := result{ID: i + 1}
		if r.Out != nil {
			if err := json.Unmarshal(r.Out, &res); err != nil {
				res.Err = "worker result: " + err.Error()
			}
		}
		res.Crash = r.Crash
		if r.Err != "" {
			res.Err = r.Err
		}
		return res
	}
	return runAll(len(all), *par, func(i int) workerResult {
		extra := []string{"-id", strconv.Itoa(i + 1), fmt.Sprintf("-gated=%v", gateAll || gset[i+1])}
		return runItem("c07-replay", extra, all[i], 180*time.Second)
	}, func(i int, r workerResult) error {
		return w.Write(parse(i, r))
	})
}

// ---- several backends lose their connections at the same instant

func init() { cli.Register("c07-multi", multi) }

type multiResult struct {
	Round    int      `json:"round"`
	Nodes    int      `json:"nodes"`
	Fault    string   `json:"fault"`
	Failing  []string `json:"failing"` // nodes whose keys still fail after the fault although they are reachable
	MaxConns int      `json:"maxConns"`
	Err      string   `json:"err,omitempty"`
}

func multi(args []string) error {
	fs := flag.NewFlagSet("c07-multi", flag.ContinueOnError)
	out := fs.String("out", "", "results (ndjson)")
	rounds := fs.Int("rounds", 6, "rounds")
	nodes := fs.Int("nodes", 8, "masters")
	if err := fs.Parse(args); err != nil {
		return err
	}
	predis.VerifSetSlotsRefreshTimers(time.Hour, 20*time.Millisecond)
	w, err := cli.NewNDJSONWriter(*out)
	if err != nil {
		return err
	}
	defer w.Close()
	cl, err := simredis.NewCluster(*nodes, 0)
	if err != nil {
		return err
	}
	defer cl.Close()
	px, err := sut.StartRedis(sut.RedisOpts{}, cl.Addrs())
	if err != nil {
		return err
	}
	defer sut.StopWithin(px.P, 5*time.Second)
	sut.WaitRefresh(px.Name, 3*time.Second)
	c, err := sut.Dial(px.Addr)
	if err != nil {
		return err
	}
	defer c.Close()
	keys := make([]string, *nodes)
	for i := range keys {
		keys[i] = cl.KeyFor(i, "m-")
	}
	touch := func() []string {
		var failing []string
		for i, k := range keys {
			ok := false
			var last string
			for try := 0; try < 4 && !ok; try++ {
				v, err := c.Do(8*time.Second, "get", k)
				if err != nil {
					last = err.Error()
					break
				}
				if !v.IsErr() {
					ok = true
				} else {
					last = v.String()
					time.Sleep(15 * time.Millisecond)
				}
			}
			if !ok {
				failing = append(failing, fmt.Sprintf("node%d: %s", i, last))
			}
		}
		return failing
	}
	if f := touch(); len(f) > 0 {
		return fmt.Errorf("warm-up failed: %v", f)
	}
	for r := 1; r <= *rounds; r++ {
		res := multiResult{Round: r, Nodes: *nodes}
		var wg sync.WaitGroup
		start := make(chan struct{})
		switch r % 2 {
		case 1:
			res.Fault = "all-connections-reset-at-once"
			for _, n := range cl.Nodes {
				wg.Add(1)
				go func(n *simredis.Node) { defer wg.Done(); <-start; n.ResetConns(true) }(n)
			}
		default:
			res.Fault = "all-backends-restart-at-once"
			for _, n := range cl.Nodes {
				wg.Add(1)
				go func(n *simredis.Node) { defer wg.Done(); <-start; n.Shutdown(); n.Restart() }(n)
			}
		}
		close(start)
		wg.Wait()
		time.Sleep(40 * time.Millisecond)
		res.Failing = touch()
		for _, n := range cl.Nodes {
			if cnt := n.ConnCount(); cnt > res.MaxConns {
				res.MaxConns = cnt
			}
		}
		if err := w.Write(res); err != nil {
			return err
		}
	}
	return nil
}
