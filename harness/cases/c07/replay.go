// Package c07 replays ConnTable histories (requests, connection loss, backend
// down/up, reset of all clients) end-to-end on a real Redis processor.
package c07

import (
	"encoding/json"
	"flag"
	"fmt"
	"strings"
	"sync"
	"sync/atomic"
	"time"

	"github.com/samaritan-proxy/samaritan/host"
	predis "github.com/samaritan-proxy/samaritan/proc/redis"
	"github.com/samaritan-proxy/samaritan/utils/verifhook"

	"verifharness/internal/cli"
	"verifharness/internal/simredis"
	"verifharness/internal/sut"
)

func init() { cli.Register("c07-replay", replay) }

type step struct {
	A      string `json:"a"`
	R      int    `json:"r"`
	Up     bool   `json:"up"`
	Quiet  bool   `json:"quiet"`
	Out    string `json:"out"`
	MayErr bool   `json:"mayErr"`
}

type reqObs struct {
	R       int    `json:"r"`
	Model   string `json:"model"`
	MayErr  bool   `json:"mayErr"`
	Got     string `json:"got"` // "ok" | "err" | "none"
	Text    string `json:"text"`
	Accepts int    `json:"accepts"` // connections accepted by the node when the reply arrived
}

type result struct {
	ID         int      `json:"id"`
	Reqs       []reqObs `json:"reqs"`
	Bad        []string `json:"bad"`        // violations of ErrorsOnlyWhileDown / no reply
	HealOK     bool     `json:"healOK"`     // after the history, with the backend up, requests succeed again
	HealText   string   `json:"healText"`
	HealTries  int      `json:"healTries"`
	NewConn    bool     `json:"newConn"`    // the healed request went over a connection accepted after the last fault
	ConnsAtEnd int      `json:"connsAtEnd"` // open backend connections after quiescence (NoOrphanClient: <= 1)
	ConnsAfterStop int  `json:"connsAfterStop"`
	StopOK     bool     `json:"stopOK"`
	Faults     int      `json:"faults"`
	Err        string   `json:"err,omitempty"`
}

func replayOne(id int, steps []step) (res result) {
	res = result{ID: id}
	cl, err := simredis.NewCluster(1, 0)
	if err != nil {
		res.Err = err.Error()
		return
	}
	defer cl.Close()
	node := cl.Nodes[0]
	// initial reachability = the "up" of the first Issue before any BackendDown/Up
	up := true
	for _, s := range steps {
		if s.A == "Issue" {
			up = s.Up
			break
		}
		if s.A == "BackendDown" {
			up = true
			break
		}
		if s.A == "BackendUp" {
			up = false
			break
		}
	}
	if !up {
		node.Shutdown()
	}
	var drained int64
	verifhook.Set(func(point string, a, b interface{}) {
		if point == "client.Start.drained" {
			atomic.AddInt64(&drained, 1)
		}
	})
	defer verifhook.Set(nil)
	px, err := sut.StartRedis(sut.RedisOpts{ConnectTO: 300 * time.Millisecond}, []string{node.Addr})
	if err != nil {
		res.Err = "start: " + err.Error()
		return
	}
	if up {
		sut.WaitRefresh(px.Name, 2*time.Second)
	}
	var lost int64 // backend connections the faults so far have taken away: each one's client must drain and remove itself
	settle := func() {
		// let the proxy finish processing the losses: every dying client reaches the end of its drain (hook) and then
		// removes itself from the table
		dl := time.Now().Add(3 * time.Second)
		for time.Now().Before(dl) && atomic.LoadInt64(&drained) < atomic.LoadInt64(&lost) {
			time.Sleep(time.Millisecond)
		}
		time.Sleep(25 * time.Millisecond)
	}
	type pending struct {
		done chan struct{}
		obs  reqObs
	}
	pend := map[int]*pending{}
	var mu sync.Mutex
	lastFaultAccepts := 0
	for i, s := range steps {
		switch s.A {
		case "Issue":
			if s.Quiet {
				settle()
			}
			p := &pending{done: make(chan struct{})}
			pend[s.R] = p
			go func(r int) {
				defer close(p.done)
				c, err := sut.Dial(px.Addr)
				if err != nil {
					mu.Lock()
					p.obs = reqObs{R: r, Got: "none", Text: "dial: " + err.Error()}
					mu.Unlock()
					return
				}
				defer c.Close()
				v, err := c.Do(5*time.Second, "get", fmt.Sprintf("k%d", r))
				mu.Lock()
				defer mu.Unlock()
				if err != nil {
					p.obs = reqObs{R: r, Got: "none", Text: err.Error()}
				} else if v.IsErr() {
					p.obs = reqObs{R: r, Got: "err", Text: v.String(), Accepts: node.AcceptCount()}
				} else {
					p.obs = reqObs{R: r, Got: "ok", Text: v.String(), Accepts: node.AcceptCount()}
				}
			}(s.R)
			// a request whose life overlaps no fault in the model is completed before the next event
			if i+1 < len(steps) && steps[i+1].A == "Done" && steps[i+1].R == s.R {
				<-p.done
			} else {
				time.Sleep(300 * time.Microsecond)
			}
		case "Done":
			p := pend[s.R]
			if p == nil {
				continue
			}
			<-p.done
			mu.Lock()
			o := p.obs
			mu.Unlock()
			o.Model, o.MayErr = s.Out, s.MayErr
			res.Reqs = append(res.Reqs, o)
			switch {
			case o.Got == "none":
				res.Bad = append(res.Bad, fmt.Sprintf("request %d got no reply: %s", s.R, o.Text))
			case o.Got == "err" && !s.MayErr:
				res.Bad = append(res.Bad, fmt.Sprintf("request %d got %s although the backend was reachable during its whole life", s.R, o.Text))
			}
		case "ConnLost":
			res.Faults++
			atomic.AddInt64(&lost, int64(node.ConnCount()))
			node.ResetConns(true)
			lastFaultAccepts = node.AcceptCount()
		case "BackendDown":
			res.Faults++
			atomic.AddInt64(&lost, int64(node.ConnCount()))
			node.Shutdown()
			lastFaultAccepts = node.AcceptCount()
		case "BackendUp":
			if err := node.Restart(); err != nil {
				res.Err = "restart: " + err.Error()
				return
			}
		case "ResetAll":
			res.Faults++
			atomic.AddInt64(&lost, int64(node.ConnCount()))
			px.P.OnSvcAllHostReplace([]*host.Host{host.New(node.Addr)})
			lastFaultAccepts = node.AcceptCount()
		}
	}
	for _, p := range pend {
		<-p.done
	}
	// healing: with the backend reachable, requests must be served again over a new connection
	if node.IsDown() {
		node.Restart()
	}
	settle()
	c, err := sut.Dial(px.Addr)
	if err == nil {
		for try := 1; try <= 3; try++ {
			res.HealTries = try
			v, err := c.Do(5*time.Second, "get", "heal")
			if err != nil {
				res.HealText = err.Error()
				break
			}
			res.HealText = v.String()
			if !v.IsErr() {
				res.HealOK = true
				break
			}
			time.Sleep(30 * time.Millisecond)
		}
		c.Close()
	} else {
		res.HealText = "dial: " + err.Error()
	}
	res.NewConn = res.Faults == 0 || node.AcceptCount() > lastFaultAccepts || node.ConnCount() > 0
	time.Sleep(30 * time.Millisecond)
	res.ConnsAtEnd = node.ConnCount()
	res.StopOK = sut.StopWithin(px.P, 5*time.Second)
	time.Sleep(20 * time.Millisecond)
	res.ConnsAfterStop = node.ConnCount()
	_ = strings.TrimSpace
	return
}

func replay(args []string) error {
	fs := flag.NewFlagSet("c07-replay", flag.ContinueOnError)
	in := fs.String("in", "", "behaviours (ndjson)")
	out := fs.String("out", "", "results (ndjson)")
	if err := fs.Parse(args); err != nil {
		return err
	}
	predis.VerifSetSlotsRefreshTimers(time.Hour, 20*time.Millisecond)
	w, err := cli.NewNDJSONWriter(*out)
	if err != nil {
		return err
	}
	defer w.Close()
	id := 0
	return cli.ReadNDJSON(*in, func(line []byte) error {
		var steps []step
		if err := json.Unmarshal(line, &steps); err != nil {
			return err
		}
		id++
		return w.Write(replayOne(id, steps))
	})
}

// ---- several backends lose their connections at the same instant

func init() { cli.Register("c07-multi", multi) }

type multiResult struct {
	Round    int      `json:"round"`
	Nodes    int      `json:"nodes"`
	Fault    string   `json:"fault"`
	Failing  []string `json:"failing"` // nodes whose keys still fail after the fault although they are reachable
	MaxConns int      `json:"maxConns"`
	Err      string   `json:"err,omitempty"`
}

func multi(args []string) error {
	fs := flag.NewFlagSet("c07-multi", flag.ContinueOnError)
	out := fs.String("out", "", "results (ndjson)")
	rounds := fs.Int("rounds", 6, "rounds")
	nodes := fs.Int("nodes", 8, "masters")
	if err := fs.Parse(args); err != nil {
		return err
	}
	predis.VerifSetSlotsRefreshTimers(time.Hour, 20*time.Millisecond)
	w, err := cli.NewNDJSONWriter(*out)
	if err != nil {
		return err
	}
	defer w.Close()
	cl, err := simredis.NewCluster(*nodes, 0)
	if err != nil {
		return err
	}
	defer cl.Close()
	px, err := sut.StartRedis(sut.RedisOpts{}, cl.Addrs())
	if err != nil {
		return err
	}
	defer sut.StopWithin(px.P, 5*time.Second)
	sut.WaitRefresh(px.Name, 3*time.Second)
	c, err := sut.Dial(px.Addr)
	if err != nil {
		return err
	}
	defer c.Close()
	keys := make([]string, *nodes)
	for i := range keys {
		keys[i] = cl.KeyFor(i, "m-")
	}
	touch := func() []string {
		var failing []string
		for i, k := range keys {
			ok := false
			var last string
			for try := 0; try < 4 && !ok; try++ {
				v, err := c.Do(3*time.Second, "get", k)
				if err != nil {
					last = err.Error()
					break
				}
				if !v.IsErr() {
					ok = true
				} else {
					last = v.String()
					time.Sleep(15 * time.Millisecond)
				}
			}
			if !ok {
				failing = append(failing, fmt.Sprintf("node%d: %s", i, last))
			}
		}
		return failing
	}
	if f := touch(); len(f) > 0 {
		return fmt.Errorf("warm-up failed: %v", f)
	}
	for r := 1; r <= *rounds; r++ {
		res := multiResult{Round: r, Nodes: *nodes}
		var wg sync.WaitGroup
		start := make(chan struct{})
		switch r % 2 {
		case 1:
			res.Fault = "all-connections-reset-at-once"
			for _, n := range cl.Nodes {
				wg.Add(1)
				go func(n *simredis.Node) { defer wg.Done(); <-start; n.ResetConns(true) }(n)
			}
		default:
			res.Fault = "all-backends-restart-at-once"
			for _, n := range cl.Nodes {
				wg.Add(1)
				go func(n *simredis.Node) { defer wg.Done(); <-start; n.Shutdown(); n.Restart() }(n)
			}
		}
		close(start)
		wg.Wait()
		time.Sleep(40 * time.Millisecond)
		res.Failing = touch()
		for _, n := range cl.Nodes {
			if cnt := n.ConnCount(); cnt > res.MaxConns {
				res.MaxConns = cnt
			}
		}
		if err := w.Write(res); err != nil {
			return err
		}
	}
	return nil
}
