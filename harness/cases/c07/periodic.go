package c07

import (
	"encoding/json"
	"flag"
	"fmt"
	"net"
	"sync/atomic"
	"time"

	predis "github.com/samaritan-proxy/samaritan/proc/redis"
	"github.com/samaritan-proxy/samaritan/utils/verifhook"

	"verifharness/internal/cli"
	"verifharness/internal/simredis"
	"verifharness/internal/sut"
)

// c07-periodic replays RefreshGen histories with Periodic = TRUE: the refresh period is short (150 ms instead of two
// minutes), the loop also moves when its timer fires (Tick), and the layout changes are SILENT ones - the master is
// replaced by its replica while its address still accepts connections and closes them at once, so requests fail with
// "backend exited" and nothing asks for a refresh: only the periodic refresh heals. After the change requests are sent
// until one is served; the unchanged code needs about one period.
func init() { cli.Register("c07-periodic", periodic) }

const (
	refreshPeriod  = 150 * time.Millisecond
	periodicMinGap = 5 * time.Millisecond
	healPeriods    = 20 // the verdict "never healed" is taken after this many periods (the model: one, plus one in flight)
)

type prun struct {
	Followed     int     `json:"followed"`
	Diverged     string  `json:"diverged,omitempty"`
	TicksBefore  int64   `json:"ticksBefore"` // CLUSTER NODES requests the seed saw before the (last) silent change, after start-up
	TicksAfter   int64   `json:"ticksAfter"`  // ... between the change and the end of the healing phase
	Changed      bool    `json:"changed"`
	Closed       int64   `json:"closed"` // connections the old master's address accepted and closed at once
	Healed       bool    `json:"healed"`
	HealedMs     int64   `json:"healedMs"`
	HealedPeriod float64 `json:"healedPeriods"`
	Failed       int     `json:"failed"` // requests answered with an error (or not at all) until the first served one
	LastReply    string  `json:"lastReply"`
	Err          string  `json:"err,omitempty"`
}

type presult struct {
	ID      int    `json:"id"`
	Key     string `json:"key"`
	Run     prun   `json:"run"`
	Confirm *prun  `json:"confirm,omitempty"` // second run after a run that never healed
}

func periodicOne(b rbeh) (run prun) {
	maxLayout := 0
	for _, s := range b.Steps {
		if s.Layout > maxLayout {
			maxLayout = s.Layout
		}
	}
	n := maxLayout
	if n == 0 {
		n = 1
	}
	// masters 0 (seed) and 1, replicas of master 1 take over one after the other
	cl, err := simredis.NewCluster(2, n)
	if err != nil {
		run.Err = err.Error()
		return
	}
	defer cl.Close()
	owners := []int{1}
	for i := 1; i <= maxLayout; i++ {
		owners = append(owners, 2+n+i-1)
	}
	seed := cl.Nodes[0]
	var drained int64
	var oldAddr atomic.Value
	oldAddr.Store("")
	unhook := hookAdd(func(point string, a, _ interface{}) {
		if point == "client.Start.drained" && predis.VerifDescribe(a).Addr == oldAddr.Load().(string) {
			atomic.AddInt64(&drained, 1)
		}
	})
	defer unhook()
	px, err := sut.StartRedis(sut.RedisOpts{ConnectTO: 300 * time.Millisecond}, []string{seed.Addr})
	if err != nil {
		run.Err = "start: " + err.Error()
		return
	}
	defer sut.StopWithin(px.P, 5*time.Second)
	if !sut.WaitRefresh(px.Name, 3*time.Second) {
		run.Err = "slot table not loaded"
		return
	}
	key := cl.KeyFor(owners[0], "pr-")
	cl.Preload(key, []byte("v"))
	c, err := sut.Dial(px.Addr)
	if err != nil {
		run.Err = err.Error()
		return
	}
	defer func() { c.Close() }()
	if v, err := c.Do(3*time.Second, "get", key); err != nil || v.IsErr() || string(v.Str) != "v" {
		run.Err = fmt.Sprintf("warm-up: %v %v", v, err)
		return
	}
	stat := func(name string) int64 { return sut.ServiceStats(px.Name)["upstream.slots_refresh."+name] }
	asked0, succ0 := clusterCmds(seed), stat("success_total")
	var asked, succ int64
	waitFor := func(f func() bool, d time.Duration) bool {
		dl := time.Now().Add(d)
		for time.Now().Before(dl) {
			if f() {
				return true
			}
			time.Sleep(time.Millisecond)
		}
		return f()
	}
	layout := 0
	var closers []net.Listener
	var closed int64
	defer func() { run.Closed = atomic.LoadInt64(&closed) }()
	defer func() {
		for _, l := range closers {
			l.Close()
		}
	}()
	var changedAt time.Time
	silentChange := func() error {
		from, to := cl.Nodes[owners[layout]], owners[layout+1]
		layout++
		oldAddr.Store(from.Addr)
		d0, conns := atomic.LoadInt64(&drained), int64(from.ConnCount())
		cl.Failover(from.Idx, to, true) // the replica takes over, the old master's process is gone ...
		// ... but its address still accepts connections and closes them at once (restarting node, a virtual address
		// in front of a dead instance): a connect does not fail, the connection is lost right away - "backend exited"
		var ln net.Listener
		var err error
		for i := 0; i < 200; i++ {
			if ln, err = net.Listen("tcp", from.Addr); err == nil {
				break
			}
			time.Sleep(5 * time.Millisecond)
		}
		if err != nil {
			return err
		}
		closers = append(closers, ln)
		go func() {
			for {
				nc, err := ln.Accept()
				if err != nil {
					return
				}
				atomic.AddInt64(&closed, 1)
				nc.Close()
			}
		}()
		waitFor(func() bool { return atomic.LoadInt64(&drained) >= d0+conns }, time.Second)
		time.Sleep(5 * time.Millisecond)
		run.TicksBefore = clusterCmds(seed) - asked0
		changedAt = time.Now()
		run.Changed = true
		return nil
	}
steps:
	for _, s := range b.Steps {
		ok := true
		switch s.A {
		case "Tick":
			if run.Changed {
				break steps // what follows the silent change is judged below, with requests
			}
			// nobody asks for a refresh: the period elapses
			ok = waitFor(func() bool { return clusterCmds(seed)-asked0 > asked }, healPeriods*refreshPeriod)
			asked = clusterCmds(seed) - asked0
		case "Answer":
			ok = waitFor(func() bool { return stat("success_total")-succ0 > succ }, 3*time.Second)
			succ = stat("success_total") - succ0
		case "Wake":
			time.Sleep(periodicMinGap + 5*time.Millisecond)
		case "Change":
			if s.Phase != "silent" {
				run.Diverged = "only silent changes are replayed here"
				break steps
			}
			if err := silentChange(); err != nil {
				run.Err = "silent change: " + err.Error()
				return
			}
		default:
			run.Diverged = fmt.Sprintf("step %d (%s) is not replayed with a short period", run.Followed+1, s.A)
			break steps
		}
		if !ok {
			run.Diverged = fmt.Sprintf("step %d (%s) was not followed by the code", run.Followed+1, s.A)
			break
		}
		run.Followed++
	}
	if !run.Changed {
		return
	}
	// requests after the silent change: errors while the table still names the old master; the next periodic refresh
	// (nothing else) heals
	dl := changedAt.Add(healPeriods * refreshPeriod)
	for time.Now().Before(dl) {
		v, err := c.Do(3*time.Second, "get", key)
		if err != nil {
			run.LastReply = "none: " + err.Error()
			run.Failed++
			c.Close()
			if c, err = sut.Dial(px.Addr); err != nil {
				run.Err = "dial: " + err.Error()
				return
			}
			continue
		}
		run.LastReply = v.String()
		if !v.IsErr() && string(v.Str) == "v" {
			run.Healed = true
			run.HealedMs = time.Since(changedAt).Milliseconds()
			run.HealedPeriod = float64(time.Since(changedAt)) / float64(refreshPeriod)
			break
		}
		run.Failed++
		time.Sleep(10 * time.Millisecond)
	}
	run.TicksAfter = clusterCmds(seed) - asked0 - run.TicksBefore
	return
}

func periodic(args []string) error {
	fs := flag.NewFlagSet("c07-periodic", flag.ContinueOnError)
	in := fs.String("in", "", "behaviours (ndjson: key, steps)")
	out := fs.String("out", "", "results (ndjson)")
	if err := fs.Parse(args); err != nil {
		return err
	}
	// the period of the refresh loop: 150 ms (two minutes in production), minimum interval 5 ms
	predis.VerifSetSlotsRefreshTimers(refreshPeriod, periodicMinGap)
	verifhook.Set(hookDispatch)
	defer verifhook.Set(nil)
	w, err := cli.NewNDJSONWriter(*out)
	if err != nil {
		return err
	}
	defer w.Close()
	id := 0
	return cli.ReadNDJSON(*in, func(line []byte) error {
		var b rbeh
		if err := json.Unmarshal(line, &b); err != nil {
			return err
		}
		id++
		r := presult{ID: id, Key: b.Key}
		r.Run = periodicOne(b)
		if r.Run.Err != "" {
			r.Run = periodicOne(b) // infrastructure trouble: once more
		}
		if r.Run.Err == "" && r.Run.Changed && !r.Run.Healed {
			c := periodicOne(b) // confirming re-run
			r.Confirm = &c
		}
		return w.Write(r)
	})
}
