package c07

import (
	"encoding/json"
	"flag"
	"fmt"
	"sync"
	"sync/atomic"
	"time"

	pbredis "github.com/samaritan-proxy/samaritan/pb/config/protocol/redis"
	predis "github.com/samaritan-proxy/samaritan/proc/redis"
	"github.com/samaritan-proxy/samaritan/utils/verifhook"

	"verifharness/internal/cli"
	"verifharness/internal/simredis"
	"verifharness/internal/sut"
)

// c07-refresh replays RefreshGen histories on a real Redis processor: layout changes (a slot moves to another
// master / a master dies and a replica takes over), requests that notice the stale table (MOVED / failed connect),
// and the steps of the refresh loop. The only seed host is a node that owns none of the keys used and whose replies
// are held back, so the harness decides when the CLUSTER NODES reply that the node has ALREADY produced is
// installed by the proxy - layout changes and triggers can be placed inside that window.
func init() { cli.Register("c07-refresh", refresh) }

// minimum interval of the refresh loop during the replay: long enough for the environment steps the model places inside
// the pause (a failover takes a few ms), short enough for ~20 histories per run
const refreshMinRate = 100 * time.Millisecond

type rstep struct {
	A       string `json:"a"` // Change | Notice | Take | Answer | Fail | Wake
	Phase   string `json:"phase"`
	Layout  int    `json:"layout"`  // master assignment (version)
	RLayout int    `json:"rlayout"` // replica assignment (version)
	Table   int    `json:"table"`
	RTable  int    `json:"rtable"`
	Trig    bool   `json:"trig"`
	Loop    string `json:"loop"`
	Noticed bool   `json:"noticed"`
	Rounds  int    `json:"rounds"`
}

type rbeh struct {
	Flavour  string  `json:"flavour"`  // "move" | "failover"
	Strategy string  `json:"strategy"` // read strategy of the service: "MASTER" (default) | "REPLICA" | "BOTH" (flavour "move" only)
	Key      string  `json:"key"`      // stratum, "" for simulated histories
	Steps    []rstep `json:"steps"`
}

type rrun struct {
	Followed        int      `json:"followed"` // model steps the code followed
	Diverged        string   `json:"diverged,omitempty"`
	Notices         []string `json:"notices"`
	ExtraNotice     string   `json:"extraNotice,omitempty"` // the history ended with an unnoticed change: the first redirection
	Quiet           bool     `json:"quiet"`                 // the refresh loop came to rest before the probe
	ProbeReply      string   `json:"probeReply"`
	ProbeRedirected bool     `json:"probeRedirected"` // the probe was routed by a stale table (MOVED / ASK seen by a node)
	ProbeRedirects  int64    `json:"probeRedirects"`  // redirections caused by the probes (24 reads when reads are routed by the replica lists)
	ProbeErr        bool     `json:"probeErr"`        // the probe was answered with an error
	Asked           int64    `json:"asked"`           // CLUSTER NODES requests the seed received
	Success         int64    `json:"success"`
	Failure         int64    `json:"failure"`
	Err             string   `json:"err,omitempty"`
}

type rresult struct {
	ID      int    `json:"id"`
	Flavour string `json:"flavour"`
	Key     string `json:"key"`
	Run     rrun   `json:"run"`
	Confirm *rrun  `json:"confirm,omitempty"` // second run (longer rest) after a run that violated the predicate
}

func clusterCmds(n *simredis.Node) int64 {
	var k int64
	for _, r := range n.Records() {
		if r.Cmd() == "cluster" {
			k++
		}
	}
	return k
}

func refreshOne(b rbeh, rest time.Duration) (run rrun) {
	maxLayout, maxR := 0, 0
	for _, s := range b.Steps {
		if s.Layout > maxLayout {
			maxLayout = s.Layout
		}
		if s.RLayout > maxR {
			maxR = s.RLayout
		}
	}
	strategy := pbredis.ReadStrategy_MASTER
	switch b.Strategy {
	case "REPLICA":
		strategy = pbredis.ReadStrategy_REPLICA
	case "BOTH":
		strategy = pbredis.ReadStrategy_BOTH
	}
	byReplica := strategy != pbredis.ReadStrategy_MASTER
	if byReplica && b.Flavour != "move" {
		run.Err = "read strategy " + b.Strategy + " is replayed in flavour move only"
		return
	}
	startMu.Lock()
	locked := true
	unlock := func() {
		if locked {
			locked = false
			startMu.Unlock()
		}
	}
	defer unlock()
	var cl *simredis.Cluster
	var err error
	owners := []int{}       // owners[i]: node that owns the key under master assignment i
	reps := map[int][]int{} // master -> replicas that still follow it
	nrep := 0
	switch b.Flavour {
	case "move":
		// node 0 = seed, nodes 1.. = one owner per master assignment; when reads are routed by the replica lists every
		// master has maxR+1 replicas, a change of the replica assignment takes one of the owner's replicas away (it
		// follows the seed from then on): a table that still lists it sends some reads to a node that redirects them
		masters := maxLayout + 2
		if byReplica {
			nrep = maxR + 1
		}
		cl, err = simredis.NewCluster(masters, nrep)
		for i := 0; i <= maxLayout; i++ {
			owners = append(owners, i+1)
		}
		if err == nil {
			for m := 0; m < masters; m++ {
				for j := 0; j < nrep; j++ {
					reps[m] = append(reps[m], masters+m*nrep+j)
				}
			}
		}
	default:
		// masters 0 (seed) and 1, maxLayout replicas each: layout i>0 = the i-th replica of master 1 has taken over
		n := maxLayout
		if n == 0 {
			n = 1
		}
		cl, err = simredis.NewCluster(2, n)
		owners = append(owners, 1)
		for i := 1; i <= maxLayout; i++ {
			owners = append(owners, 2+n+i-1)
		}
	}
	if err != nil {
		run.Err = err.Error()
		return
	}
	defer cl.Close()
	seed := cl.Nodes[0]
	var drained sync.Map // backend address -> *int64
	cnt := func(addr string) *int64 {
		v, _ := drained.LoadOrStore(addr, new(int64))
		return v.(*int64)
	}
	unhook := hookAdd(func(point string, a, _ interface{}) {
		if point == "client.Start.drained" {
			atomic.AddInt64(cnt(predis.VerifDescribe(a).Addr), 1)
		}
	})
	defer unhook()
	px, err := sut.StartRedis(sut.RedisOpts{ConnectTO: 300 * time.Millisecond, ReadStrategy: strategy}, []string{seed.Addr})
	unlock()
	if err != nil {
		run.Err = "start: " + err.Error()
		return
	}
	defer sut.StopWithin(px.P, 5*time.Second)
	if !sut.WaitRefresh(px.Name, 3*time.Second) {
		run.Err = "slot table not loaded"
		return
	}
	key := cl.KeyFor(owners[0], "rf-")
	slot := simredis.Slot([]byte(key))
	cl.Preload(key, []byte("v"))
	c, err := sut.Dial(px.Addr)
	if err != nil {
		run.Err = err.Error()
		return
	}
	defer c.Close()
	if v, err := c.Do(3*time.Second, "get", key); err != nil || v.IsErr() || string(v.Str) != "v" {
		run.Err = fmt.Sprintf("warm-up: %v %v", v, err)
		return
	}
	// the loop has done its first refresh; let its minimum interval pass: loop = "wait", no token (Init of the module)
	time.Sleep(refreshMinRate + 20*time.Millisecond)
	seed.SetGate(true)
	stat := func(name string) int64 { return sut.ServiceStats(px.Name)["upstream.slots_refresh."+name] }
	asked0 := clusterCmds(seed)
	succ0, fail0 := stat("success_total"), stat("failure_total")
	var asked, succ, fail int64
	waitFor := func(f func() bool, d time.Duration) bool {
		dl := time.Now().Add(d)
		for time.Now().Before(dl) {
			if f() {
				return true
			}
			time.Sleep(500 * time.Microsecond)
		}
		return f()
	}
	layout := 0
	changes := 0
	change := func(kind string) {
		changes++
		if kind == "replica" {
			// a replica leaves the owner of the key (the master stays)
			o := owners[layout]
			if len(reps[o]) == 0 {
				return
			}
			r := reps[o][0]
			reps[o] = reps[o][1:]
			cl.Reassign(r, 0)
			return
		}
		from, to := cl.Nodes[owners[layout]], owners[layout+1]
		layout++
		if b.Flavour == "move" {
			cl.MoveSlot(slot, to)
			return
		}
		// the master dies, its replica takes over; wait until the proxy has processed the loss of its connection
		// (otherwise a request may meet the dying client: an error without a connect attempt)
		d0 := atomic.LoadInt64(cnt(from.Addr))
		conns := int64(from.ConnCount())
		cl.Failover(from.Idx, to, true)
		waitFor(func() bool { return atomic.LoadInt64(cnt(from.Addr)) >= d0+conns }, time.Second)
		time.Sleep(5 * time.Millisecond)
	}
	notice := func() string {
		// a request that meets the stale table; when reads are spread over several nodes only some of them do: send
		// reads until one was redirected (a fresh table: none is)
		tries := 1
		if byReplica {
			tries = 40
		}
		last := ""
		for i := 0; i < tries; i++ {
			red0 := atomic.LoadInt64(&cl.Redirects)
			v, err := c.Do(3*time.Second, "get", key)
			if err != nil {
				return "none: " + err.Error()
			}
			last = v.String()
			if v.IsErr() || atomic.LoadInt64(&cl.Redirects) != red0 {
				break
			}
		}
		return last
	}
	noticedSinceChange := false // by the harness' own order of actions: a request has met the stale table since the last change
	for _, s := range b.Steps {
		ok := true
		if (s.A == "Change" || s.A == "Notice") && clusterCmds(seed)-asked0 > asked {
			// the loop has asked for the next table before the environment step the model places in front of that
			run.Diverged = fmt.Sprintf("step %d (%s): the refresh loop ran ahead of the history", run.Followed+1, s.A)
			break
		}
		switch s.A {
		case "Change":
			change(s.Phase)
			noticedSinceChange = false
		case "Notice":
			run.Notices = append(run.Notices, notice())
			noticedSinceChange = true
		case "Take":
			ok = waitFor(func() bool { return clusterCmds(seed)-asked0 > asked }, 2*time.Second)
			if ok {
				asked++
				// the node has produced its reply (held back by the gate)
				ok = waitFor(func() bool { return seed.Pending() > 0 }, time.Second)
			}
		case "Answer":
			seed.Release(seed.Pending())
			ok = waitFor(func() bool { return stat("success_total")-succ0 > succ }, 2*time.Second)
			if ok {
				succ++
			}
		case "Fail":
			seed.ResetConns(true)
			ok = waitFor(func() bool { return stat("failure_total")-fail0 > fail }, 2*time.Second)
			if ok {
				fail++
			}
		case "Wake":
			time.Sleep(refreshMinRate + 20*time.Millisecond)
		}
		if !ok {
			run.Diverged = fmt.Sprintf("step %d (%s) was not followed by the code", run.Followed+1, s.A)
			break
		}
		run.Followed++
	}
	// the environment stops interfering: everything the seed holds is delivered, later replies are immediate
	seed.SetGate(false)
	quiesce := func() bool {
		type snap struct{ a, s, f int64 }
		get := func() snap {
			return snap{clusterCmds(seed) - asked0, stat("success_total") - succ0, stat("failure_total") - fail0}
		}
		last, since := get(), time.Now()
		dl := time.Now().Add(6 * time.Second)
		for time.Now().Before(dl) {
			time.Sleep(2 * time.Millisecond)
			cur := get()
			if cur != last {
				last, since = cur, time.Now()
				continue
			}
			if cur.a <= cur.s+cur.f && time.Since(since) >= rest {
				return true
			}
		}
		return false
	}
	run.Quiet = quiesce()
	if !noticedSinceChange && changes > 0 {
		// nobody has met the table since the last change (whatever the loop has installed meanwhile): if the table is stale,
		// this request is the first redirection
		run.ExtraNotice = notice()
		run.Quiet = quiesce()
	}
	// the rounds triggered by the first redirection are over: requests are no longer redirected, and not answered
	// with errors (the owner is reachable)
	probes := 1
	if byReplica {
		probes = 24 // reads are spread over the master / the replicas of the table
	}
	red0 := atomic.LoadInt64(&cl.Redirects)
	for i := 0; i < probes && !run.ProbeErr; i++ {
		v, err := c.Do(3*time.Second, "get", key)
		if err != nil {
			run.ProbeReply = "none: " + err.Error()
			run.ProbeErr = true
		} else {
			run.ProbeReply = v.String()
			run.ProbeErr = v.IsErr() || string(v.Str) != "v"
		}
	}
	run.ProbeRedirects = atomic.LoadInt64(&cl.Redirects) - red0
	run.ProbeRedirected = run.ProbeRedirects != 0
	run.Asked, run.Success, run.Failure = clusterCmds(seed)-asked0, stat("success_total")-succ0, stat("failure_total")-fail0
	return
}

func refresh(args []string) error {
	fs := flag.NewFlagSet("c07-refresh", flag.ContinueOnError)
	in := fs.String("in", "", "behaviours (ndjson: flavour, key, steps)")
	out := fs.String("out", "", "results (ndjson)")
	par := fs.Int("par", 4, "histories replayed at the same time")
	if err := fs.Parse(args); err != nil {
		return err
	}
	// only requests trigger refreshes (the periodic one is an hour away, 2 minutes in production)
	predis.VerifSetSlotsRefreshTimers(time.Hour, refreshMinRate)
	verifhook.Set(hookDispatch)
	defer verifhook.Set(nil)
	w, err := cli.NewNDJSONWriter(*out)
	if err != nil {
		return err
	}
	defer w.Close()
	var all []rbeh
	if err := cli.ReadNDJSON(*in, func(line []byte) error {
		var b rbeh
		if err := json.Unmarshal(line, &b); err != nil {
			return err
		}
		all = append(all, b)
		return nil
	}); err != nil {
		return err
	}
	results := make([]*rresult, len(all))
	var mu sync.Mutex
	next := 0
	var werr error
	jobs := make(chan int)
	var wg sync.WaitGroup
	for k := 0; k < *par; k++ {
		wg.Add(1)
		go func() {
			defer wg.Done()
			for i := range jobs {
				b := all[i]
				r := &rresult{ID: i + 1, Flavour: b.Flavour, Key: b.Key}
				r.Run = refreshOne(b, 4*refreshMinRate)
				if r.Run.Err != "" {
					// infrastructure trouble: once more
					r.Run = refreshOne(b, 4*refreshMinRate)
				}
				if r.Run.Err == "" && (r.Run.ProbeRedirected || r.Run.ProbeErr) {
					// confirming re-run with a longer rest before the probe
					c := refreshOne(b, 10*refreshMinRate)
					r.Confirm = &c
				}
				mu.Lock()
				results[i] = r
				for next < len(results) && results[next] != nil {
					if err := w.Write(results[next]); err != nil && werr == nil {
						werr = err
					}
					next++
				}
				mu.Unlock()
			}
		}()
	}
	for i := range all {
		jobs <- i
	}
	close(jobs)
	wg.Wait()
	return werr
}
