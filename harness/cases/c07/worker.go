package c07

import (
	"bytes"
	"context"
	"encoding/json"
	"fmt"
	"os"
	"os/exec"
	"strings"
	"sync"
	"time"
)

// Items (histories, traffic scenarios) are run in worker processes, one item per process: the processor under test
// lives in the worker, so a panic in a goroutine of the proxy kills the worker only and is attributed to the item it
// was running. A death with frames of the code under test on the panicking goroutine's stack is confirmed by running
// the item once more.

const repoPkg = "github.com/samaritan-proxy/samaritan/"

type crashInfo struct {
	Panic     string `json:"panic"`
	Frame     string `json:"frame"` // first frame of the code under test on the panicking goroutine's stack
	Confirmed bool   `json:"confirmed"`
	Stack     string `json:"stack"`
}

// crashOf extracts the panic line and the first frame of the code under test of the panicking goroutine.
func crashOf(stderr string) (panicLine, frame string) {
	lines := strings.Split(stderr, "\n")
	for i, l := range lines {
		if !strings.HasPrefix(l, "panic:") && !strings.HasPrefix(l, "fatal error:") {
			continue
		}
		seen := false
		for _, m := range lines[i+1:] {
			if strings.HasPrefix(m, "goroutine ") {
				if seen {
					break
				}
				seen = true
				continue
			}
			if seen && m != "" && m[0] != '\t' && m[0] != ' ' && strings.HasPrefix(m, repoPkg) {
				f := strings.TrimSpace(m[len(repoPkg):])
				if strings.HasSuffix(f, ")") {
					if k := strings.LastIndex(f, "("); k > 0 {
						f = f[:k]
					}
				}
				if k := strings.LastIndex(f, "/"); k >= 0 {
					f = f[k+1:]
				}
				return strings.TrimSpace(l), f
			}
		}
		return strings.TrimSpace(l), ""
	}
	return "", ""
}

// runWorker runs `<this binary> <sub> -worker <extra>` with item on stdin; stdout is the worker's result (one JSON value).
func runWorker(sub string, extra []string, item []byte, timeout time.Duration) (out []byte, stderr string, err error) {
	ctx, cancel := context.WithTimeout(context.Background(), timeout)
	defer cancel()
	cmd := exec.CommandContext(ctx, os.Args[0], append([]string{sub, "-worker"}, extra...)...)
	cmd.Stdin = bytes.NewReader(item)
	var so, se bytes.Buffer
	cmd.Stdout, cmd.Stderr = &so, &limitedBuffer{max: 1 << 20, b: &se}
	err = cmd.Run()
	if ctx.Err() != nil {
		err = fmt.Errorf("worker killed after %v", timeout)
	}
	return so.Bytes(), se.String(), err
}

// limitedBuffer keeps the first max bytes (a dying process can log a lot).
type limitedBuffer struct {
	max int
	b   *bytes.Buffer
}

func (l *limitedBuffer) Write(p []byte) (int, error) {
	if room := l.max - l.b.Len(); room > 0 {
		if len(p) > room {
			l.b.Write(p[:room])
		} else {
			l.b.Write(p)
		}
	}
	return len(p), nil
}

// workerResult is what the parent records for an item.
type workerResult struct {
	Out   json.RawMessage // the worker's own result (nil if it died)
	Crash *crashInfo
	Err   string // infrastructure trouble (the worker died outside the code under test, was killed, wrote nothing)
}

func runItem(sub string, extra []string, item []byte, timeout time.Duration) (res workerResult) {
	for attempt := 0; attempt < 2; attempt++ {
		out, se, err := runWorker(sub, extra, item, timeout)
		if err == nil && json.Valid(bytes.TrimSpace(out)) && len(bytes.TrimSpace(out)) > 0 {
			if res.Crash != nil {
				// died the first time, ran through the second time: recorded as not reproduced
				res.Out = bytes.TrimSpace(out)
				return
			}
			return workerResult{Out: bytes.TrimSpace(out)}
		}
		pl, fr := crashOf(se)
		if pl != "" && fr != "" {
			if res.Crash != nil {
				res.Crash.Confirmed = res.Crash.Frame == fr
				return
			}
			st := se
			if k := strings.Index(st, pl); k >= 0 {
				st = st[k:]
			}
			if len(st) > 3000 {
				st = st[:3000]
			}
			res.Crash = &crashInfo{Panic: pl, Frame: fr, Stack: st}
			continue // confirmation run
		}
		tail := se
		if len(tail) > 600 {
			tail = tail[len(tail)-600:]
		}
		res.Err = fmt.Sprintf("worker: %v: %s", err, tail)
	}
	return
}

// runAll runs n items, par at a time, and hands the results over in input order.
func runAll(n, par int, run func(i int) workerResult, emit func(i int, r workerResult) error) error {
	results := make([]*workerResult, n)
	var mu sync.Mutex
	next := 0
	var werr error
	jobs := make(chan int)
	var wg sync.WaitGroup
	for k := 0; k < par; k++ {
		wg.Add(1)
		go func() {
			defer wg.Done()
			for i := range jobs {
				r := run(i)
				mu.Lock()
				results[i] = &r
				for next < n && results[next] != nil {
					if err := emit(next, *results[next]); err != nil && werr == nil {
						werr = err
					}
					next++
				}
				mu.Unlock()
			}
		}()
	}
	for i := 0; i < n; i++ {
		jobs <- i
	}
	close(jobs)
	wg.Wait()
	return werr
}
