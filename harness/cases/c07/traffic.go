package c07

import (
	"encoding/json"
	"flag"
	"fmt"
	"math/rand"
	"os"
	"strconv"
	"sync"
	"sync/atomic"
	"time"

	"github.com/samaritan-proxy/samaritan/host"
	predis "github.com/samaritan-proxy/samaritan/proc/redis"
	"github.com/samaritan-proxy/samaritan/proc/redis/hotkey"

	"verifharness/internal/cli"
	"verifharness/internal/simredis"
	"verifharness/internal/sut"
)

// c07-traffic: the clients of all backends are stopped / lose their connections again and again while several
// sessions keep sending keyed commands to the same addresses and the hot-key collector runs its passes back to back
// (the counters it hands out per backend address, and its lock, are shared between the old and the new connection of
// an address; client.Stop frees the counter). Every request must be answered, and when the faults are over every
// backend must be served again over a new connection. One worker process per item: a death of the process is
// attributed to the item.
func init() { cli.Register("c07-traffic", traffic) }

type trafficItem struct {
	Fault    string `json:"fault"` // "ResetAll" (OnSvcAllHostReplace) | "Remove" (OnSvcHostRemove + OnSvcHostAdd) | "ConnLost"
	Rounds   int    `json:"rounds"`
	Nodes    int    `json:"nodes"`
	Sessions int    `json:"sessions"`
	Seed     int64  `json:"seed"`
}

type trafficResult struct {
	ID       int        `json:"id"`
	Fault    string     `json:"fault"`
	Rounds   int        `json:"rounds"`  // rounds done
	Sent     int64      `json:"sent"`    // requests of the sessions
	OK       int64      `json:"ok"`      // answered with a value
	Errs     int64      `json:"errs"`    // answered with an error (allowed while connections are being lost / stopped)
	NoReply  int64      `json:"noReply"` // not answered within 4 s
	FirstNo  string     `json:"firstNo,omitempty"`
	Hung     string     `json:"hung,omitempty"` // a host-list call that did not return within 5 s
	Failing  []string   `json:"failing"`        // backends whose keys still fail when the faults are over (all are reachable)
	NewConns bool       `json:"newConns"`       // every backend accepted a new connection after the last fault
	MaxConns int        `json:"maxConns"`       // open proxy connections to one backend after quiescence
	StopOK   bool       `json:"stopOK"`
	Collects string     `json:"collects"`       // collector interval used
	Late     []string   `json:"late,omitempty"` // host-list calls that needed more than 5 s (but returned within 10 s): loaded machine, no verdict
	Err      string     `json:"err,omitempty"`
	Crash    *crashInfo `json:"crash,omitempty"`
}

func within(d time.Duration, f func()) bool {
	done := make(chan struct{})
	go func() { f(); close(done) }()
	select {
	case <-done:
		return true
	case <-time.After(d):
		return false
	}
}

// returnsPatiently: f returns within 5 s, or (late) within 10 s; a call that has not returned by then is hung
func returnsPatiently(f func()) (returned, late bool) {
	done := make(chan struct{})
	go func() { f(); close(done) }()
	select {
	case <-done:
		return true, false
	case <-time.After(5 * time.Second):
	}
	select {
	case <-done:
		return true, true
	case <-time.After(5 * time.Second):
		return false, false
	}
}

func trafficOne(id int, it trafficItem) (res trafficResult) {
	res = trafficResult{ID: id, Fault: it.Fault}
	// the collector's passes follow each other as fast as the ticker allows (10 s in production): a stop of a client
	// (Counter.Free) falls into a pass with a useful probability
	collect := 20 * time.Microsecond
	res.Collects = collect.String()
	restore := hotkey.VerifSetDefaultIntervals(collect, time.Hour)
	defer restore()
	predis.VerifSetSlotsRefreshTimers(time.Hour, 20*time.Millisecond)
	rnd := rand.New(rand.NewSource(it.Seed))
	cl, err := simredis.NewCluster(it.Nodes, 0)
	if err != nil {
		res.Err = err.Error()
		return
	}
	defer cl.Close()
	px, err := sut.StartRedis(sut.RedisOpts{}, cl.Addrs())
	if err != nil {
		res.Err = "start: " + err.Error()
		return
	}
	if !sut.WaitRefresh(px.Name, 3*time.Second) {
		res.Err = "slot table not loaded"
		return
	}
	hosts := func() []*host.Host {
		hs := make([]*host.Host, 0, it.Nodes)
		for _, a := range cl.Addrs() {
			hs = append(hs, host.New(a))
		}
		return hs
	}
	// keys: 40 per backend (the counters keep at most 50 keys each; a pass latches every counter: the fuller, the longer)
	keys := make([][]string, it.Nodes)
	for n := 0; n < it.Nodes; n++ {
		for k := 0; k < 40; k++ {
			keys[n] = append(keys[n], cl.KeyFor(n, fmt.Sprintf("t%d-%d-", n, k)))
		}
	}
	var stop int32
	var wg sync.WaitGroup
	var mu sync.Mutex
	for s := 0; s < it.Sessions; s++ {
		wg.Add(1)
		go func(s int) {
			defer wg.Done()
			r := rand.New(rand.NewSource(it.Seed*1000 + int64(s)))
			c, err := sut.Dial(px.Addr)
			if err != nil {
				return
			}
			defer c.Close()
			for atomic.LoadInt32(&stop) == 0 {
				n := r.Intn(it.Nodes)
				key := keys[n][r.Intn(len(keys[n]))]
				atomic.AddInt64(&res.Sent, 1)
				var err error
				var isErr bool
				if r.Intn(3) == 0 {
					v, e := c.Do(4*time.Second, "set", key, "v")
					err, isErr = e, e == nil && v.IsErr()
				} else {
					v, e := c.Do(4*time.Second, "get", key)
					err, isErr = e, e == nil && v.IsErr()
				}
				switch {
				case err != nil:
					atomic.AddInt64(&res.NoReply, 1)
					mu.Lock()
					if res.FirstNo == "" {
						res.FirstNo = fmt.Sprintf("session %d, key of backend %d: %v", s, n, err)
					}
					mu.Unlock()
					return // the connection is out of step now
				case isErr:
					atomic.AddInt64(&res.Errs, 1)
				default:
					atomic.AddInt64(&res.OK, 1)
				}
			}
		}(s)
	}
	time.Sleep(20 * time.Millisecond)
	accepts := make([]int, it.Nodes)
	for r := 0; r < it.Rounds && res.Hung == "" && atomic.LoadInt64(&res.NoReply) == 0; r++ {
		call := func(name string, f func()) bool {
			ok, late := returnsPatiently(f)
			if late {
				res.Late = append(res.Late, name)
			}
			if !ok {
				res.Hung = name
			}
			return ok
		}
		switch it.Fault {
		case "ResetAll":
			call("OnSvcAllHostReplace", func() { px.P.OnSvcAllHostReplace(hosts()) })
		case "Remove":
			if call("OnSvcHostRemove", func() { px.P.OnSvcHostRemove(hosts()) }) {
				call("OnSvcHostAdd", func() { px.P.OnSvcHostAdd(hosts()) })
			}
		case "ConnLost":
			var fw sync.WaitGroup
			for _, n := range cl.Nodes {
				fw.Add(1)
				go func(n *simredis.Node) { defer fw.Done(); n.ResetConns(true) }(n)
			}
			fw.Wait()
		}
		res.Rounds++
		for i, n := range cl.Nodes {
			accepts[i] = n.AcceptCount()
		}
		time.Sleep(time.Duration(5+rnd.Intn(30)) * time.Millisecond)
	}
	// the faults are over, the traffic goes on for a moment, then the sessions finish their request in hand
	time.Sleep(60 * time.Millisecond)
	atomic.StoreInt32(&stop, 1)
	within(6*time.Second, wg.Wait)
	// healing: every backend is reachable (it was all the time): its keys are served, over a connection made after the last fault
	c, err := sut.Dial(px.Addr)
	if err != nil {
		res.Err = "dial: " + err.Error()
		return
	}
	defer func() { c.Close() }()
	res.NewConns = true
	for n := 0; n < it.Nodes; n++ {
		okv, last := false, ""
		// a deadlocked proxy never answers; a starved one does when it is given more time on a fresh connection
		for _, to := range []time.Duration{3 * time.Second, 6 * time.Second} {
			for try := 0; try < 4 && !okv; try++ {
				v, err := c.Do(to, "get", keys[n][0])
				if err != nil {
					last = "no reply: " + err.Error()
					c.Close()
					if c, err = sut.Dial(px.Addr); err != nil {
						res.Err = "dial: " + err.Error()
						return
					}
					break
				}
				if !v.IsErr() {
					okv = true
				} else {
					last = v.String()
					time.Sleep(20 * time.Millisecond)
				}
			}
			if okv || last[:2] != "no" {
				break
			}
		}
		if !okv {
			res.Failing = append(res.Failing, fmt.Sprintf("node%d: %s", n, last))
			if last[:2] == "no" {
				break // not answered with 3 s and with 6 s: the other backends would only add waiting time
			}
		} else if res.Rounds > 0 && cl.Nodes[n].AcceptCount() <= accepts[n] && cl.Nodes[n].ConnCount() == 0 {
			res.NewConns = false
		}
	}
	dl := time.Now().Add(2 * time.Second)
	for {
		res.MaxConns = 0
		for _, n := range cl.Nodes {
			if k := n.ConnCount(); k > res.MaxConns {
				res.MaxConns = k
			}
		}
		if res.MaxConns <= 1 || time.Now().After(dl) {
			break
		}
		time.Sleep(5 * time.Millisecond)
	}
	to := 5 * time.Second
	if res.Hung != "" || len(res.Failing) > 0 {
		to = time.Second
	}
	res.StopOK = sut.StopWithin(px.P, to)
	return
}

func traffic(args []string) error {
	fs := flag.NewFlagSet("c07-traffic", flag.ContinueOnError)
	in := fs.String("in", "", "items (ndjson)")
	out := fs.String("out", "", "results (ndjson)")
	par := fs.Int("par", 3, "items at the same time (one worker process each)")
	worker := fs.Bool("worker", false, "run the one item on stdin in this process, result on stdout")
	id := fs.Int("id", 1, "worker: id of the item")
	if err := fs.Parse(args); err != nil {
		return err
	}
	if *worker {
		var it trafficItem
		if err := json.NewDecoder(os.Stdin).Decode(&it); err != nil {
			return err
		}
		r := trafficOne(*id, it)
		if r.Err != "" {
			r = trafficOne(*id, it)
		}
		return json.NewEncoder(os.Stdout).Encode(r)
	}
	w, err := cli.NewNDJSONWriter(*out)
	if err != nil {
		return err
	}
	defer w.Close()
	var all [][]byte
	if err := cli.ReadNDJSON(*in, func(line []byte) error {
		all = append(all, line)
		return nil
	}); err != nil {
		return err
	}
	parse := func(i int, r workerResult) trafficResult {
		var it trafficItem
		json.Unmarshal(all[i], &it)
		res := trafficResult{ID: i + 1, Fault: it.Fault}
		if r.Out != nil {
			if err := json.Unmarshal(r.Out, &res); err != nil {
				res.Err = "worker result: " + err.Error()
			}
		}
		res.Crash = r.Crash
		if r.Err != "" {
			res.Err = r.Err
		}
		return res
	}
	return runAll(len(all), *par, func(i int) workerResult {
		return runItem("c07-traffic", []string{"-id", strconv.Itoa(i + 1)}, all[i], 180*time.Second)
	}, func(i int, r workerResult) error {
		return w.Write(parse(i, r))
	})
}
