package c02

import (
	"flag"
	"fmt"
	"time"

	"github.com/samaritan-proxy/samaritan/host"
	predis "github.com/samaritan-proxy/samaritan/proc/redis"

	"verifharness/internal/cli"
	"verifharness/internal/simredis"
	"verifharness/internal/sut"
)

func init() { cli.Register("c02-multifail", multiFail) }

type multiFailResult struct {
	Case    string   `json:"case"`
	Cmd     string   `json:"cmd"`
	Replies []string `json:"replies"`
	OK      bool     `json:"ok"`
	Why     string   `json:"why,omitempty"`
}

// multiFail: split requests (MSET / MGET / DEL / EXISTS / TOUCH / UNLINK) whose children fail - several of them, all of
// them, for different reasons - must still be answered exactly once (a second completion closes a closed channel:
// the process dies, which the orchestrator sees as a crash of this harness process).
func multiFail(args []string) error {
	fs := flag.NewFlagSet("c02-multifail", flag.ContinueOnError)
	out := fs.String("out", "", "results (ndjson)")
	if err := fs.Parse(args); err != nil {
		return err
	}
	predis.VerifSetSlotsRefreshTimers(time.Hour, 20*time.Millisecond)
	w, err := newLineWriter(*out) // unbuffered: a double completion kills this process
	if err != nil {
		return err
	}
	defer w.Close()
	cmds := [][]string{
		{"MSET", "{a}1", "v", "{b}2", "v", "{c}3", "v"},
		{"mget", "{a}1", "{b}2", "{c}3"},
		{"DEL", "{a}1", "{b}2", "{c}3", "{d}4"},
		{"exists", "{a}1", "{b}2"},
		{"TOUCH", "{a}1", "{a}2"},
		{"unlink", "{a}1", "{b}2", "{c}3"},
		{"MSET", "k", "v"},
	}
	scenarios := []string{"all-backends-down", "connection-reset-with-children-in-flight", "no-available-host", "error-replies", "host-removed-with-children-in-flight", "stop-with-children-in-flight"}
	for _, sc := range scenarios {
		for _, cmd := range cmds {
			cl, err := simredis.NewCluster(2, 0)
			if err != nil {
				return err
			}
			px, err := sut.StartRedis(sut.RedisOpts{ConnectTO: 300 * time.Millisecond}, cl.Addrs())
			if err != nil {
				return err
			}
			sut.WaitRefresh(px.Name, 3*time.Second)
			c, err := sut.Dial(px.Addr)
			if err != nil {
				return err
			}
			c.Do(2*time.Second, "mget", cl.KeyFor(0, "w"), cl.KeyFor(1, "w"))
			res := multiFailResult{Case: sc, Cmd: fmt.Sprint(cmd)}
			stopped := false
			switch sc {
			case "all-backends-down":
				for _, n := range cl.Nodes {
					n.Shutdown()
				}
				time.Sleep(30 * time.Millisecond)
			case "connection-reset-with-children-in-flight", "host-removed-with-children-in-flight", "stop-with-children-in-flight":
				for _, n := range cl.Nodes {
					n.SetGate(true)
				}
			case "no-available-host":
				var hs []*host.Host
				for _, a := range cl.Addrs() {
					hs = append(hs, host.New(a))
				}
				px.P.OnSvcHostRemove(hs)
				time.Sleep(10 * time.Millisecond)
			case "error-replies":
				for _, n := range cl.Nodes {
					n.Script(&simredis.Scripted{Match: func(c string, a [][]byte) bool { return c != "cluster" && c != "readonly" }, Raw: []byte("-ERR simulated failure\r\n")})
				}
			}
			c.SendCmd(cmd...)
			switch sc {
			case "connection-reset-with-children-in-flight":
				time.Sleep(20 * time.Millisecond)
				for _, n := range cl.Nodes {
					n.ResetConns(true)
				}
			case "host-removed-with-children-in-flight":
				time.Sleep(20 * time.Millisecond)
				var hs []*host.Host
				for _, a := range cl.Addrs() {
					hs = append(hs, host.New(a))
				}
				px.P.OnSvcHostRemove(hs)
			case "stop-with-children-in-flight":
				time.Sleep(20 * time.Millisecond)
				stopped = true
				go sut.StopWithin(px.P, 5*time.Second)
			}
			for i := 0; i < 3; i++ {
				d := 4 * time.Second
				if i > 0 {
					d = 40 * time.Millisecond
				}
				v, err := c.Recv(d)
				if err != nil {
					if i == 0 && !stopped {
						res.Why = "no reply: " + err.Error()
					}
					break
				}
				res.Replies = append(res.Replies, v.String())
			}
			res.OK = len(res.Replies) == 1 || (stopped && len(res.Replies) <= 1)
			if !res.OK && res.Why == "" {
				res.Why = fmt.Sprintf("%d replies for one request", len(res.Replies))
			}
			c.Close()
			w.Write(res)
			if !stopped {
				sut.StopWithin(px.P, 5*time.Second)
			} else {
				time.Sleep(100 * time.Millisecond)
			}
			cl.Close()
		}
	}
	return nil
}
