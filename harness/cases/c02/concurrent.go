package c02

import (
	"encoding/json"
	"flag"
	"fmt"
	"os"
	"strings"
	"sync"
	"sync/atomic"
	"time"

	predis "github.com/samaritan-proxy/samaritan/proc/redis"
	"github.com/samaritan-proxy/samaritan/utils/verifhook"

	"verifharness/internal/cli"
	"verifharness/internal/resp"
	"verifharness/internal/simredis"
	"verifharness/internal/sut"
)

func init() { cli.Register("c02-concurrent", concurrentChildren) }

// splitVector is one vector of spec/redis/UpstreamSplit.tla (EmitVector): a split request with N children, the backend
// connection that holds each child, how that connection answers ("reply": its reader gets the replies, "drain": it is
// reset and the tail of Start answers what is queued) and the children that are inside SetResponse at the same instant.
type splitVector struct {
	N     int      `json:"n"`
	Place []int    `json:"place"` // 1-based connection per child
	Modes []string `json:"modes"` // per child: mode of its connection
	Group []int    `json:"group"` // 1-based children answered at the same instant (at most one per connection)
}

type concurrentResult struct {
	Vector    splitVector `json:"vector"`
	Rounds    int         `json:"rounds"`    // rounds run (a round is a pipeline of `batch` requests)
	Requests  int         `json:"requests"`  // split requests sent
	Aligned   int         `json:"aligned"`   // requests whose group was inside SetResponse at once
	Unaligned int         `json:"unaligned"` // rounds in which a child never reached its node (answered at once by a connection going down)
	Replies   int         `json:"replies"`   // requests with exactly one reply
	Lost      int         `json:"lost"`      // requests without a reply on their open connection
	Extra     int         `json:"extra"`     // rounds with more replies than requests
	Double    bool        `json:"double"`    // a parent was completed a second time (the caller was stopped in front of the panic)
	DoubleCmd string      `json:"doubleCmd,omitempty"`
	FirstBad  string      `json:"firstBad,omitempty"`
	Err       string      `json:"err,omitempty"`
}

// ccBarrier lines the goroutines up that answer the group of ONE request.
type ccBarrier struct {
	need    int32
	arrived int32
	aligned int32
	jitter  int32 // spin iterations the first arrival adds after the line-up (sweeps the offset between the goroutines)
}

// ccRound is what the hook needs to know about the round in progress (immutable once published, counters aside).
type ccRound struct {
	group   map[string]*ccBarrier // key of a child to line up -> barrier of its request
	others  map[string]bool       // keys of the other children
	timeout time.Duration
	done    int32 // children of `others` that entered SetResponse
}

type ccHook struct {
	cur    atomic.Value // *ccRound
	mu     sync.Mutex
	raws   map[string]int // completions per split request (command text, unique per request)
	double int32
	dblCmd atomic.Value // string
}

var ccSink int32

func (h *ccHook) fn(point string, a, b interface{}) {
	switch point {
	case "simpleRequest.SetResponse":
		r, _ := h.cur.Load().(*ccRound)
		if r == nil {
			return
		}
		d := predis.VerifDescribe(a)
		if len(d.Args) < 2 {
			return
		}
		key := d.Args[1]
		if r.others[key] {
			atomic.AddInt32(&r.done, 1)
			return
		}
		bar := r.group[key]
		if bar == nil {
			return
		}
		// line the goroutines that answer the last children of this request up: spin until all of them are here (or give up)
		n := atomic.AddInt32(&bar.arrived, 1)
		if n >= bar.need {
			atomic.StoreInt32(&bar.aligned, 1)
			return
		}
		dl := time.Now().Add(r.timeout)
		for i := 0; atomic.LoadInt32(&bar.arrived) < bar.need; i++ {
			if i&1023 == 1023 && time.Now().After(dl) {
				return
			}
		}
		if n == 1 {
			for i := int32(0); i < bar.jitter; i++ {
				atomic.AddInt32(&ccSink, 1)
			}
		}
	case "rawRequest.SetResponse":
		d := predis.VerifDescribe(a)
		if len(d.Args) == 0 || !isSplitCmd(d.Args[0]) {
			return
		}
		// identity: the command text (the keys are unique per request); a pointer may be reused once the request is garbage
		id := strings.Join(d.Args, " ")
		h.mu.Lock()
		h.raws[id]++
		n := h.raws[id]
		h.mu.Unlock()
		if n >= 2 {
			// the second completion of one request: close(done) would panic and take the process down. Report it
			// and keep this goroutine in front of the close for ever.
			h.dblCmd.Store(id)
			atomic.StoreInt32(&h.double, 1)
			select {}
		}
	}
}

func isSplitCmd(c string) bool {
	switch strings.ToLower(c) {
	case "del", "exists", "touch", "unlink", "mget", "mset":
		return true
	}
	return false
}

var splitCmds = []string{"del", "exists", "mget", "touch", "mset", "unlink"}

func isPong(v resp.Value) bool { return v.Kind == '+' && string(v.Str) == "PONG" }

// runVector runs one vector for `rounds` rounds of `batch` pipelined requests on a fresh proxy in front of three nodes.
func runVector(vecID int, v splitVector, rounds, batch int, h *ccHook) (res concurrentResult) {
	res = concurrentResult{Vector: v}
	cl, err := simredis.NewCluster(3, 0)
	if err != nil {
		res.Err = err.Error()
		return
	}
	defer cl.Close()
	px, err := sut.StartRedis(sut.RedisOpts{ConnectTO: time.Second}, cl.Addrs())
	if err != nil {
		res.Err = "start: " + err.Error()
		return
	}
	defer func() {
		h.cur.Store((*ccRound)(nil))
		for _, n := range cl.Nodes {
			n.SetGate(false)
		}
		d := 5 * time.Second
		if res.Double || res.Lost > 0 {
			d = 500 * time.Millisecond // a goroutine of the processor is kept in front of the panic / stuck
		}
		sut.StopWithin(px.P, d)
	}()
	if !sut.WaitRefresh(px.Name, 3*time.Second) {
		res.Err = "slot table not loaded"
		return
	}
	c, err := sut.Dial(px.Addr)
	if err != nil {
		res.Err = "dial: " + err.Error()
		return
	}
	defer c.Close()
	// child i lives on node place[i]-1
	perNode := map[int]int{}
	for i := 0; i < v.N; i++ {
		perNode[v.Place[i]-1] += batch
	}
	inGroup := map[int]bool{}
	groupNodes := map[int]bool{}
	for _, g := range v.Group {
		inGroup[g-1] = true
		groupNodes[v.Place[g-1]-1] = true
	}
	modeOf := map[int]string{}
	for i := 0; i < v.N; i++ {
		modeOf[v.Place[i]-1] = v.Modes[i]
	}
	// warm up: one connection per node
	warmKeys := map[int]string{}
	for nd := range perNode {
		warmKeys[nd] = cl.KeyFor(nd, "warm")
		if _, err := c.Do(3*time.Second, "get", warmKeys[nd]); err != nil {
			res.Err = "warm: " + err.Error()
			return
		}
	}
	answer := func(nd int) {
		if modeOf[nd] == "drain" {
			cl.Nodes[nd].ResetConns(true)
		} else {
			cl.Nodes[nd].Release(perNode[nd])
		}
	}
	checkDouble := func() bool {
		if atomic.LoadInt32(&h.double) == 1 {
			res.Double = true
			res.DoubleCmd, _ = h.dblCmd.Load().(string)
			return true
		}
		return false
	}
	seq := 0
	for round := 0; round < rounds; round++ {
		r := &ccRound{group: map[string]*ccBarrier{}, others: map[string]bool{}, timeout: 30 * time.Millisecond}
		nOthers := 0
		var cmds [][]string
		var bars []*ccBarrier
		for j := 0; j < batch; j++ {
			seq++
			cmd := splitCmds[seq%len(splitCmds)]
			bar := &ccBarrier{need: int32(len(v.Group))}
			if seq%2 == 1 {
				bar.jitter = int32((seq / 2) % 48)
			}
			bars = append(bars, bar)
			args := []string{cmd}
			for i := 0; i < v.N; i++ {
				k := cl.KeyFor(v.Place[i]-1, fmt.Sprintf("c%d_%d_%d_", vecID, seq, i))
				args = append(args, k)
				if cmd == "mset" {
					args = append(args, "v")
				}
				if inGroup[i] {
					r.group[k] = bar
				} else {
					r.others[k] = true
					if !groupNodes[v.Place[i]-1] {
						nOthers++
					}
				}
			}
			cmds = append(cmds, args)
		}
		for nd := range perNode {
			cl.Nodes[nd].SetGate(true)
		}
		h.cur.Store(r)
		var buf []byte
		for _, args := range cmds {
			buf = append(buf, resp.Bytes(resp.Cmd(args...))...)
		}
		if err := c.Send(buf); err != nil {
			res.Err = "send: " + err.Error()
			return
		}
		res.Requests += batch
		okPending := true
		for nd, k := range perNode {
			if !cl.Nodes[nd].WaitPending(k, 2*time.Second) {
				okPending = false
			}
		}
		if !okPending {
			// a child did not reach its node (it met a connection that was still going down and was answered at once):
			// no line-up in this round, the requests must be answered all the same
			res.Unaligned++
			for nd := range perNode {
				cl.Nodes[nd].SetGate(false)
			}
		} else {
			// connections that hold no child of the group answer first
			for nd := range perNode {
				if !groupNodes[nd] {
					answer(nd)
				}
			}
			dl := time.Now().Add(2 * time.Second)
			for atomic.LoadInt32(&r.done) < int32(nOthers) && time.Now().Before(dl) {
				time.Sleep(50 * time.Microsecond)
			}
			if nOthers > 0 {
				time.Sleep(200 * time.Microsecond)
			}
			// then the connections of the group, at the same instant
			var wg sync.WaitGroup
			start := make(chan struct{})
			for nd := range perNode {
				if groupNodes[nd] {
					wg.Add(1)
					go func(nd int) {
						defer wg.Done()
						<-start
						answer(nd)
					}(nd)
				}
			}
			close(start)
			wg.Wait()
		}
		// exactly one reply per request: the replies, then PONG for the sentinel
		c.SendCmd("ping")
		res.Rounds++
		got := 0
		for {
			val, err := c.Recv(5 * time.Second)
			if err != nil && isTimeout(err) && !checkDouble() {
				val, err = c.Recv(6 * time.Second) // confirm with a generous deadline before a verdict
			}
			if checkDouble() {
				return
			}
			if err != nil {
				if isTimeout(err) {
					res.Lost += batch - got
					res.FirstBad = fmt.Sprintf("round %d: request %d of the pipeline (%s): no reply", round, got+1, strings.Join(cmds[got], " "))
				} else {
					res.Err = fmt.Sprintf("round %d: connection closed: %v", round, err)
				}
				return
			}
			if isPong(val) {
				break
			}
			got++
			if got > batch {
				res.Extra++
				res.FirstBad = fmt.Sprintf("round %d: %d replies for %d requests", round, got, batch)
				return
			}
		}
		if got < batch {
			// the sentinel overtook nothing: replies come in request order, fewer replies than requests before PONG
			res.Lost += batch - got
			res.FirstBad = fmt.Sprintf("round %d: %d replies for %d requests before the sentinel", round, got, batch)
			return
		}
		res.Replies += got
		for _, bar := range bars {
			if atomic.LoadInt32(&bar.aligned) == 1 {
				res.Aligned++
			}
		}
		for nd := range perNode {
			cl.Nodes[nd].SetGate(false)
		}
		// a connection that was reset is replaced on demand: wait until its node is served again
		for nd := range perNode {
			if modeOf[nd] != "drain" {
				continue
			}
			for try := 0; try < 200; try++ {
				pv, err := c.Do(3*time.Second, "get", warmKeys[nd])
				if err != nil {
					res.Err = fmt.Sprintf("round %d: probe: %v", round, err)
					return
				}
				if pv.Kind != '-' {
					break
				}
				time.Sleep(500 * time.Microsecond)
			}
		}
	}
	return
}

// concurrentChildren: the last children of a split request answered at the same instant by the goroutines of different
// backend connections (readers, drains). The parent must be completed exactly once, whatever they interleave like.
func concurrentChildren(args []string) error {
	fs := flag.NewFlagSet("c02-concurrent", flag.ContinueOnError)
	in := fs.String("in", "", "vectors (ndjson, spec/redis/UpstreamSplit.tla)")
	out := fs.String("out", "", "results (ndjson)")
	rounds := fs.Int("rounds", 200, "rounds per vector whose connections all answer with replies")
	drainRounds := fs.Int("drainrounds", 20, "rounds per vector with a connection that is reset")
	batch := fs.Int("batch", 8, "split requests pipelined per round (each is lined up on its own)")
	if err := fs.Parse(args); err != nil {
		return err
	}
	predis.VerifSetSlotsRefreshTimers(time.Hour, time.Hour)
	w, err := newLineWriter(*out)
	if err != nil {
		return err
	}
	defer w.Close()
	h := &ccHook{raws: map[string]int{}}
	verifhook.Set(h.fn)
	defer verifhook.Set(nil)
	vecID := 0
	return cli.ReadNDJSON(*in, func(line []byte) error {
		var v splitVector
		if err := json.Unmarshal(line, &v); err != nil {
			return err
		}
		n := *rounds
		for _, m := range v.Modes {
			if m == "drain" {
				n = *drainRounds
			}
		}
		vecID++
		res := runVector(vecID, v, n, *batch, h)
		if err := w.Write(res); err != nil {
			return err
		}
		if res.Double || res.Lost > 0 {
			// a goroutine of the processor is parked for ever: do not build on this process any more
			w.Close()
			os.Exit(0)
		}
		return nil
	})
}
