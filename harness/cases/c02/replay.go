package c02

import (
	"encoding/json"
	"flag"
	"fmt"
	"os"
	"runtime"
	"sort"
	"strconv"
	"strings"
	"sync"
	"sync/atomic"
	"time"

	"github.com/samaritan-proxy/samaritan/host"
	pbredis "github.com/samaritan-proxy/samaritan/pb/config/protocol/redis"
	predis "github.com/samaritan-proxy/samaritan/proc/redis"

	"verifharness/internal/cli"
	"verifharness/internal/resp"
	"verifharness/internal/sched"
	"verifharness/internal/simredis"
	"verifharness/internal/sut"
)

func init() { cli.Register("c02-replay", c02Replay) }

// ---- behaviour format emitted by spec/redis/UpstreamGen.tla

type upObs struct {
	Pend  int               `json:"pend"`
	Proc  int               `json:"proc"`
	Quit  bool              `json:"quit"`
	Done  bool              `json:"done"`
	Compl map[string]int    `json:"compl"`
	Res   map[string]string `json:"res"`
}

type upStep struct {
	A     string `json:"a"`
	Role  string `json:"role"`
	R     string `json:"r"`
	Wakes string `json:"wakes"`
	Next  string `json:"next"`
	Obs   upObs  `json:"obs"`
	Win   []string `json:"win"` // named windows of Upstream.tla that hold after the step
}

type upResult struct {
	ID        int               `json:"id"`
	Steps     int               `json:"steps"`
	Exact     bool              `json:"exact"`     // every step followed, state equal after each
	DivergeAt int               `json:"divergeAt"` // index of the first step that could not be followed (-1)
	DivergeWhy string           `json:"divergeWhy,omitempty"`
	Replies   map[string]string `json:"replies"` // request -> reply text seen by its client ("" none)
	Extra     map[string]int    `json:"extra"`   // request -> number of additional replies
	Compl     map[string]int    `json:"compl"`   // SetResponse calls per request
	Lost      []string          `json:"lost"`    // requests never answered (connection open)
	Misdirected []string        `json:"misdirected,omitempty"` // requests that got a reply which is neither an error nor the value of their own key
	Closed    []string          `json:"closed,omitempty"` // requests whose downstream connection was closed by the proxy
	Double    []string          `json:"double"`  // requests completed more than once
	StopHung  bool              `json:"stopHung"`
	StopperHung bool            `json:"stopperHung"`
	Windows   []string          `json:"windows"` // named windows the behaviour passed through
	Attempt   int               `json:"attempt"`
	Err       string            `json:"err,omitempty"`
	Notes     []string          `json:"notes,omitempty"`
	Started   bool              `json:"started,omitempty"` // marker written before the behaviour runs
	Skipped   bool              `json:"skipped,omitempty"` // not run: the shard had already met -stopafter violations
}

func goid() int64 {
	var buf [64]byte
	n := runtime.Stack(buf[:], false)
	// "goroutine 123 [running]:"
	s := strings.TrimPrefix(string(buf[:n]), "goroutine ")
	if i := strings.IndexByte(s, ' '); i > 0 {
		id, _ := strconv.ParseInt(s[:i], 10, 64)
		return id
	}
	return 0
}

// upTracker maps hook calls of one backend client to roles and gates.
type upTracker struct {
	mu       sync.Mutex
	target   string // backend address
	client   interface{}
	roles    map[int64]string // goroutine id -> role
	compl    map[string]int   // request name -> SetResponse calls
	ptrs     map[string]map[string]int // request name -> request object -> SetResponse calls
	suffix   string           // the keys of this replay are "{<name>}<suffix>": a late completion that belongs to an earlier replay never matches
	reqNames map[string]string
}

func isBanned(r string) bool { return strings.HasPrefix(r, "b") }
func isAsk(r string) bool    { return strings.HasPrefix(r, "a") }

var replaySeq int64

func newUpTracker(target string) *upTracker {
	return &upTracker{target: target, roles: map[int64]string{}, compl: map[string]int{}, ptrs: map[string]map[string]int{},
		suffix: "_" + strconv.FormatInt(atomic.AddInt64(&replaySeq, 1), 10)}
}

// keyOf is the Redis key of model request r in this replay: the hash tag keeps it in the slot of r.
func (t *upTracker) keyOf(r string) string { return "{" + r + "}" + t.suffix }

// nameOf maps a key of this replay back to the model request ("" for anything else).
func (t *upTracker) nameOf(key string) string {
	if strings.HasPrefix(key, "{") && strings.HasSuffix(key, "}"+t.suffix) {
		return key[1 : len(key)-len(t.suffix)-1]
	}
	return ""
}

var upGateNames = map[string]string{
	"client.Send":              "client.Send",
	"client.Send.checked":      "client.Send.checked",
	"client.Send.enqueued":     "client.Send.enqueued",
	"client.loopWrite.select":  "client.loopWrite.select",
	"client.loopWrite.got":     "client.loopWrite.got",
	"client.loopWrite.filtered": "client.loopWrite.filtered",
	"client.loopWrite.asked":   "client.loopWrite.asked",
	"client.loopWrite.handoff": "client.loopWrite.handoff",
	"client.loopRead.decode":   "client.loopRead.decode",
	"client.loopRead.decoded":  "client.loopRead.decoded",
	"client.loopRead.paired":   "client.loopRead.paired",
	"client.Start.readDone":    "client.Start.readDone",
	"client.Start.quitClosed":  "client.Start.quitClosed",
	"client.Start.drained":     "client.Start.drained",
	"client.drain.select":      "client.drain.select",
	"client.drain.pending":     "client.drain.answer",
	"client.drain.processing":  "client.drain.answer",
	"client.Stop":              "client.Stop",
	"client.Stop.quitClosed":   "client.Stop.quitClosed",
	"client.Stop.done":         "client.Stop.done",
}

// key implements sched.KeyFunc.
func (t *upTracker) key(point string, a, b interface{}) string {
	if point == "simpleRequest.SetResponse" {
		d := predis.VerifDescribe(a)
		if len(d.Args) >= 2 && (strings.EqualFold(d.Args[0], "get") || strings.EqualFold(d.Args[0], "getrange")) {
			if name := t.nameOf(d.Args[1]); name != "" {
				t.mu.Lock()
				t.compl[name]++
				if t.ptrs[name] == nil {
					t.ptrs[name] = map[string]int{}
				}
				t.ptrs[name][d.Ptr]++
				t.mu.Unlock()
			}
		}
		return ""
	}
	if !strings.HasPrefix(point, "client.") {
		return ""
	}
	d := predis.VerifDescribe(a)
	if d.Kind != "client" || d.Addr != t.target {
		return ""
	}
	t.mu.Lock()
	defer t.mu.Unlock()
	if t.client == nil {
		t.client = a
	} else if t.client != a {
		// a later client for the same address (reconnect): not the one under test
		return ""
	}
	g := goid()
	role := ""
	switch {
	case strings.HasPrefix(point, "client.Send"):
		rd := predis.VerifDescribe(b)
		if len(rd.Args) >= 2 {
			if name := t.nameOf(rd.Args[1]); name != "" {
				role = "S:" + name
			}
		}
	case strings.HasPrefix(point, "client.loopWrite"):
		role = "W"
	case strings.HasPrefix(point, "client.loopRead"), strings.HasPrefix(point, "client.Start"):
		role = "R"
	case strings.HasPrefix(point, "client.Stop"):
		role = "X"
	default:
		role = t.roles[g]
	}
	if role == "" {
		return ""
	}
	t.roles[g] = role
	gate, ok := upGateNames[point]
	if !ok {
		return ""
	}
	return role + "|" + gate
}

func (t *upTracker) complOf(r string) int {
	t.mu.Lock()
	defer t.mu.Unlock()
	return t.compl[r]
}

// sameObjectTwice reports whether one request object of r went through SetResponse more than once (a double completion;
// two objects for one command would be a duplicated request, which shows as a second reply).
func (t *upTracker) sameObjectTwice(r string) bool {
	t.mu.Lock()
	defer t.mu.Unlock()
	for _, n := range t.ptrs[r] {
		if n > 1 {
			return true
		}
	}
	return false
}

func (t *upTracker) state() (predis.VerifClientState, bool) {
	t.mu.Lock()
	c := t.client
	t.mu.Unlock()
	if c == nil {
		return predis.VerifClientState{}, false
	}
	return predis.VerifClientStateOf(c)
}

var upAllGates = []string{
	"client.Send", "client.Send.checked", "client.Send.enqueued",
	"client.loopWrite.select", "client.loopWrite.got", "client.loopWrite.filtered", "client.loopWrite.asked", "client.loopWrite.handoff",
	"client.loopRead.decode", "client.loopRead.decoded", "client.loopRead.paired",
	"client.Start.readDone", "client.Start.quitClosed", "client.Start.drained",
	"client.drain.select", "client.drain.answer",
	"client.Stop", "client.Stop.quitClosed", "client.Stop.done",
}

// askKeys are the request names of the model that carry the asking mark: their slots belong to node B and are
// being migrated to node A, the keys are not on B, so B answers -ASK <slot> <A> and B's reader goroutine hands
// the request (asking set) to the backend connection under test; that goroutine is the model's sender.
var askKeys = []string{"a1", "a2", "a3"}

// upEnv is the environment for replays: a two master cluster where node A
// owns every slot and node B (the only seed host) answers CLUSTER NODES.
type upEnv struct {
	cl   *simredis.Cluster
	a, b *simredis.Node
}

func newUpEnv() (*upEnv, error) {
	cl, err := simredis.NewCluster(2, 0)
	if err != nil {
		return nil, err
	}
	// node B keeps one slot: the pinned parser rejects a master line without slots
	for s := 1; s < simredis.NumSlots; s++ {
		cl.SetOwner(s, 0)
	}
	cl.SetOwner(0, 1)
	for _, k := range askKeys {
		slot := simredis.Slot([]byte(k))
		for _, other := range []string{"r1", "r2", "r3", "b1", "b2", "b3", "warm1", "warm2"} {
			if simredis.Slot([]byte(other)) == slot {
				return nil, fmt.Errorf("key %s shares slot %d with %s", k, slot, other)
			}
		}
		cl.SetOwner(slot, 1)
		cl.SetMigrating(slot, 1, 0)
	}
	for _, k := range []string{"r1", "r2", "r3", "b1", "b2", "b3", "warm1", "warm2"} {
		if cl.Owner(simredis.Slot([]byte(k))) != 0 {
			return nil, fmt.Errorf("key %s is not served by the node under test", k)
		}
	}
	return &upEnv{cl: cl, a: cl.Nodes[0], b: cl.Nodes[1]}, nil
}

const stepTimeout = 400 * time.Millisecond


// replayOne forces one behaviour on a fresh proxy.
func (e *upEnv) replayOne(id int, steps []upStep, reqs []string) (res upResult) {
	res = upResult{ID: id, Steps: len(steps), DivergeAt: -1, Replies: map[string]string{}, Extra: map[string]int{}, Compl: map[string]int{}}
	e.a.SetGate(false)
	e.a.ClearLog()
	tr := newUpTracker(e.a.Addr)
	sc := sched.New(tr.key)
	sc.Install()
	defer sc.Uninstall()

	// requests named b* are commands that the compress filter answers itself (GETRANGE with compression enabled)
	opts := sut.RedisOpts{}
	for _, r := range reqs {
		if isBanned(r) {
			opts.Compression = &pbredis.Compression{Enable: true, Threshold: 1024, Algorithm: pbredis.Compression_SNAPPY}
		}
	}
	px, err := sut.StartRedis(opts, []string{e.b.Addr})
	if err != nil {
		res.Err = "start: " + err.Error()
		return
	}
	defer func() {
		sc.ReleaseAll()
		e.a.SetGate(false)
		d := 5 * time.Second
		if res.StopperHung || len(res.Lost) > 0 {
			d = time.Second // a client of this processor is already known to be stuck
		}
		if !sut.StopWithin(px.P, d) {
			res.StopHung = true
		}
	}()
	if !sut.WaitRefresh(px.Name, 3*time.Second) {
		res.Err = "slot table not loaded"
		return
	}
	// warm-up: create the backend client, then park writer and reader at their loop tops
	c0, err := sut.Dial(px.Addr)
	if err != nil {
		res.Err = "dial: " + err.Error()
		return
	}
	defer c0.Close()
	if v, err := c0.Do(3*time.Second, "get", "warm1"); err != nil || v.IsErr() {
		res.Err = fmt.Sprintf("warm1: %v %v", v, err)
		return
	}
	// the writer and the reader are on their way back to their loop tops: let them pass the pause points once more
	// before these are gated (a writer caught there before it has taken warm2 would never write it)
	time.Sleep(3 * time.Millisecond)
	sc.Gate("W|client.loopWrite.select", "R|client.loopRead.decode")
	if v, err := c0.Do(3*time.Second, "get", "warm2"); err != nil || v.IsErr() {
		res.Err = fmt.Sprintf("warm2: %v %v", v, err)
		return
	}
	if !sc.WaitParked("W|client.loopWrite.select", stepTimeout) || !sc.WaitParked("R|client.loopRead.decode", stepTimeout) {
		res.Err = "writer/reader did not park at loop top"
		return
	}
	roles := []string{"W", "R", "X"}
	for _, r := range reqs {
		roles = append(roles, "S:"+r)
	}
	for _, role := range roles {
		for _, g := range upAllGates {
			sc.Gate(role + "|" + g)
		}
	}
	e.a.SetGate(true)

	parkedAt := map[string]string{"W": "client.loopWrite.select", "R": "client.loopRead.decode"}
	conns := map[string]*sut.Client{}
	defer func() {
		for _, c := range conns {
			c.Close()
		}
	}()
	stopDone := make(chan struct{})
	stopCalled := false

	diverge := func(i int, why string) {
		if res.DivergeAt < 0 {
			res.DivergeAt = i
			res.DivergeWhy = why
		}
	}
	roleName := func(st upStep) string {
		role := st.Role
		if role == "env" {
			role = st.Wakes
		}
		if role == "S" {
			role = "S:" + st.R
		}
		return role
	}
	windows := map[string]bool{}

	for i, st := range steps {
		role := roleName(st)
		switch st.A {
		case "CallSend":
			c, err := sut.Dial(px.Addr)
			if err != nil {
				res.Err = "dial: " + err.Error()
				return
			}
			conns[st.R] = c
			// every key holds its own name: a reply that is not an error must be the echo of its own request
			key := tr.keyOf(st.R)
			e.cl.Preload(key, []byte(key))
			if isAsk(st.R) {
				e.cl.MigrateKey(key) // the key has already moved to the importing node
			}
			if isBanned(st.R) {
				c.SendCmd("getrange", key, "0", "-1")
			} else {
				c.SendCmd("get", key)
			}
		case "BackendReply":
			if !e.a.WaitPending(1, stepTimeout) {
				diverge(i, "backend has no command to answer")
			} else {
				e.a.Release(1)
			}
		case "BackendReset":
			e.a.ResetConns(true)
			time.Sleep(3 * time.Millisecond)
		case "CallStop":
			stopCalled = true
			go func() {
				px.P.OnSvcHostRemove([]*host.Host{host.New(e.a.Addr)})
				close(stopDone)
			}()
		default:
			cur := parkedAt[role]
			if cur == "" && st.A == "StopReturn" {
				cur = "client.Stop.done" // reached as soon as the reader goroutine closed done
			}
			if cur == "" {
				diverge(i, fmt.Sprintf("role %s is not parked before %s", role, st.A))
				break
			}
			if !sc.WaitParked(role+"|"+cur, stepTimeout) {
				diverge(i, fmt.Sprintf("role %s never reached %s before %s", role, cur, st.A))
				break
			}
			sc.Release(role + "|" + cur)
			parkedAt[role] = ""
		}
		if res.DivergeAt >= 0 {
			break
		}
		// where the role must park afterwards
		if st.Role != "env" || st.A == "CallSend" || st.A == "CallStop" {
			if st.Next != "" {
				if !sc.WaitParked(role+"|"+st.Next, stepTimeout) {
					diverge(i, fmt.Sprintf("after %s role %s did not park at %s", st.A, role, st.Next))
					break
				}
			}
			parkedAt[role] = st.Next
		}
		// compare the observable state
		okState := false
		var last string
		dl := time.Now().Add(stepTimeout)
		for {
			cs, ok := tr.state()
			match := ok && cs.Pending == st.Obs.Pend && cs.Processing == st.Obs.Proc && cs.Quit == st.Obs.Quit && cs.Done == st.Obs.Done
			if match {
				for r, n := range st.Obs.Compl {
					if tr.complOf(r) != n {
						match = false
						last = fmt.Sprintf("compl[%s]=%d want %d", r, tr.complOf(r), n)
					}
				}
			} else {
				last = fmt.Sprintf("state %+v want pend=%d proc=%d quit=%v done=%v", cs, st.Obs.Pend, st.Obs.Proc, st.Obs.Quit, st.Obs.Done)
			}
			if match {
				okState = true
				break
			}
			if time.Now().After(dl) {
				break
			}
			time.Sleep(200 * time.Microsecond)
		}
		if !okState {
			diverge(i, fmt.Sprintf("after %s: %s", st.A, last))
			break
		}
		// the step was followed and the observable state equals the model's: the named windows of Upstream.tla
		// that hold in the model state hold in the real client
		for _, w := range st.Win {
			windows[w] = true
		}
	}
	res.Exact = res.DivergeAt < 0
	for w := range windows {
		res.Windows = append(res.Windows, w)
	}
	sort.Strings(res.Windows)

	// let everything run to completion and judge by the property's own predicate
	sc.ReleaseAll()
	e.a.SetGate(false)
	released := time.Now()
	var wg sync.WaitGroup
	var mu sync.Mutex
	for r, c := range conns {
		wg.Add(1)
		go func(r string, c *sut.Client) {
			defer wg.Done()
			v, err := c.Recv(4 * time.Second)
			if err != nil && isTimeout(err) {
				// no verdict on a short deadline: everything has been released, wait once more, generously
				v, err = c.Recv(6 * time.Second)
			}
			mu.Lock()
			defer mu.Unlock()
			if err != nil {
				res.Replies[r] = ""
				if isTimeout(err) {
					res.Lost = append(res.Lost, r)
				} else {
					// the proxy closed the downstream connection: nothing is owed on a closed connection
					res.Closed = append(res.Closed, r)
				}
				return
			}
			res.Replies[r] = v.String()
			if v.Kind != '-' && !(v.Kind == '$' && !v.Null && string(v.Str) == tr.keyOf(r)) {
				res.Misdirected = append(res.Misdirected, r)
			}
			// a second reply for a single request?
			if _, err := c.Recv(30 * time.Millisecond); err == nil {
				res.Extra[r]++
			}
		}(r, c)
	}
	wg.Wait()
	for _, r := range reqs {
		n := tr.complOf(r)
		res.Compl[r] = n
		if tr.sameObjectTwice(r) {
			res.Double = append(res.Double, r)
		} else if n > 1 {
			res.Notes = append(res.Notes, fmt.Sprintf("%d SetResponse calls on different request objects for %s", n, r))
		}
	}
	if stopCalled {
		select {
		case <-stopDone:
		default:
			// the deadline counts from the release; a call that has already returned is never reported
			select {
			case <-stopDone:
			case <-time.After(time.Until(released.Add(10*time.Second)) + 100*time.Millisecond):
				res.StopperHung = true
			}
		}
	}
	return
}

// lineWriter writes one JSON record per line, unbuffered: a double completion panics in a goroutine of the system
// under test and kills this process; the records written so far must be on disk then.
type lineWriter struct{ f *os.File }

func newLineWriter(path string) (*lineWriter, error) {
	f, err := os.Create(path)
	if err != nil {
		return nil, err
	}
	return &lineWriter{f: f}, nil
}

func (w *lineWriter) Write(v interface{}) error {
	b, err := json.Marshal(v)
	if err != nil {
		return err
	}
	_, err = w.f.Write(append(b, '\n'))
	return err
}

func (w *lineWriter) Close() error { return w.f.Close() }

func c02Replay(args []string) error {
	fs := flag.NewFlagSet("c02-replay", flag.ContinueOnError)
	in := fs.String("in", "", "behaviours (ndjson, one JSON array of steps per line)")
	out := fs.String("out", "", "results (ndjson)")
	attempts := fs.Int("attempts", 3, "attempts per behaviour until it is followed exactly")
	shard := fs.Int("shard", 0, "replay only the behaviours whose index modulo -of equals this")
	of := fs.Int("of", 1, "number of shards (one process each: the hook scheduler is process wide)")
	fewerFrom := fs.Int("fewerfrom", 0, "behaviours from this index on (counterexample schedules) get at most 2 attempts (0: none)")
	stopAfter := fs.Int("stopafter", 0, "stop after this many behaviours with a violated predicate (0: never); a hung client costs a deadline per behaviour")
	if err := fs.Parse(args); err != nil {
		return err
	}
	predis.VerifSetSlotsRefreshTimers(time.Hour, time.Hour)
	env, err := newUpEnv()
	if err != nil {
		return err
	}
	defer env.cl.Close()
	w, err := newLineWriter(*out)
	if err != nil {
		return err
	}
	defer w.Close()
	id := 0
	bad := 0
	err = cli.ReadNDJSON(*in, func(line []byte) error {
		id++
		if (id-1)%*of != *shard {
			return nil
		}
		if *stopAfter > 0 && bad >= *stopAfter {
			return w.Write(upResult{ID: id, Skipped: true, DivergeAt: -1})
		}
		var steps []upStep
		if err := json.Unmarshal(line, &steps); err != nil {
			return err
		}
		seen := map[string]bool{}
		var reqs []string
		for _, s := range steps {
			if s.A == "CallSend" && !seen[s.R] {
				seen[s.R] = true
				reqs = append(reqs, s.R)
			}
		}
		// the record of the behaviour in hand is on disk before it runs: if the process dies the check knows which one it was
		if err := w.Write(upResult{ID: id, Started: true, DivergeAt: -1}); err != nil {
			return err
		}
		var res upResult
		tries := *attempts
		if *fewerFrom > 0 && id >= *fewerFrom && tries > 2 {
			tries = 2
		}
		for a := 1; a <= tries; a++ {
			res = env.replayOne(id, steps, reqs)
			res.Attempt = a
			if res.Exact || len(res.Lost) > 0 || len(res.Double) > 0 || len(res.Misdirected) > 0 || res.StopperHung {
				break
			}
		}
		if len(res.Lost) > 0 || len(res.Double) > 0 || len(res.Misdirected) > 0 || res.StopperHung {
			bad++
		}
		return w.Write(res)
	})
	_ = resp.Value{}
	return err
}
