package c02

import (
	"encoding/json"
	"flag"
	"fmt"
	"runtime"
	"strconv"
	"strings"
	"sync"
	"time"

	"github.com/samaritan-proxy/samaritan/host"
	predis "github.com/samaritan-proxy/samaritan/proc/redis"

	"verifharness/internal/cli"
	"verifharness/internal/resp"
	"verifharness/internal/sched"
	"verifharness/internal/simredis"
	"verifharness/internal/sut"
)

func init() { cli.Register("c02-replay", c02Replay) }

// ---- behaviour format emitted by spec/redis/UpstreamGen.tla

type upObs struct {
	Pend  int               `json:"pend"`
	Proc  int               `json:"proc"`
	Quit  bool              `json:"quit"`
	Done  bool              `json:"done"`
	Compl map[string]int    `json:"compl"`
	Res   map[string]string `json:"res"`
}

type upStep struct {
	A     string `json:"a"`
	Role  string `json:"role"`
	R     string `json:"r"`
	Wakes string `json:"wakes"`
	Next  string `json:"next"`
	Obs   upObs  `json:"obs"`
}

type upResult struct {
	ID        int               `json:"id"`
	Steps     int               `json:"steps"`
	Exact     bool              `json:"exact"`     // every step followed, state equal after each
	DivergeAt int               `json:"divergeAt"` // index of the first step that could not be followed (-1)
	DivergeWhy string           `json:"divergeWhy,omitempty"`
	Replies   map[string]string `json:"replies"` // request -> reply text seen by its client ("" none)
	Extra     map[string]int    `json:"extra"`   // request -> number of additional replies
	Compl     map[string]int    `json:"compl"`   // SetResponse calls per request
	Lost      []string          `json:"lost"`    // requests never answered (connection open)
	Double    []string          `json:"double"`  // requests completed more than once
	StopHung  bool              `json:"stopHung"`
	StopperHung bool            `json:"stopperHung"`
	Windows   []string          `json:"windows"` // named windows the behaviour passed through
	Attempt   int               `json:"attempt"`
	Err       string            `json:"err,omitempty"`
}

func goid() int64 {
	var buf [64]byte
	n := runtime.Stack(buf[:], false)
	// "goroutine 123 [running]:"
	s := strings.TrimPrefix(string(buf[:n]), "goroutine ")
	if i := strings.IndexByte(s, ' '); i > 0 {
		id, _ := strconv.ParseInt(s[:i], 10, 64)
		return id
	}
	return 0
}

// upTracker maps hook calls of one backend client to roles and gates.
type upTracker struct {
	mu       sync.Mutex
	target   string // backend address
	client   interface{}
	roles    map[int64]string // goroutine id -> role
	compl    map[string]int   // request name -> SetResponse calls
	reqNames map[string]string
}

func newUpTracker(target string) *upTracker {
	return &upTracker{target: target, roles: map[int64]string{}, compl: map[string]int{}}
}

var upGateNames = map[string]string{
	"client.Send":              "client.Send",
	"client.Send.checked":      "client.Send.checked",
	"client.Send.enqueued":     "client.Send.enqueued",
	"client.loopWrite.select":  "client.loopWrite.select",
	"client.loopWrite.got":     "client.loopWrite.got",
	"client.loopWrite.handoff": "client.loopWrite.handoff",
	"client.loopRead.decode":   "client.loopRead.decode",
	"client.loopRead.decoded":  "client.loopRead.decoded",
	"client.loopRead.paired":   "client.loopRead.paired",
	"client.Start.readDone":    "client.Start.readDone",
	"client.Start.quitClosed":  "client.Start.quitClosed",
	"client.Start.drained":     "client.Start.drained",
	"client.drain.select":      "client.drain.select",
	"client.drain.pending":     "client.drain.answer",
	"client.drain.processing":  "client.drain.answer",
	"client.Stop":              "client.Stop",
	"client.Stop.quitClosed":   "client.Stop.quitClosed",
	"client.Stop.done":         "client.Stop.done",
}

// key implements sched.KeyFunc.
func (t *upTracker) key(point string, a, b interface{}) string {
	if point == "simpleRequest.SetResponse" {
		d := predis.VerifDescribe(a)
		if len(d.Args) >= 2 && strings.EqualFold(d.Args[0], "get") {
			t.mu.Lock()
			t.compl[d.Args[1]]++
			t.mu.Unlock()
		}
		return ""
	}
	if !strings.HasPrefix(point, "client.") {
		return ""
	}
	d := predis.VerifDescribe(a)
	if d.Kind != "client" || d.Addr != t.target {
		return ""
	}
	t.mu.Lock()
	defer t.mu.Unlock()
	if t.client == nil {
		t.client = a
	} else if t.client != a {
		// a later client for the same address (reconnect): not the one under test
		return ""
	}
	g := goid()
	role := ""
	switch {
	case strings.HasPrefix(point, "client.Send"):
		rd := predis.VerifDescribe(b)
		if len(rd.Args) >= 2 {
			role = "S:" + rd.Args[1]
		} else if len(rd.Args) == 1 {
			role = "S:" + rd.Args[0]
		}
	case strings.HasPrefix(point, "client.loopWrite"):
		role = "W"
	case strings.HasPrefix(point, "client.loopRead"), strings.HasPrefix(point, "client.Start"):
		role = "R"
	case strings.HasPrefix(point, "client.Stop"):
		role = "X"
	default:
		role = t.roles[g]
	}
	if role == "" {
		return ""
	}
	t.roles[g] = role
	gate, ok := upGateNames[point]
	if !ok {
		return ""
	}
	return role + "|" + gate
}

func (t *upTracker) complOf(r string) int {
	t.mu.Lock()
	defer t.mu.Unlock()
	return t.compl[r]
}

func (t *upTracker) state() (predis.VerifClientState, bool) {
	t.mu.Lock()
	c := t.client
	t.mu.Unlock()
	if c == nil {
		return predis.VerifClientState{}, false
	}
	return predis.VerifClientStateOf(c)
}

var upAllGates = []string{
	"client.Send", "client.Send.checked", "client.Send.enqueued",
	"client.loopWrite.select", "client.loopWrite.got", "client.loopWrite.handoff",
	"client.loopRead.decode", "client.loopRead.decoded", "client.loopRead.paired",
	"client.Start.readDone", "client.Start.quitClosed", "client.Start.drained",
	"client.drain.select", "client.drain.answer",
	"client.Stop", "client.Stop.quitClosed", "client.Stop.done",
}

// upEnv is the environment for replays: a two master cluster where node A
// owns every slot and node B (the only seed host) answers CLUSTER NODES.
type upEnv struct {
	cl   *simredis.Cluster
	a, b *simredis.Node
}

func newUpEnv() (*upEnv, error) {
	cl, err := simredis.NewCluster(2, 0)
	if err != nil {
		return nil, err
	}
	// node B keeps one slot: the pinned parser rejects a master line without slots
	for s := 1; s < simredis.NumSlots; s++ {
		cl.SetOwner(s, 0)
	}
	cl.SetOwner(0, 1)
	return &upEnv{cl: cl, a: cl.Nodes[0], b: cl.Nodes[1]}, nil
}

const stepTimeout = 400 * time.Millisecond


// replayOne forces one behaviour on a fresh proxy.
func (e *upEnv) replayOne(id int, steps []upStep, reqs []string) (res upResult) {
	res = upResult{ID: id, Steps: len(steps), DivergeAt: -1, Replies: map[string]string{}, Extra: map[string]int{}, Compl: map[string]int{}}
	e.a.SetGate(false)
	e.a.ClearLog()
	tr := newUpTracker(e.a.Addr)
	sc := sched.New(tr.key)
	sc.Install()
	defer sc.Uninstall()

	px, err := sut.StartRedis(sut.RedisOpts{}, []string{e.b.Addr})
	if err != nil {
		res.Err = "start: " + err.Error()
		return
	}
	defer func() {
		sc.ReleaseAll()
		e.a.SetGate(false)
		if !sut.StopWithin(px.P, 5*time.Second) {
			res.StopHung = true
		}
	}()
	if !sut.WaitRefresh(px.Name, 3*time.Second) {
		res.Err = "slot table not loaded"
		return
	}
	// warm-up: create the backend client, then park writer and reader at their loop tops
	c0, err := sut.Dial(px.Addr)
	if err != nil {
		res.Err = "dial: " + err.Error()
		return
	}
	defer c0.Close()
	if v, err := c0.Do(3*time.Second, "get", "warm1"); err != nil || v.IsErr() {
		res.Err = fmt.Sprintf("warm1: %v %v", v, err)
		return
	}
	sc.Gate("W|client.loopWrite.select", "R|client.loopRead.decode")
	if v, err := c0.Do(3*time.Second, "get", "warm2"); err != nil || v.IsErr() {
		res.Err = fmt.Sprintf("warm2: %v %v", v, err)
		return
	}
	if !sc.WaitParked("W|client.loopWrite.select", stepTimeout) || !sc.WaitParked("R|client.loopRead.decode", stepTimeout) {
		res.Err = "writer/reader did not park at loop top"
		return
	}
	roles := []string{"W", "R", "X"}
	for _, r := range reqs {
		roles = append(roles, "S:"+r)
	}
	for _, role := range roles {
		for _, g := range upAllGates {
			sc.Gate(role + "|" + g)
		}
	}
	e.a.SetGate(true)

	parkedAt := map[string]string{"W": "client.loopWrite.select", "R": "client.loopRead.decode"}
	conns := map[string]*sut.Client{}
	defer func() {
		for _, c := range conns {
			c.Close()
		}
	}()
	stopDone := make(chan struct{})
	stopCalled := false

	diverge := func(i int, why string) {
		if res.DivergeAt < 0 {
			res.DivergeAt = i
			res.DivergeWhy = why
		}
	}
	roleName := func(st upStep) string {
		role := st.Role
		if role == "env" {
			role = st.Wakes
		}
		if role == "S" {
			role = "S:" + st.R
		}
		return role
	}
	windows := map[string]bool{}

	for i, st := range steps {
		role := roleName(st)
		switch st.A {
		case "CallSend":
			c, err := sut.Dial(px.Addr)
			if err != nil {
				res.Err = "dial: " + err.Error()
				return
			}
			conns[st.R] = c
			c.SendCmd("get", st.R)
		case "BackendReply":
			if !e.a.WaitPending(1, stepTimeout) {
				diverge(i, "backend has no command to answer")
			} else {
				e.a.Release(1)
			}
		case "BackendReset":
			e.a.ResetConns(true)
			time.Sleep(3 * time.Millisecond)
		case "CallStop":
			stopCalled = true
			go func() {
				px.P.OnSvcHostRemove([]*host.Host{host.New(e.a.Addr)})
				close(stopDone)
			}()
		default:
			cur := parkedAt[role]
			if cur == "" && st.A == "StopReturn" {
				cur = "client.Stop.done" // reached as soon as the reader goroutine closed done
			}
			if cur == "" {
				diverge(i, fmt.Sprintf("role %s is not parked before %s", role, st.A))
				break
			}
			if !sc.WaitParked(role+"|"+cur, stepTimeout) {
				diverge(i, fmt.Sprintf("role %s never reached %s before %s", role, cur, st.A))
				break
			}
			sc.Release(role + "|" + cur)
			parkedAt[role] = ""
		}
		if res.DivergeAt >= 0 {
			break
		}
		// where the role must park afterwards
		if st.Role != "env" || st.A == "CallSend" || st.A == "CallStop" {
			if st.Next != "" {
				if !sc.WaitParked(role+"|"+st.Next, stepTimeout) {
					diverge(i, fmt.Sprintf("after %s role %s did not park at %s", st.A, role, st.Next))
					break
				}
			}
			parkedAt[role] = st.Next
		}
		// compare the observable state
		okState := false
		var last string
		dl := time.Now().Add(stepTimeout)
		for {
			cs, ok := tr.state()
			match := ok && cs.Pending == st.Obs.Pend && cs.Processing == st.Obs.Proc && cs.Quit == st.Obs.Quit && cs.Done == st.Obs.Done
			if match {
				for r, n := range st.Obs.Compl {
					if tr.complOf(r) != n {
						match = false
						last = fmt.Sprintf("compl[%s]=%d want %d", r, tr.complOf(r), n)
					}
				}
			} else {
				last = fmt.Sprintf("state %+v want pend=%d proc=%d quit=%v done=%v", cs, st.Obs.Pend, st.Obs.Proc, st.Obs.Quit, st.Obs.Done)
			}
			if match {
				okState = true
				break
			}
			if time.Now().After(dl) {
				break
			}
			time.Sleep(200 * time.Microsecond)
		}
		if !okState {
			diverge(i, fmt.Sprintf("after %s: %s", st.A, last))
			break
		}
		// named windows (same predicates as Upstream.tla)
		cs, _ := tr.state()
		for _, r := range reqs {
			if parkedAt["S:"+r] == "client.Send.checked" && cs.Quit {
				windows["W_CheckedThenQuit"] = true
				if cs.Done || parkedAt["R"] == "client.Start.drained" {
					windows["W_EnqueueAfterDrain"] = true
				}
			}
		}
		if parkedAt["W"] == "client.loopWrite.handoff" && cs.Quit {
			windows["W_WriterHandoffQuit"] = true
		}
	}
	res.Exact = res.DivergeAt < 0
	for w := range windows {
		res.Windows = append(res.Windows, w)
	}

	// let everything run to completion and judge by the property's own predicate
	sc.ReleaseAll()
	e.a.SetGate(false)
	var wg sync.WaitGroup
	var mu sync.Mutex
	for r, c := range conns {
		wg.Add(1)
		go func(r string, c *sut.Client) {
			defer wg.Done()
			v, err := c.Recv(4 * time.Second)
			mu.Lock()
			defer mu.Unlock()
			if err != nil {
				res.Replies[r] = ""
				res.Lost = append(res.Lost, r)
				return
			}
			res.Replies[r] = v.String()
			// a second reply for a single request?
			if _, err := c.Recv(30 * time.Millisecond); err == nil {
				res.Extra[r]++
			}
		}(r, c)
	}
	wg.Wait()
	for _, r := range reqs {
		n := tr.complOf(r)
		res.Compl[r] = n
		if n > 1 {
			res.Double = append(res.Double, r)
		}
	}
	if stopCalled {
		select {
		case <-stopDone:
		case <-time.After(4 * time.Second):
			res.StopperHung = true
		}
	}
	return
}

func c02Replay(args []string) error {
	fs := flag.NewFlagSet("c02-replay", flag.ContinueOnError)
	in := fs.String("in", "", "behaviours (ndjson, one JSON array of steps per line)")
	out := fs.String("out", "", "results (ndjson)")
	attempts := fs.Int("attempts", 3, "attempts per behaviour until it is followed exactly")
	if err := fs.Parse(args); err != nil {
		return err
	}
	predis.VerifSetSlotsRefreshTimers(time.Hour, time.Hour)
	env, err := newUpEnv()
	if err != nil {
		return err
	}
	defer env.cl.Close()
	w, err := cli.NewNDJSONWriter(*out)
	if err != nil {
		return err
	}
	defer w.Close()
	id := 0
	err = cli.ReadNDJSON(*in, func(line []byte) error {
		var steps []upStep
		if err := json.Unmarshal(line, &steps); err != nil {
			return err
		}
		id++
		seen := map[string]bool{}
		var reqs []string
		for _, s := range steps {
			if s.A == "CallSend" && !seen[s.R] {
				seen[s.R] = true
				reqs = append(reqs, s.R)
			}
		}
		var res upResult
		for a := 1; a <= *attempts; a++ {
			res = env.replayOne(id, steps, reqs)
			res.Attempt = a
			if res.Exact || len(res.Lost) > 0 || len(res.Double) > 0 || res.Err != "" {
				break
			}
		}
		return w.Write(res)
	})
	_ = resp.Value{}
	return err
}
