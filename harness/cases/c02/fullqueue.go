package c02

import (
	"flag"
	"fmt"
	"sync"
	"time"

	"github.com/samaritan-proxy/samaritan/host"
	predis "github.com/samaritan-proxy/samaritan/proc/redis"

	"verifharness/internal/cli"
	"verifharness/internal/simredis"
	"verifharness/internal/sut"
)

func init() { cli.Register("c02-fullqueue", fullQueue) }

type fullQueueResult struct {
	Fault     string `json:"fault"`
	Conns     int    `json:"conns"`
	Sent      int    `json:"sent"`
	Answered  int    `json:"answered"`
	Unanswered int   `json:"unanswered"` // requests on open connections that never got a reply
	FirstLost string `json:"firstLost,omitempty"`
	NodeSaw   int    `json:"nodeSaw"`
	Err       string `json:"err,omitempty"`
}

// fullQueue: a backend that reads nothing / answers nothing makes the proxy's queues for it fill up
// (1024 written and unanswered, 1024 pending, senders blocked behind them); then the connection is lost,
// the host removed or the service stopped. Every request on a connection that stays open must be answered.
func fullQueueOnce(fault string, conns, per int) (res fullQueueResult) {
	res = fullQueueResult{Fault: fault, Conns: conns}
	cl, err := simredis.NewCluster(1, 0)
	if err != nil {
		res.Err = err.Error()
		return
	}
	defer cl.Close()
	node := cl.Nodes[0]
	px, err := sut.StartRedis(sut.RedisOpts{}, cl.Addrs())
	if err != nil {
		res.Err = "start: " + err.Error()
		return
	}
	stopped := false
	defer func() {
		if !stopped {
			sut.StopWithin(px.P, 5*time.Second)
		}
	}()
	if !sut.WaitRefresh(px.Name, 3*time.Second) {
		res.Err = "slot table not loaded"
		return
	}
	w, _ := sut.Dial(px.Addr)
	w.Do(2*time.Second, "get", "warm")
	w.Close()
	node.SetSilent(true) // reads commands, never answers
	var cs []*sut.Client
	for i := 0; i < conns; i++ {
		c, err := sut.Dial(px.Addr)
		if err != nil {
			res.Err = err.Error()
			return
		}
		cs = append(cs, c)
		// a session keeps at most 33 requests in flight; more would only block the client's write
		for k := 0; k < per; k++ {
			c.SendCmd("get", fmt.Sprintf("c%dk%d", i, k))
			res.Sent++
		}
	}
	// let the queues fill
	dl := time.Now().Add(3 * time.Second)
	for time.Now().Before(dl) && len(node.Records()) < 1024 && len(node.Records()) < res.Sent {
		time.Sleep(5 * time.Millisecond)
	}
	time.Sleep(50 * time.Millisecond)
	res.NodeSaw = len(node.Records())
	// From now on the backend answers again - BEFORE the fault: a command that reaches it over a new connection right
	// after the fault must not be swallowed by the simulated silence (that would be the simulator losing the request,
	// not the proxy). The commands swallowed so far stay unanswered: they belong to the connection that is about to go.
	node.SetSilent(false)
	switch fault {
	case "reset":
		node.ResetConns(true)
	case "remove-host":
		go px.P.OnSvcHostRemove([]*host.Host{host.New(node.Addr)})
	case "stop":
		stopped = true
		go sut.StopWithin(px.P, 10*time.Second)
	}
	var mu sync.Mutex
	var wg sync.WaitGroup
	for i, c := range cs {
		wg.Add(1)
		go func(i int, c *sut.Client) {
			defer wg.Done()
			for k := 0; k < per; k++ {
				_, err := c.Recv(6 * time.Second)
				mu.Lock()
				if err != nil {
					if fault != "stop" || isTimeout(err) {
						// after "stop" the downstream connection is closed by the proxy: nothing is owed
						if isTimeout(err) {
							res.Unanswered += per - k
							if res.FirstLost == "" {
								res.FirstLost = fmt.Sprintf("conn %d request %d: %v", i, k, err)
							}
						}
					}
					mu.Unlock()
					return
				}
				res.Answered++
				mu.Unlock()
			}
		}(i, c)
	}
	wg.Wait()
	for _, c := range cs {
		c.Close()
	}
	return
}

func isTimeout(err error) bool {
	type to interface{ Timeout() bool }
	if t, ok := err.(to); ok {
		return t.Timeout()
	}
	return false
}

func fullQueue(args []string) error {
	fs := flag.NewFlagSet("c02-fullqueue", flag.ContinueOnError)
	out := fs.String("out", "", "results (ndjson)")
	conns := fs.Int("conns", 140, "downstream connections (33 requests in flight each)")
	if err := fs.Parse(args); err != nil {
		return err
	}
	predis.VerifSetSlotsRefreshTimers(time.Hour, time.Hour)
	w, err := cli.NewNDJSONWriter(*out)
	if err != nil {
		return err
	}
	defer w.Close()
	for _, f := range []string{"reset", "remove-host", "stop"} {
		if err := w.Write(fullQueueOnce(f, *conns, 33)); err != nil {
			return err
		}
	}
	return nil
}
