package c02

import (
	"flag"
	"fmt"
	"sync"
	"time"

	predis "github.com/samaritan-proxy/samaritan/proc/redis"

	"verifharness/internal/cli"
	"verifharness/internal/resp"
	"verifharness/internal/simredis"
	"verifharness/internal/sut"
)

func init() { cli.Register("c02-smallreqs", smallReqs) }

type smallReqsResult struct {
	Case       string `json:"case"`
	Requests   int    `json:"requests"`   // downstream requests sent
	Children   int    `json:"children"`   // small backend requests they amount to, all for ONE backend connection
	NodeSaw    int    `json:"nodeSaw"`    // commands the (responsive, healthy) node received
	Answered   int    `json:"answered"`   // downstream requests answered
	Unanswered int    `json:"unanswered"` // downstream requests without a reply on their open connection
	Wrong      int    `json:"wrong"`      // replies that are not the expected result
	FirstBad   string `json:"firstBad,omitempty"`
	Millis     int64  `json:"ms"`
	Err        string `json:"err,omitempty"`
}

// smallReqsOnce: more small requests outstanding on ONE backend connection than its processing queue has entries (1024),
// written faster than the backend answers, the pending queue never empty while they are encoded. The writer flushes only
// when the pending queue is empty and otherwise relies on the write buffer filling up; it blocks handing a request to the
// full processing queue. That is only safe while the buffer holds fewer requests than the queue has entries
// (Upstream.tla: BufCap < QCap, NoStuckWriter). The backend is responsive, there is no fault: every request must be answered.
func smallReqsOnce(kind string, n int) (res smallReqsResult) {
	res = smallReqsResult{Case: fmt.Sprintf("%s-%d", kind, n)}
	t0 := time.Now()
	defer func() { res.Millis = time.Since(t0).Milliseconds() }()
	cl, err := simredis.NewCluster(1, 0)
	if err != nil {
		res.Err = err.Error()
		return
	}
	defer cl.Close()
	node := cl.Nodes[0]
	px, err := sut.StartRedis(sut.RedisOpts{}, cl.Addrs())
	if err != nil {
		res.Err = "start: " + err.Error()
		return
	}
	defer sut.StopWithin(px.P, 2*time.Second)
	if !sut.WaitRefresh(px.Name, 3*time.Second) {
		res.Err = "slot table not loaded"
		return
	}
	w, err := sut.Dial(px.Addr)
	if err != nil {
		res.Err = err.Error()
		return
	}
	if v, err := w.Do(3*time.Second, "set", "k0", "k0"); err != nil || v.Kind == '-' {
		res.Err = fmt.Sprintf("warm: %v %v", v, err)
		w.Close()
		return
	}
	w.Close()
	node.ClearLog()
	recv := func(c *sut.Client) (resp.Value, error) {
		v, err := c.Recv(6 * time.Second)
		if err != nil && isTimeout(err) {
			v, err = c.Recv(8 * time.Second) // no verdict on a short deadline
		}
		return v, err
	}
	switch kind {
	case "exists", "mget", "del":
		// one split request with n short keys, all of them on the one node
		c, err := sut.Dial(px.Addr)
		if err != nil {
			res.Err = err.Error()
			return
		}
		defer c.Close()
		args := []string{kind}
		for i := 0; i < n; i++ {
			args = append(args, fmt.Sprintf("k%d", i))
		}
		res.Requests, res.Children = 1, n
		c.SendCmd(args...)
		v, err := recv(c)
		res.NodeSaw = len(node.Records())
		if err != nil {
			if isTimeout(err) {
				res.Unanswered = 1
				res.FirstBad = fmt.Sprintf("%s with %d keys: no reply (the node received %d of the %d commands)", kind, n, res.NodeSaw, n)
			} else {
				res.Err = "connection closed: " + err.Error()
			}
			return
		}
		res.Answered = 1
		ok := false
		switch kind {
		case "exists":
			ok = v.Kind == ':' && v.Int == 1 // only k0 exists
		case "del":
			ok = v.Kind == ':' && v.Int == 1
		case "mget":
			ok = v.Kind == '*' && len(v.Arr) == n && string(v.Arr[0].Str) == "k0"
		}
		if !ok {
			res.Wrong = 1
			res.FirstBad = fmt.Sprintf("%s with %d keys: reply %s", kind, n, v.String())
		}
	case "sessions":
		// n sessions, each pipelines 33 GETs (what a session keeps in flight) at the same instant
		const per = 33
		res.Requests, res.Children = n*per, n*per
		var cs []*sut.Client
		defer func() {
			for _, c := range cs {
				c.Close()
			}
		}()
		var bufs [][]byte
		for i := 0; i < n; i++ {
			c, err := sut.Dial(px.Addr)
			if err != nil {
				res.Err = err.Error()
				return
			}
			cs = append(cs, c)
			var b []byte
			for k := 0; k < per; k++ {
				b = append(b, resp.Bytes(resp.Cmd("get", "k0"))...)
			}
			bufs = append(bufs, b)
		}
		var wg sync.WaitGroup
		var mu sync.Mutex
		start := make(chan struct{})
		for i, c := range cs {
			wg.Add(1)
			go func(i int, c *sut.Client) {
				defer wg.Done()
				<-start
				c.Send(bufs[i])
				for k := 0; k < per; k++ {
					v, err := recv(c)
					mu.Lock()
					if err != nil {
						if isTimeout(err) {
							res.Unanswered += per - k
							if res.FirstBad == "" {
								res.FirstBad = fmt.Sprintf("session %d request %d of %d sessions x %d pipelined GETs: no reply", i, k, n, per)
							}
						}
						mu.Unlock()
						return
					}
					res.Answered++
					if !(v.Kind == '$' && string(v.Str) == "k0") {
						res.Wrong++
						if res.FirstBad == "" {
							res.FirstBad = fmt.Sprintf("session %d request %d: reply %s", i, k, v.String())
						}
					}
					mu.Unlock()
				}
			}(i, c)
		}
		close(start)
		wg.Wait()
		res.NodeSaw = len(node.Records())
	}
	return
}

func smallReqs(args []string) error {
	fs := flag.NewFlagSet("c02-smallreqs", flag.ContinueOnError)
	out := fs.String("out", "", "results (ndjson)")
	if err := fs.Parse(args); err != nil {
		return err
	}
	predis.VerifSetSlotsRefreshTimers(time.Hour, time.Hour)
	w, err := newLineWriter(*out)
	if err != nil {
		return err
	}
	defer w.Close()
	type cs struct {
		kind string
		n    int
	}
	cases := []cs{{"exists", 3000}, {"mget", 3000}, {"sessions", 40}, {"del", 1500}, {"exists", 1100}}
	if cli.Thorough() {
		cases = append(cases, cs{"mget", 6000}, cs{"sessions", 80}, cs{"exists", 2049}, cs{"exists", 1025})
	}
	for _, c := range cases {
		res := smallReqsOnce(c.kind, c.n)
		if err := w.Write(res); err != nil {
			return err
		}
		if res.Err == "" && res.Unanswered > 0 {
			break // every further case costs the full deadline again
		}
	}
	return nil
}
