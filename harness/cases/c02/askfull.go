package c02

import (
	"flag"
	"fmt"
	"sync"
	"sync/atomic"
	"time"

	"github.com/samaritan-proxy/samaritan/host"
	predis "github.com/samaritan-proxy/samaritan/proc/redis"
	"github.com/samaritan-proxy/samaritan/utils/verifhook"

	"verifharness/internal/cli"
	"verifharness/internal/simredis"
	"verifharness/internal/sut"
)

func init() { cli.Register("c02-askfull", askFull) }

type askFullResult struct {
	Fault       string `json:"fault"`
	Sent        int    `json:"sent"`        // requests in flight on the backend connection (unanswered by the backend)
	NodeSaw     int    `json:"nodeSaw"`     // commands the backend received before the redirected request arrived
	WriterTook  bool   `json:"writerTook"`  // the writer of the backend connection took the redirected request
	Held        bool   `json:"held"`        // ... and did not get past the ASKING hand-over (W_AskHandoffBlocked at the real capacity)
	AskAnswered bool   `json:"askAnswered"` // the redirected request got a reply on its open connection
	AskReply    string `json:"askReply,omitempty"`
	Unanswered  int    `json:"unanswered"` // other requests on open connections without a reply
	FirstLost   string `json:"firstLost,omitempty"`
	Err         string `json:"err,omitempty"`
}

// askFullOnce: window W_AskHandoffBlocked of Upstream.tla at the real queue capacity. The backend connection to node A has
// 1024 requests written and unanswered (its processing queue is full). A request for a key of a slot that migrates from
// node B to node A is answered -ASK by B, arrives at A's connection with the asking mark, is taken by A's writer, which
// encodes ASKING and blocks handing the placeholder to the full processing queue: the request in its hand is in neither
// queue. Then the connection is lost / its host removed / all hosts replaced. Every request on an open downstream
// connection must be answered - the one in the writer's hand included.
func askFullOnce(fault string) (res askFullResult) {
	res = askFullResult{Fault: fault}
	cl, err := simredis.NewCluster(2, 0)
	if err != nil {
		res.Err = err.Error()
		return
	}
	defer cl.Close()
	A, B := cl.Nodes[0], cl.Nodes[1]
	askKey := cl.KeyFor(1, "ask")
	cl.SetMigrating(simredis.Slot([]byte(askKey)), 1, 0)
	keyA := cl.KeyFor(0, "ka")
	keyB := cl.KeyFor(1, "kb")
	if simredis.Slot([]byte(keyB)) == simredis.Slot([]byte(askKey)) {
		keyB = cl.KeyFor(1, "kbb")
	}
	px, err := sut.StartRedis(sut.RedisOpts{}, cl.Addrs())
	if err != nil {
		res.Err = "start: " + err.Error()
		return
	}
	defer sut.StopWithin(px.P, 3*time.Second)
	if !sut.WaitRefresh(px.Name, 3*time.Second) {
		res.Err = "slot table not loaded"
		return
	}
	w, err := sut.Dial(px.Addr)
	if err != nil {
		res.Err = err.Error()
		return
	}
	for _, k := range []string{keyA, keyB} {
		if v, err := w.Do(3*time.Second, "get", k); err != nil || v.Kind == '-' {
			res.Err = fmt.Sprintf("warm %s: %v %v", k, v, err)
			w.Close()
			return
		}
	}
	w.Close()

	// observe the writer of A's connection
	var took, asked int32
	verifhook.Set(func(point string, a, b interface{}) {
		if point != "client.loopWrite.got" && point != "client.loopWrite.asked" {
			return
		}
		if d := predis.VerifDescribe(a); d.Addr != A.Addr {
			return
		}
		d := predis.VerifDescribe(b)
		if len(d.Args) < 2 || d.Args[1] != askKey {
			return
		}
		if point == "client.loopWrite.got" {
			atomic.StoreInt32(&took, 1)
		} else {
			atomic.StoreInt32(&asked, 1)
		}
	})
	defer verifhook.Set(nil)

	A.SetSilent(true) // reads commands, never answers
	A.ClearLog()
	const conns, per = 32, 32 // 1024 = capacity of the processing queue; a session keeps at most 33 requests in flight
	var cs []*sut.Client
	defer func() {
		for _, c := range cs {
			c.Close()
		}
	}()
	for i := 0; i < conns; i++ {
		c, err := sut.Dial(px.Addr)
		if err != nil {
			res.Err = err.Error()
			return
		}
		cs = append(cs, c)
		for k := 0; k < per; k++ {
			c.SendCmd("get", keyA)
			res.Sent++
		}
	}
	dl := time.Now().Add(5 * time.Second)
	for time.Now().Before(dl) && len(A.Records()) < res.Sent {
		time.Sleep(2 * time.Millisecond)
	}
	res.NodeSaw = len(A.Records())
	if res.NodeSaw < res.Sent {
		res.Err = fmt.Sprintf("the backend received only %d of %d requests", res.NodeSaw, res.Sent)
		return
	}
	// the redirected request
	ca, err := sut.Dial(px.Addr)
	if err != nil {
		res.Err = err.Error()
		return
	}
	defer ca.Close()
	ca.SendCmd("get", askKey)
	dl = time.Now().Add(3 * time.Second)
	for time.Now().Before(dl) && atomic.LoadInt32(&took) == 0 {
		time.Sleep(time.Millisecond)
	}
	time.Sleep(30 * time.Millisecond)
	res.WriterTook = atomic.LoadInt32(&took) == 1
	res.Held = res.WriterTook && atomic.LoadInt32(&asked) == 0
	// the backend answers again before the fault (what it swallowed stays unanswered: those requests belong to the
	// connection that is about to go; a command over a new connection must not be swallowed by the simulator)
	A.SetSilent(false)
	switch fault {
	case "reset":
		A.ResetConns(true)
	case "remove-host":
		go px.P.OnSvcHostRemove([]*host.Host{host.New(A.Addr)})
	case "replace-hosts":
		go px.P.OnSvcAllHostReplace([]*host.Host{host.New(B.Addr)})
	}
	var mu sync.Mutex
	var wg sync.WaitGroup
	wg.Add(1)
	go func() {
		defer wg.Done()
		v, err := ca.Recv(4 * time.Second)
		if err != nil && isTimeout(err) {
			v, err = ca.Recv(6 * time.Second) // no verdict on a short deadline
		}
		mu.Lock()
		defer mu.Unlock()
		if err == nil {
			res.AskAnswered = true
			res.AskReply = v.String()
		} else if !isTimeout(err) {
			res.AskAnswered = true // the proxy closed the downstream connection: nothing is owed
			res.AskReply = "connection closed: " + err.Error()
		}
	}()
	for i, c := range cs {
		wg.Add(1)
		go func(i int, c *sut.Client) {
			defer wg.Done()
			for k := 0; k < per; k++ {
				_, err := c.Recv(10 * time.Second)
				if err != nil {
					mu.Lock()
					if isTimeout(err) {
						res.Unanswered += per - k
						if res.FirstLost == "" {
							res.FirstLost = fmt.Sprintf("conn %d request %d: %v", i, k, err)
						}
					}
					mu.Unlock()
					return
				}
			}
		}(i, c)
	}
	wg.Wait()
	return
}

func askFull(args []string) error {
	fs := flag.NewFlagSet("c02-askfull", flag.ContinueOnError)
	out := fs.String("out", "", "results (ndjson)")
	if err := fs.Parse(args); err != nil {
		return err
	}
	predis.VerifSetSlotsRefreshTimers(time.Hour, time.Hour)
	w, err := newLineWriter(*out)
	if err != nil {
		return err
	}
	defer w.Close()
	for _, f := range []string{"reset", "remove-host", "replace-hosts"} {
		res := askFullOnce(f)
		if err := w.Write(res); err != nil {
			return err
		}
		if res.Err == "" && (!res.AskAnswered || res.Unanswered > 0) {
			break // every further fault costs the full deadline again
		}
	}
	return nil
}
