// Package c12 binds spec/redis/Slot.tla to proc/redis/util.go (crc16, hashtag) and the slot
// computation of proc/redis/upstream.go through the verif exports of package redis.
//
// Sub-commands (all write ndjson: one "summary" record per part, one "mismatch" record per
// disagreement between the real code and the values emitted by TLC; the harness decides nothing):
//
//	c12-tables -tab tables.json -out res.ndjson
//	    tables.json = {"tab":[256 ints],"r8":[65536 ints]} as emitted by TLC (SlotGen, Gen_SlotTab.cfg).
//	    Compares the real table with tab; the real crc16 on all 1, 2 and 3 byte keys with the step table
//	    applied once per byte (crc = r8[crc ^ b<<8]); slotOf (the real chooseHost) = crc mod 16384 on the keys without '{'.
//	c12-keys -in keys.ndjson -out res.ndjson
//	    keys.ndjson = {"k":[bytes],"t":[bytes],"s":slot} per line (SlotGen, Gen_SlotKeys*.cfg).
//	c12-random -tab tables.json -n N -short M -out res.ndjson -trace trace.json
//	    seeded random long keys (expected value: step table over the tag known by construction) and M short
//	    keys with random brace placement whose (key, tag, crc, slot) as computed by the real code are written
//	    to trace.json for validation by TLC (SlotTrace.tla).
package c12

import (
	"bytes"
	"encoding/json"
	"flag"
	"fmt"
	"math/rand"
	"os"
	"strconv"
	"sync"

	redis "github.com/samaritan-proxy/samaritan/proc/redis"

	"verifharness/internal/cli"
)

func init() {
	cli.Register("c12-tables", tables)
	cli.Register("c12-keys", keys)
	cli.Register("c12-random", random)
}

type tablesFile struct {
	Tab []int `json:"tab"`
	R8  []int `json:"r8"`
}

func loadTables(path string) (*tablesFile, error) {
	b, err := os.ReadFile(path)
	if err != nil {
		return nil, err
	}
	var t tablesFile
	if err := json.Unmarshal(b, &t); err != nil {
		return nil, err
	}
	if len(t.Tab) != 256 || len(t.R8) != 65536 {
		return nil, fmt.Errorf("tables: want 256/65536 entries, got %d/%d", len(t.Tab), len(t.R8))
	}
	for _, v := range t.R8 {
		if v < 0 || v > 65535 {
			return nil, fmt.Errorf("tables: r8 entry out of range: %d", v)
		}
	}
	return &t, nil
}

// expect applies TLC's step table once per byte. This is the trusted part of the harness.
func (t *tablesFile) expect(key []byte) int {
	crc := 0
	for _, b := range key {
		crc = t.R8[crc^(int(b)<<8)]
	}
	return crc
}

type mismatch struct {
	Kind string `json:"kind"` // "mismatch"
	Part string `json:"part"`
	Key  []int  `json:"key,omitempty"`
	// Class describes the FULL key when Key is clipped: "empty-key", "brace-key" (contains '{'), "plain-key"
	Class string `json:"class,omitempty"`
	What  string `json:"what"`
	Got   []int  `json:"got"`
	Want  []int  `json:"want"`
}

type summary struct {
	Kind       string `json:"kind"` // "summary"
	Part       string `json:"part"`
	N          int64  `json:"n"`
	Mismatches int64  `json:"mismatches"`
	Note       string `json:"note,omitempty"`
}

func ints(b []byte) []int {
	out := make([]int, len(b))
	for i, c := range b {
		out[i] = int(c)
	}
	return out
}

func toBytes(a []int) []byte {
	out := make([]byte, len(a))
	for i, c := range a {
		out[i] = byte(c)
	}
	return out
}

const maxReported = 64

// slotOf returns the slot the real routing function routes key by: a real upstream with three seed hosts
// (redis.VerifNewRouter) whose table gives slot i to the instance with address "i"; the answer is the
// address chooseHost returns.  -1: the request went to a seed host (not routed by slot), -2: chooseHost
// returned an error, -3: chooseHost panicked.
var (
	slotRouterOnce sync.Once
	slotRouter     *redis.VerifRouter
)

// hashTagOf / crcOf run the real hashtag / crc16 on a generated key; a panic of the real code is a result
// (panicked / -3), reported by the caller as a mismatch with the key as artefact, never a crash of the harness.
func hashTagOf(key []byte) (tag []byte, panicked bool) {
	defer func() {
		if p := recover(); p != nil {
			tag, panicked = nil, true
		}
	}()
	return redis.VerifHashTag(key), false
}

func crcOf(b []byte) (crc int) {
	defer func() {
		if p := recover(); p != nil {
			crc = -3
		}
	}()
	return int(redis.VerifCRC16(b))
}

func slotOf(key []byte) (slot int) {
	slotRouterOnce.Do(func() {
		slotRouter = redis.VerifNewRouter("c12_slotof", []string{"192.0.2.1:7000", "192.0.2.2:7000", "192.0.2.3:7000"})
		slotRouter.SetTable(func(i int) string { return strconv.Itoa(i) })
	})
	defer func() {
		if p := recover(); p != nil {
			slot = -3
		}
	}()
	addr, err := slotRouter.Route("set", key)
	if err != nil {
		return -2
	}
	n, err := strconv.Atoi(addr)
	if err != nil {
		return -1
	}
	return n
}

type reporter struct {
	mu  sync.Mutex
	w   *cli.NDJSONWriter
	cnt map[string]int64
}

func keyClass(key []byte) string {
	switch {
	case len(key) == 0:
		return "empty-key"
	case bytes.IndexByte(key, '{') >= 0:
		return "brace-key"
	}
	return "plain-key"
}

func (r *reporter) mismatch(part string, key []byte, what string, got, want []int) {
	r.mismatchOf(part, key, key, what, got, want)
}

// mismatchOf reports shown (possibly clipped) with the class of the full key.
func (r *reporter) mismatchOf(part string, full, shown []byte, what string, got, want []int) {
	r.mu.Lock()
	defer r.mu.Unlock()
	r.cnt[part]++
	if r.cnt[part] <= maxReported {
		r.w.Write(mismatch{Kind: "mismatch", Part: part, Key: ints(shown), Class: keyClass(full), What: what, Got: got, Want: want})
	}
}

func (r *reporter) summary(part string, n int64, note string) {
	r.mu.Lock()
	defer r.mu.Unlock()
	r.w.Write(summary{Kind: "summary", Part: part, N: n, Mismatches: r.cnt[part], Note: note})
}

func tables(args []string) error {
	fs := flag.NewFlagSet("c12-tables", flag.ContinueOnError)
	tab := fs.String("tab", "", "tables.json from TLC")
	out := fs.String("out", "", "result ndjson")
	maxLen := fs.Int("maxlen", 3, "exhaustive key length (1..3)")
	if err := fs.Parse(args); err != nil {
		return err
	}
	t, err := loadTables(*tab)
	if err != nil {
		return err
	}
	w, err := cli.NewNDJSONWriter(*out)
	if err != nil {
		return err
	}
	defer w.Close()
	rep := &reporter{w: w, cnt: map[string]int64{}}

	// the table itself
	real := redis.VerifCRC16Tab()
	for i := 0; i < 256; i++ {
		if int(real[i]) != t.Tab[i] {
			rep.mismatch("table", []byte{byte(i)}, "crc16tab entry", []int{int(real[i])}, []int{t.Tab[i]})
		}
	}
	rep.summary("table", 256, "")

	check := func(part string, key []byte) {
		want := t.expect(key)
		got := crcOf(key)
		if got != want {
			rep.mismatch(part, key, "crc16", []int{got}, []int{want})
		}
		// every key goes through the real routing function; the value is compared where the whole key is
		// hashed (no '{'), a panic is reported for any key (the tag rule for keys with '{' is judged in c12-keys)
		s := slotOf(key)
		if bytes.IndexByte(key, '{') < 0 {
			if s != want%16384 {
				rep.mismatch(part, key, "slot", []int{s}, []int{want % 16384})
			}
		} else if s == -3 {
			rep.mismatch(part, key, "slot", []int{s}, []int{})
		}
	}
	// empty key
	check("len0", []byte{})
	rep.summary("len0", 1, "")
	for a := 0; a < 256; a++ {
		check("len1", []byte{byte(a)})
	}
	rep.summary("len1", 256, "")
	if *maxLen >= 2 {
		for a := 0; a < 256; a++ {
			for b := 0; b < 256; b++ {
				check("len2", []byte{byte(a), byte(b)})
			}
		}
		// the two byte CRCs reach every 16 bit state (the fold of the real code is a bijection on them)
		seen := make([]bool, 65536)
		distinct := 0
		for a := 0; a < 256; a++ {
			for b := 0; b < 256; b++ {
				c := crcOf([]byte{byte(a), byte(b)})
				if c >= 0 && !seen[c] {
					seen[c] = true
					distinct++
				}
			}
		}
		rep.summary("len2", 65536, fmt.Sprintf("distinct_states=%d", distinct))
	}
	if *maxLen >= 3 {
		var wg sync.WaitGroup
		for a := 0; a < 256; a++ {
			wg.Add(1)
			go func(a int) {
				defer wg.Done()
				key := make([]byte, 3)
				key[0] = byte(a)
				for b := 0; b < 256; b++ {
					key[1] = byte(b)
					for c := 0; c < 256; c++ {
						key[2] = byte(c)
						check("len3", key)
					}
				}
			}(a)
		}
		wg.Wait()
		rep.summary("len3", 1<<24, "")
	}
	return nil
}

type keyVec struct {
	K []int `json:"k"`
	T []int `json:"t"`
	S int   `json:"s"`
}

func keys(args []string) error {
	fs := flag.NewFlagSet("c12-keys", flag.ContinueOnError)
	in := fs.String("in", "", "keys ndjson from TLC")
	out := fs.String("out", "", "result ndjson")
	if err := fs.Parse(args); err != nil {
		return err
	}
	w, err := cli.NewNDJSONWriter(*out)
	if err != nil {
		return err
	}
	defer w.Close()
	rep := &reporter{w: w, cnt: map[string]int64{}}
	var n, tagged int64
	err = cli.ReadNDJSON(*in, func(line []byte) error {
		var v keyVec
		if err := json.Unmarshal(line, &v); err != nil {
			return err
		}
		key := toBytes(v.K)
		n++
		if len(v.T) != len(v.K) {
			tagged++
		}
		cp := append([]byte{}, key...)
		tag, panicked := hashTagOf(cp)
		if panicked {
			rep.mismatch("brace", key, "hashtag panic", []int{-3}, v.T)
		} else if !bytes.Equal(tag, toBytes(v.T)) {
			rep.mismatch("brace", key, "hashtag", ints(tag), v.T)
		}
		if !bytes.Equal(cp, key) {
			rep.mismatch("brace", key, "hashtag modified its argument", ints(cp), v.K)
		}
		if s := slotOf(key); s != v.S {
			rep.mismatch("brace", key, "slot", []int{s}, []int{v.S})
		}
		return nil
	})
	if err != nil {
		return err
	}
	rep.summary("brace", n, fmt.Sprintf("with_tag=%d", tagged))
	return nil
}

type traceRec struct {
	K []int `json:"k"`
	T []int `json:"t"`
	C int   `json:"c"`
	S int   `json:"s"`
}

func random(args []string) error {
	fs := flag.NewFlagSet("c12-random", flag.ContinueOnError)
	tab := fs.String("tab", "", "tables.json from TLC")
	out := fs.String("out", "", "result ndjson")
	trace := fs.String("trace", "", "trace.json for TLC (short keys)")
	n := fs.Int("n", 2000, "number of long keys")
	short := fs.Int("short", 300, "number of short keys recorded for TLC")
	if err := fs.Parse(args); err != nil {
		return err
	}
	t, err := loadTables(*tab)
	if err != nil {
		return err
	}
	w, err := cli.NewNDJSONWriter(*out)
	if err != nil {
		return err
	}
	defer w.Close()
	rep := &reporter{w: w, cnt: map[string]int64{}}
	rng := rand.New(rand.NewSource(cli.Seed()))

	randBytes := func(n int, exclude byte) []byte {
		b := make([]byte, n)
		for i := range b {
			for {
				b[i] = byte(rng.Intn(256))
				if b[i] != exclude {
					break
				}
			}
		}
		return b
	}
	lengths := []int{0, 1, 2, 3, 4, 15, 16, 17, 255, 256, 257, 4095, 4096, 4097, 65535, 65536}
	var tagged int64
	for i := 0; i < *n; i++ {
		var l int
		if i < len(lengths) {
			l = lengths[i]
		} else {
			switch rng.Intn(3) {
			case 0:
				l = rng.Intn(64)
			case 1:
				l = rng.Intn(4096)
			default:
				l = rng.Intn(65537)
			}
		}
		var key, tag []byte
		if i%2 == 0 || l < 3 {
			// no '{' at all: the whole key is hashed
			key = randBytes(l, '{')
			tag = key
		} else {
			// prefix without '{', '{', non-empty tag without '}', '}', arbitrary suffix
			tl := 1 + rng.Intn(l-2)
			pl := rng.Intn(l - 2 - tl + 1)
			sl := l - 2 - tl - pl
			tag = randBytes(tl, '}')
			key = append(key, randBytes(pl, '{')...)
			key = append(key, '{')
			key = append(key, tag...)
			key = append(key, '}')
			key = append(key, randBytes(sl, 0)...) // suffix may hold any byte but NUL (irrelevant)
			tagged++
		}
		want := t.expect(tag)
		cp := append([]byte{}, key...)
		gotTag, panicked := hashTagOf(cp)
		if panicked {
			rep.mismatchOf("long", key, clip(key), fmt.Sprintf("hashtag panic (key length %d)", len(key)), []int{-3}, ints(clip(tag)))
		} else if !bytes.Equal(gotTag, tag) {
			rep.mismatchOf("long", key, clip(key), fmt.Sprintf("hashtag (key length %d)", len(key)), ints(clip(gotTag)), ints(clip(tag)))
		}
		if c := crcOf(tag); c != want {
			rep.mismatchOf("long", key, clip(key), fmt.Sprintf("crc16 of the tag (tag length %d)", len(tag)), []int{c}, []int{want})
		}
		if s := slotOf(key); s != want%16384 {
			rep.mismatchOf("long", key, clip(key), fmt.Sprintf("slot (key length %d)", len(key)), []int{s}, []int{want % 16384})
		}
	}
	rep.summary("long", int64(*n), fmt.Sprintf("with_tag=%d", tagged))

	// short keys with arbitrary brace placement: what the real code computes goes to TLC
	recs := make([]traceRec, 0, *short)
	alpha := []byte{'{', '}', '{', '}', 'a', 'b', 0, 255}
	for i := 0; i < *short; i++ {
		l := rng.Intn(41)
		key := make([]byte, l)
		for j := range key {
			if rng.Intn(3) == 0 {
				key[j] = byte(rng.Intn(256))
			} else {
				key[j] = alpha[rng.Intn(len(alpha))]
			}
		}
		// a panic of the real code is recorded as tag [] / crc -3 / slot -3: TLC rejects the record
		tag, panicked := hashTagOf(append([]byte{}, key...))
		c := -3
		if !panicked {
			c = crcOf(tag)
		}
		recs = append(recs, traceRec{K: ints(key), T: ints(tag), C: c, S: slotOf(key)})
	}
	b, err := json.Marshal(recs)
	if err != nil {
		return err
	}
	if err := os.WriteFile(*trace, b, 0o644); err != nil {
		return err
	}
	rep.summary("short-recorded", int64(len(recs)), "validated by TLC (SlotTrace)")
	return nil
}

func clip(b []byte) []byte {
	if len(b) > 96 {
		return b[:96]
	}
	return b
}
