package c12

// c12-route: the routing decision of a real upstream (chooseHost) observed in every phase of
// refreshes of its slot table (doSlotsRefresh) against an unchanged, correctly sharded cluster.
//
//	c12-route -in route.json -brace keys.ndjson -cycles N -free R -out res.ndjson -trace trace.json
//	    route.json = {"layouts":[{"name","nodes":[{"n","a","r":[[lo,hi]..]}]}],
//	                  "keys":[{"k","t","s"}], "states":[{"lay","phase","assigned","filled","window","exp","own"}]}
//	    as emitted by TLC (SlotRouteGen, Gen_SlotRoute.cfg); keys.ndjson = the brace keys of Gen_SlotKeys*.cfg.
//
// Per layout: three fake seed nodes answer CLUSTER NODES with the text of the layout (they can withhold
// the reply, answer with an error or with a malformed text); a real upstream is built over them
// (redis.VerifNewRouter).  The refresh goroutine is parked at the hook
// "upstream.doSlotsRefresh.assigned" after the slots of each master have been written.  In every state
// (boot, reply in flight, after each master, refresh returned, refresh failed) every key is routed
// through the real chooseHost and the node is compared with the node TLC computed for that state
// ("routemis" records); the events are written to trace.json for validation by TLC (SlotRouteTrace).
// A last stratum lets the refreshes run free while goroutines keep routing.  The harness decides nothing.

import (
	"encoding/json"
	"errors"
	"flag"
	"fmt"
	"net"
	"os"
	"sort"
	"strings"
	"sync"
	"sync/atomic"
	"time"

	redis "github.com/samaritan-proxy/samaritan/proc/redis"
	"github.com/samaritan-proxy/samaritan/utils/verifhook"

	"verifharness/internal/cli"
	"verifharness/internal/resp"
)

func init() {
	cli.Register("c12-route", route)
}

const assignedPoint = "upstream.doSlotsRefresh.assigned"

const stepTimeout = 15 * time.Second

type layoutNode struct {
	N string  `json:"n"`
	A string  `json:"a"`
	R [][]int `json:"r"`
}

type layoutDef struct {
	Name  string       `json:"name"`
	Nodes []layoutNode `json:"nodes"`
}

type routeKey struct {
	K []int `json:"k"`
	T []int `json:"t"`
	S int   `json:"s"`
}

type routeState struct {
	Lay      string   `json:"lay"`
	Phase    string   `json:"phase"`
	Assigned []string `json:"assigned"`
	Filled   bool     `json:"filled"`
	Window   bool     `json:"window"`
	Exp      []string `json:"exp"`
	Own      []string `json:"own"`
}

type routeFile struct {
	Layouts []layoutDef  `json:"layouts"`
	Keys    []routeKey   `json:"keys"`
	States  []routeState `json:"states"`
}

func stateKey(lay, phase string, assigned []string, filled bool) string {
	a := append([]string{}, assigned...)
	sort.Strings(a)
	return fmt.Sprintf("%s|%s|%s|%v", lay, phase, strings.Join(a, ","), filled)
}

// ---- fake seed nodes

type seedCtl struct {
	mu      sync.Mutex
	mode    string // "ok", "error", "malformed"
	hold    bool
	text    string
	got     chan struct{} // one token per CLUSTER NODES received
	release chan struct{} // one token per withheld reply
	served  int64
}

type seedNode struct {
	ln  net.Listener
	ctl *seedCtl
	wg  sync.WaitGroup
	mu  sync.Mutex
	cns []net.Conn
}

func newSeed(ctl *seedCtl) (*seedNode, error) {
	ln, err := net.Listen("tcp", "127.0.0.1:0")
	if err != nil {
		return nil, err
	}
	s := &seedNode{ln: ln, ctl: ctl}
	s.wg.Add(1)
	go func() {
		defer s.wg.Done()
		for {
			cn, err := ln.Accept()
			if err != nil {
				return
			}
			s.mu.Lock()
			s.cns = append(s.cns, cn)
			s.mu.Unlock()
			s.wg.Add(1)
			go func() {
				defer s.wg.Done()
				s.serve(cn)
			}()
		}
	}()
	return s, nil
}

func (s *seedNode) serve(cn net.Conn) {
	defer cn.Close()
	rd := resp.NewReader(cn)
	for {
		v, err := rd.Read()
		if err != nil {
			return
		}
		args := v.Args()
		var out resp.Value
		if len(args) >= 2 && strings.EqualFold(string(args[0]), "cluster") && strings.EqualFold(string(args[1]), "nodes") {
			c := s.ctl
			c.mu.Lock()
			hold, mode, text := c.hold, c.mode, c.text
			c.mu.Unlock()
			atomic.AddInt64(&c.served, 1)
			if hold {
				select {
				case c.got <- struct{}{}:
				default:
				}
				select {
				case <-c.release:
				case <-time.After(4 * stepTimeout):
				}
				// the mode may have been chosen while the reply was withheld
				c.mu.Lock()
				mode, text = c.mode, c.text
				c.mu.Unlock()
			}
			switch mode {
			case "error":
				out = resp.Err("ERR this node does not answer CLUSTER NODES now")
			case "malformed":
				out = resp.BulkS("0123 10.0.0.1:7000 master\n")
			default:
				out = resp.BulkS(text)
			}
		} else {
			out = resp.Simple("OK")
		}
		if _, err := cn.Write(resp.Bytes(out)); err != nil {
			return
		}
	}
}

func (s *seedNode) close() {
	s.ln.Close()
	s.mu.Lock()
	for _, cn := range s.cns {
		cn.Close()
	}
	s.mu.Unlock()
	s.wg.Wait()
}

func nodesText(l *layoutDef) string {
	var b strings.Builder
	for i, n := range l.Nodes {
		id := fmt.Sprintf("%040x", 0xa000+i)
		fmt.Fprintf(&b, "%s %s@1%d master - 0 1528688887753 %d connected", id, n.A, 7000+i, i+1)
		for _, r := range n.R {
			if r[0] == r[1] {
				fmt.Fprintf(&b, " %d", r[0])
			} else {
				fmt.Fprintf(&b, " %d-%d", r[0], r[1])
			}
		}
		b.WriteString("\n")
		// one replica per master: owns nothing, must never be chosen for a write or (strategy MASTER) a read
		fmt.Fprintf(&b, "%040x 10.9.%d.1:7100@17100 slave %s 0 1528688887753 %d connected\n", 0xb000+i, i, id, i+1)
	}
	return b.String()
}

// ---- hook gate

type arrival struct {
	addr string
	cont chan struct{}
}

type assignGate struct {
	armed    int32
	arrivals chan arrival
}

func (g *assignGate) hook(point string, a, b interface{}) {
	if point != assignedPoint || atomic.LoadInt32(&g.armed) == 0 {
		return
	}
	addr, _ := redis.VerifInstanceAddr(b)
	ar := arrival{addr: addr, cont: make(chan struct{})}
	g.arrivals <- ar
	select {
	case <-ar.cont:
	case <-time.After(4 * stepTimeout):
	}
}

// ---- records

type routeMis struct {
	Kind     string   `json:"kind"` // "routemis"
	Part     string   `json:"part"` // "route" | "route-brace" | "route-free"
	Lay      string   `json:"lay"`
	Phase    string   `json:"phase"`
	After    string   `json:"after"` // what the previous refresh did: "", "done", "fail-error", "fail-malformed"
	Assigned []string `json:"assigned"`
	Filled   bool     `json:"filled"`
	Window   bool     `json:"window"`
	Cycle    int      `json:"cycle"`
	Key      []int    `json:"key"`
	Slot     int      `json:"slot"`
	Cmd      string   `json:"cmd"`
	Got      string   `json:"got"`
	GotAddr  string   `json:"got_addr"`
	Want     string   `json:"want"`
	N        int64    `json:"n,omitempty"` // free running: number of such decisions
}

type routeSummary struct {
	Kind       string           `json:"kind"` // "summary"
	Part       string           `json:"part"`
	Lay        string           `json:"lay"`
	N          int64            `json:"n"`
	Mismatches int64            `json:"mismatches"`
	Strata     map[string]int64 `json:"strata,omitempty"`
	Note       string           `json:"note,omitempty"`
}

type traceEvent struct {
	Seq  int    `json:"seq"`
	Op   string `json:"op"`
	Lay  string `json:"lay,omitempty"`
	N    string `json:"n,omitempty"`
	K    int    `json:"k,omitempty"`
	KB   []int  `json:"kb"`
	Node string `json:"node,omitempty"`
	Cmd  string `json:"cmd,omitempty"`
}

type routeRun struct {
	w      *cli.NDJSONWriter
	mu     sync.Mutex
	cnt    map[string]int64
	events []traceEvent
	states map[string]*routeState
	rf     *routeFile
	brace  []keyVec
}

func (rr *routeRun) mis(m routeMis) {
	rr.mu.Lock()
	defer rr.mu.Unlock()
	m.Kind = "routemis"
	if m.Assigned == nil {
		m.Assigned = []string{}
	}
	rr.cnt[m.Part+"/"+m.Lay]++
	if rr.cnt[m.Part+"/"+m.Lay] <= maxReported {
		rr.w.Write(m)
	}
}

func (rr *routeRun) event(e traceEvent) {
	e.Seq = len(rr.events) + 1
	if e.KB == nil {
		e.KB = []int{}
	}
	rr.events = append(rr.events, e)
}

type layoutRun struct {
	rr     *routeRun
	l      *layoutDef
	ctl    *seedCtl
	seeds  []*seedNode
	seedOf map[string]bool
	nameOf map[string]string // announced address -> master name
	router *redis.VerifRouter
	gate   *assignGate
	filled bool
	after  string
	cycle  int
	strata map[string]int64
	n      int64
	nBrace int64
	trace  bool
}

func (lr *layoutRun) classify(addr string, err error) string {
	if err != nil {
		if strings.HasPrefix(err.Error(), "panic: ") {
			return "panic" // the real routing function panicked on this key
		}
		return "error"
	}
	if n, ok := lr.nameOf[addr]; ok {
		return n
	}
	if lr.seedOf[addr] {
		return "seed"
	}
	return "other"
}

// routeOne calls the real routing function; a panic is a result, not a crash of the harness.
func routeOne(r *redis.VerifRouter, cmd string, key []byte) (addr string, err error) {
	defer func() {
		if p := recover(); p != nil {
			addr, err = "", fmt.Errorf("panic: %v", p)
		}
	}()
	return r.Route(cmd, key)
}

func (lr *layoutRun) ownerOfSlot(slot int) string {
	for _, n := range lr.l.Nodes {
		for _, r := range n.R {
			if slot >= r[0] && slot <= r[1] {
				return n.N
			}
		}
	}
	return ""
}

// observe routes every key in the current state of the real table.
func (lr *layoutRun) observe(phase string, assigned []string) error {
	rr := lr.rr
	st := rr.states[stateKey(lr.l.Name, phase, assigned, lr.filled)]
	if st == nil {
		return fmt.Errorf("state %s is not a state of the model", stateKey(lr.l.Name, phase, assigned, lr.filled))
	}
	stratum := phase
	if phase == "update" {
		stratum = fmt.Sprintf("update-%d-of-%d", len(assigned), len(lr.l.Nodes))
	}
	if phase == "idle" || phase == "boot" {
		stratum += "-after-" + lr.after
	}
	if lr.filled {
		stratum += "/filled"
	} else {
		stratum += "/first-fill"
	}
	base := routeMis{Lay: lr.l.Name, Phase: phase, After: lr.after, Assigned: append([]string{}, assigned...),
		Filled: lr.filled, Window: st.Window, Cycle: lr.cycle}
	for ki, k := range rr.rf.Keys {
		key := toBytes(k.K)
		for _, cmd := range []string{"set", "get"} {
			addr, err := routeOne(lr.router, cmd, key)
			node := lr.classify(addr, err)
			lr.n++
			lr.strata[stratum]++
			if cmd == "set" && lr.trace {
				rr.event(traceEvent{Op: "route", K: ki + 1, KB: k.K, Node: node, Cmd: cmd})
			}
			if node != st.Exp[ki] {
				m := base
				m.Part, m.Key, m.Slot, m.Cmd, m.Got, m.GotAddr, m.Want = "route", k.K, k.S, cmd, node, addr, st.Exp[ki]
				if err != nil {
					m.GotAddr = err.Error()
				}
				rr.mis(m)
			}
		}
	}
	// every brace key of Gen_SlotKeys: owner of the slot TLC computed, once the table has been filled
	if lr.filled {
		for _, k := range rr.brace {
			key := toBytes(k.K)
			addr, err := routeOne(lr.router, "set", key)
			node := lr.classify(addr, err)
			lr.nBrace++
			if want := lr.ownerOfSlot(k.S); node != want {
				m := base
				m.Part, m.Key, m.Slot, m.Cmd, m.Got, m.GotAddr, m.Want = "route-brace", k.K, k.S, "set", node, addr, want
				if err != nil {
					m.GotAddr = err.Error()
				}
				rr.mis(m)
			}
		}
	}
	return nil
}

// refresh drives one refresh of the real table through its phases. mode: "ok", "error", "malformed".
func (lr *layoutRun) refresh(mode string) error {
	rr := lr.rr
	lr.cycle++
	c := lr.ctl
	c.mu.Lock()
	c.mode, c.hold = mode, true
	c.mu.Unlock()
	for len(c.got) > 0 {
		<-c.got
	}
	atomic.StoreInt32(&lr.gate.armed, 1)
	done := make(chan error, 1)
	go func() { done <- lr.router.Refresh() }()

	select {
	case <-c.got:
	case err := <-done:
		return fmt.Errorf("refresh returned before CLUSTER NODES arrived at a seed: %v", err)
	case <-time.After(stepTimeout):
		return errors.New("CLUSTER NODES did not arrive at a seed")
	}
	if lr.trace {
		rr.event(traceEvent{Op: "send"})
	}
	if err := lr.observe("inflight", nil); err != nil {
		return err
	}
	c.release <- struct{}{}

	var assigned []string
	for {
		select {
		case ar := <-lr.gate.arrivals:
			name, ok := lr.nameOf[ar.addr]
			if !ok {
				close(ar.cont)
				return fmt.Errorf("hook %s with an instance the layout does not have: %q", assignedPoint, ar.addr)
			}
			assigned = append(assigned, name)
			if lr.trace {
				rr.event(traceEvent{Op: "assign", N: name})
			}
			err := lr.observe("update", assigned)
			close(ar.cont)
			if err != nil {
				return err
			}
		case err := <-done:
			atomic.StoreInt32(&lr.gate.armed, 0)
			if mode == "ok" {
				if err != nil {
					return fmt.Errorf("refresh failed: %v", err)
				}
				if len(assigned) != len(lr.l.Nodes) {
					return fmt.Errorf("refresh returned after %d of %d masters (hook missing?)", len(assigned), len(lr.l.Nodes))
				}
				if lr.trace {
					rr.event(traceEvent{Op: "done"})
				}
				lr.filled = true
				lr.after = "done"
				return lr.observe("idle", nil)
			}
			if err == nil {
				return fmt.Errorf("refresh with a %s reply returned no error", mode)
			}
			if len(assigned) != 0 {
				return fmt.Errorf("refresh with a %s reply wrote %d masters", mode, len(assigned))
			}
			if lr.trace {
				rr.event(traceEvent{Op: "fail"})
			}
			lr.after = "fail-" + mode
			if lr.filled {
				return lr.observe("idle", nil)
			}
			return lr.observe("boot", nil)
		case <-time.After(stepTimeout):
			atomic.StoreInt32(&lr.gate.armed, 0)
			return errors.New("refresh neither reached the next hook nor returned")
		}
	}
}

// free lets refreshes run without gates while goroutines keep routing the keys of the model.
func (lr *layoutRun) free(refreshes, routers int) error {
	rr := lr.rr
	atomic.StoreInt32(&lr.gate.armed, 0)
	c := lr.ctl
	c.mu.Lock()
	c.mode, c.hold = "ok", false
	c.mu.Unlock()
	st := rr.states[stateKey(lr.l.Name, "idle", nil, true)]
	if st == nil {
		return errors.New("no idle state in the model")
	}
	nk := len(rr.rf.Keys)
	keys := make([][]byte, nk)
	for i, k := range rr.rf.Keys {
		keys[i] = toBytes(k.K)
	}
	type tally map[string]int64 // "ki|node|addr" -> n
	var stop int32
	var wg sync.WaitGroup
	tallies := make([]tally, routers)
	counts := make([]int64, routers)
	for g := 0; g < routers; g++ {
		wg.Add(1)
		tallies[g] = tally{}
		go func(g int) {
			defer wg.Done()
			for atomic.LoadInt32(&stop) == 0 {
				for ki := 0; ki < nk; ki++ {
					i := (ki + g*7) % nk
					addr, err := routeOne(lr.router, "set", keys[i])
					counts[g]++
					node := lr.classify(addr, err)
					if node != st.Exp[i] {
						if err != nil {
							addr = err.Error()
						}
						tallies[g][fmt.Sprintf("%d|%s|%s", i, node, addr)]++
					}
				}
			}
		}(g)
	}
	var rerr error
	deadline := time.Now().Add(20 * time.Second)
	doneRef := 0
	for i := 0; i < refreshes && time.Now().Before(deadline); i++ {
		ch := make(chan error, 1)
		go func() { ch <- lr.router.Refresh() }()
		select {
		case err := <-ch:
			if err != nil {
				rerr = fmt.Errorf("free running refresh %d failed: %v", i, err)
			}
		case <-time.After(stepTimeout):
			rerr = fmt.Errorf("free running refresh %d did not return", i)
		}
		if rerr != nil {
			break
		}
		doneRef++
	}
	atomic.StoreInt32(&stop, 1)
	wg.Wait()
	var total, bad int64
	merged := tally{}
	for g := range tallies {
		total += counts[g]
		for k, n := range tallies[g] {
			merged[k] += n
			bad += n
		}
	}
	ks := make([]string, 0, len(merged))
	for k := range merged {
		ks = append(ks, k)
	}
	sort.Strings(ks)
	for _, k := range ks {
		var ki int
		var node, addr string
		parts := strings.SplitN(k, "|", 3)
		fmt.Sscanf(parts[0], "%d", &ki)
		node, addr = parts[1], parts[2]
		rr.mis(routeMis{Part: "route-free", Lay: lr.l.Name, Phase: "free-running", After: "done", Filled: true, Window: true,
			Cycle: lr.cycle, Key: rr.rf.Keys[ki].K, Slot: rr.rf.Keys[ki].S, Cmd: "set", Got: node, GotAddr: addr,
			Want: st.Exp[ki], N: merged[k]})
	}
	rr.mu.Lock()
	rr.w.Write(routeSummary{Kind: "summary", Part: "route-free", Lay: lr.l.Name, N: total, Mismatches: bad,
		Note: fmt.Sprintf("refreshes=%d routers=%d", doneRef, routers)})
	rr.mu.Unlock()
	return rerr
}

func (lr *layoutRun) close() {
	atomic.StoreInt32(&lr.gate.armed, 0)
	if lr.router != nil {
		lr.router.Close()
	}
	for _, s := range lr.seeds {
		s.close()
	}
}

func runLayout(rr *routeRun, l *layoutDef, gate *assignGate, cycles, freeRefreshes int, trace bool) error {
	lr := &layoutRun{rr: rr, l: l, gate: gate, seedOf: map[string]bool{}, nameOf: map[string]string{},
		strata: map[string]int64{}, after: "start", trace: trace}
	lr.ctl = &seedCtl{mode: "ok", text: nodesText(l), got: make(chan struct{}, 8), release: make(chan struct{}, 8)}
	defer lr.close()
	var addrs []string
	for i := 0; i < 3; i++ {
		s, err := newSeed(lr.ctl)
		if err != nil {
			return err
		}
		lr.seeds = append(lr.seeds, s)
		addrs = append(addrs, s.ln.Addr().String())
		lr.seedOf[s.ln.Addr().String()] = true
	}
	for _, n := range l.Nodes {
		lr.nameOf[n.A] = n.N
	}
	lr.router = redis.VerifNewRouter("c12_"+l.Name, addrs)
	if trace {
		rr.event(traceEvent{Op: "init", Lay: l.Name})
	}
	var err error
	step := func(f func() error) {
		if err == nil {
			err = f()
		}
	}
	step(func() error { return lr.observe("boot", nil) })
	// a failed refresh of an empty table, the first fill, then refreshes of the complete table
	step(func() error { return lr.refresh("error") })
	step(func() error { return lr.refresh("ok") })
	for i := 1; i < cycles; i++ {
		step(func() error { return lr.refresh("ok") })
		if i == 1 {
			step(func() error { return lr.refresh("error") })
			step(func() error { return lr.refresh("malformed") })
		}
	}
	if freeRefreshes > 0 {
		step(func() error { return lr.free(freeRefreshes, 4) })
	}
	rr.mu.Lock()
	rr.w.Write(routeSummary{Kind: "summary", Part: "route", Lay: l.Name, N: lr.n, Mismatches: rr.cnt["route/"+l.Name],
		Strata: lr.strata, Note: fmt.Sprintf("refreshes=%d", lr.cycle)})
	rr.w.Write(routeSummary{Kind: "summary", Part: "route-brace", Lay: l.Name, N: lr.nBrace, Mismatches: rr.cnt["route-brace/"+l.Name]})
	rr.mu.Unlock()
	return err
}

func route(args []string) error {
	fs := flag.NewFlagSet("c12-route", flag.ContinueOnError)
	in := fs.String("in", "", "route.json from TLC")
	brace := fs.String("brace", "", "brace keys ndjson from TLC (optional)")
	out := fs.String("out", "", "result ndjson")
	trace := fs.String("trace", "", "trace.json for TLC")
	cycles := fs.Int("cycles", 3, "successful refreshes per layout")
	free := fs.Int("free", 200, "free running refreshes per layout")
	if err := fs.Parse(args); err != nil {
		return err
	}
	b, err := os.ReadFile(*in)
	if err != nil {
		return err
	}
	var rf routeFile
	if err := json.Unmarshal(b, &rf); err != nil {
		return err
	}
	w, err := cli.NewNDJSONWriter(*out)
	if err != nil {
		return err
	}
	defer w.Close()
	rr := &routeRun{w: w, cnt: map[string]int64{}, states: map[string]*routeState{}, rf: &rf}
	for i := range rf.States {
		s := &rf.States[i]
		if len(s.Exp) != len(rf.Keys) || len(s.Own) != len(rf.Keys) {
			return fmt.Errorf("state %d: %d expectations for %d keys", i, len(s.Exp), len(rf.Keys))
		}
		rr.states[stateKey(s.Lay, s.Phase, s.Assigned, s.Filled)] = s
	}
	if *brace != "" {
		err = cli.ReadNDJSON(*brace, func(line []byte) error {
			var v keyVec
			if err := json.Unmarshal(line, &v); err != nil {
				return err
			}
			rr.brace = append(rr.brace, v)
			return nil
		})
		if err != nil {
			return err
		}
	}
	gate := &assignGate{arrivals: make(chan arrival)}
	verifhook.Set(gate.hook)
	defer verifhook.Set(nil)
	var firstErr error
	for i := range rf.Layouts {
		if err := runLayout(rr, &rf.Layouts[i], gate, *cycles, *free, *trace != ""); err != nil {
			// infrastructure trouble: reported, the records written so far stand
			w.Write(map[string]interface{}{"kind": "stall", "lay": rf.Layouts[i].Name, "error": err.Error()})
			if firstErr == nil {
				firstErr = err
			}
		}
	}
	if *trace != "" {
		tb, err := json.Marshal(rr.events)
		if err != nil {
			return err
		}
		if err := os.WriteFile(*trace, tb, 0o644); err != nil {
			return err
		}
	}
	return nil
}
