package smoke

import (
	"fmt"
	"time"

	"verifharness/internal/cli"
	"verifharness/internal/simredis"
	"verifharness/internal/sut"
)

func init() { cli.Register("smoke", smoke) }

// smoke: start a 3 master cluster and a proxy, run a few commands.
func smoke(args []string) error {
	sut.FastRefresh()
	cl, err := simredis.NewCluster(3, 1)
	if err != nil {
		return err
	}
	defer cl.Close()
	r, err := sut.StartRedis(sut.RedisOpts{}, cl.Addrs()[:3])
	if err != nil {
		return err
	}
	time.Sleep(50 * time.Millisecond)
	c, err := sut.Dial(r.Addr)
	if err != nil {
		return err
	}
	for i := 0; i < 5; i++ {
		k := fmt.Sprintf("k%d", i)
		v, err := c.Do(time.Second, "set", k, "v"+k)
		fmt.Println("set", k, v, err)
		v, err = c.Do(time.Second, "get", k)
		fmt.Println("get", k, v, err)
	}
	v, err := c.Do(time.Second, "mget", "k0", "k1", "k2", "nokey")
	fmt.Println("mget", v, err)
	fmt.Println("redirects", cl.Redirects)
	for _, n := range cl.Nodes {
		fmt.Println(n.Idx, n.Addr, "accepted", n.AcceptCount(), "cmds", len(simredis.DataCommands(n.Records())))
	}
	ok := sut.StopWithin(r.P, 3*time.Second)
	fmt.Println("stopped:", ok)
	fmt.Println(sut.ServiceStats(r.Name))
	return nil
}
