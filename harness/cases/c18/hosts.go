package c18

import (
	"encoding/json"
	"flag"
	"fmt"
	"math/rand"
	"strconv"
	"time"

	"github.com/samaritan-proxy/samaritan/host"
	predis "github.com/samaritan-proxy/samaritan/proc/redis"

	"verifharness/internal/cli"
	"verifharness/internal/simredis"
)

// Host set histories of Scan.tla (action Withdraw, emitted by ScanGen as
// @@HOSTS): the client iterates k calls over the hosts `before`, service
// discovery withdraws all hosts but `keep` (OnSvcHostRemove on the running
// processor), the client comes back with the cursor it holds (probe: never a
// crash, the terminal reply when the node index is past the new last node),
// then a fresh iteration over the hosts kept is judged like any other one.

type probeRec struct {
	Before   [][]uint64 `json:"before"`
	K        int        `json:"k"`
	Keep     []int      `json:"keep"`   // 1 based indexes into before
	Cursor   uint64     `json:"cursor"` // the saved cursor (symbolic)
	Terminal bool       `json:"terminal"`
	Crash    bool       `json:"crash"`
}

type history struct {
	Probe probeRec   `json:"probe"`
	Nodes [][]uint64 `json:"nodes"`
	Calls []call     `json:"calls"`
}

type hostsResult struct {
	result
	Before int    `json:"before"`
	K      int    `json:"k"`
	Keep   []int  `json:"keep"`
	Saved  string `json:"saved"`
	Probe  string `json:"probe_reply,omitempty"`
}

func hostsOf(nodes []*simredis.Node) []*host.Host {
	out := make([]*host.Host, 0, len(nodes))
	for _, nd := range nodes {
		out = append(out, host.New(nd.Addr))
	}
	return out
}

// settle waits until an iteration over all n hosts of proxy n is answered
// cleanly again (the backend connections of re-added hosts are re-created on
// demand; a request may still meet the connection that is being torn down).
// Not judged: the property speaks about an unchanging host set.
func (e *env) settle(n int) error {
	var last string
	for try := 0; try < 200; try++ {
		c := e.clients[n]
		cursor, ok := "0", true
		for i := 0; i < 4*n+4; i++ {
			v, err := c.Do(3*time.Second, "SCAN", cursor)
			if err != nil {
				last = "no reply: " + err.Error()
				e.redial(n)
				ok = false
				break
			}
			if v.Kind != '*' || len(v.Arr) != 2 {
				last = "reply " + v.String()
				ok = false
				break
			}
			cursor = string(v.Arr[0].Str)
			if cursor == "0" {
				break
			}
		}
		if ok && cursor == "0" {
			return nil
		}
		time.Sleep(2 * time.Millisecond)
	}
	return fmt.Errorf("proxy with %d hosts does not settle after the hosts were added again: %s", n, last)
}

func (e *env) hostsOne(id int, h history, rnd *rand.Rand, window bool) (res hostsResult) {
	n := len(h.Probe.Before)
	res = hostsResult{result: result{ID: id, Nodes: len(h.Nodes)}, Before: n, K: h.Probe.K, Keep: h.Probe.Keep}
	px := e.proxies[n]
	all := e.sorted[:n]
	extra := pickExtra(rnd)
	// 1. k calls over the hosts before the withdrawal, every step returns one key
	allScript := map[uint64]simredis.ScanStep{0: {Next: 0}}
	e.script(all, h.Probe.Before)
	cursor := "0"
	for i := 0; i < h.Probe.K; i++ {
		v, err := e.clients[n].Do(3*time.Second, append([]string{"SCAN", cursor}, extra...)...)
		if err != nil {
			res.Bad = append(res.Bad, fmt.Sprintf("before the withdrawal, call %d: no reply: %v", i+1, err))
			e.redial(n)
			return
		}
		if v.Kind != '*' || len(v.Arr) != 2 {
			res.Bad = append(res.Bad, fmt.Sprintf("before the withdrawal, call %d: malformed reply %s", i+1, v))
			return
		}
		cursor = string(v.Arr[0].Str)
	}
	saved := strconv.FormatUint(composite(h.Probe.Cursor), 10)
	if cursor != saved {
		res.Bad = append(res.Bad, fmt.Sprintf("before the withdrawal: the client holds cursor %s after %d calls, model expects %s", cursor, h.Probe.K, saved))
	}
	res.Saved = saved
	// 2. withdraw
	kept := map[int]bool{}
	var keptNodes, goneNodes []*simredis.Node
	for _, k := range h.Probe.Keep {
		kept[k] = true
	}
	for i, nd := range all {
		if kept[i+1] {
			keptNodes = append(keptNodes, nd)
		} else {
			goneNodes = append(goneNodes, nd)
		}
	}
	if err := px.P.OnSvcHostRemove(hostsOf(goneNodes)); err != nil {
		res.Err = "OnSvcHostRemove: " + err.Error()
		return
	}
	defer func() {
		// 5. the hosts come back for the next history
		if err := px.P.OnSvcHostAdd(hostsOf(goneNodes)); err != nil {
			res.Err = "OnSvcHostAdd: " + err.Error()
			return
		}
		for _, nd := range all {
			e.cl.Lock()
			nd.ScanChain = allScript
			e.cl.Unlock()
		}
		if err := e.settle(n); err != nil && res.Err == "" {
			res.Err = err.Error()
		}
	}()
	// 3. the client comes back with the cursor it saved
	c := e.clients[n]
	v, err := c.Do(3*time.Second, append([]string{"SCAN", saved}, extra...)...)
	switch {
	case err != nil:
		res.Bad = append(res.Bad, fmt.Sprintf("probe: saved cursor %s, %d of %d hosts left: no reply: %v", saved, len(keptNodes), n, err))
		e.redial(n)
		c = e.clients[n]
	case h.Probe.Terminal && !isTerminal(v):
		res.Bad = append(res.Bad, fmt.Sprintf("probe: saved cursor %s is past the last of %d hosts left: expected the terminal reply, got %s", saved, len(keptNodes), v))
	}
	if err == nil {
		res.Probe = v.String()
		if len(res.Probe) > 200 {
			res.Probe = res.Probe[:200]
		}
	}
	if p, err := c.Do(2*time.Second, "PING"); err != nil || string(p.Str) != "PONG" {
		res.Bad = append(res.Bad, fmt.Sprintf("probe: proxy not serving after saved cursor %s with %d of %d hosts left: %v %v", saved, len(keptNodes), n, p, err))
		e.redial(n)
	}
	// 4. a fresh iteration over the hosts kept (an unchanging set from now on); withdrawn hosts are not asked
	for _, nd := range goneNodes {
		nd.ClearLog()
	}
	e.iterate(&res.result, config{Nodes: h.Nodes, Calls: h.Calls}, keptNodes, n, extra, window)
	for _, nd := range goneNodes {
		for _, r := range nd.Records() {
			if r.Cmd() == "scan" {
				res.Bad = append(res.Bad, fmt.Sprintf("withdrawn host %s was asked SCAN %s", nd.Addr, r.Args[1]))
			}
		}
	}
	return
}

func hosts(args []string) error {
	fs := flag.NewFlagSet("c18-hosts", flag.ContinueOnError)
	in := fs.String("in", "", "host set histories (ndjson)")
	out := fs.String("out", "", "results (ndjson)")
	window := fs.Bool("window", false, "complete every forwarded call of the fresh iteration in the window W_WriterMayEncodeWhilePublisherRuns")
	from := fs.Int("from", 1, "first history to replay (1 based)")
	if err := fs.Parse(args); err != nil {
		return err
	}
	predis.VerifSetSlotsRefreshTimers(time.Hour, time.Hour)
	w, err := newLineWriter(*out)
	if err != nil {
		return err
	}
	defer w.Close()
	e, err := newEnv(1, 3)
	if err != nil {
		return err
	}
	defer e.close()
	if *window {
		e.g = newGate()
		defer e.g.sc.Uninstall()
	}
	rnd := rand.New(rand.NewSource(cli.Seed()))
	id := 0
	return cli.ReadNDJSON(*in, func(line []byte) error {
		var h history
		if err := json.Unmarshal(line, &h); err != nil {
			return err
		}
		id++
		n := len(h.Probe.Before)
		if n < 1 || n > 3 || len(h.Nodes) != len(h.Probe.Keep) {
			return fmt.Errorf("history %d is malformed", id)
		}
		seed := rnd.Int63()
		if id < *from {
			return nil
		}
		w.Write(begin{Begin: id, Case: fmt.Sprintf("k=%d keep=%v of %d saved=%d", h.Probe.K, h.Probe.Keep, n, h.Probe.Cursor)})
		return w.Write(e.hostsOne(id, h, rand.New(rand.NewSource(seed)), *window))
	})
}
