package c18

import (
	"encoding/json"
	"flag"
	"fmt"
	"math/rand"
	"strconv"
	"sync"
	"sync/atomic"
	"time"

	"github.com/samaritan-proxy/samaritan/host"
	predis "github.com/samaritan-proxy/samaritan/proc/redis"

	"verifharness/internal/cli"
	"verifharness/internal/resp"
	"verifharness/internal/simredis"
	"verifharness/internal/sut"
)

// Free running strata for the two actions of Scan.tla that are concurrent
// with a call (no hook point lies between the reads of the host list):
//
// reannounce: Reannounce - while a goroutine keeps announcing hosts that are
//   stored already (OnSvcHostAdd of the running processor) the client iterates;
//   the set of hosts never changes, so every iteration is judged exactly like
//   a replayed configuration (calls, cursors, keys, what every node received).
//
// withdraw: Withdraw between ReadHosts and Dispatch - goroutines send SCAN with
//   cursors of every node index (mostly the last) while a goroutine removes
//   and re-adds hosts. Judged: the process hosting the proxy stays alive, an
//   array reply is the terminal reply or a page of one node, keys stored
//   nowhere are never returned. Error replies are counted, not judged (the
//   statement is about an unchanging set of nodes).

type concResult struct {
	ID         int      `json:"id"`
	Stratum    string   `json:"stratum"`
	Nodes      int      `json:"nodes"`
	Victim     string   `json:"victim,omitempty"`
	Iterations int      `json:"iterations"`
	Calls      int64    `json:"calls"`
	Changes    int64    `json:"changes"` // announcements / removals done meanwhile
	Terminal   int64    `json:"terminal,omitempty"`
	Pages      int64    `json:"pages,omitempty"`
	Errors     int64    `json:"errors,omitempty"`
	NoReply    int64    `json:"no_reply,omitempty"`
	BadCount   int      `json:"bad_count"`
	Bad        []string `json:"bad"`
	Config     *config  `json:"config,omitempty"`
	Err        string   `json:"err,omitempty"`
}

func concurrent(args []string) error {
	fs := flag.NewFlagSet("c18-concurrent", flag.ContinueOnError)
	in := fs.String("in", "", "configurations (ndjson)")
	out := fs.String("out", "", "results (ndjson)")
	from := fs.Int("from", 1, "first case (1 based)")
	reps := fs.Int("reps", 3, "reannounce: iterations per configuration")
	maxCfg := fs.Int("configs", 300, "reannounce: number of configurations (spread over the input)")
	rounds := fs.Int("rounds", 6, "withdraw: rounds")
	roundMs := fs.Int("round-ms", 400, "withdraw: duration of a round")
	if err := fs.Parse(args); err != nil {
		return err
	}
	predis.VerifSetSlotsRefreshTimers(time.Hour, time.Hour)
	w, err := newLineWriter(*out)
	if err != nil {
		return err
	}
	defer w.Close()
	e, err := newEnv(1, 3)
	if err != nil {
		return err
	}
	defer e.close()
	var cfgs []config
	if err := cli.ReadNDJSON(*in, func(line []byte) error {
		var cfg config
		if err := json.Unmarshal(line, &cfg); err != nil {
			return err
		}
		if n := len(cfg.Nodes); n >= 1 && n <= 3 {
			cfgs = append(cfgs, cfg)
		}
		return nil
	}); err != nil {
		return err
	}
	if len(cfgs) == 0 {
		return fmt.Errorf("no configuration")
	}
	rnd := rand.New(rand.NewSource(cli.Seed()))
	id := 0
	// ---- reannounce
	step := 1
	if len(cfgs) > *maxCfg {
		step = len(cfgs) / *maxCfg
	}
	off := rnd.Intn(step)
	for i := off; i < len(cfgs); i += step {
		id++
		seed := rnd.Int63()
		if id < *from {
			continue
		}
		w.Write(begin{Begin: id, Case: fmt.Sprintf("reannounce %d nodes", len(cfgs[i].Nodes))})
		w.Write(e.reannounceOne(id, cfgs[i], *reps, rand.New(rand.NewSource(seed))))
	}
	// ---- withdraw
	for r := 0; r < *rounds; r++ {
		id++
		seed := rnd.Int63()
		if id < *from {
			continue
		}
		n := 3
		if r%3 == 2 {
			n = 2
		}
		victim := []string{"last", "first", "middle", "all-but-first"}[r%4]
		w.Write(begin{Begin: id, Case: fmt.Sprintf("withdraw %s of %d", victim, n)})
		w.Write(e.withdrawOne(id, n, victim, time.Duration(*roundMs)*time.Millisecond, rand.New(rand.NewSource(seed))))
	}
	return nil
}

func init() { cli.Register("c18-concurrent", concurrent) }

func (e *env) reannounceOne(id int, cfg config, reps int, rnd *rand.Rand) concResult {
	n := len(cfg.Nodes)
	res := concResult{ID: id, Stratum: "reannounce", Nodes: n, Bad: []string{}}
	px := e.proxies[n]
	stop := make(chan struct{})
	var changes int64
	var wg sync.WaitGroup
	wg.Add(1)
	seed := rnd.Int63()
	go func() {
		defer wg.Done()
		r := rand.New(rand.NewSource(seed))
		for i := 0; ; i++ {
			select {
			case <-stop:
				return
			default:
			}
			var hs []*host.Host
			if r.Intn(4) == 0 { // the whole list again
				hs = hostsOf(e.sorted[:n])
			} else {
				hs = []*host.Host{host.New(e.sorted[r.Intn(n)].Addr)}
			}
			px.P.OnSvcHostAdd(hs)
			atomic.AddInt64(&changes, 1)
		}
	}()
	for it := 0; it < reps; it++ {
		r := result{ID: id, Nodes: n}
		e.iterate(&r, cfg, e.sorted[:n], n, pickExtra(rnd), false)
		res.Iterations++
		res.Calls += int64(r.Calls)
		if len(r.Bad) > 0 {
			res.BadCount++
			if len(res.Bad) < 6 {
				res.Bad = append(res.Bad, r.Bad...)
			}
		}
	}
	close(stop)
	wg.Wait()
	res.Changes = atomic.LoadInt64(&changes)
	if res.BadCount > 0 {
		res.Config = &cfg
	}
	return res
}

type page struct {
	next uint64
	keys map[string]bool
}

func (e *env) withdrawOne(id int, n int, victim string, d time.Duration, rnd *rand.Rand) concResult {
	res := concResult{ID: id, Stratum: "withdraw", Nodes: n, Victim: victim, Bad: []string{}}
	px := e.proxies[n]
	all := e.sorted[:n]
	// two pages per node
	chains := make([][]uint64, n)
	for i := range chains {
		chains[i] = []uint64{[]uint64{1, base - 1, base / 2}[i%3]}
	}
	allKeys := e.script(all, chains)
	var pages []page
	for _, nd := range all {
		e.cl.Lock()
		for _, st := range nd.ScanChain {
			p := page{next: st.Next, keys: map[string]bool{}}
			for _, k := range st.Keys {
				p.keys[k] = true
			}
			pages = append(pages, p)
		}
		e.cl.Unlock()
	}
	var victims []*simredis.Node
	switch victim {
	case "last":
		victims = all[n-1:]
	case "first":
		victims = all[:1]
	case "middle":
		victims = all[n/2 : n/2+1]
	default:
		victims = all[1:]
	}
	stop := make(chan struct{})
	var changes int64
	var wg sync.WaitGroup
	wg.Add(1)
	go func() {
		defer wg.Done()
		for {
			select {
			case <-stop:
				return
			default:
			}
			px.P.OnSvcHostRemove(hostsOf(victims))
			atomic.AddInt64(&changes, 1)
			px.P.OnSvcHostAdd(hostsOf(victims))
		}
	}()
	var mu sync.Mutex
	addBad := func(s string) {
		mu.Lock()
		res.BadCount++
		if len(res.Bad) < 8 {
			res.Bad = append(res.Bad, s)
		}
		mu.Unlock()
	}
	const clients, pipe = 8, 16
	deadline := time.Now().Add(d)
	var cwg sync.WaitGroup
	for ci := 0; ci < clients; ci++ {
		cwg.Add(1)
		seed := rnd.Int63()
		go func() {
			defer cwg.Done()
			r := rand.New(rand.NewSource(seed))
			c, err := sut.Dial(px.Addr)
			if err != nil {
				addBad("dial: " + err.Error())
				return
			}
			defer func() { c.Close() }()
			for time.Now().Before(deadline) {
				var buf []byte
				var sent []string
				for i := 0; i < pipe; i++ {
					idx := uint64(n - 1) // the last node most of the time
					if r.Intn(4) == 0 {
						idx = uint64(r.Intn(n + 2))
					}
					cur := uint64(0)
					if r.Intn(3) == 0 {
						cur = concrete(chains[r.Intn(n)][0])
					}
					s := strconv.FormatUint(idx<<48|cur, 10)
					sent = append(sent, s)
					buf = append(buf, resp.Bytes(resp.Cmd("SCAN", s))...)
				}
				if err := c.Send(buf); err != nil {
					atomic.AddInt64(&res.NoReply, 1)
					c.Close()
					if c, err = sut.Dial(px.Addr); err != nil {
						addBad("the proxy does not accept connections any more: " + err.Error())
						return
					}
					continue
				}
				for i := 0; i < pipe; i++ {
					v, err := c.Recv(5 * time.Second)
					if err != nil {
						atomic.AddInt64(&res.NoReply, 1)
						c.Close()
						if c, err = sut.Dial(px.Addr); err != nil {
							addBad("the proxy does not accept connections any more: " + err.Error())
							return
						}
						break
					}
					atomic.AddInt64(&res.Calls, 1)
					switch {
					case v.IsErr():
						atomic.AddInt64(&res.Errors, 1)
					case isTerminal(v):
						atomic.AddInt64(&res.Terminal, 1)
					case v.Kind == '*' && len(v.Arr) == 2 && v.Arr[1].Kind == '*':
						if why := validPage(v, pages, allKeys); why != "" {
							addBad(fmt.Sprintf("SCAN %s: %s: %s", sent[i], why, v))
						} else {
							atomic.AddInt64(&res.Pages, 1)
						}
					default:
						addBad(fmt.Sprintf("SCAN %s: malformed reply %s", sent[i], v))
					}
				}
			}
		}()
	}
	cwg.Wait()
	close(stop)
	wg.Wait()
	res.Changes = atomic.LoadInt64(&changes)
	// all hosts are back (the toggler ends with an Add); wait for the connections
	for _, nd := range all {
		e.cl.Lock()
		nd.ScanChain = map[uint64]simredis.ScanStep{0: {Next: 0}}
		e.cl.Unlock()
	}
	if err := e.settle(n); err != nil {
		res.Err = err.Error()
	}
	return res
}

// validPage: the keys are the keys of one page of one node (or none) and the
// node cursor inside the returned cursor is that page's next cursor.
func validPage(v resp.Value, pages []page, allKeys map[string]bool) string {
	cur, err := strconv.ParseUint(string(v.Arr[0].Str), 10, 64)
	if err != nil {
		return "cursor is not a number"
	}
	keys := v.Arr[1].Arr
	for _, k := range keys {
		if !allKeys[string(k.Str)] {
			return fmt.Sprintf("key %q is stored nowhere", k.Str)
		}
	}
	if len(keys) == 0 {
		return ""
	}
	for _, p := range pages {
		if len(p.keys) != len(keys) {
			continue
		}
		ok := true
		for _, k := range keys {
			if !p.keys[string(k.Str)] {
				ok = false
				break
			}
		}
		if ok {
			if cur&(1<<48-1) != p.next {
				return fmt.Sprintf("keys of a page whose next cursor is %d, but the cursor carries node cursor %d", p.next, cur&(1<<48-1))
			}
			return ""
		}
	}
	return "keys of different pages in one reply"
}
