// Package c18 replays the SCAN configurations emitted by ScanGen.tla through a
// real Redis processor: simulated nodes answer SCAN with scripted cursor
// chains, the client feeds every returned cursor back.
package c18

import (
	"encoding/json"
	"flag"
	"fmt"
	"math/rand"
	"net"
	"os"
	"sort"
	"strconv"
	"strings"
	"sync"
	"time"

	predis "github.com/samaritan-proxy/samaritan/proc/redis"

	"verifharness/internal/cli"
	"verifharness/internal/resp"
	"verifharness/internal/sched"
	"verifharness/internal/simredis"
	"verifharness/internal/sut"
)

func init() {
	cli.Register("c18-replay", replay)
	cli.Register("c18-cursors", cursors)
	cli.Register("c18-keyspace", keyspace)
	cli.Register("c18-hosts", hosts)
}

// lineWriter writes one JSON line per record straight to the file: the
// process hosting the proxy may die (a panic in a session goroutine), what
// was written before must be on disk.
type lineWriter struct {
	mu sync.Mutex
	f  *os.File
}

func newLineWriter(path string) (*lineWriter, error) {
	f, err := os.Create(path)
	if err != nil {
		return nil, err
	}
	return &lineWriter{f: f}, nil
}

func (w *lineWriter) Write(v interface{}) error {
	b, err := json.Marshal(v)
	if err != nil {
		return err
	}
	w.mu.Lock()
	defer w.mu.Unlock()
	_, err = w.f.Write(append(b, '\n'))
	return err
}

func (w *lineWriter) Close() error { return w.f.Close() }

// begin is written before a case starts: the last begin without a result is
// the case the process died in.
type begin struct {
	Begin int    `json:"begin"`
	Case  string `json:"case,omitempty"`
}

// ---- the window W_WriterMayEncodeWhilePublisherRuns of Scan.tla
//
// The goroutine that completes a forwarded SCAN is parked right after it has
// published the response to the session (rawRequest.SetResponse, after the
// done latch is closed) until the client has received the reply: the session
// writer encodes the response object as it is at the moment of publication.

const pubKey = "scan.published"

type gate struct{ sc *sched.Sched }

func newGate() *gate {
	g := &gate{sc: sched.New(func(point string, a, b interface{}) string {
		if point != "rawRequest.SetResponse.published" {
			return ""
		}
		o := predis.VerifDescribe(a)
		if o.Kind == "raw" && len(o.Args) > 0 && strings.EqualFold(o.Args[0], "scan") {
			return pubKey
		}
		return ""
	})}
	g.sc.Install()
	return g
}

// do sends one command; with window the publisher of the reply is held until
// the client has the reply. windowed reports that the reply was received
// while the publisher was parked.
func (g *gate) do(c *sut.Client, window bool, args ...string) (v resp.Value, err error, windowed bool, note string) {
	if g == nil || !window {
		v, err = c.Do(3*time.Second, args...)
		return
	}
	g.sc.Gate(pubKey)
	if err = c.SendCmd(args...); err != nil {
		g.sc.Ungate(pubKey)
		return
	}
	if !g.sc.WaitParked(pubKey, 2*time.Second) {
		g.sc.Ungate(pubKey)
		note = "the reply was never published"
		v, err = c.Recv(3 * time.Second)
		return
	}
	v, err = c.Recv(time.Second)
	g.sc.Ungate(pubKey)
	if err == nil {
		windowed = true
		return
	}
	if ne, ok := err.(net.Error); ok && ne.Timeout() {
		// published by the goroutine that feeds the writer (a reply made by the
		// proxy itself): it can only be written after the release
		note = "reply only after the publisher was released"
		v, err = c.Recv(3 * time.Second)
	}
	return
}

const base = 256 // Base of Scan.tla, stands for 2^48

// concrete maps a symbolic node cursor to a concrete one.
func concrete(v uint64) uint64 {
	switch v {
	case base - 1:
		return 1<<48 - 1
	case base / 2:
		return 1 << 47
	case base/2 - 1:
		return 1<<47 - 1
	}
	return v
}

func composite(v uint64) uint64 { return (v/base)<<48 | concrete(v%base) }

type call struct {
	Node int    `json:"node"`
	Sent uint64 `json:"sent"`
	Next uint64 `json:"next"`
}

type config struct {
	Nodes [][]uint64 `json:"nodes"`
	Calls []call     `json:"calls"`
}

type result struct {
	ID      int      `json:"id"`
	Nodes   int      `json:"nodes"`
	Calls   int      `json:"calls"`
	Windows int      `json:"windows"` // forwarded calls whose reply was received while the publisher was parked
	Notes   []string `json:"notes,omitempty"`
	Bad     []string `json:"bad"`
	Err     string   `json:"err,omitempty"`
}

type env struct {
	cl      *simredis.Cluster
	sorted  []*simredis.Node // in the order of the proxy's sorted host list
	proxies map[int]*sut.Redis
	clients map[int]*sut.Client
	g       *gate // nil: free running
}

func newEnv(min, max int) (*env, error) {
	cl, err := simredis.NewCluster(max, 0)
	if err != nil {
		return nil, err
	}
	e := &env{cl: cl, proxies: map[int]*sut.Redis{}, clients: map[int]*sut.Client{}}
	e.sorted = append(e.sorted, cl.Nodes...)
	sort.Slice(e.sorted, func(i, j int) bool { return e.sorted[i].Addr < e.sorted[j].Addr })
	for n := min; n <= max; n++ {
		var seeds []string
		for _, nd := range e.sorted[:n] {
			seeds = append(seeds, nd.Addr)
		}
		// n = 0: a service that has no (healthy) host
		px, err := sut.StartRedis(sut.RedisOpts{}, seeds)
		if err != nil {
			return nil, err
		}
		if n > 0 {
			sut.WaitRefresh(px.Name, 2*time.Second)
		}
		e.proxies[n] = px
		c, err := sut.Dial(px.Addr)
		if err != nil {
			return nil, err
		}
		e.clients[n] = c
	}
	return e, nil
}

func (e *env) close() {
	for _, c := range e.clients {
		c.Close()
	}
	for _, p := range e.proxies {
		sut.StopWithin(p.P, 5*time.Second)
	}
	e.cl.Close()
}

// script makes the nodes answer SCAN with the chains; every step returns one
// key named after (node, cursor). It returns all keys stored.
func (e *env) script(nodes []*simredis.Node, chains [][]uint64) map[string]bool {
	allKeys := map[string]bool{}
	for i, ch := range chains {
		m := map[uint64]simredis.ScanStep{}
		cur := uint64(0)
		for j := 0; j <= len(ch); j++ {
			next := uint64(0)
			if j < len(ch) {
				next = concrete(ch[j])
			}
			key := fmt.Sprintf("key-n%d-c%d", i+1, cur)
			allKeys[key] = true
			m[cur] = simredis.ScanStep{Next: next, Keys: []string{key}}
			cur = next
		}
		e.cl.Lock()
		nodes[i].ScanChain = m
		e.cl.Unlock()
		nodes[i].ClearLog()
	}
	return allKeys
}

func pickExtra(rnd *rand.Rand) []string {
	switch rnd.Intn(3) {
	case 0:
		return []string{"MATCH", "key-*", "COUNT", "7"}
	case 1:
		return []string{"count", "100"}
	}
	return []string{}
}

func (e *env) redial(n int) {
	e.clients[n].Close()
	nc, err := sut.Dial(e.proxies[n].Addr)
	if err == nil {
		e.clients[n] = nc
	}
}

// iterate runs the client's loop from cursor 0 through proxy px (whose healthy
// host list is nodes, in this order) and judges it against the model's calls.
// With window every forwarded call is completed in the window
// W_WriterMayEncodeWhilePublisherRuns.
func (e *env) iterate(res *result, cfg config, nodes []*simredis.Node, px int, extra []string, window bool) {
	allKeys := e.script(nodes, cfg.Nodes)
	c := e.clients[px]
	cursor := "0"
	seen := map[string]bool{}
	for i := 0; i <= len(cfg.Calls)+3; i++ {
		args := append([]string{"SCAN", cursor}, extra...)
		// the model says which calls are forwarded to a node (the others are answered by the goroutine that feeds the writer)
		forwarded := i < len(cfg.Calls) && cfg.Calls[i].Node != 0
		v, err, windowed, note := e.g.do(c, window && forwarded, args...)
		if windowed {
			res.Windows++
		}
		if note != "" {
			res.Notes = append(res.Notes, fmt.Sprintf("call %d: %s", i+1, note))
		}
		if err != nil {
			res.Bad = append(res.Bad, fmt.Sprintf("call %d: no reply: %v", i+1, err))
			e.redial(px)
			return
		}
		res.Calls++
		if v.Kind != '*' || len(v.Arr) != 2 || v.Arr[1].Kind != '*' {
			res.Bad = append(res.Bad, fmt.Sprintf("call %d: malformed reply %s", i+1, v))
			return
		}
		for _, k := range v.Arr[1].Arr {
			if !allKeys[string(k.Str)] {
				res.Bad = append(res.Bad, fmt.Sprintf("call %d: returned key %q that is stored nowhere", i+1, k.Str))
			}
			seen[string(k.Str)] = true
		}
		next := string(v.Arr[0].Str)
		if i < len(cfg.Calls) {
			want := strconv.FormatUint(composite(cfg.Calls[i].Next), 10)
			if next != want {
				res.Bad = append(res.Bad, fmt.Sprintf("call %d: cursor %s, model expects %s", i+1, next, want))
			}
		}
		cursor = next
		if cursor == "0" {
			break
		}
	}
	if cursor != "0" {
		res.Bad = append(res.Bad, fmt.Sprintf("iteration did not terminate after %d calls (model: %d)", res.Calls, len(cfg.Calls)))
	}
	if res.Calls != len(cfg.Calls) && cursor == "0" {
		res.Bad = append(res.Bad, fmt.Sprintf("%d calls, model expects %d", res.Calls, len(cfg.Calls)))
	}
	for k := range allKeys {
		if !seen[k] {
			res.Bad = append(res.Bad, "key never returned: "+k)
		}
	}
	// each node received exactly its chain, once, in order, with MATCH / COUNT verbatim
	for i, ch := range cfg.Nodes {
		var got []string
		for _, r := range nodes[i].Records() {
			if r.Cmd() == "scan" {
				got = append(got, string(r.Args[1]))
				if !equalFold(r.Args[2:], extra) {
					res.Bad = append(res.Bad, fmt.Sprintf("node %d: MATCH/COUNT altered: %q", i+1, r.Args[2:]))
				}
			}
		}
		want := []string{"0"}
		for _, cv := range ch {
			want = append(want, strconv.FormatUint(concrete(cv), 10))
		}
		if strings.Join(got, ",") != strings.Join(want, ",") {
			res.Bad = append(res.Bad, fmt.Sprintf("node %d received cursors %v, expected %v", i+1, got, want))
		}
	}
}

func (e *env) replayOne(id int, cfg config, rnd *rand.Rand, window bool) (res result) {
	n := len(cfg.Nodes)
	res = result{ID: id, Nodes: n}
	e.iterate(&res, cfg, e.sorted[:n], n, pickExtra(rnd), window)
	return
}

func equalFold(a [][]byte, b []string) bool {
	if len(a) != len(b) {
		return false
	}
	for i := range a {
		if string(a[i]) != b[i] {
			return false
		}
	}
	return true
}

func replay(args []string) error {
	fs := flag.NewFlagSet("c18-replay", flag.ContinueOnError)
	in := fs.String("in", "", "configurations (ndjson)")
	out := fs.String("out", "", "results (ndjson)")
	window := fs.Bool("window", false, "complete every forwarded call in the window W_WriterMayEncodeWhilePublisherRuns")
	from := fs.Int("from", 1, "first configuration to replay (1 based)")
	if err := fs.Parse(args); err != nil {
		return err
	}
	predis.VerifSetSlotsRefreshTimers(time.Hour, time.Hour)
	w, err := newLineWriter(*out)
	if err != nil {
		return err
	}
	defer w.Close()
	e, err := newEnv(0, 3)
	if err != nil {
		return err
	}
	defer e.close()
	if *window {
		e.g = newGate()
		defer e.g.sc.Uninstall()
	}
	rnd := rand.New(rand.NewSource(cli.Seed()))
	id := 0
	return cli.ReadNDJSON(*in, func(line []byte) error {
		var cfg config
		if err := json.Unmarshal(line, &cfg); err != nil {
			return err
		}
		id++
		if len(cfg.Nodes) > 3 {
			return fmt.Errorf("configuration %d has %d nodes", id, len(cfg.Nodes))
		}
		extraSeed := rnd.Int63() // one draw per configuration, also for skipped ones: a restart replays the same cases
		if id < *from {
			return nil
		}
		w.Write(begin{Begin: id})
		return w.Write(e.replayOne(id, cfg, rand.New(rand.NewSource(extraSeed)), *window))
	})
}

// ---- cursor codec (white box) and client supplied cursors (black box)

type cursorResult struct {
	Case string `json:"case"`
	OK   bool   `json:"ok"`
	Why  string `json:"why,omitempty"`
}

func cursors(args []string) error {
	fs := flag.NewFlagSet("c18-cursors", flag.ContinueOnError)
	out := fs.String("out", "", "results (ndjson)")
	if err := fs.Parse(args); err != nil {
		return err
	}
	w, err := newLineWriter(*out)
	if err != nil {
		return err
	}
	defer w.Close()
	rnd := rand.New(rand.NewSource(cli.Seed()))
	// round trip for every boundary node cursor and random ones below 2^48, all node indexes of interest
	curs := []uint64{0, 1, 2, 1<<47 - 1, 1 << 47, 1<<48 - 2, 1<<48 - 1}
	for i := 0; i < 2000; i++ {
		curs = append(curs, rnd.Uint64()&(1<<48-1))
	}
	for _, idx := range []uint16{0, 1, 2, 255, 256, 32767, 32768, 65535} {
		for _, cv := range curs {
			c := predis.VerifComposeCursor(idx, cv)
			i2, c2 := predis.VerifParseCursor(c)
			r := cursorResult{Case: fmt.Sprintf("roundtrip idx=%d cur=%d", idx, cv), OK: i2 == idx && c2 == cv}
			if !r.OK {
				r.Why = fmt.Sprintf("compose -> %d, parse -> (%d, %d)", c, i2, c2)
				w.Write(r)
			}
		}
	}
	w.Write(cursorResult{Case: "roundtrip-all", OK: true})
	// client supplied cursors through the proxy: two hosts, then no host at all
	predis.VerifSetSlotsRefreshTimers(time.Hour, time.Hour)
	e, err := newEnv(0, 2)
	if err != nil {
		return err
	}
	defer e.close()
	for i := range e.sorted {
		e.cl.Lock()
		e.sorted[i].ScanChain = map[uint64]simredis.ScanStep{0: {Next: 0, Keys: []string{"k"}}}
		e.cl.Unlock()
	}
	seq := 0
	probe := func(px *sut.Redis, name string, raw []byte, wantTerminal, wantErr bool) {
		seq++
		w.Write(begin{Begin: seq, Case: name})
		c, err := sut.Dial(px.Addr)
		r := cursorResult{Case: name}
		if err != nil {
			r.Why = "dial: " + err.Error()
			w.Write(r)
			return
		}
		defer c.Close()
		c.Send(raw)
		v, err := c.Recv(3 * time.Second)
		switch {
		case err != nil:
			r.Why = "no reply: " + err.Error()
		case wantErr && !v.IsErr():
			r.Why = "expected an error reply, got " + v.String()
		case wantTerminal && !isTerminal(v):
			r.Why = "expected the terminal reply, got " + v.String()
		default:
			r.OK = true
		}
		// the proxy must still serve
		if p, err := c.Do(2*time.Second, "PING"); err != nil || string(p.Str) != "PONG" {
			r.OK, r.Why = false, fmt.Sprintf("proxy not serving afterwards: %v %v", p, err)
		}
		w.Write(r)
	}
	cmd := func(a ...string) []byte { return resp.Bytes(resp.Cmd(a...)) }
	u := func(x uint64) string { return strconv.FormatUint(x, 10) }
	px := e.proxies[2]
	probe(px, "past-end idx=2", cmd("SCAN", u(2<<48)), true, false)
	probe(px, "past-end idx=2 cur=5", cmd("SCAN", u(2<<48|5)), true, false)
	probe(px, "past-end idx=3", cmd("SCAN", u(3<<48)), true, false)
	probe(px, "past-end idx=32767", cmd("SCAN", u(32767<<48|1)), true, false)
	probe(px, "negative", cmd("SCAN", "-1"), true, false)
	probe(px, "min-int64", cmd("SCAN", "-9223372036854775808"), true, false)
	probe(px, "max-int64", cmd("SCAN", "9223372036854775807"), true, false)
	probe(px, "above-int64", cmd("SCAN", "9223372036854775808"), false, true)
	probe(px, "non-numeric", cmd("SCAN", "abc"), false, true)
	probe(px, "empty", cmd("SCAN", ""), false, true)
	probe(px, "no-cursor", cmd("SCAN"), false, true)
	probe(px, "float", cmd("SCAN", "1.5"), false, true)
	probe(px, "plus-zero", cmd("SCAN", "+0"), false, false)
	probe(px, "leading-zeros", cmd("SCAN", "000"), false, false)
	// no healthy host: every node index is past the last node
	px = e.proxies[0]
	probe(px, "no-hosts idx=0", cmd("SCAN", "0"), true, false)
	probe(px, "no-hosts idx=0 cur=10", cmd("SCAN", "10", "COUNT", "5"), true, false)
	probe(px, "no-hosts idx=0 cur=2^48-1", cmd("SCAN", u(1<<48-1)), true, false)
	probe(px, "no-hosts idx=1", cmd("SCAN", u(1<<48|10), "MATCH", "*"), true, false)
	probe(px, "no-hosts idx=5", cmd("SCAN", u(5<<48)), true, false)
	probe(px, "no-hosts idx=32768", cmd("SCAN", "-9223372036854775808"), true, false)
	probe(px, "no-hosts idx=65535", cmd("SCAN", "-1"), true, false)
	probe(px, "no-hosts non-numeric", cmd("SCAN", "abc"), false, true)
	return nil
}

func isTerminal(v resp.Value) bool {
	return v.Kind == '*' && len(v.Arr) == 2 && string(v.Arr[0].Str) == "0" && v.Arr[1].Kind == '*' && len(v.Arr[1].Arr) == 0
}

// ---- real key spaces: every stored key is returned at least once, nothing else

func keyspace(args []string) error {
	fs := flag.NewFlagSet("c18-keyspace", flag.ContinueOnError)
	out := fs.String("out", "", "results (ndjson)")
	runs := fs.Int("runs", 5, "runs")
	if err := fs.Parse(args); err != nil {
		return err
	}
	predis.VerifSetSlotsRefreshTimers(time.Hour, time.Hour)
	w, err := cli.NewNDJSONWriter(*out)
	if err != nil {
		return err
	}
	defer w.Close()
	rnd := rand.New(rand.NewSource(cli.Seed()))
	for run := 1; run <= *runs; run++ {
		n := 1 + rnd.Intn(4)
		big := run == 1 // one run with pages far beyond 1024 keys (COUNT is passed through, every key of the page comes back)
		if big {
			n = 2
		}
		cl, err := simredis.NewCluster(n, 0)
		if err != nil {
			return err
		}
		px, err := sut.StartRedis(sut.RedisOpts{}, cl.Addrs())
		if err != nil {
			return err
		}
		sut.WaitRefresh(px.Name, 2*time.Second)
		stored := map[string]bool{}
		nk := rnd.Intn(120)
		if big {
			nk = 3000 + rnd.Intn(500)
		}
		for i := 0; i < nk; i++ {
			k := fmt.Sprintf("key:%d:%d", run, rnd.Intn(1000000))
			stored[k] = true
			cl.Preload(k, []byte("v"))
		}
		res := result{ID: run, Nodes: n}
		c, _ := sut.Dial(px.Addr)
		count := strconv.Itoa(1 + rnd.Intn(15))
		if big {
			count = strconv.Itoa(1100 + rnd.Intn(900))
		}
		cursor := "0"
		seen := map[string]bool{}
		for i := 0; i < nk+4*n+10; i++ {
			v, err := c.Do(3*time.Second, "scan", cursor, "count", count)
			if err != nil || v.Kind != '*' || len(v.Arr) != 2 {
				res.Bad = append(res.Bad, fmt.Sprintf("call %d: %v %v", i+1, v, err))
				break
			}
			res.Calls++
			for _, k := range v.Arr[1].Arr {
				if !stored[string(k.Str)] {
					res.Bad = append(res.Bad, fmt.Sprintf("returned key %q that is stored nowhere", k.Str))
				}
				seen[string(k.Str)] = true
			}
			cursor = string(v.Arr[0].Str)
			if cursor == "0" {
				break
			}
		}
		if cursor != "0" {
			res.Bad = append(res.Bad, fmt.Sprintf("no termination after %d calls (%d keys on %d nodes, COUNT %s)", res.Calls, nk, n, count))
		}
		for k := range stored {
			if !seen[k] {
				res.Bad = append(res.Bad, "stored key never returned: "+k)
				break
			}
		}
		w.Write(res)
		c.Close()
		sut.StopWithin(px.P, 5*time.Second)
		cl.Close()
	}
	return nil
}
