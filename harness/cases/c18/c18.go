// Package c18 replays the SCAN configurations emitted by ScanGen.tla through a
// real Redis processor: simulated nodes answer SCAN with scripted cursor
// chains, the client feeds every returned cursor back.
package c18

import (
	"encoding/json"
	"flag"
	"fmt"
	"math/rand"
	"sort"
	"strconv"
	"strings"
	"time"

	predis "github.com/samaritan-proxy/samaritan/proc/redis"

	"verifharness/internal/cli"
	"verifharness/internal/resp"
	"verifharness/internal/simredis"
	"verifharness/internal/sut"
)

func init() {
	cli.Register("c18-replay", replay)
	cli.Register("c18-cursors", cursors)
	cli.Register("c18-keyspace", keyspace)
}

const base = 256 // Base of Scan.tla, stands for 2^48

// concrete maps a symbolic node cursor to a concrete one.
func concrete(v uint64) uint64 {
	switch v {
	case base - 1:
		return 1<<48 - 1
	case base / 2:
		return 1 << 47
	case base/2 - 1:
		return 1<<47 - 1
	}
	return v
}

func composite(v uint64) uint64 { return (v/base)<<48 | concrete(v%base) }

type call struct {
	Node int    `json:"node"`
	Sent uint64 `json:"sent"`
	Next uint64 `json:"next"`
}

type config struct {
	Nodes [][]uint64 `json:"nodes"`
	Calls []call     `json:"calls"`
}

type result struct {
	ID    int      `json:"id"`
	Nodes int      `json:"nodes"`
	Calls int      `json:"calls"`
	Bad   []string `json:"bad"`
	Err   string   `json:"err,omitempty"`
}

type env struct {
	cl      *simredis.Cluster
	sorted  []*simredis.Node // in the order of the proxy's sorted host list
	proxies map[int]*sut.Redis
	clients map[int]*sut.Client
}

func newEnv(max int) (*env, error) {
	cl, err := simredis.NewCluster(max, 0)
	if err != nil {
		return nil, err
	}
	e := &env{cl: cl, proxies: map[int]*sut.Redis{}, clients: map[int]*sut.Client{}}
	e.sorted = append(e.sorted, cl.Nodes...)
	sort.Slice(e.sorted, func(i, j int) bool { return e.sorted[i].Addr < e.sorted[j].Addr })
	for n := 1; n <= max; n++ {
		var seeds []string
		for _, nd := range e.sorted[:n] {
			seeds = append(seeds, nd.Addr)
		}
		px, err := sut.StartRedis(sut.RedisOpts{}, seeds)
		if err != nil {
			return nil, err
		}
		sut.WaitRefresh(px.Name, 2*time.Second)
		e.proxies[n] = px
		c, err := sut.Dial(px.Addr)
		if err != nil {
			return nil, err
		}
		e.clients[n] = c
	}
	return e, nil
}

func (e *env) close() {
	for _, c := range e.clients {
		c.Close()
	}
	for _, p := range e.proxies {
		sut.StopWithin(p.P, 5*time.Second)
	}
	e.cl.Close()
}

func (e *env) replayOne(id int, cfg config, rnd *rand.Rand) (res result) {
	n := len(cfg.Nodes)
	res = result{ID: id, Nodes: n}
	// script the chains; every step returns one key named after (node, cursor)
	allKeys := map[string]bool{}
	for i, ch := range cfg.Nodes {
		m := map[uint64]simredis.ScanStep{}
		cur := uint64(0)
		for j := 0; j <= len(ch); j++ {
			next := uint64(0)
			if j < len(ch) {
				next = concrete(ch[j])
			}
			key := fmt.Sprintf("key-n%d-c%d", i+1, cur)
			allKeys[key] = true
			m[cur] = simredis.ScanStep{Next: next, Keys: []string{key}}
			cur = next
		}
		e.cl.Lock()
		e.sorted[i].ScanChain = m
		e.cl.Unlock()
		e.sorted[i].ClearLog()
	}
	c := e.clients[n]
	extra := []string{}
	switch rnd.Intn(3) {
	case 0:
		extra = []string{"MATCH", "key-*", "COUNT", "7"}
	case 1:
		extra = []string{"count", "100"}
	}
	cursor := "0"
	seen := map[string]bool{}
	for i := 0; i <= len(cfg.Calls)+3; i++ {
		args := append([]string{"SCAN", cursor}, extra...)
		v, err := c.Do(3*time.Second, args...)
		if err != nil {
			res.Bad = append(res.Bad, fmt.Sprintf("call %d: no reply: %v", i+1, err))
			c.Close()
			nc, _ := sut.Dial(e.proxies[n].Addr)
			e.clients[n] = nc
			return
		}
		res.Calls++
		if v.Kind != '*' || len(v.Arr) != 2 || v.Arr[1].Kind != '*' {
			res.Bad = append(res.Bad, fmt.Sprintf("call %d: malformed reply %s", i+1, v))
			return
		}
		for _, k := range v.Arr[1].Arr {
			if !allKeys[string(k.Str)] {
				res.Bad = append(res.Bad, fmt.Sprintf("call %d: returned key %q that is stored nowhere", i+1, k.Str))
			}
			seen[string(k.Str)] = true
		}
		next := string(v.Arr[0].Str)
		if i < len(cfg.Calls) {
			want := strconv.FormatUint(composite(cfg.Calls[i].Next), 10)
			if next != want {
				res.Bad = append(res.Bad, fmt.Sprintf("call %d: cursor %s, model expects %s", i+1, next, want))
			}
		}
		cursor = next
		if cursor == "0" {
			break
		}
	}
	if cursor != "0" {
		res.Bad = append(res.Bad, fmt.Sprintf("iteration did not terminate after %d calls (model: %d)", res.Calls, len(cfg.Calls)))
	}
	if res.Calls != len(cfg.Calls) && cursor == "0" {
		res.Bad = append(res.Bad, fmt.Sprintf("%d calls, model expects %d", res.Calls, len(cfg.Calls)))
	}
	for k := range allKeys {
		if !seen[k] {
			res.Bad = append(res.Bad, "key never returned: "+k)
		}
	}
	// each node received exactly its chain, once, in order, with MATCH / COUNT verbatim
	for i, ch := range cfg.Nodes {
		var got []string
		for _, r := range e.sorted[i].Records() {
			if r.Cmd() == "scan" {
				got = append(got, string(r.Args[1]))
				if !equalFold(r.Args[2:], extra) {
					res.Bad = append(res.Bad, fmt.Sprintf("node %d: MATCH/COUNT altered: %q", i+1, r.Args[2:]))
				}
			}
		}
		want := []string{"0"}
		for _, cv := range ch {
			want = append(want, strconv.FormatUint(concrete(cv), 10))
		}
		if strings.Join(got, ",") != strings.Join(want, ",") {
			res.Bad = append(res.Bad, fmt.Sprintf("node %d received cursors %v, expected %v", i+1, got, want))
		}
	}
	return
}

func equalFold(a [][]byte, b []string) bool {
	if len(a) != len(b) {
		return false
	}
	for i := range a {
		if string(a[i]) != b[i] {
			return false
		}
	}
	return true
}

func replay(args []string) error {
	fs := flag.NewFlagSet("c18-replay", flag.ContinueOnError)
	in := fs.String("in", "", "configurations (ndjson)")
	out := fs.String("out", "", "results (ndjson)")
	if err := fs.Parse(args); err != nil {
		return err
	}
	predis.VerifSetSlotsRefreshTimers(time.Hour, time.Hour)
	e, err := newEnv(3)
	if err != nil {
		return err
	}
	defer e.close()
	w, err := cli.NewNDJSONWriter(*out)
	if err != nil {
		return err
	}
	defer w.Close()
	rnd := rand.New(rand.NewSource(cli.Seed()))
	id := 0
	return cli.ReadNDJSON(*in, func(line []byte) error {
		var cfg config
		if err := json.Unmarshal(line, &cfg); err != nil {
			return err
		}
		id++
		return w.Write(e.replayOne(id, cfg, rnd))
	})
}

// ---- cursor codec (white box) and client supplied cursors (black box)

type cursorResult struct {
	Case string `json:"case"`
	OK   bool   `json:"ok"`
	Why  string `json:"why,omitempty"`
}

func cursors(args []string) error {
	fs := flag.NewFlagSet("c18-cursors", flag.ContinueOnError)
	out := fs.String("out", "", "results (ndjson)")
	if err := fs.Parse(args); err != nil {
		return err
	}
	w, err := cli.NewNDJSONWriter(*out)
	if err != nil {
		return err
	}
	defer w.Close()
	rnd := rand.New(rand.NewSource(cli.Seed()))
	// round trip for every boundary node cursor and random ones below 2^48, all node indexes of interest
	curs := []uint64{0, 1, 2, 1<<47 - 1, 1 << 47, 1<<48 - 2, 1<<48 - 1}
	for i := 0; i < 2000; i++ {
		curs = append(curs, rnd.Uint64()&(1<<48-1))
	}
	for _, idx := range []uint16{0, 1, 2, 255, 256, 32767, 32768, 65535} {
		for _, cv := range curs {
			c := predis.VerifComposeCursor(idx, cv)
			i2, c2 := predis.VerifParseCursor(c)
			r := cursorResult{Case: fmt.Sprintf("roundtrip idx=%d cur=%d", idx, cv), OK: i2 == idx && c2 == cv}
			if !r.OK {
				r.Why = fmt.Sprintf("compose -> %d, parse -> (%d, %d)", c, i2, c2)
				w.Write(r)
			}
		}
	}
	w.Write(cursorResult{Case: "roundtrip-all", OK: true})
	// client supplied cursors through the proxy
	predis.VerifSetSlotsRefreshTimers(time.Hour, time.Hour)
	e, err := newEnv(2)
	if err != nil {
		return err
	}
	defer e.close()
	for i := range e.sorted {
		e.cl.Lock()
		e.sorted[i].ScanChain = map[uint64]simredis.ScanStep{0: {Next: 0, Keys: []string{"k"}}}
		e.cl.Unlock()
	}
	px := e.proxies[2]
	probe := func(name string, raw []byte, wantTerminal, wantErr bool) {
		c, err := sut.Dial(px.Addr)
		r := cursorResult{Case: name}
		if err != nil {
			r.Why = "dial: " + err.Error()
			w.Write(r)
			return
		}
		defer c.Close()
		c.Send(raw)
		v, err := c.Recv(3 * time.Second)
		switch {
		case err != nil:
			r.Why = "no reply: " + err.Error()
		case wantErr && !v.IsErr():
			r.Why = "expected an error reply, got " + v.String()
		case wantTerminal && !(v.Kind == '*' && len(v.Arr) == 2 && string(v.Arr[0].Str) == "0" && len(v.Arr[1].Arr) == 0):
			r.Why = "expected the terminal reply, got " + v.String()
		default:
			r.OK = true
		}
		// the proxy must still serve
		if p, err := c.Do(2*time.Second, "PING"); err != nil || string(p.Str) != "PONG" {
			r.OK, r.Why = false, fmt.Sprintf("proxy not serving afterwards: %v %v", p, err)
		}
		w.Write(r)
	}
	cmd := func(a ...string) []byte { return resp.Bytes(resp.Cmd(a...)) }
	u := func(x uint64) string { return strconv.FormatUint(x, 10) }
	probe("past-end idx=2", cmd("SCAN", u(2<<48)), true, false)
	probe("past-end idx=2 cur=5", cmd("SCAN", u(2<<48|5)), true, false)
	probe("past-end idx=3", cmd("SCAN", u(3<<48)), true, false)
	probe("past-end idx=32767", cmd("SCAN", u(32767<<48|1)), true, false)
	probe("negative", cmd("SCAN", "-1"), true, false)
	probe("min-int64", cmd("SCAN", "-9223372036854775808"), true, false)
	probe("max-int64", cmd("SCAN", "9223372036854775807"), true, false)
	probe("above-int64", cmd("SCAN", "9223372036854775808"), false, true)
	probe("non-numeric", cmd("SCAN", "abc"), false, true)
	probe("empty", cmd("SCAN", ""), false, true)
	probe("no-cursor", cmd("SCAN"), false, true)
	probe("float", cmd("SCAN", "1.5"), false, true)
	probe("plus-zero", cmd("SCAN", "+0"), false, false)
	probe("leading-zeros", cmd("SCAN", "000"), false, false)
	return nil
}

// ---- real key spaces: every stored key is returned at least once, nothing else

func keyspace(args []string) error {
	fs := flag.NewFlagSet("c18-keyspace", flag.ContinueOnError)
	out := fs.String("out", "", "results (ndjson)")
	runs := fs.Int("runs", 5, "runs")
	if err := fs.Parse(args); err != nil {
		return err
	}
	predis.VerifSetSlotsRefreshTimers(time.Hour, time.Hour)
	w, err := cli.NewNDJSONWriter(*out)
	if err != nil {
		return err
	}
	defer w.Close()
	rnd := rand.New(rand.NewSource(cli.Seed()))
	for run := 1; run <= *runs; run++ {
		n := 1 + rnd.Intn(4)
		cl, err := simredis.NewCluster(n, 0)
		if err != nil {
			return err
		}
		px, err := sut.StartRedis(sut.RedisOpts{}, cl.Addrs())
		if err != nil {
			return err
		}
		sut.WaitRefresh(px.Name, 2*time.Second)
		stored := map[string]bool{}
		nk := rnd.Intn(120)
		for i := 0; i < nk; i++ {
			k := fmt.Sprintf("key:%d:%d", run, rnd.Intn(1000000))
			stored[k] = true
			cl.Preload(k, []byte("v"))
		}
		res := result{ID: run, Nodes: n}
		c, _ := sut.Dial(px.Addr)
		count := strconv.Itoa(1 + rnd.Intn(15))
		cursor := "0"
		seen := map[string]bool{}
		for i := 0; i < nk+4*n+10; i++ {
			v, err := c.Do(3*time.Second, "scan", cursor, "count", count)
			if err != nil || v.Kind != '*' || len(v.Arr) != 2 {
				res.Bad = append(res.Bad, fmt.Sprintf("call %d: %v %v", i+1, v, err))
				break
			}
			res.Calls++
			for _, k := range v.Arr[1].Arr {
				if !stored[string(k.Str)] {
					res.Bad = append(res.Bad, fmt.Sprintf("returned key %q that is stored nowhere", k.Str))
				}
				seen[string(k.Str)] = true
			}
			cursor = string(v.Arr[0].Str)
			if cursor == "0" {
				break
			}
		}
		if cursor != "0" {
			res.Bad = append(res.Bad, fmt.Sprintf("no termination after %d calls (%d keys on %d nodes, COUNT %s)", res.Calls, nk, n, count))
		}
		for k := range stored {
			if !seen[k] {
				res.Bad = append(res.Bad, "stored key never returned: "+k)
				break
			}
		}
		w.Write(res)
		c.Close()
		sut.StopWithin(px.P, 5*time.Second)
		cl.Close()
	}
	return nil
}
