"""verif kit: shared machinery for the per-property checks.

Every check is `bin/check <Cxx> --tier quick|thorough`.  A check
  1. runs TLC on the property's TLA+ module(s) (exhaustive MC_* configuration),
  2. lets TLC emit behaviours (Gen_* configurations) and replays them on the real
     code through the Go harness (spec -> code), and/or
  3. lets the Go harness record traces from the real code and lets TLC validate
     them against the trace specification (code -> spec),
then writes /verif/evidence/<id>.json and prints VIOLATION / KNOWN-FINDING lines.

Exit status: 0 held, 1 violation (unlisted), 2 inconclusive (infrastructure).
"""
import json
import os
import re
import shutil
import subprocess
import sys
import time

ROOT = os.path.dirname(os.path.dirname(os.path.abspath(__file__)))
REPO = os.environ.get("VERIF_REPO", "/repo")
OUT = os.path.join(ROOT, "out")
SPEC = os.path.join(ROOT, "spec")
HARNESS_DIR = os.path.join(ROOT, "harness")
BIN_DIR = os.path.join(OUT, "bin")
TLA_JAR = "/opt/veriftools/tla/tla2tools.jar"
TLA_CP = TLA_JAR + ":/opt/veriftools/tla/CommunityModules-deps.jar"

GOENV = {
    "GOFLAGS": "-mod=mod",
    "GOPROXY": "off",
    "GOSUMDB": "off",
    "GOTOOLCHAIN": "local",
}


class Inconclusive(Exception):
    pass


def log(*a):
    print(*a, file=sys.stderr, flush=True)


def goenv():
    e = dict(os.environ)
    e.update(GOENV)
    return e


# --------------------------------------------------------------------------- TLC

class TLCResult:
    def __init__(self):
        self.ok = False            # TLC finished without reporting an error
        self.generated = 0
        self.distinct = 0
        self.depth = 0
        self.violated = []         # names of violated invariants / properties
        self.error = ""            # first error text if not a property violation
        self.prints = []           # payloads of PrintT("@@TAG json") lines: (tag, obj)
        self.coverage = {}         # action name -> count (with -coverage)
        self.wall = 0.0
        self.cmd = ""
        self.stdout = ""
        self.trace = []            # counterexample states (raw text blocks) if any
        self.timeout = False

    def as_dict(self):
        return {"ok": self.ok, "generated": self.generated, "distinct": self.distinct,
                "depth": self.depth, "violated": self.violated, "wall_s": round(self.wall, 2),
                "cmd": self.cmd}


_re_states = re.compile(r"(\d+) states generated, (\d+) distinct states found")
_re_depth = re.compile(r"The depth of the complete state graph search is (\d+)")
_re_inv = re.compile(r"Error: Invariant (\S+) is violated")
_re_act = re.compile(r"Error: Action property (\S+) is violated")
_re_cov = re.compile(r"^<(\w+) line \d+, col \d+ to line \d+, col \d+ of module (\w+)>: (\d+):(\d+)")


def parse_tlc(out, res):
    for m in _re_states.finditer(out):
        res.generated, res.distinct = int(m.group(1)), int(m.group(2))
    m = _re_depth.search(out)
    if m:
        res.depth = int(m.group(1))
    for m in _re_inv.finditer(out):
        res.violated.append(m.group(1))
    for m in _re_act.finditer(out):
        res.violated.append(m.group(1))
    if "Temporal properties were violated" in out or re.search(r"Temporal property \S+ was violated", out):
        res.violated.append("TEMPORAL")
        for m in re.finditer(r"Temporal property (\S+) was violated", out):
            res.violated.append(m.group(1))
    if "Deadlock reached" in out:
        res.violated.append("DEADLOCK")
    m = re.search(r"Error: The postcondition (\S+)? ?.*", out)
    if "postcondition" in out.lower() and ("violated" in out.lower() or "false" in out.lower()):
        if re.search(r"Error:.*[Pp]ostcondition", out):
            res.violated.append("POSTCONDITION")
    res.ok = ("Model checking completed. No error has been found." in out
              or ("Finished in" in out and "Error:" not in out)) and not res.violated
    if not res.ok and not res.violated:
        em = re.search(r"Error: (.*(?:\n(?!\n).*){0,6})", out)
        res.error = em.group(1) if em else out[-2000:]
    for line in out.splitlines():
        line = line.strip()
        if line.startswith('"@@'):
            try:
                s = json.loads(line)
            except Exception:
                # TLC escapes are JSON compatible except for rare cases
                s = line[1:-1].replace('\\"', '"').replace('\\\\', '\\')
            tag, _, payload = s[2:].partition(" ")
            try:
                res.prints.append((tag, json.loads(payload)))
            except Exception as e:  # pragma: no cover
                res.prints.append((tag, payload))
        cm = _re_cov.match(line)
        if cm:
            res.coverage[cm.group(1)] = res.coverage.get(cm.group(1), 0) + int(cm.group(4))
    # counterexample trace blocks
    if res.violated:
        blocks = re.split(r"\nState \d+: ", out)
        res.trace = blocks[1:]


_tlc_counter = [0]


def run_tlc(workdir, spec_dir, module, cfg, mode="mc", workers="auto", timeout=600,
            sim_num=None, sim_depth=100, seed=None, coverage=False, dfs=False, extra=None,
            heap="8g", extra_files=None, deadlock=None):
    """Run TLC on spec_dir/module.tla with spec_dir/cfg inside a scratch copy."""
    _tlc_counter[0] += 1
    scratch = os.path.join(workdir, "tlc-%02d-%s" % (_tlc_counter[0], os.path.splitext(cfg)[0]))
    if os.path.exists(scratch):
        shutil.rmtree(scratch)
    os.makedirs(scratch)
    # copy the module directory and the shared lib
    for d in (spec_dir, os.path.join(SPEC, "lib")):
        if os.path.isdir(d):
            for f in os.listdir(d):
                if f.endswith(".tla") or f.endswith(".cfg"):
                    shutil.copy(os.path.join(d, f), scratch)
    for src in (extra_files or []):
        shutil.copy(src, scratch)
    jtmp = os.path.join(scratch, "jtmp")
    os.makedirs(jtmp, exist_ok=True)
    cmd = ["java", "-XX:+UseParallelGC", "-Xmx" + heap, "-Xss64m", "-Djava.io.tmpdir=" + jtmp]
    if dfs:
        cmd.append("-Dtlc2.tool.queue.IStateQueue=StateDeque")
    cmd += ["-cp", TLA_CP, "tlc2.TLC", "-metadir", os.path.join(scratch, "meta"),
            "-config", cfg, "-workers", str(workers)]
    if mode == "sim":
        spec = "num=%d" % (sim_num or 100)
        cmd += ["-simulate", spec, "-depth", str(sim_depth)]
        if seed is not None:
            cmd += ["-seed", str(seed)]
    if coverage:
        cmd += ["-coverage", "1"]
    if deadlock is False:
        cmd += ["-deadlock"]
    cmd += list(extra or [])
    cmd.append(module)
    res = TLCResult()
    res.cmd = " ".join(cmd[cmd.index("tlc2.TLC"):])
    t0 = time.time()
    try:
        p = subprocess.run(cmd, cwd=scratch, stdout=subprocess.PIPE, stderr=subprocess.STDOUT,
                           timeout=timeout, text=True, errors="replace")
        out = p.stdout
    except subprocess.TimeoutExpired as e:
        out = (e.stdout or b"")
        if isinstance(out, bytes):
            out = out.decode("utf-8", "replace")
        res.timeout = True
        subprocess.run(["pkill", "-f", scratch], stdout=subprocess.DEVNULL, stderr=subprocess.DEVNULL)
    res.wall = time.time() - t0
    res.stdout = out
    with open(os.path.join(scratch, "tlc.out"), "w") as f:
        f.write(out)
    parse_tlc(out, res)
    if res.timeout:
        res.ok = False
        res.error = "timeout after %ds" % timeout
    # keep scratch small: drop the state files
    shutil.rmtree(os.path.join(scratch, "meta"), ignore_errors=True)
    shutil.rmtree(os.path.join(scratch, "states"), ignore_errors=True)
    shutil.rmtree(jtmp, ignore_errors=True)
    res.scratch = scratch
    return res


# --------------------------------------------------------------------------- Go harness

def build_harness(name):
    """Build harness/cmd/<name> (with -tags verif, against /repo's working tree) into out/bin/<name>."""
    os.makedirs(BIN_DIR, exist_ok=True)
    t0 = time.time()
    cover = []
    if os.environ.get("VERIF_COVER"):   # maintenance aid: statement coverage of /repo under the checks (GOCOVERDIR = $VERIF_COVER)
        cover = ["-cover", "-coverpkg=./...,github.com/samaritan-proxy/samaritan/..."]
    p = subprocess.run(["go", "build", "-tags", "verif"] + cover + ["-o", os.path.join(BIN_DIR, name), "./cmd/" + name],
                       cwd=HARNESS_DIR, env=goenv(), stdout=subprocess.PIPE, stderr=subprocess.STDOUT,
                       text=True)
    if p.returncode != 0:
        raise Inconclusive("harness build failed:\n" + p.stdout[-4000:])
    return time.time() - t0


def run_harness(name, args, timeout=600, stdin=None, env=None):
    """Run the harness binary out/bin/<name>; returns (returncode, stdout, stderr)."""
    e = goenv()
    e.update(env or {})
    if os.environ.get("VERIF_COVER"):
        os.makedirs(os.environ["VERIF_COVER"], exist_ok=True)
        e["GOCOVERDIR"] = os.environ["VERIF_COVER"]
    try:
        p = subprocess.run([os.path.join(BIN_DIR, name)] + list(args), stdout=subprocess.PIPE, stderr=subprocess.PIPE,
                           timeout=timeout, text=True, errors="replace", input=stdin, env=e, cwd=ROOT)
    except subprocess.TimeoutExpired as ex:
        so = ex.stdout.decode("utf-8", "replace") if isinstance(ex.stdout, bytes) else (ex.stdout or "")
        se = ex.stderr.decode("utf-8", "replace") if isinstance(ex.stderr, bytes) else (ex.stderr or "")
        return 124, so, se
    return p.returncode, p.stdout, p.stderr


def read_ndjson(path):
    out = []
    with open(path) as f:
        for line in f:
            line = line.strip()
            if line:
                out.append(json.loads(line))
    return out


def write_ndjson(path, items):
    with open(path, "w") as f:
        for it in items:
            f.write(json.dumps(it, separators=(",", ":")) + "\n")


# --------------------------------------------------------------------------- known findings

def load_known():
    p = os.path.join(ROOT, "known_findings.json")
    if not os.path.exists(p):
        return {"findings": [], "fixed": []}
    with open(p) as f:
        return json.load(f)


# --------------------------------------------------------------------------- check context

class Ctx:
    def __init__(self, pid, tier, seed, level):
        self.pid = pid
        self.tier = tier
        self.seed = seed
        self.level = level
        self.t0 = time.time()
        self.work = os.path.join(OUT, "%s-%s" % (pid, tier))
        if os.path.exists(self.work):
            shutil.rmtree(self.work, ignore_errors=True)
        os.makedirs(self.work, exist_ok=True)
        self.replays = os.path.join(OUT, "replays")
        os.makedirs(self.replays, exist_ok=True)
        self.cov = {"states": 0, "transitions": 0, "traces_validated_against_impl": 0,
                    "evaluations": 0, "distinct_nontrivial": 0, "samples": [], "rule": "",
                    "exhaustive": False, "checker_cmd": "", "tlc_runs": [], "action_coverage": {}}
        self.assumptions = []
        self.violations = []      # dicts {signature, what, replay}
        self.known_hits = []
        self.notes = []
        self.known = [k for k in load_known().get("findings", []) if k.get("property") == pid]
        self._distinct = set()
        self._tampered = set()

    @property
    def thorough(self):
        return self.tier == "thorough"

    # ---- TLC helpers
    def tlc(self, spec_subdir, module, cfg, **kw):
        r = run_tlc(self.work, os.path.join(SPEC, spec_subdir), module, cfg, **kw)
        self.cov["tlc_runs"].append(dict(r.as_dict(), module=module, cfg=cfg))
        if not self.cov["checker_cmd"]:
            self.cov["checker_cmd"] = r.cmd
        log("[tlc] %s/%s %s: gen=%d distinct=%d depth=%d violated=%s ok=%s %.1fs%s" % (
            spec_subdir, module, cfg, r.generated, r.distinct, r.depth, r.violated, r.ok, r.wall,
            (" ERROR: " + r.error[:300]) if r.error else ""))
        return r

    def mc(self, spec_subdir, module, cfg, expect_violated=None, count=True, **kw):
        """Exhaustive run that must be clean (or must violate exactly expect_violated)."""
        r = self.tlc(spec_subdir, module, cfg, **kw)
        if r.timeout or (r.error and not r.violated):
            raise Inconclusive("TLC %s/%s %s: %s" % (spec_subdir, module, cfg, r.error[:1000]))
        if count:
            self.cov["states"] += r.distinct
            self.cov["transitions"] += r.generated
        for k, v in r.coverage.items():
            self.cov["action_coverage"][module + "." + k] = v
        if expect_violated is None:
            if r.violated:
                raise Inconclusive("TLC %s/%s %s: model violates %s (spec does not match the intended design)"
                                   % (spec_subdir, module, cfg, r.violated))
        else:
            if not set(expect_violated) & set(r.violated):
                raise Inconclusive("TLC %s/%s %s: expected counterexample for %s, got %s"
                                   % (spec_subdir, module, cfg, expect_violated, r.violated))
        return r

    def check_vacuity(self, r, module, ignore=()):
        zero = [a for a, n in r.coverage.items() if n == 0 and a not in ignore]
        if zero:
            raise Inconclusive("vacuous model %s: actions never taken: %s" % (module, zero))

    def validate_traces(self, spec_subdir, module, cfg, events, n_traces, tamper=True, **kw):
        """Run a trace specification on a list of events (written as trace.json, a JSON array:
        JsonDeserialize is linear, ndJsonDeserialize is quadratic in this TLC build).
        Returns TLCResult; accepted iff r.ok; r.reject = (index, event text) otherwise."""
        kw.setdefault("workers", 1)
        kw.setdefault("deadlock", False)
        kw.setdefault("timeout", 600)
        trace_file = os.path.join(self.work, "trace.json")
        with open(trace_file, "w") as f:
            json.dump(events, f, separators=(",", ":"))
        r = self.tlc(spec_subdir, module, cfg, extra_files=[trace_file], **kw)
        m = re.search(r'<<\s*"@@REJECT",\s*(\d+),\s*(.*?)\s*>>', r.stdout, re.S)
        r.reject = (int(m.group(1)), m.group(2)) if m else None
        if r.timeout or (r.error and not r.violated):
            raise Inconclusive("TLC trace validation %s %s: %s" % (module, cfg, r.error[:1000]))
        if r.ok:
            self.cov["traces_validated_against_impl"] += n_traces
            if n_traces and tamper and module not in self._tampered and len(events) >= 4 and r.wall < 60:
                self._tampered.add(module)
                self._tamper_probe(spec_subdir, module, cfg, events, kw, r.wall)
        return r

    def _tamper_probe(self, spec_subdir, module, cfg, events, kw, base_wall=0.0):
        """Binding demonstration (anti-vacuity of a trace specification): the accepted trace is tampered with - one
        recorded event removed (= one hook missing) or recorded twice - and the trace specification must reject at
        least one of the tampered copies; otherwise it constrains nothing and the check is inconclusive."""
        n = len(events)
        probes = []
        for frac in (0.25, 0.5, 0.75):
            i = min(n - 2, max(1, int(n * frac)))
            probes.append(("drop", i, events[:i] + events[i + 1:]))
        j = min(n - 2, max(1, (self.seed * 7919) % n))
        probes.append(("dup", j, events[:j + 1] + [events[j]] + events[j + 1:]))
        for frac in (0.33, 0.66):
            i = min(n - 1, max(0, int(n * frac)))
            e = events[i]
            if isinstance(e, dict):
                ints = sorted(k for k, v in e.items() if isinstance(v, int) and not isinstance(v, bool))
                strs = sorted(k for k, v in e.items() if isinstance(v, str))
                e2 = dict(e)
                if ints:
                    e2[ints[-1]] = e[ints[-1]] + 1
                elif strs:
                    e2[strs[-1]] = e[strs[-1]] + "x"
                else:
                    continue
                probes.append(("field", i, events[:i] + [e2] + events[i + 1:]))
        if base_wall > 2.5:   # keep the demonstration cheap for slow trace specifications: one probe per kind first,
            keep, seen = [], set()   # the others only if none of those is rejected
            for pr in (probes[1], probes[3]) + tuple(probes[4:]):
                if pr[0] not in seen:
                    seen.add(pr[0])
                    keep.append(pr)
            probes = keep + [pr for pr in probes if pr not in keep]
            lazy_after = len(keep)
        else:
            lazy_after = len(probes)
        rejected = 0
        tdir = os.path.join(self.work, "tamper")
        os.makedirs(tdir, exist_ok=True)
        tf = os.path.join(tdir, "trace.json")
        kw = dict(kw)
        kw["timeout"] = min(kw.get("timeout", 600), 180)
        done = 0
        for pi, (kind, i, ev) in enumerate(probes):
            if pi >= lazy_after and rejected > 0:
                break
            with open(tf, "w") as f:
                json.dump(ev, f, separators=(",", ":"))
            tr = self.tlc(spec_subdir, module, cfg, extra_files=[tf], **kw)
            if tr.timeout:
                continue
            done += 1
            if not tr.ok:
                rejected += 1
        if done and rejected == 0:
            # none of the standard probes was rejected: the positions may have hit events the specification does not
            # constrain (e.g. a chunk inside a long stream). Try harder before the specification is called vacuous: a run
            # of consecutive events removed and field changes at twelve further positions, stopping at the first rejection.
            extra = []
            for k in range(1, 13):
                i = min(n - 2, max(1, (n * k) // 13))
                if k % 2:
                    w = max(2, n // 50)
                    extra.append(("drop-run", i, events[:i] + events[i + w:]))
                else:
                    e = events[i]
                    if isinstance(e, dict):
                        e2 = dict(e)
                        for kk, vv in sorted(e.items()):
                            if isinstance(vv, bool):
                                continue
                            if isinstance(vv, int):
                                e2[kk] = vv + 7
                            elif isinstance(vv, str):
                                e2[kk] = vv + "~"
                        extra.append(("fields", i, events[:i] + [e2] + events[i + 1:]))
            for kind, i, ev in extra:
                with open(tf, "w") as f:
                    json.dump(ev, f, separators=(",", ":"))
                tr = self.tlc(spec_subdir, module, cfg, extra_files=[tf], **kw)
                if tr.timeout:
                    continue
                done += 1
                if not tr.ok:
                    rejected += 1
                    break
        self.cov.setdefault("binding_probes", {})[module] = {"tampered_traces": done, "rejected": rejected,
                                                            "kinds": "one event removed at 25/50/75 %, one event duplicated, one recorded field changed at 33/66 %"}
        log("[tamper] %s: %d of %d tampered traces rejected" % (module, rejected, done))
        if done and rejected == 0:
            raise Inconclusive("trace specification %s accepted every tampered trace (binding vacuous)" % module)

    # ---- harness helpers
    def build(self, name=None):
        name = name or self.pid.lower()
        dt = build_harness(name)
        log("[go] harness %s built in %.1fs" % (name, dt))

    def harness(self, args, timeout=600, env=None, stdin=None, allow_fail=False, name=None):
        e = {"VERIF_SEED": str(self.seed), "VERIF_TIER": self.tier}
        e.update(env or {})
        rc, so, se = run_harness(name or self.pid.lower(), args, timeout=timeout, env=e, stdin=stdin)
        if se.strip():
            with open(os.path.join(self.work, "harness.stderr"), "a") as f:
                f.write("== %s\n%s\n" % (" ".join(args), se))
        if rc != 0 and not allow_fail:
            raise Inconclusive("harness %s exited %d: %s" % (" ".join(args[:3]), rc, (se or so)[-3000:]))
        return rc, so, se

    # ---- bookkeeping
    def case(self, key=None, nontrivial=True, n=1):
        """Count an explored case; key makes it distinct."""
        self.cov["evaluations"] += n
        if nontrivial and key is not None:
            if not isinstance(key, str):
                key = json.dumps(key, sort_keys=True)
            self._distinct.add(key)

    def sample(self, s, cap=6):
        if len(self.cov["samples"]) < cap:
            self.cov["samples"].append(s)

    def violation(self, signature, what, artefact):
        """Record a violation of the property predicate observed on the real code.
        signature: stable name of the window / input class; artefact: JSON-able replay."""
        for k in self.known:
            if k.get("signature") == signature:
                if signature not in [h["signature"] for h in self.known_hits]:
                    self.known_hits.append({"signature": signature, "what": k.get("what", what)})
                return
        if any(v["signature"] == signature for v in self.violations) and len(self.violations) > 20:
            return
        path = os.path.join(self.replays, "%s-%s-%d.json" % (self.pid, re.sub(r"[^A-Za-z0-9_.-]", "_", signature)[:60], len(self.violations)))
        with open(path, "w") as f:
            json.dump({"property": self.pid, "signature": signature, "what": what, "tier": self.tier,
                       "seed": self.seed, "artefact": artefact}, f, indent=1, default=str)
        self.violations.append({"signature": signature, "what": what, "replay": path})

    def finish(self, status=None, reason=""):
        cov = self.cov
        cov["distinct_nontrivial"] = len(self._distinct)
        if not cov["rule"]:
            cov["rule"] = "see DESIGN.md"
        if not cov["samples"]:
            cov["samples"] = ["(no case recorded)"]
        ev = {
            "property_id": self.pid,
            "tier": self.tier,
            "seed": int(self.seed),
            "level": self.level,
            "coverage": cov,
            "assumptions": self.assumptions,
            "wall_s": round(time.time() - self.t0, 2),
            "violations": len(self.violations),
            "known_findings_hit": self.known_hits,
            "notes": self.notes,
            "status": status or ("violation" if self.violations else "held"),
        }
        if reason:
            ev["inconclusive_reason"] = reason
        os.makedirs(os.path.join(ROOT, "evidence"), exist_ok=True)
        with open(os.path.join(ROOT, "evidence", self.pid + ".json"), "w") as f:
            json.dump(ev, f, indent=1, default=str)
            f.write("\n")
        for h in self.known_hits:
            print("KNOWN-FINDING: property=%s %s (%s)" % (self.pid, h["what"], h["signature"]), flush=True)
        seen = set()
        for v in self.violations:
            if v["signature"] in seen:
                continue
            seen.add(v["signature"])
            print("VIOLATION property=%s replay=%s" % (self.pid, v["replay"]), flush=True)
            log("  -> %s: %s" % (v["signature"], v["what"]))
        if status == "inconclusive":
            print("INCONCLUSIVE property=%s %s" % (self.pid, reason.replace("\n", " ")[:500]), flush=True)
            return 2
        if self.violations:
            return 1
        print("OK property=%s tier=%s seed=%s states=%d transitions=%d traces=%d evaluations=%d distinct=%d wall=%.1fs" % (
            self.pid, self.tier, self.seed, cov["states"], cov["transitions"],
            cov["traces_validated_against_impl"], cov["evaluations"], cov["distinct_nontrivial"],
            time.time() - self.t0), flush=True)
        return 0
